"""Gen/Euler.v -- closed forms of core/affine.py: euler_rotation_matrix (2-D, the five hard-coded
3-D orders and the generic product fallback, for all 27 orders), the assignments of
euler_rotation_angles, and the finite table of euler_rotation_order."""
import itertools

import numpy as np

import symtorch as st
import trlib
from symtorch import E, TraceError

AX = {"X": "AX", "Y": "AY", "Z": "AZ"}


def _fnmap(n):
    m = {}
    for i in range(n):
        m[("cos", f"a{i}")] = f"c{i}"
        m[("sin", f"a{i}")] = f"s{i}"
    return m


def trace_matrix(aff, order, n=3, homogeneous=False):
    ang = st.symvec("a", n)
    return aff.euler_rotation_matrix(ang, order, homogeneous=homogeneous) if n == 3 else \
        aff.euler_rotation_matrix(ang, homogeneous=homogeneous)


def trace_all(loader):
    aff = loader.load("deepali.core.affine")
    out = {}
    # 2-D
    m2 = trace_matrix(aff, None, n=1)
    if m2.shape != (2, 2):
        raise TraceError(f"2-D rotation has shape {m2.shape}")
    out["2d"] = m2
    # batch-uniformity and homogeneous flag (structural checks on the traces)
    for order in ["".join(p) for p in itertools.product("XYZ", repeat=3)]:
        m = trace_matrix(aff, order)
        if m.shape != (3, 3):
            raise TraceError(f"order {order}: shape {m.shape}")
        st._check_init(m.a)
        # batched angles (N = 2) must give, per item, the same expression in that item's angles
        angb = st.Tensor(np.array([[E.var(f"a{i}_{k}") for i in range(3)] for k in range(2)], dtype=object))
        mb = aff.euler_rotation_matrix(angb, order)
        if mb.shape != (2, 3, 3):
            raise TraceError(f"order {order}: batched shape {mb.shape}")
        for k in range(2):
            ren = {f"a{i}_{k}": f"a{i}" for i in range(3)}
            item = np.vectorize(lambda e: trlib.rename(e, ren), otypes=[object])(mb.a[k])
            if not trlib.same_tensor(item, m.a):
                raise TraceError(f"order {order}: batched item {k} differs from the unbatched closed form")
        mh = trace_matrix(aff, order, homogeneous=True)
        if mh.shape != (3, 4) or not trlib.same_tensor(mh.a[:, :3], m.a) or \
                not all(v.is_const() and v.value() == 0 for v in mh.a[:, 3]):
            raise TraceError(f"order {order}: homogeneous=True is not [R | 0]")
        out[order] = m
    return out


def trace_angles(loader, order, D=3):
    aff = loader.load("deepali.core.affine")
    m = st.symmat("m", D, D)
    # determinant check of the source needs numbers: give it a wrapper whose det() is 1
    class _M(st.Tensor):
        pass
    mm_ = _M(m.a)
    orig = st.Tensor.detach
    try:
        st.Tensor.detach = lambda self: st.Tensor(np.array(st.eye(D).a, dtype=object))  # det(I) = 1
        ang = aff.euler_rotation_angles(mm_, order)
    finally:
        st.Tensor.detach = orig
    return ang


def order_domain():
    dom = []
    for p in itertools.product("XYZ", repeat=3):
        u = "".join(p)
        dom += [u, u.lower(), " o ".join("R" + ch.lower() for ch in p), " o ".join(p)]
    return dom


def order_table(loader):
    aff = loader.load("deepali.core.affine")
    rows = []
    for s in order_domain():
        try:
            r = aff.euler_rotation_order(s)
            if not (isinstance(r, str) and len(r) == 3 and all(ch in "XYZ" for ch in r)):
                r = None
        except Exception:  # the source raises on this input
            r = None
        rows.append((s, r))
    return rows


def generate(loader):
    traces = trace_all(loader)
    txt = ["Section Gen.", "Context {K : fld}.", ""]
    fm = _fnmap(3)
    txt.append(trlib.emit_match_def("gen_euler2d", [], ["c0", "s0"], traces["2d"], _fnmap(1),
                                    "euler_rotation_matrix, D = 2"))
    for order in sorted(k for k in traces if k != "2d"):
        txt.append(trlib.emit_match_def(f"gen_euler_{order}", [], ["c0", "c1", "c2", "s0", "s1", "s2"],
                                        traces[order], fm, f"euler_rotation_matrix, order {order}"))
    arms = "\n".join(
        f"  | ({AX[o[0]]}, {AX[o[1]]}, {AX[o[2]]}) => gen_euler_{o} c0 c1 c2 s0 s1 s2"
        for o in sorted(k for k in traces if k != "2d"))
    txt.append("Definition gen_euler (o : order) (c0 c1 c2 s0 s1 s2 : K) : list (list K) :=\n"
               f"  match o with\n{arms}\n  end.\n")
    # angle extraction: per supported order, per angle: (kind, y, x) with kind 0 = atan2(y, x), 1 = acos(y)
    m = st.symmat("m", 3, 3)
    supported = []
    for order in sorted(k for k in traces if k != "2d"):
        try:
            ang = trace_angles(loader, order)
        except NotImplementedError:
            continue
        rows = []
        for i in range(3):
            e = ang.a[i]
            if e.op == "fn2" and e.args[0] == "atan2":
                rows.append(f"(false, {st.to_coq(e.args[1])}, {st.to_coq(e.args[2])})")
            elif e.op == "fn" and e.args[0] == "acos":
                rows.append(f"(true, {st.to_coq(e.args[1])}, 0)")
            else:
                raise TraceError(f"euler_rotation_angles {order}[{i}]: unexpected form {e}")
        txt.append(trlib.emit_raw_match(f"gen_angles_{order}", "m", m, "list (bool * K * K)",
                                        "[" + "; ".join(rows) + "]", "[]"))
        supported.append(order)
    # 2-D
    a2 = trace_angles(loader, None, D=2)
    e = a2.a[()] if a2.a.ndim == 0 else a2.a.reshape(-1)[0]
    m2 = st.symmat("m", 2, 2)
    if e.op == "fn2" and e.args[0] == "atan2":
        row = f"(false, {st.to_coq(e.args[1])}, {st.to_coq(e.args[2])})"
    elif e.op == "fn" and e.args[0] == "acos":
        row = f"(true, {st.to_coq(e.args[1])}, 0)"
    else:
        raise TraceError(f"euler_rotation_angles 2-D: unexpected form {e}")
    txt.append(trlib.emit_raw_match("gen_angles2d", "m", m2, "(bool * K * K)", row, "(true, 0, 0)"))
    arms = "\n".join(f"  | ({AX[o[0]]}, {AX[o[1]]}, {AX[o[2]]}) => Some (gen_angles_{o} m)" for o in supported)
    txt.append("Definition gen_angles (o : order) (m : list (list K)) : option (list (bool * K * K)) :=\n"
               f"  match o with\n{arms}\n  | _ => None\n  end.\n")
    txt.append("End Gen.\n")
    rows = order_table(loader)
    def coq_row(s, r):
        rr = "None" if r is None else f"Some ({AX[r[0]]}, {AX[r[1]]}, {AX[r[2]]})"
        return f'  ("{s}"%string, {rr})'
    txt.append("Definition gen_order_table : list (string * option order) := [\n" +
               ";\n".join(coq_row(s, r) for s, r in rows) + "].\n")
    return "\n".join(txt)
