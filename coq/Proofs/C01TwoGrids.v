From Coq Require Import ZArith List Field Ring Lia.
From DV Require Import Base.Field Base.FieldFacts Base.LinAlg Base.Tactics Model.Enums Model.Homog Model.Grid
  Gen.GridT Proofs.C01Grid Proofs.C01TwoA.
Import ListNotations.
Local Open Scope fld_scope.

Section C01TwoGrids.
Variable K : fld.
Hypothesis Kf : is_field K.
Hypothesis Kc : char0 K.
Add Field KF_C01TwoGrids : Kf.

Let K1 := K1nz K Kf.
Let K2 := K2nz K Kf Kc.
Hint Resolve K1 K2 : core.
Ltac side := repeat split; auto.
Ltac len2 X H := destruct X as [|?x0 [|?x1 [|? ?]]]; try discriminate H; clear H.
Ltac len3 X H := destruct X as [|?x0 [|?x1 [|?x2 [|? ?]]]]; try discriminate H; clear H.
Ltac comps H :=
  let Hs := fresh "Hs" in let Hn := fresh "Hn" in let Hn1 := fresh "Hn1" in let Ho := fresh "Ho" in
  destruct H as (Hs & Hn & Hn1 & Ho);
  pose proof (Hs 0%nat ltac:(lia)); pose proof (Hs 1%nat ltac:(lia)); try pose proof (Hs 2%nat ltac:(lia));
  pose proof (Hn 0%nat ltac:(lia)); pose proof (Hn 1%nat ltac:(lia)); try pose proof (Hn 2%nat ltac:(lia));
  pose proof (Hn1 0%nat ltac:(lia)); pose proof (Hn1 1%nat ltac:(lia)); try pose proof (Hn1 2%nat ltac:(lia)).

Variable D : nat.
Hypothesis HD : D = 2%nat \/ D = 3%nat.

(* world <-> axes conversions of one grid cancel *)
Lemma to_world_length A (n s c : nat -> K) d X : length X = D ->
  length (to_world D A (vtab D n) (vtab D s) (vtab D c) (tab D D d) X) = D.
Proof.
  intro HX. destruct A; cbn [to_world]; auto;
    apply from_index_length; auto; apply to_index_length; auto.
Qed.
Lemma from_world_length B (n s c : nat -> K) d X : length X = D ->
  length (from_world D B (vtab D n) (vtab D s) (vtab D c) (tab D D d) X) = D.
Proof.
  intro HX. destruct B; cbn [from_world]; auto;
    apply from_index_length; auto; apply to_index_length; auto.
Qed.

Lemma to_from_world A (n s c : nat -> K) d W : wf D n s d -> length W = D ->
  to_world D A (vtab D n) (vtab D s) (vtab D c) (tab D D d)
    (from_world D A (vtab D n) (vtab D s) (vtab D c) (tab D D d) W) = W.
Proof.
  intros H HW. destruct A; cbn [to_world from_world]; auto;
    rewrite (to_from_index K Kf Kc) by (auto using to_index_length);
    apply (from_to_index K Kf Kc); auto.
Qed.
Lemma from_to_world A (n s c : nat -> K) d X : wf D n s d -> length X = D ->
  from_world D A (vtab D n) (vtab D s) (vtab D c) (tab D D d)
    (to_world D A (vtab D n) (vtab D s) (vtab D c) (tab D D d) X) = X.
Proof.
  intros H HX. destruct A; cbn [to_world from_world]; auto;
    rewrite (to_from_index K Kf Kc) by (auto using to_index_length);
    apply (from_to_index K Kf Kc); auto.
Qed.

Lemma T2_map_length A B (n s c : nat -> K) d (n' s' c' : nat -> K) d' X : length X = D ->
  length (T2_map D A B (vtab D n) (vtab D s) (vtab D c) (tab D D d) (vtab D n') (vtab D s') (vtab D c') (tab D D d') X) = D.
Proof. intro HX. unfold T2_map. apply from_world_length. apply to_world_length. exact HX. Qed.

(* A of g -> B of g' followed by B of g' -> A of g is the identity *)
Lemma pts2_inverse (A B : axes) (n s c : nat -> K) (d : nat -> nat -> K)
      (n' s' c' : nat -> K) (d' : nat -> nat -> K) (X : list K) :
  wf D n s d -> wf D n' s' d' -> length X = D ->
  gen_pts2 D B A (vtab D n') (vtab D s') (vtab D c') (tab D D d') (vtab D n) (vtab D s) (vtab D c) (tab D D d)
    (gen_pts2 D A B (vtab D n) (vtab D s) (vtab D c) (tab D D d) (vtab D n') (vtab D s') (vtab D c') (tab D D d') X) = X.
Proof.
  intros H H' HX.
  rewrite (pts2_is_T2_map K Kf Kc D HD A B) by auto.
  rewrite (pts2_is_T2_map K Kf Kc D HD B A) by (auto using T2_map_length).
  unfold T2_map. rewrite to_from_world by (auto using to_world_length).
  apply from_to_world; auto.
Qed.

(* A of g -> C of g'' equals A of g -> B of g' -> C of g'' *)
Lemma pts2_compose (A B C' : axes) (n s c : nat -> K) (d : nat -> nat -> K)
      (n' s' c' : nat -> K) (d' : nat -> nat -> K) (n'' s'' c'' : nat -> K) (d'' : nat -> nat -> K) (X : list K) :
  wf D n s d -> wf D n' s' d' -> wf D n'' s'' d'' -> length X = D ->
  gen_pts2 D B C' (vtab D n') (vtab D s') (vtab D c') (tab D D d') (vtab D n'') (vtab D s'') (vtab D c'') (tab D D d'')
    (gen_pts2 D A B (vtab D n) (vtab D s) (vtab D c) (tab D D d) (vtab D n') (vtab D s') (vtab D c') (tab D D d') X)
  = gen_pts2 D A C' (vtab D n) (vtab D s) (vtab D c) (tab D D d) (vtab D n'') (vtab D s'') (vtab D c'') (tab D D d'') X.
Proof.
  intros H H' H'' HX.
  rewrite (pts2_is_T2_map K Kf Kc D HD A B) by auto.
  rewrite (pts2_is_T2_map K Kf Kc D HD B C') by (auto using T2_map_length).
  rewrite (pts2_is_T2_map K Kf Kc D HD A C') by auto.
  unfold T2_map. rewrite to_from_world by (auto using to_world_length). reflexivity.
Qed.

(* with the same grid on both sides the two-grid map is the one-grid map *)
Lemma pts2_same_grid (A B : axes) (n s c : nat -> K) (d : nat -> nat -> K) (X : list K) :
  wf D n s d -> length X = D ->
  T2_map D A B (vtab D n) (vtab D s) (vtab D c) (tab D D d) (vtab D n) (vtab D s) (vtab D c) (tab D D d) X
  = gen_pts D A B (vtab D n) (vtab D s) (vtab D c) (tab D D d) X.
Proof.
  intros H HX. destruct (axes_eqb A WORLD && axes_eqb B WORLD)%bool eqn:E.
  - destruct A, B; try discriminate. rewrite pts_WW; auto.
  - rewrite (pts_is_T_map K Kf Kc) by (auto; intros [-> ->]; discriminate).
    unfold T2_map, T_map.
    destruct A, B; try discriminate; cbn [to_world from_world]; auto;
      try (rewrite (to_from_index K Kf Kc) by (auto using to_index_length); reflexivity).
Qed.
End C01TwoGrids.
