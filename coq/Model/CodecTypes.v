(* Enumerations of the image I/O convention layer (C18), shared by the generated tables (Gen/Codec.v)
   and the hand-written model (Model/Codec.v). *)
From Coq Require Import List String Bool ZArith.
Import ListNotations.

(* numpy / torch element types *)
Inductive npty := U8 | I8 | I16 | U16 | I32 | U32 | I64 | U64 | F32 | F64.
Definition npty_eqb (a b : npty) : bool :=
  match a, b with
  | U8, U8 | I8, I8 | I16, I16 | U16, U16 | I32, I32 | U32, U32 | I64, I64 | U64, U64 | F32, F32 | F64, F64 => true
  | _, _ => false
  end.
(* element types a torch tensor can have (numpy-convertible numeric types) *)
Definition torch_types : list npty := [U8; I8; I16; I32; I64; F32; F64].
(* the element types the property lists *)
Definition property_types : list npty := [U8; I16; I32; F32; F64].
Definition all_npty : list npty := [U8; I8; I16; U16; I32; U32; I64; U64; F32; F64].

(* representable integer range of an integer type (floats: None) *)
Definition int_range (t : npty) : option (Z * Z) :=
  match t with
  | U8 => Some (0, 255) | I8 => Some (-128, 127)
  | I16 => Some (-32768, 32767) | U16 => Some (0, 65535)
  | I32 => Some (-2147483648, 2147483647) | U32 => Some (0, 4294967295)
  | I64 => Some (-9223372036854775808, 9223372036854775807) | U64 => Some (0, 18446744073709551615)
  | F32 | F64 => None
  end%Z.

(* outcome of running an I/O function on a well-formed input of some configuration *)
Inductive rstatus := ROk | RShape | EValue | EType | EIndex | EOther.
Definition rstatus_ok (s : rstatus) : bool := match s with ROk => true | _ => false end.

(* NIfTI array layouts: scalar image (dim[0] = D); ITK's vector layout (dim[0] = 5, dim[5] = C, intent 1007);
   the layout deepali's own writer hands to nibabel (dim[0] = D + 1, channels on the axis after the spatial ones) *)
Inductive nlayout := LScalar | LItkVector | LOwn.

(* I/O backends behind a file name suffix: native MetaImage code, native NIfTI code (nibabel), SimpleITK; BNone = nothing
   was reached, BError = the dispatcher raised before reaching a backend *)
Inductive backend := BMeta | BNifti | BSitk | BNone | BError.
Definition backend_eqb (a b : backend) : bool :=
  match a, b with BMeta, BMeta | BNifti, BNifti | BSitk, BSitk | BNone, BNone | BError, BError => true | _, _ => false end.
