"""C20 -- the families of differentiable deepali functions that are (a) traced by the translator into
AD-language terms (coq/Gen/ADTerms.v) and (b) run for real (torch float64 + autograd) by the correspondence.
One definition serves both: `call(m, *tensors)` only uses the tensor API, `m` gives the deepali modules
(compiled from the source text with symbolic torch for tracing, imported normally for running).

Inputs are flat lists of leaf tensors; AD variables are numbered in the order (tensor 0 row-major, tensor 1, ...).
`generic(rng)` draws inputs away from kinks / zero denominators (dyadic rationals, exactly representable)."""
import math


class Fam:
    def __init__(self, name, shapes, call, ranges=None, note=""):
        self.name, self.shapes, self.call, self.note = name, shapes, call, note
        self.ranges = ranges or [(-2.0, 2.0)] * len(shapes)

    def nvars(self):
        n = 0
        for s in self.shapes:
            k = 1
            for d in s:
                k *= d
            n += k
        return n


def _euler(order):
    return lambda m, a: m.affine.euler_rotation_matrix(a, order=order)


def _hom(m, h, x):
    return m.linalg.homogeneous_transform(h, x)


def _hmm(m, a, b):
    return m.linalg.homogeneous_matmul(a, b)


FAMILIES = [
    Fam("euler_XYZ", [(3,)], _euler("XYZ"), note="core.affine.euler_rotation_matrix closed form"),
    Fam("euler_ZXZ", [(3,)], _euler("ZXZ"), note="closed form, proper Euler"),
    Fam("euler_XYX", [(3,)], _euler("XYX"), note="generic fallback (matrix products)"),
    Fam("euler_2d", [(1,)], lambda m, a: m.affine.euler_rotation_matrix(a), note="2-D rotation"),
    Fam("quaternion_matrix", [(4,)], lambda m, q: m.kornia.quaternion_to_rotation_matrix(q), ranges=[(0.5, 2.0)],
        note="core._kornia.quaternion_to_rotation_matrix (normalises: sqrt)"),
    Fam("homogeneous_transform_2d", [(2, 3), (2,)], _hom, note="core.linalg.homogeneous_transform of a point"),
    Fam("homogeneous_transform_3d", [(3, 4), (3,)], _hom),
    Fam("hmm_affine_translation", [(2, 2), (2, 1)], _hmm, note="core.linalg.homogeneous_matmul, mixed operand forms"),
    Fam("hmm_3d", [(3, 4), (3, 4)], _hmm),
    Fam("hmm_affine_homogeneous", [(2, 2), (2, 3)], _hmm, note="AFFINE x HOMOGENEOUS operand pair"),
    Fam("hmm_homogeneous_affine", [(2, 3), (2, 2)], _hmm, note="HOMOGENEOUS x AFFINE operand pair"),
    Fam("hmm_translation_homogeneous", [(3, 1), (3, 4)], _hmm, note="TRANSLATION x HOMOGENEOUS operand pair"),
    Fam("hmm_homogeneous_translation", [(3, 4), (3, 1)], _hmm),
    Fam("hmm_affine_affine", [(3, 3), (3, 3)], _hmm),
    Fam("mse_loss", [(1, 1, 2, 3), (1, 1, 2, 3)], lambda m, x, y: m.losses.mse_loss(x, y)),
    Fam("ssd_loss", [(1, 1, 2, 3), (1, 1, 2, 3)], lambda m, x, y: m.losses.ssd_loss(x, y)),
    Fam("ncc_loss", [(1, 1, 2, 3), (1, 1, 2, 3)], lambda m, x, y: m.losses.ncc_loss(x, y), note="sqrt of variances"),
    Fam("lcc_loss", [(1, 1, 3, 3), (1, 1, 3, 3)], lambda m, x, y: m.losses.lcc_loss(x, y, kernel_size=3)),
    Fam("dice_loss", [(1, 1, 2, 3), (1, 1, 2, 3)], lambda m, x, y: m.losses.dice_loss(x, y), ranges=[(0.125, 1.0), (0.125, 1.0)]),
    Fam("divergence_loss", [(1, 2, 3, 3)], lambda m, u: m.losses.divergence_loss(u)),
    Fam("bending_loss_fcb", [(1, 2, 3, 3)], lambda m, u: m.losses.bending_loss(u, mode="forward_central_backward")),
    Fam("curvature_loss_fcb", [(1, 2, 3, 3)], lambda m, u: m.losses.curvature_loss(u, mode="forward_central_backward")),
    Fam("jacobian_det_2d", [(1, 2, 3, 3)], lambda m, u: m.flow.jacobian_det(u), note="core.flow.jacobian_det (finite differences)"),
    Fam("divergence_2d", [(1, 2, 3, 3)], lambda m, u: m.flow.divergence(u)),
    Fam("curl_2d", [(1, 2, 3, 3)], lambda m, u: m.flow.curl(u)),
    Fam("affine_flow", [(1, 2, 3)], None, note="core.flow.affine_flow on a fixed 2x2 normalised grid"),
]


def _affine_flow(m, h):
    # grid of normalised coordinates (1, Y, X, 2) with exactly representable entries
    t = m.torch
    g = t.tensor([[[[-0.5, -0.5], [0.5, -0.5]], [[-0.5, 0.5], [0.5, 0.5]]]], dtype=t.float64)
    return m.flow.affine_flow(h, g)


FAMILIES[-1].call = _affine_flow
BY_NAME = {f.name: f for f in FAMILIES}
