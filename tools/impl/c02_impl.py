"""Implementation-side runner for C02 (grid <-> world convention vs ITK)."""
import json
import random
import sys

import SimpleITK as sitk
import torch

from vlib import emit_json
from c01_impl import rand_dir

from deepali.core.grid import Grid
from deepali.data import Image
from deepali.utils.simpleitk.grid import GridAttrs, image_grid_attributes


def rand_header(rng, D, max_n=24):
    return {"size": [1 if rng.random() < 0.12 else rng.randint(1, max_n) for _ in range(D)],
            "origin": [rng.randint(-400, 400) / 8 for _ in range(D)],
            "spacing": [rng.choice([0.25, 0.5, 0.75, 1.0, 1.25, 2.0, 3.5]) for _ in range(D)],
            "direction": rand_dir(rng, D)}


def flat(m):
    return [v for r in m for v in r]


def sitk_image(h):
    img = sitk.Image([int(v) for v in h["size"]], sitk.sitkFloat32)
    img.SetOrigin(h["origin"])
    img.SetSpacing(h["spacing"])
    img.SetDirection(flat(h["direction"]))
    return img


def err(e):
    return {"error": type(e).__name__, "msg": str(e)[:200]}


def model_cases(p):
    """for each header and index: deepali's index_to_world / world_to_index (both routes), the stored
    attributes, and SimpleITK's own answer for the same header"""
    out = []
    for c in p["cases"]:
        h = c["header"]
        try:
            D = len(h["size"])
            g = Grid(size=h["size"], origin=h["origin"], spacing=h["spacing"], direction=flat(h["direction"]))
            r = {"stored": {"n": [float(v) for v in g.size_tensor()], "s": [float(v) for v in g.spacing()],
                            "c": [float(v) for v in g.center()], "d": [[float(v) for v in row] for row in g.direction()],
                            "o": [float(v) for v in g.origin()]}}
            idx = torch.tensor(c["index"], dtype=torch.float64)
            w = g.index_to_world(idx, decimals=None)
            r["world"] = w.double().tolist()
            r["back"] = g.world_to_index(w, decimals=None).double().tolist()
            g2 = Grid(size=h["size"], center=g.center(), spacing=h["spacing"], direction=h["direction"])
            r["world_center_route"] = g2.index_to_world(idx, decimals=None).double().tolist()
            img = sitk_image(h)
            ga = image_grid_attributes(img)
            r["attrs_world"] = [float(v) for v in ga.index_to_physical_space([float(v) for v in c["index"]])]
            r["attrs_back"] = [float(v) for v in ga.physical_space_to_continuous_index(r["attrs_world"])]
            r["itk_world"] = list(img.TransformContinuousIndexToPhysicalPoint([float(v) for v in c["index"]]))
            r["itk_back"] = list(img.TransformPhysicalPointToContinuousIndex(r["itk_world"]))
            out.append(r)
        except Exception as e:  # noqa
            out.append(err(e))
    return out


def oracle(p):
    rng = random.Random(p["seed"])
    fails = []
    counts = {"headers": 0, "indices": 0, "roundtrip": 0}

    def fail(key, what, **kw):
        fails.append(dict(key=key, what=what, **kw))

    for it in range(p["n"]):
        D = rng.choice([2, 3])
        h = rand_header(rng, D)
        counts["headers"] += 1
        try:
            img = sitk_image(h)
            ac = rng.random() < 0.5   # the grid <-> world convention must not depend on the normalised-cube convention
            g = Grid.from_sitk(img, align_corners=ac)
            g_o = Grid(size=h["size"], origin=h["origin"], spacing=h["spacing"], direction=flat(h["direction"]), align_corners=ac)
            counts["align_corners=%s" % ac] = counts.get("align_corners=%s" % ac, 0) + 1
            if g != g_o:
                fail("C02:from_sitk:differs", "Grid.from_sitk differs from Grid(size, origin, spacing, direction)", header=h)
            scale = max(abs(v) for v in h["origin"]) + max(h["spacing"]) * max(h["size"]) + 1
            for _ in range(12):
                inside = rng.random() < .6
                idx = [rng.uniform(0, n - 1) if inside else rng.uniform(-2 * n - 3, 3 * n + 3) for n in h["size"]]
                counts["indices"] += 1
                want = torch.tensor(img.TransformContinuousIndexToPhysicalPoint(idx), dtype=torch.float64)
                got = g.index_to_world(torch.tensor(idx, dtype=torch.float64), decimals=None).double()
                if not bool(torch.all((got - want).abs() <= 3e-5 * scale)):
                    fail("C02:index_to_world:vs_itk", "continuous index is placed at a different physical point than ITK places it",
                         header=h, index=idx, got=got.tolist(), itk=want.tolist())
                back = g.world_to_index(want, decimals=None).double()
                itkb = torch.tensor(img.TransformPhysicalPointToContinuousIndex(want.tolist()), dtype=torch.float64)
                isc = max(h["size"]) * 3 + 4
                if not bool(torch.all((back - itkb).abs() <= 3e-5 * isc * scale / min(h["spacing"]) / 10)):
                    fail("C02:world_to_index:vs_itk", "physical point maps to a different continuous index than ITK's",
                         header=h, point=want.tolist(), got=back.tolist(), itk=itkb.tolist())
            # the SimpleITK-side grid attributes agree with ITK in both directions
            ga = image_grid_attributes(img)
            for _ in range(4):
                idx = [rng.uniform(-n - 2, 2 * n + 2) for n in h["size"]]
                wi = torch.tensor(img.TransformContinuousIndexToPhysicalPoint(idx), dtype=torch.float64)
                w = torch.tensor(ga.index_to_physical_space(idx), dtype=torch.float64)
                if not bool(torch.all((w - wi).abs() <= 1e-9 * scale)):
                    fail("C02:GridAttrs:index_to_physical_space", "differs from ITK's TransformContinuousIndexToPhysicalPoint", header=h, index=idx)
                bi = torch.tensor(img.TransformPhysicalPointToContinuousIndex(wi.tolist()), dtype=torch.float64)
                b = torch.tensor(ga.physical_space_to_continuous_index(wi.tolist()), dtype=torch.float64)
                if not bool(torch.all((b - bi).abs() <= 1e-8 * (max(h["size"]) * 3 + 4))):
                    fail("C02:GridAttrs:physical_space_to_continuous_index", "differs from ITK's TransformPhysicalPointToContinuousIndex",
                         header=h, point=wi.tolist(), got=b.tolist(), itk=bi.tolist())
                bd = ga.physical_space_to_index(wi.tolist())
                if not all(int(x) == int(round(float(y))) for x, y in zip(bd, bi.tolist()) if abs(float(y) - round(float(y))) < 0.49):
                    fail("C02:GridAttrs:physical_space_to_index", "nearest index differs from ITK's continuous index rounded", header=h)
            # origin = sample 0; direction columns = unit steps; center consistent
            o = g.index_to_world(torch.zeros(D, dtype=torch.float64), decimals=None).double()
            if not bool(torch.all((o - torch.tensor(h["origin"], dtype=torch.float64)).abs() <= 3e-5 * scale)):
                fail("C02:origin:sample0", "index 0 is not at the header origin", header=h, got=o.tolist())
            if not bool(torch.all((g.origin().double() - torch.tensor(h["origin"], dtype=torch.float64)).abs() <= 3e-5 * scale)):
                fail("C02:origin:getter", "origin() does not return the header origin", header=h, got=g.origin().tolist())
            for k in range(D):
                e = torch.zeros(D, dtype=torch.float64)
                e[k] = 1
                step = g.index_to_world(e, decimals=None).double() - o
                want = torch.tensor([h["direction"][i][k] * h["spacing"][k] for i in range(D)], dtype=torch.float64)
                if not bool(torch.all((step - want).abs() <= 3e-5 * scale)):
                    fail("C02:direction:columns", "unit step along an axis is not spacing * direction column", header=h, axis=k,
                         got=step.tolist(), want=want.tolist())
            # the stored center is the physical point ITK assigns to index (n - 1) / 2, and a grid built
            # from that point through the center= route is the same grid (also for singleton axes)
            mid = [(n - 1) / 2 for n in h["size"]]
            cen = torch.tensor(img.TransformContinuousIndexToPhysicalPoint(mid), dtype=torch.float64)
            if not bool(torch.all((g.center().double() - cen).abs() <= 3e-5 * scale)):
                fail("C02:center:vs_itk", "center() is not the physical point of index (n-1)/2", header=h, got=g.center().tolist(), itk=cen.tolist())
            gci = Grid(size=h["size"], center=cen.tolist(), spacing=h["spacing"], direction=h["direction"], align_corners=ac)
            oi = gci.index_to_world(torch.zeros(D, dtype=torch.float64), decimals=None).double()
            if not bool(torch.all((oi - torch.tensor(h["origin"], dtype=torch.float64)).abs() <= 3e-5 * scale)):
                fail("C02:center_route:vs_itk", "grid built with center= (ITK's mid point) does not place index 0 at the header origin",
                     header=h, got=oi.tolist())
            gc = Grid(size=h["size"], center=g.center(), spacing=h["spacing"], direction=h["direction"], align_corners=ac)
            if gc != g:
                fail("C02:center_route", "Grid(center=g.center()) differs from Grid(origin=...)", header=h)
            try:
                Grid(size=h["size"], center=g.center(), origin=h["origin"], spacing=h["spacing"], direction=h["direction"])
            except Exception as e:  # noqa
                fail("C02:center_and_origin", f"consistent center and origin rejected: {type(e).__name__}", header=h)
            # file-header route: Grid.from_file / Grid.from_reader must give the grid of the image ITK reads back
            if it % 3 == 0 and p.get("scratch"):
                import os
                for ext, ftol in ((".mha", 3e-5), (".nii.gz", 2e-4)):
                    if ext == ".nii.gz" and D == 2:
                        continue
                    path = os.path.join(p["scratch"], f"c02_{it}{ext}")
                    sitk.WriteImage(img, path)
                    counts["files" + ext] = counts.get("files" + ext, 0) + 1
                    ref = sitk.ReadImage(path)
                    g_ref = Grid.from_sitk(ref, align_corners=ac)
                    reader = sitk.ImageFileReader()
                    reader.SetFileName(path)
                    reader.ReadImageInformation()
                    for nm, gf in (("from_file", Grid.from_file(path, align_corners=ac)), ("from_reader", Grid.from_reader(reader, align_corners=ac))):
                        bad = []
                        if list(gf.size()) != list(g_ref.size()):
                            bad.append("size")
                        if not bool(torch.all((gf.origin().double() - torch.tensor(ref.GetOrigin(), dtype=torch.float64)).abs() <= ftol * scale)):
                            bad.append("origin")
                        if not bool(torch.all((gf.spacing().double() - torch.tensor(ref.GetSpacing(), dtype=torch.float64)).abs() <= 1e-5)):
                            bad.append("spacing")
                        if not bool(torch.all((gf.direction().double().flatten() - torch.tensor(ref.GetDirection(), dtype=torch.float64)).abs() <= 1e-5)):
                            bad.append("direction")
                        idx = [rng.uniform(-2, n + 2) for n in h["size"]]
                        wf = gf.index_to_world(torch.tensor(idx, dtype=torch.float64), decimals=None).double()
                        wr = torch.tensor(ref.TransformContinuousIndexToPhysicalPoint(idx), dtype=torch.float64)
                        if not bool(torch.all((wf - wr).abs() <= ftol * scale)):
                            bad.append("index_to_world")
                        if bad:
                            fail(f"C02:{nm}:{ext.strip('.')}:vs_itk", f"Grid.{nm} of a {ext} file disagrees with the image ITK reads back in: {', '.join(bad)}",
                                 header=h, ext=ext)
                    os.remove(path)
            # alternate constructors from a flat attribute sequence (size, spacing, origin | center, direction)
            import numpy as np
            seq_o = [float(v) for v in h["size"]] + [float(v) for v in h["spacing"]] + [float(v) for v in h["origin"]] + flat(h["direction"])
            seq_c = [float(v) for v in h["size"]] + [float(v) for v in h["spacing"]] + g.center().double().tolist() + flat(h["direction"])
            for nm, gg in (("from_seq(origin=True)", Grid.from_seq(seq_o, origin=True, align_corners=ac)),
                           ("from_numpy(ndarray, origin=True)", Grid.from_numpy(np.array(seq_o), origin=True, align_corners=ac)),
                           ("from_numpy(list, origin=True)", Grid.from_numpy(seq_o, origin=True, align_corners=ac)),
                           ("from_seq(center)", Grid.from_seq(seq_c, align_corners=ac)),
                           ("from_numpy(center)", Grid.from_numpy(np.array(seq_c), align_corners=ac)),
                           ("from_numpy(numpy())", Grid.from_numpy(g.numpy(), align_corners=ac))):
                o_ = gg.index_to_world(torch.zeros(D, dtype=torch.float64), decimals=None).double()
                if gg != g or not bool(torch.all((o_ - torch.tensor(h["origin"], dtype=torch.float64)).abs() <= 3e-5 * scale)):
                    fail(f"C02:{nm.split('(')[0]}:{'origin' if 'origin' in nm else 'center'}-route", f"Grid.{nm} is not the grid of the header (index 0 not at the origin)",
                         header=h, got_origin=o_.tolist())
            # a grid whose STORED size is fractional (downsample of odd sizes): index <-> world must still be the ITK maps of
            # the image with its size(), origin(), spacing(), direction()
            if any(n % 2 == 1 for n in h["size"]) and all(n >= 4 for n in h["size"]):   # size/2 >= 2 on every axis (C03's range)
                gf = g.downsample()
                hf = {"size": [int(v) for v in gf.size()], "origin": gf.origin().double().tolist(), "spacing": gf.spacing().double().tolist(),
                      "direction": gf.direction().double().tolist()}
                imf = sitk_image(hf)
                for _ in range(4):
                    idx = [rng.uniform(-2, n + 2) for n in hf["size"]]
                    wi = torch.tensor(imf.TransformContinuousIndexToPhysicalPoint(idx), dtype=torch.float64)
                    w = gf.index_to_world(torch.tensor(idx, dtype=torch.float64), decimals=None).double()
                    b = gf.world_to_index(wi, decimals=None).double()
                    if not bool(torch.all((w - wi).abs() <= 1e-4 * scale)) or not bool(torch.all((b - torch.tensor(idx, dtype=torch.float64)).abs() <= 2e-3)):
                        fail("C02:fractional-size:vs_itk", "grid with a fractional stored size (after downsample) disagrees with the ITK image of its own size/origin/spacing/direction",
                             header=h, derived=hf, index=idx, world=w.tolist(), itk_world=wi.tolist(), back=b.tolist())
            # GridAttrs.indices / points: sample (i, j, k) at ITK's position of (i, j, k)
            ga_ = image_grid_attributes(img)
            if max(h["size"]) <= 12:
                pts = np.asarray(ga_.points)
                ijk = [rng.randrange(n) for n in h["size"]]
                want = np.asarray(img.TransformIndexToPhysicalPoint([int(v) for v in ijk]))
                got = pts[tuple(reversed(ijk))]
                ind = np.asarray(ga_.indices)[tuple(reversed(ijk))]
                if not np.allclose(got, want, atol=1e-9 * scale) or [int(v) for v in ind] != [int(v) for v in ijk]:
                    fail(f"C02:GridAttrs:points:D{D}", "GridAttrs.points / indices of sample (i, j, k) is not ITK's physical point of index (i, j, k)",
                         header=h, index=ijk, got=got.tolist(), itk=want.tolist(), indices_entry=[int(v) for v in ind])
            # GridAttrs: the direction may be given flat or as a matrix (ndarray, list of rows, tuple of rows)
            for form, dmat in (("flat", flat(h["direction"])), ("rows", [list(r) for r in h["direction"]]),
                               ("ndarray", np.array(h["direction"], dtype=float)), ("tuple-rows", tuple(tuple(r) for r in h["direction"]))):
                gaf = GridAttrs(size=h["size"], origin=h["origin"], spacing=h["spacing"], direction=dmat)
                idx = [rng.uniform(-2, n + 2) for n in h["size"]]
                wi = torch.tensor(img.TransformContinuousIndexToPhysicalPoint(idx), dtype=torch.float64)
                w = torch.tensor(gaf.index_to_physical_space(idx), dtype=torch.float64)
                b = torch.tensor(gaf.physical_space_to_continuous_index(wi.tolist()), dtype=torch.float64)
                if not bool(torch.all((w - wi).abs() <= 1e-9 * scale)) or not bool(torch.all((b - torch.tensor(idx, dtype=torch.float64)).abs() <= 1e-7 * (max(h["size"]) * 3 + 4))):
                    fail(f"C02:GridAttrs:direction-form:{form}", "GridAttrs built with this form of the direction argument disagrees with ITK",
                         header=h, index=idx, got=w.tolist(), itk=wi.tolist())
            # header -> Image -> header
            counts["roundtrip"] += 1
            data = torch.arange(g.numel(), dtype=torch.float32).reshape(1, *g.shape)
            im = Image(data, g)
            img2 = im.sitk()
            ok = (list(img2.GetSize()) == [int(v) for v in h["size"]]
                  and all(abs(a - b) <= 3e-5 * scale for a, b in zip(img2.GetOrigin(), h["origin"]))
                  and all(abs(a - b) <= 1e-6 for a, b in zip(img2.GetSpacing(), h["spacing"]))
                  and all(abs(a - b) <= 1e-6 for a, b in zip(img2.GetDirection(), flat(h["direction"]))))
            if not ok:
                fail("C02:sitk:header_roundtrip", "Image.sitk() header differs from the header the grid was built from", header=h,
                     got={"size": list(img2.GetSize()), "origin": list(img2.GetOrigin()), "spacing": list(img2.GetSpacing()),
                          "direction": list(img2.GetDirection())})
            im2 = Image.from_sitk(img2)
            if im2.grid() != g or not torch.equal(im2.tensor(), data):
                fail("C02:from_sitk:roundtrip", "Image.from_sitk(Image.sitk()) changes grid or data", header=h)
            # voxel (i,j,k) of the sitk image is the voxel deepali places at index (i,j,k)
            idxs = [rng.randrange(n) for n in h["size"]]
            v1 = float(img2.GetPixel(*idxs))
            v2 = float(data[(0,) + tuple(reversed(idxs))])
            if v1 != v2:
                fail("C02:sitk:axis_order", "voxel order differs between Image and its SimpleITK image", header=h, index=idxs)
        except Exception as e:  # noqa
            fail("C02:raises", f"raises {type(e).__name__}: {str(e)[:150]}", header=h)
    return {"fails": fails, "counts": counts}


if __name__ == "__main__":
    payload = json.load(sys.stdin)
    emit_json({"model_cases": model_cases, "oracle": oracle}[payload["fn"]](payload))
