"""C11 -- scaling-and-squaring equals the closed form for affine velocity fields."""
from fractions import Fraction

import vlib
from vlib import Violation, qc, coq_list

ID = "C11"
GEN_UNITS = ["FlowAlg"]
PROPS_FILE = "Props/C11.v"
PROPS_MOD = "Props.C11"
COQ_TARGETS = ["Props/C11.vo"]
SOURCES = ["deepali/core/flow.py", "deepali/modules/flow.py", "deepali/core/image.py", "deepali/core/grid.py", "deepali/spatial/bspline.py",
           "deepali/spatial/nonrigid.py"]
TRUSTED = [
    "Coq 8.16.1 kernel + vm_compute",
    "translator: tools/symtorch.py semantics of the traced torch subset; F.grid_sample is an opaque recorded operator in "
    "the trace of expv / compose_flows (its arguments -- sampled tensor, positions, mode, padding, align_corners -- are "
    "checked on the trace)",
    "modelled not verified: torch.nn.functional.grid_sample (Model/Sampler.v: un-normalisation, multilinear interpolation, "
    "border padding; validated against torch by this run's correspondence), torch.arange lattice of Grid.coords, float "
    "rounding (model is exact rational arithmetic on the values the floats denote)",
]
ASSUMPTIONS = [
    "batch items are processed independently (checked on a 2-item trace and numerically for N <= 3)",
    "steps > 8 are outside the generated table (the model theorem covers every k; the property names [0, 8])",
]
HEADER = ["From Coq Require Import ZArith QArith List String.",
          "From DV Require Import Base.Field Base.LinAlg Base.QcInst Base.QcCmp Model.Sampler Model.SamplerQc Model.Flow Model.FlowQc.",
          "Import ListNotations."]


def qc_nested(x):
    if isinstance(x, list):
        return coq_list([qc_nested(y) for y in x])
    return qc(float(x) if not isinstance(x, Fraction) else x)


def dy(rng, bits, lo, hi):
    return rng.randint(int(lo * 2 ** bits), int(hi * 2 ** bits)) / 2 ** bits


def rand_field(rng, D, shape, amp, bits):
    def rec(dims):
        if not dims:
            return dy(rng, bits, -amp, amp)
        return [rec(dims[1:]) for _ in range(dims[0])]
    return [rec(list(shape)) for _ in range(D)]


def affine_field(rng, D, shape, ac, bits=3):
    """dyadic affine velocity field H x + h with negative dominant diagonal (hull invariant for c <= 1)"""
    q = 2 ** bits
    r = [Fraction(1) if ac else Fraction(n - 1, n) for n in reversed(shape)]
    while True:
        G = [[Fraction(rng.randint(-q, q), 4 * q) for _ in range(D + 1)] for _ in range(D)]
        for a in range(D):
            G[a][a] = -Fraction(rng.randint(q // 2, q), q)
        if all(sum(abs(G[a][b]) * r[b] for b in range(D) if b != a) + abs(G[a][D]) <= -G[a][a] * r[a] for a in range(D)):
            break

    def nc(n, i):
        return Fraction(2 * i, n - 1) - 1 if ac else Fraction(2 * i + 1, n) - 1

    def rec(prefix, dims, c):
        if not dims:
            x = [nc(shape[D - 1 - a], prefix[D - 1 - a]) for a in range(D)]
            return float(sum(G[c][b] * x[b] for b in range(D)) + G[c][D])
        return [rec(prefix + [j], dims[1:], c) for j in range(dims[0])]
    return [rec([], list(shape), c) for c in range(D)]


def gen_cases(ctx):
    rng = ctx.rng
    n = ctx.n(70, 420)
    cases = []
    for i in range(n):
        D = 2 if rng.random() < 0.6 else 3
        shape = tuple(rng.randint(2, 5 if D == 2 else 3) for _ in range(D))
        ac = rng.random() < 0.5
        kind = ["expv", "expv_step", "expv", "expflow", "expv_step"][i % 5]
        dt = "float32" if rng.random() < 0.35 else "float64"
        aff = rng.random() < 0.4
        # sizes with dyadic coordinates only when the field is to be exactly affine in floats; otherwise any
        flow = affine_field(rng, D, shape, ac) if aff else rand_field(rng, D, shape, rng.choice([0.25, 0.75, 1.5]), 4)
        scale = rng.choice([1, 1, 0.5, 2, -1, 1.5])
        if kind == "expv":
            k = rng.choice([0, 1, 1, 2, 2, 3])
            cases.append({"kind": kind, "D": D, "ac": ac, "steps": k, "scale": scale, "inverse": rng.random() < 0.3,
                          "dtype": dt, "flow": [flow], "affine": aff})
        elif kind == "expv_step":
            j = rng.randint(0, 7)
            cases.append({"kind": kind, "D": D, "ac": ac, "steps": j, "scale": scale, "dtype": dt, "flow": [flow], "affine": aff})
        else:
            k = rng.choice([0, 1, 2])
            cases.append({"kind": kind, "D": D, "ac": ac, "steps": k, "scale": scale, "dtype": dt, "flow": [flow],
                          "how": rng.choice(["forward", "inverse()", "inv", "forward(inverse=True)"]), "affine": aff})
    # batches: every item must be the model of that item
    for _ in range(ctx.n(4, 20)):
        D = 2
        shape = (rng.randint(2, 4), rng.randint(2, 4))
        ac = rng.random() < 0.5
        cases.append({"kind": "expv", "D": D, "ac": ac, "steps": rng.choice([1, 2]), "scale": 1, "inverse": False, "dtype": "float64",
                      "flow": [rand_field(rng, D, shape, 0.75, 4) for _ in range(rng.choice([2, 3]))], "affine": False})
    return cases


def b(x):
    return "true" if x else "false"


def correspondence(ctx):
    cases = gen_cases(ctx)
    res = vlib.run_impl("c11_impl", {"fn": "model_cases", "cases": cases})
    failures, names, dist = [], [], {}
    shards = []
    lines = []
    evals = 0
    for i, (c, r) in enumerate(zip(cases, res)):
        tag = f"{c['kind']}:D{c['D']}:ac={c['ac']}:{c['dtype']}:steps={c['steps']}"
        dist[tag] = dist.get(tag, 0) + 1
        if "error" in r:
            failures.append({"case": {k: v for k, v in c.items() if k != "flow"}, "impl": r,
                             "why": "implementation raised where the model is defined"})
            continue
        D = c["D"]
        tol = "tol32" if c["dtype"] == "float32" else "tol64"
        for item in range(len(c["flow"])):
            f = qc_nested(c["flow"][item])
            o = qc_nested(r["val"][item])
            if c["kind"] == "expv":
                m = f"qexpv{D} {b(c['ac'])} {qc(float(c['scale']))} {b(c['inverse'])} {c['steps']} {f}"
            elif c["kind"] == "expflow":
                inv = c["how"] != "forward"
                m = f"qexpv{D} {b(c['ac'])} {qc(float(c['scale']))} {b(inv)} {c['steps']} {f}"
            else:
                d = qc_nested(r["d"][item])
                m = f"qcompose{D} {b(c['ac'])} {d} {d}"
            nm = f"c{i}_{item}"
            lines.append(f"Definition {nm} : bool := fclose{D} {tol} ({m}) {o}.")
            names.append((i, nm))
            evals += 1
            if len(lines) >= 60:
                shards.append((lines, names))
                lines, names = [], []
    if lines:
        shards.append((lines, names))
    for si, (ls, nms) in enumerate(shards):
        text = "\n".join(HEADER + ["Definition tol64 : Q := 1 # 100000000000.", "Definition tol32 : Q := 1 # 100000."] + ls +
                         ["Definition results : list bool := " + coq_list([nm for _, nm in nms]) + ".",
                          'Eval vm_compute in ("FAIL"%string, failing results).']) + "\n"
        rc, out = vlib.coqc_text(text, ctx.scratch, f"cases_c11_{si}")
        bad = vlib.parse_nat_list(out, "FAIL")
        if rc != 0 or bad is None:
            failures.append({"why": "case file did not evaluate (model or generated definitions missing / ill-typed)", "coq": out[-600:]})
        else:
            for j in bad:
                i = nms[j][0]
                failures.append({"case": {k: v for k, v in cases[i].items() if k != "flow"}, "flow": cases[i]["flow"],
                                 "why": "model value differs from implementation"})
    samples = [{"case": {k: v for k, v in cases[i].items()}, "impl": res[i]} for i in range(min(2, len(cases)))]
    return {"evaluations": evals, "distinct_nontrivial": len({str(c) for c in cases if any(x != 0 for x in _flat(c["flow"]))}),
            "rule": "seeded fields on lattices 2..5 (2-D) / 2..3 (3-D) per axis: dyadic affine invariant velocity fields (40%) and arbitrary "
                    "dyadic fields of amplitude up to 1.5 (leave the hull: border padding exercised); expv with steps 0..3 against the full "
                    "model; every loop iteration j in [0,7] against one model step (expv(2f, j+1) = step(expv(f, j))); ExpFlow forward / "
                    "inverse() / inv / forward(inverse=True); float32 and float64; batches of 2-3; non-trivial = not all-zero field",
            "samples": samples, "failures": failures, "distribution": dist,
            "tolerances": {"float64": "1e-11 * (1 + |model|)", "float32": "1e-5 * (1 + |model|)"}}


def _flat(x):
    if isinstance(x, list):
        for y in x:
            yield from _flat(y)
    else:
        yield x


def search(ctx, broken, corr_failures):
    n = ctx.n(90, 900)
    r = vlib.run_impl("c11_impl", {"fn": "oracle", "seed": ctx.seed, "n": n})
    ctx.notes.append(f"implementation-side property evaluation (closed form with exact rationals, inverse flag, ExpFlow, SVF buffers; "
                     f"numeric exploration of convergence and smooth inverse consistency): {r['counts']}")
    out, seen = [], set()
    for f in r["fails"]:
        if f["key"] in seen:
            continue
        seen.add(f["key"])
        out.append(Violation(key=f["key"], what=f["what"], replay={"oracle": "c11", "seed": ctx.seed, "n": n, "failure": f}))
    # disagreements of the correspondence that the oracle did not reach: report the disagreeing input itself
    if corr_failures and not out:
        f = corr_failures[0]
        c = f.get("case", {})
        out.append(Violation(key=f"C11:{c.get('kind', 'model')}:model-vs-implementation:align_corners={c.get('ac')}",
                             what=f"implementation differs from the executable model: {f.get('why')} ({c})",
                             replay={"corr": True, "failure": f}))
    return out


def explains(broken_item, found):
    return bool(found)


def replay(ctx, data):
    if data.get("corr"):
        f = data["failure"]
        c = dict(f.get("case", {}))
        if "flow" in f:
            c["flow"] = f["flow"]
            r = vlib.run_impl("c11_impl", {"fn": "model_cases", "cases": [c]})
            return f"re-ran {c.get('kind')} on the recorded input: {str(r[0])[:200]} (compare with the model through ./check C11)"
        return None
    f = data.get("failure") or {}
    r = vlib.run_impl("c11_impl", {"fn": "oracle", "seed": data.get("seed", ctx.seed), "n": data.get("n", 90)})
    for g in r["fails"]:
        if g["key"] == f.get("key"):
            return g["what"]
    return None


MANIFEST_ENTRY = {
    "text": "Theorems (Coq, closed under the global context): for every field of characteristic 0, every lattice size >= 2 per axis, "
            "both align_corners conventions, D in {1,2,3}: one squaring step d <- d + d o (id + d) on the displacement field of an affine "
            "map A whose sample positions stay in the sample hull yields the displacement field of A^2 at every lattice point "
            "(multilinear interpolation is exact on affine functions, incl. the last sample under border padding); by induction on k, for "
            "EVERY number of steps k, expv k (H x + h) is the displacement field of (I + c [H|h])^(2^k), c = +-scale/2^k (k squarings = "
            "2^k-th power, monoid argument); over the rationals the computable predicate hull_invariant(I + cG) (row sums of |A_ab| r_b "
            "+ |t_a| <= r_a) implies all iterates stay in the hull, and weighted diagonal dominance with negative diagonal implies "
            "hull_invariant; steps = 0 returns the scaled input; inverse flag = negated scale = negated field. Tie: the skeleton of expv "
            "(pre-loop factor per steps 0..8, loop count, what is sampled where, flags reaching Grid.coords and F.grid_sample, padding) "
            "is regenerated from core/flow.py by symbolic tracing (Gen/FlowAlg.v) and proved equal to the model; the model is run in Coq "
            "on exact rationals against expv / ExpFlow (+ inverse paths) for float32/float64, batches, every loop iteration j in [0,7].",
    "note": "Convergence as k grows: proved over the reals (Coquelicot; stdlib real-number axioms) for the scalar closed form "
            "(1 + h/2^k)^(2^k) -> exp h and hence entrywise for every diagonal generator (C11_convergence_scalar, "
            "C11_convergence_diagonal_partial), and for every generator [diag(g) | h] WITH translation: all entries of the closed form "
            "converge to those of the matrix exponential (translation column h phi1(g), phi1 = (e^g-1)/g), which is the time-one map of "
            "the ODE x' = g x + h (C11_convergence_scaling_translation_2d/_3d, C11_limit_is_time_one_flow). For EVERY linear 2-D generator G = [[a b] [c d]] the closed form converges entrywise to "
            "P exp(J) P^-1 = exp G, J the real canonical form of G (diagonal / Jordan block / rotation-scaling, classification by the "
            "discriminant proved in Coq; similarity invariance of the closed form for every k; the three exponentials characterised by "
            "X(0) = I, X' = J X): C11_convergence_every_linear_generator_2d, C11_convergence_canonical_forms_2d, "
            "C11_convergence_similarity_invariant_2d, C11_canonical_exponentials_solve_ode, C11_convergence_diagonalisable_2d. Partial: "
            "convergence for 3-D generators coupling all three axes (block-diagonal ones -- arbitrary 2 x 2 block plus axis scaling -- are "
            "proved: C11_convergence_block_generator_3d) and for translation combined with a SINGULAR non-diagonal linear part (2-D generators [M | h] with det M <> 0 are proved: "
            "translation -> M^-1 (exp M - I) h, C11_convergence_every_affine_generator_2d), and the second-order inverse consistency exp(v) o exp(-v) for smooth fields are explored numerically on "
            "the implementation only (not proved). The ExpFlow module is traced (arguments handed to expv on all four call paths), and so is the flag StationaryVelocityFieldTransform gives it at construction and after grid_() / grid(). Trusted: Coq kernel, vm_compute, the model of "
            "F.grid_sample (Model/Sampler.v, validated by the correspondence), symtorch, float rounding outside the model.",
}
