From Coq Require Import ZArith List Field Ring Lia Bool.
From DV Require Import Base.Field Base.FieldFacts Base.LinAlg Base.Tactics Model.Enums Model.Homog Model.Grid
  Gen.GridT Gen.GridCtor Gen.GridDerive Proofs.C01Grid.
Import ListNotations.
Local Open Scope fld_scope.

Section Resize.
Variable K : fld.
Hypothesis Kf : is_field K.
Hypothesis Kc : char0 K.
Add Field KF6 : Kf.
Let K1 := K1nz K Kf.
Let K2 := K2nz K Kf Kc.
Hint Resolve K1 K2 : core.
Ltac side := repeat split; auto.
Ltac len2 X H := destruct X as [|?x0 [|?x1 [|? ?]]]; try discriminate H; clear H.
Ltac len3 X H := destruct X as [|?x0 [|?x1 [|?x2 [|? ?]]]]; try discriminate H; clear H.
Ltac nz H := pose proof (H 0%nat ltac:(lia)); pose proof (H 1%nat ltac:(lia)); try pose proof (H 2%nat ltac:(lia)).

Variable D : nat.
Hypothesis HD : D = 2%nat \/ D = 3%nat.
Variables (n s c m : nat -> K) (d : nat -> nat -> K).
Notation N := (vtab D n). Notation S := (vtab D s). Notation C := (vtab D c). Notation M := (vtab D m).
Notation Dm := (tab D D d).

(* the internal allclose assertions of Grid._resize hold in exact arithmetic *)
Lemma resize_assert_ac : (forall i, (i < D)%nat -> m i - 1 <> 0) ->
  gen_resize_assert_lhs_ac D N S C Dm M = gen_resize_assert_rhs_ac D N S C Dm M.
Proof. intro H. destruct HD as [-> | ->]; nz H; fcbv; list_eq; field; side. Qed.
Lemma resize_assert_nac : (forall i, (i < D)%nat -> m i <> 0) ->
  gen_resize_assert_lhs_nac D N S C Dm M = gen_resize_assert_rhs_nac D N S C Dm M.
Proof. intro H. destruct HD as [-> | ->]; nz H; fcbv; list_eq; field; side. Qed.

(* align_corners = True: first and last sample keep their world position, cube extent unchanged *)
Lemma resize_ac_keeps_corners : (forall i, (i < D)%nat -> m i - 1 <> 0) ->
  let S' := gen_resize_spacing_ac D N S C Dm M in
  gen_origin D M S' C Dm = gen_origin D N S C Dm /\
  gen_pts D GRID WORLD M S' C Dm (vsub M (vones D)) = gen_pts D GRID WORLD N S C Dm (vsub N (vones D)) /\
  gen_cube_extent_ac D M S' C Dm = gen_cube_extent_ac D N S C Dm.
Proof. intro H. destruct HD as [-> | ->]; nz H; repeat split; fcbv; list_eq; field; side. Qed.

(* align_corners = False: physical extent unchanged (hence cube extent), spacing * size preserved *)
Lemma resize_nac_keeps_extent : (forall i, (i < D)%nat -> m i <> 0) ->
  let S' := gen_resize_spacing_nac D N S C Dm M in
  gen_extent D M S' C Dm = gen_extent D N S C Dm /\
  gen_cube_extent_nac D M S' C Dm = gen_cube_extent_nac D N S C Dm /\
  vmul S' M = vmul S N.
Proof. intro H. destruct HD as [-> | ->]; nz H; repeat split; fcbv; list_eq; field; side. Qed.

(* resizing to m and back to n restores the spacing (core of downsample-then-upsample) *)
Lemma resize_back_ac :
  (forall i, (i < D)%nat -> m i - 1 <> 0) -> (forall i, (i < D)%nat -> n i - 1 <> 0) ->
  gen_resize_spacing_ac D M (gen_resize_spacing_ac D N S C Dm M) C Dm N = S.
Proof. intros H H'. destruct HD as [-> | ->]; nz H; nz H'; fcbv; list_eq; field; side. Qed.
Lemma resize_back_nac :
  (forall i, (i < D)%nat -> m i <> 0) -> (forall i, (i < D)%nat -> n i <> 0) ->
  gen_resize_spacing_nac D M (gen_resize_spacing_nac D N S C Dm M) C Dm N = S.
Proof. intros H H'. destruct HD as [-> | ->]; nz H; nz H'; fcbv; list_eq; field; side. Qed.

(* grids built through the origin= route from a sample of another grid: every index j of the new
   grid lies where index j + start of the old grid lies (crop, pad, narrow, ROI, center crop/pad) *)
Lemma origin_route_keeps_samples (n' : nat -> K) (X J : list K) : length X = D -> length J = D ->
  gen_pts D GRID WORLD (vtab D n') S
    (gen_center_of_origin D (vtab D n') S Dm (gen_pts D GRID WORLD N S C Dm X)) Dm J
  = gen_pts D GRID WORLD N S C Dm (vadd J X).
Proof.
  intros HX HJ. destruct HD as [-> | ->]; [len2 X HX; len2 J HJ | len3 X HX; len3 J HJ];
    fcbv; list_eq; field; side.
Qed.

(* pooling with window k: sample j of the pooled grid lies at the centroid of window j *)
Lemma pool_keeps_centroids (n' k : nat -> K) (J : list K) : length J = D ->
  let Kk := vtab D k in
  gen_pts D GRID WORLD (vtab D n') (vmul S Kk)
    (gen_center_of_origin D (vtab D n') (vmul S Kk) Dm
       (gen_pts D GRID WORLD N S C Dm (vscale (1 / (1 + 1)) (vsub Kk (repeat 1 (length Kk)))))) Dm J
  = gen_pts D GRID WORLD N S C Dm (vadd (vmul Kk J) (vscale (1 / (1 + 1)) (vsub Kk (vones D)))).
Proof.
  intros HJ. destruct HD as [-> | ->]; [len2 J HJ | len3 J HJ]; fcbv; list_eq; field; side.
Qed.
End Resize.

(* pyramid size recurrence (integers) *)
Require Import DV.Model.GridDerive.
Local Open Scope Z_scope.
Ltac Zify.zify_post_hook ::= Z.to_euclidean_division_equations.

Lemma pyr_up_ge (c : Z) (k : nat) : 1 <= c -> c <= pyr_up c k.
Proof. intro H. induction k as [|k IH]; cbn [pyr_up]; lia. Qed.

(* levels are related by n_{l-1} = 2 n_l - 1, i.e. n_l = (n_{l-1} + 1) / 2, down to the coarsest level,
   whenever the minimum size does not intervene -- for EVERY number of levels *)
Lemma pyr_down_up (c min_size : Z) (L k : nat) : 1 <= c -> min_size <= c -> (k <= L)%nat ->
  pyr_down (pyr_up c L) min_size k = pyr_up c (L - k).
Proof.
  intros Hc Hm. induction k as [|k IH]; intro Hk.
  - cbn. now rewrite Nat.sub_0_r.
  - cbn [pyr_down]. rewrite IH by lia.
    replace (L - k)%nat with (Datatypes.S (L - Datatypes.S k)) by lia. cbn [pyr_up].
    pose proof (pyr_up_ge c (L - Datatypes.S k) Hc) as G.
    replace ((2 * pyr_up c (L - Datatypes.S k) - 1 + 1) / 2) with (pyr_up c (L - Datatypes.S k)) by lia.
    destruct (pyr_up c (L - Datatypes.S k) <? min_size) eqn:E; [lia | reflexivity].
Qed.

Lemma pyr_size_levels (n : Z) (a : bool) (L : nat) (min_size : Z) (k : nat) :
  1 <= pyr_coarsest n a L -> min_size <= pyr_coarsest n a L -> (k <= L)%nat ->
  pyr_size n a L min_size k = pyr_up (pyr_coarsest n a L) (L - k) /\
  ((k < L)%nat -> pyr_size n a L min_size k = 2 * pyr_size n a L min_size (Datatypes.S k) - 1).
Proof.
  intros Hc Hm Hk. unfold pyr_size. split; [apply pyr_down_up; assumption|].
  intro Hlt. rewrite !pyr_down_up by (assumption || lia).
  replace (L - k)%nat with (Datatypes.S (L - Datatypes.S k)) by lia. reflexivity.
Qed.

(* the coarsest size is (n + m) / 2^L rounded to nearest *)
Lemma pyr_coarsest_round (n : Z) (a : bool) (L : nat) : 0 <= n ->
  let m := if a then 2 ^ Z.of_nat L - 1 else 0 in
  let c := pyr_coarsest n a L in
  2 * (n + m) - 2 ^ Z.of_nat L < 2 ^ (Z.of_nat L + 1) * c <= 2 * (n + m) + 2 ^ Z.of_nat L.
Proof.
  intros Hn m c. unfold c, pyr_coarsest. fold m.
  assert (P : 0 < 2 ^ Z.of_nat L) by (apply Z.pow_pos_nonneg; lia).
  rewrite Z.pow_add_r by lia. change (2 ^ 1) with 2.
  set (p := 2 ^ Z.of_nat L) in *. nia.
Qed.
