(* C05 -- Resampling onto any oriented grid matches an independent reference resampler (ITK,
   identity transform).  Statements only.

   Grids are given by component functions restricted to D in {2,3} by vtab/tab (as in C01); the source
   grid's size attribute is the integer size of the image tensor (zsz (sz2 img)); wf = spacings, sizes,
   sizes-1 non-zero, direction orthonormal.  gen_pts / gen_pts2 / gen_T2 / gen_origin come from
   core/grid.py (Gen/GridT.v), gen_smat / gen_gs_pre / gen_gs_post / gen_*_coords_* from
   modules/sample.py, core/image.py, data/image.py (Gen/SampleT.v), regenerated on every run.
   Model/Resample.v: dp_* = deepali's pipeline, mod_* = module API, itk_* = ITK's ResampleImageFilter
   with the identity transform (validated against SimpleITK by the correspondence).
   Images are nested lists in tensor order [y][x] / [z][y][x]; indices J are in (x, y[, z]) order. *)
From Coq Require Import ZArith QArith Qcanon List Lia.
From DV Require Import Base.Field Base.LinAlg Base.QcInst Model.Enums Model.Homog Model.Grid Model.ItkSpec Model.Sampler
  Model.SamplerQc Gen.GridT Gen.SampleT Model.Resample Model.ResampleOwn Model.ResampleQc
  Proofs.C05Index Proofs.C05Kernel Proofs.C05Main Proofs.C05Border Proofs.C05Own Proofs.C05Qc
  Proofs.C05GenBS2 Proofs.C05GenBS3a Proofs.C05GenBS3n Proofs.C05GenModA Proofs.C05GenModN.
Import ListNotations.

Section Statements.
Local Open Scope fld_scope.
Variable K : fld.
Hypothesis Kf : is_field K.
Hypothesis Kc : char0 K.
Variable floorK : K -> Z.     (* floor and round-half-even on K: arbitrary here, Qfloor / torch's rounding over Qc below *)
Variable nearK : K -> Z.

(* 1. sample_matches_itk, index form: for ALL well-formed grid pairs, both flags and EVERY target index
      (integral or not, inside or outside the source) the continuous source index of deepali's pipeline
      coords(target, ac) -> target cube -> world -> source cube -> grid_sample un-normalisation
      is the index ITK assigns: itk_index(source header, itk_phys(target header, J)) *)
Theorem C05_index_matches_itk :
  forall (D : nat), D = 2%nat \/ D = 3%nat ->
  forall (ac : bool) (tn ts tc : nat -> K) (td : nat -> nat -> K)
         (snz : nat -> Z) (ss sc : nat -> K) (sd : nat -> nat -> K) (J : list K),
  wf D tn ts td -> wf D (zsz snz) ss sd -> length J = D ->
  dp_index D ac (vtab D tn) (vtab D ts) (vtab D tc) (tab D D td) (map snz (seq 0 D)) (vtab D ss) (vtab D sc) (tab D D sd) J
  = itk_cindex D (vtab D tn) (vtab D ts) (vtab D tc) (tab D D td) (vtab D (zsz snz)) (vtab D ss) (vtab D sc) (tab D D sd) J.
Proof. exact (sample_index_matches_itk K Kf Kc). Qed.

(* 2. the module API: the precomputed matrix is the two-grid transform target axes -> source cube, and
      SampleImage on target.points(axes) / AlignImage / TransformImage without transform reach the same index,
      for all 4 axes and both flags *)
Theorem C05_module_matrix_is_T2 :
  forall (D : nat), D = 2%nat \/ D = 3%nat ->
  forall (A : axes) (ac : bool) (tn ts tc : nat -> K) (td : nat -> nat -> K) (sn ss sc : nat -> K) (sd : nat -> nat -> K),
  gen_smat D A ac (vtab D tn) (vtab D ts) (vtab D tc) (tab D D td) (vtab D sn) (vtab D ss) (vtab D sc) (tab D D sd)
  = gen_T2 D A (cube_axes ac) (vtab D tn) (vtab D ts) (vtab D tc) (tab D D td) (vtab D sn) (vtab D ss) (vtab D sc) (tab D D sd).
Proof. exact (smat_is_T2 K). Qed.

Theorem C05_module_index_matches_itk :
  forall (D : nat), D = 2%nat \/ D = 3%nat ->
  forall (A : axes) (ac : bool) (tn ts tc : nat -> K) (td : nat -> nat -> K)
         (snz : nat -> Z) (ss sc : nat -> K) (sd : nat -> nat -> K) (J : list K),
  wf D tn ts td -> wf D (zsz snz) ss sd -> length J = D ->
  mod_index D A ac (vtab D tn) (vtab D ts) (vtab D tc) (tab D D td) (map snz (seq 0 D)) (vtab D ss) (vtab D sc) (tab D D sd) J
  = itk_cindex D (vtab D tn) (vtab D ts) (vtab D tc) (tab D D td) (vtab D (zsz snz)) (vtab D ss) (vtab D sc) (tab D D sd) J.
Proof. exact (module_index_matches_itk K Kf Kc). Qed.

(* 2b. module API with the source grid omitted (source = target; Grid.transform's same-grid branch, traced as gen_smat_own
       for the 4 axes x both flags x D in {2,3}): through the precomputed matrix, target.points(axes) and grid_sample's
       un-normalisation, target index J is sampled at the continuous index J itself (own-grid identity) *)
Theorem C05_module_own_index_id :
  forall (D : nat) (A : axes) (ac : bool) (nz : nat -> Z) (s c : nat -> K) (d : nat -> nat -> K) (J : list K),
  D = 2%nat \/ D = 3%nat -> wf D (zsz nz) s d -> length J = D ->
  mod_own_index D A ac (map nz (seq 0 D)) (vtab D s) (vtab D c) (tab D D d) J = J.
Proof. exact (module_own_index_id K Kf Kc). Qed.

(* 3. sample_matches_itk, value form: linear (inside the source field of view [0,n-1]^D, any padding
      mode or constant, any ITK default value) and nearest (inside ITK's buffer, away from rounding ties):
      the value deepali computes is the value the ITK resampler computes.  ok_at = per-axis hypothesis. *)
Theorem C05_sample_matches_itk2 :
  forall (m : smode) (p : padarg) (ac : bool) (dflt : K)
         (tn ts tc : nat -> K) (td : nat -> nat -> K) (ss sc : nat -> K) (sd : nat -> nat -> K)
         (img : list (list K)) (J : list K),
  wf 2 tn ts td -> wf 2 (zsz (sz2 img)) ss sd -> rect2 (zlen (hd [] img)) img -> length J = 2%nat ->
  ok_at floorK nearK m (isizes2 img)
    (itk_cindex 2 (vtab 2 tn) (vtab 2 ts) (vtab 2 tc) (tab 2 2 td) (zvec (isizes2 img)) (vtab 2 ss) (vtab 2 sc) (tab 2 2 sd) J) ->
  dp_sample2 floorK nearK m p ac (vtab 2 tn) (vtab 2 ts) (vtab 2 tc) (tab 2 2 td) (vtab 2 ss) (vtab 2 sc) (tab 2 2 sd) img J
  = itk_resample2 floorK m dflt (vtab 2 tn) (vtab 2 ts) (vtab 2 tc) (tab 2 2 td) (vtab 2 ss) (vtab 2 sc) (tab 2 2 sd) img J.
Proof. exact (sample_matches_itk2 K Kf Kc floorK nearK). Qed.

Theorem C05_sample_matches_itk3 :
  forall (m : smode) (p : padarg) (ac : bool) (dflt : K)
         (tn ts tc : nat -> K) (td : nat -> nat -> K) (ss sc : nat -> K) (sd : nat -> nat -> K)
         (img : list (list (list K))) (J : list K),
  wf 3 tn ts td -> wf 3 (zsz (sz3 img)) ss sd -> rect3 (zlen (hd [] (hd [] img))) (zlen (hd [] img)) img -> length J = 3%nat ->
  ok_at floorK nearK m (isizes3 img)
    (itk_cindex 3 (vtab 3 tn) (vtab 3 ts) (vtab 3 tc) (tab 3 3 td) (zvec (isizes3 img)) (vtab 3 ss) (vtab 3 sc) (tab 3 3 sd) J) ->
  dp_sample3 floorK nearK m p ac (vtab 3 tn) (vtab 3 ts) (vtab 3 tc) (tab 3 3 td) (vtab 3 ss) (vtab 3 sc) (tab 3 3 sd) img J
  = itk_resample3 floorK m dflt (vtab 3 tn) (vtab 3 ts) (vtab 3 tc) (tab 3 3 td) (vtab 3 ss) (vtab 3 sc) (tab 3 3 sd) img J.
Proof. exact (sample_matches_itk3 K Kf Kc floorK nearK). Qed.

(* 3b. border padding: with padding = border the linear sampler agrees with ITK on ITK's WHOLE buffer [-1/2, n-1/2)^D
       (buf_ok), i.e. also in the outer half-voxel band around the source sample centres, which target samples reach
       for align_corners = False.  (The default zeros padding blends toward zero there -- torch's documented behaviour --
       whereas ITK clamps; theorem 3 therefore assumes [0, n-1]^D for arbitrary padding.)  No rectangularity or
       field-of-view hypothesis is needed. *)
Theorem C05_sample_matches_itk_border2 :
  forall (ac : bool) (dflt : K)
         (tn ts tc : nat -> K) (td : nat -> nat -> K) (ss sc : nat -> K) (sd : nat -> nat -> K)
         (img : list (list K)) (J : list K),
  wf 2 tn ts td -> wf 2 (zsz (sz2 img)) ss sd -> length J = 2%nat ->
  buf_ok floorK (isizes2 img)
    (itk_cindex 2 (vtab 2 tn) (vtab 2 ts) (vtab 2 tc) (tab 2 2 td) (zvec (isizes2 img)) (vtab 2 ss) (vtab 2 sc) (tab 2 2 sd) J) ->
  dp_sample2 floorK nearK Linear (PadMode PBorder) ac (vtab 2 tn) (vtab 2 ts) (vtab 2 tc) (tab 2 2 td) (vtab 2 ss) (vtab 2 sc) (tab 2 2 sd) img J
  = itk_resample2 floorK Linear dflt (vtab 2 tn) (vtab 2 ts) (vtab 2 tc) (tab 2 2 td) (vtab 2 ss) (vtab 2 sc) (tab 2 2 sd) img J.
Proof. exact (sample_matches_itk_border2 K Kf Kc floorK nearK). Qed.

Theorem C05_sample_matches_itk_border3 :
  forall (ac : bool) (dflt : K)
         (tn ts tc : nat -> K) (td : nat -> nat -> K) (ss sc : nat -> K) (sd : nat -> nat -> K)
         (img : list (list (list K))) (J : list K),
  wf 3 tn ts td -> wf 3 (zsz (sz3 img)) ss sd -> length J = 3%nat ->
  buf_ok floorK (isizes3 img)
    (itk_cindex 3 (vtab 3 tn) (vtab 3 ts) (vtab 3 tc) (tab 3 3 td) (zvec (isizes3 img)) (vtab 3 ss) (vtab 3 sc) (tab 3 3 sd) J) ->
  dp_sample3 floorK nearK Linear (PadMode PBorder) ac (vtab 3 tn) (vtab 3 ts) (vtab 3 tc) (tab 3 3 td) (vtab 3 ss) (vtab 3 sc) (tab 3 3 sd) img J
  = itk_resample3 floorK Linear dflt (vtab 3 tn) (vtab 3 ts) (vtab 3 tc) (tab 3 3 td) (vtab 3 ss) (vtab 3 sc) (tab 3 3 sd) img J.
Proof. exact (sample_matches_itk_border3 K Kf Kc floorK nearK). Qed.

Theorem C05_module_matches_itk2 :
  forall (m : smode) (p : padarg) (A : axes) (ac : bool) (dflt : K)
         (tn ts tc : nat -> K) (td : nat -> nat -> K) (ss sc : nat -> K) (sd : nat -> nat -> K)
         (img : list (list K)) (J : list K),
  wf 2 tn ts td -> wf 2 (zsz (sz2 img)) ss sd -> rect2 (zlen (hd [] img)) img -> length J = 2%nat ->
  ok_at floorK nearK m (isizes2 img)
    (itk_cindex 2 (vtab 2 tn) (vtab 2 ts) (vtab 2 tc) (tab 2 2 td) (zvec (isizes2 img)) (vtab 2 ss) (vtab 2 sc) (tab 2 2 sd) J) ->
  mod_sample2 floorK nearK m p A ac (vtab 2 tn) (vtab 2 ts) (vtab 2 tc) (tab 2 2 td) (vtab 2 ss) (vtab 2 sc) (tab 2 2 sd) img J
  = itk_resample2 floorK m dflt (vtab 2 tn) (vtab 2 ts) (vtab 2 tc) (tab 2 2 td) (vtab 2 ss) (vtab 2 sc) (tab 2 2 sd) img J.
Proof. exact (module_matches_itk2 K Kf Kc floorK nearK). Qed.

Theorem C05_module_matches_itk3 :
  forall (m : smode) (p : padarg) (A : axes) (ac : bool) (dflt : K)
         (tn ts tc : nat -> K) (td : nat -> nat -> K) (ss sc : nat -> K) (sd : nat -> nat -> K)
         (img : list (list (list K))) (J : list K),
  wf 3 tn ts td -> wf 3 (zsz (sz3 img)) ss sd -> rect3 (zlen (hd [] (hd [] img))) (zlen (hd [] img)) img -> length J = 3%nat ->
  ok_at floorK nearK m (isizes3 img)
    (itk_cindex 3 (vtab 3 tn) (vtab 3 ts) (vtab 3 tc) (tab 3 3 td) (zvec (isizes3 img)) (vtab 3 ss) (vtab 3 sc) (tab 3 3 sd) J) ->
  mod_sample3 floorK nearK m p A ac (vtab 3 tn) (vtab 3 ts) (vtab 3 tc) (tab 3 3 td) (vtab 3 ss) (vtab 3 sc) (tab 3 3 sd) img J
  = itk_resample3 floorK m dflt (vtab 3 tn) (vtab 3 ts) (vtab 3 tc) (tab 3 3 td) (vtab 3 ss) (vtab 3 sc) (tab 3 3 sd) img J.
Proof. exact (module_matches_itk3 K Kf Kc floorK nearK). Qed.

(* 4. sampling at explicit normalised coordinates = sampling on the grid they came from (same kernel
      call), and those coordinates un-normalise to ITK's index *)
Theorem C05_sample_coords_eq_sample_grid2 :
  forall (m : smode) (p : padarg) (ac : bool)
         (tn ts tc : nat -> K) (td : nat -> nat -> K) (ss sc : nat -> K) (sd : nat -> nat -> K)
         (img : list (list K)) (J X : list K),
  wf 2 tn ts td -> wf 2 (zsz (sz2 img)) ss sd -> length J = 2%nat ->
  X = dp_src_coords 2 ac (vtab 2 tn) (vtab 2 ts) (vtab 2 tc) (tab 2 2 td) (zvec (isizes2 img)) (vtab 2 ss) (vtab 2 sc) (tab 2 2 sd) J ->
  dp_grid_sample2 floorK nearK m p ac img X
  = dp_sample2 floorK nearK m p ac (vtab 2 tn) (vtab 2 ts) (vtab 2 tc) (tab 2 2 td) (vtab 2 ss) (vtab 2 sc) (tab 2 2 sd) img J
  /\ vunnorm ac (isizes2 img) X
     = itk_cindex 2 (vtab 2 tn) (vtab 2 ts) (vtab 2 tc) (tab 2 2 td) (zvec (isizes2 img)) (vtab 2 ss) (vtab 2 sc) (tab 2 2 sd) J.
Proof. exact (sample_coords_eq_sample_grid2 K Kf Kc floorK nearK). Qed.

Theorem C05_sample_coords_eq_sample_grid3 :
  forall (m : smode) (p : padarg) (ac : bool)
         (tn ts tc : nat -> K) (td : nat -> nat -> K) (ss sc : nat -> K) (sd : nat -> nat -> K)
         (img : list (list (list K))) (J X : list K),
  wf 3 tn ts td -> wf 3 (zsz (sz3 img)) ss sd -> length J = 3%nat ->
  X = dp_src_coords 3 ac (vtab 3 tn) (vtab 3 ts) (vtab 3 tc) (tab 3 3 td) (zvec (isizes3 img)) (vtab 3 ss) (vtab 3 sc) (tab 3 3 sd) J ->
  dp_grid_sample3 floorK nearK m p ac img X
  = dp_sample3 floorK nearK m p ac (vtab 3 tn) (vtab 3 ts) (vtab 3 tc) (tab 3 3 td) (vtab 3 ss) (vtab 3 sc) (tab 3 3 sd) img J
  /\ vunnorm ac (isizes3 img) X
     = itk_cindex 3 (vtab 3 tn) (vtab 3 ts) (vtab 3 tc) (tab 3 3 td) (zvec (isizes3 img)) (vtab 3 ss) (vtab 3 sc) (tab 3 3 sd) J.
Proof. exact (sample_coords_eq_sample_grid3 K Kf Kc floorK nearK). Qed.

(* 5. sample_self_id: on its own grid every mode / padding / flag returns the stored samples
      (floor and rounding fix integers: true of Qfloor and round-half-even, see below) *)
Theorem C05_sample_self_id2 :
  (forall i : Z, floorK (of_Z i) = i) -> (forall i : Z, nearK (of_Z i) = i) ->
  forall (m : smode) (p : padarg) (ac : bool) (s c : nat -> K) (d : nat -> nat -> K) (img : list (list K)) (jx jy : Z),
  wf 2 (zsz (sz2 img)) s d -> rect2 (zlen (hd [] img)) img ->
  (0 <= jx < zlen (hd [] img))%Z -> (0 <= jy < zlen img)%Z ->
  dp_sample2 floorK nearK m p ac (zvec (isizes2 img)) (vtab 2 s) (vtab 2 c) (tab 2 2 d) (vtab 2 s) (vtab 2 c) (tab 2 2 d) img
    [of_Z jx; of_Z jy] = val2 img jy jx.
Proof. exact (sample_self_id2 K Kf Kc floorK nearK). Qed.

Theorem C05_sample_self_id3 :
  (forall i : Z, floorK (of_Z i) = i) -> (forall i : Z, nearK (of_Z i) = i) ->
  forall (m : smode) (p : padarg) (ac : bool) (s c : nat -> K) (d : nat -> nat -> K) (img : list (list (list K))) (jx jy jz : Z),
  wf 3 (zsz (sz3 img)) s d -> rect3 (zlen (hd [] (hd [] img))) (zlen (hd [] img)) img ->
  (0 <= jx < zlen (hd [] (hd [] img)))%Z -> (0 <= jy < zlen (hd [] img))%Z -> (0 <= jz < zlen img)%Z ->
  dp_sample3 floorK nearK m p ac (zvec (isizes3 img)) (vtab 3 s) (vtab 3 c) (tab 3 3 d) (vtab 3 s) (vtab 3 c) (tab 3 3 d) img
    [of_Z jx; of_Z jy; of_Z jz] = val3 img jz jy jx.
Proof. exact (sample_self_id3 K Kf Kc floorK nearK). Qed.

(* 6. const_padding_ok: the subtract-c / zeros-padding / add-c emulation (pre and post maps generated
      from core.image.grid_sample) is interpolation of the image extended by the constant c -- for every
      image, cell and fraction, inside or outside the image; same for nearest neighbour *)
Theorem C05_const_padding_ok1 :
  forall (c : K) (l : list K) (i : Z) (t : K),
  gen_gs_post c (interp1 PZeros (map (gen_gs_pre c) l) i t) = interpc1 c l i t.
Proof. exact (const_padding_ok1 K Kf). Qed.
Theorem C05_const_padding_ok2 :
  forall (c : K) (img : list (list K)) (ix iy : Z) (tx ty : K),
  gen_gs_post c (interp2 PZeros (map (map (gen_gs_pre c)) img) ix iy tx ty) = interpc2 c img ix iy tx ty.
Proof. exact (const_padding_ok2 K Kf). Qed.
Theorem C05_const_padding_ok3 :
  forall (c : K) (img : list (list (list K))) (ix iy iz : Z) (tx ty tz : K),
  gen_gs_post c (interp3 PZeros (map (map (map (gen_gs_pre c))) img) ix iy iz tx ty tz) = interpc3 c img ix iy iz tx ty tz.
Proof. exact (const_padding_ok3 K Kf). Qed.
Theorem C05_const_padding_nearest :
  (forall (c : K) (img : list (list K)) (x y : K),
     gen_gs_post c (nearest2 nearK PZeros (map (map (gen_gs_pre c)) img) x y) = getc2 c img (nearK y) (nearK x)) /\
  (forall (c : K) (img : list (list (list K))) (x y z : K),
     gen_gs_post c (nearest3 nearK PZeros (map (map (map (gen_gs_pre c))) img) x y z) = getc3 c img (nearK z) (nearK y) (nearK x)).
Proof. exact (conj (const_padding_nearest2 K Kf nearK) (const_padding_nearest3 K Kf nearK)). Qed.

(* 7. what the code hands to grid_sample IS the model's coordinate function: ImageBatch.sample(grid)
      traced on a concrete small target lattice (sizes 3x2[x2] resp. 4x2[x2], substituted by the hypotheses)
      with symbolic spacing / center / direction of both grids and symbolic source size *)
Theorem C05_traced_batch_sample_2d :
  forall (tn ts tc sn ss sc : nat -> K) (td sd : nat -> nat -> K), wf 2 tn ts td -> wf 2 sn ss sd -> tn 1%nat = 1 + 1 ->
  (tn 0%nat = 1 + 1 + 1 ->
   gen_bs_coords_a_2 (vtab 2 tn) (vtab 2 ts) (vtab 2 tc) (tab 2 2 td) (vtab 2 sn) (vtab 2 ss) (vtab 2 sc) (tab 2 2 sd)
   = lat2 (dp_src_coords 2 true (vtab 2 tn) (vtab 2 ts) (vtab 2 tc) (tab 2 2 td) (vtab 2 sn) (vtab 2 ss) (vtab 2 sc) (tab 2 2 sd)) 3 2) /\
  (tn 0%nat = (1 + 1) * (1 + 1) ->
   gen_bs_coords_n_2 (vtab 2 tn) (vtab 2 ts) (vtab 2 tc) (tab 2 2 td) (vtab 2 sn) (vtab 2 ss) (vtab 2 sc) (tab 2 2 sd)
   = lat2 (dp_src_coords 2 false (vtab 2 tn) (vtab 2 ts) (vtab 2 tc) (tab 2 2 td) (vtab 2 sn) (vtab 2 ss) (vtab 2 sc) (tab 2 2 sd)) 4 2).
Proof.
  exact (fun tn ts tc sn ss sc td sd Ht Hs E1 =>
           conj (fun E0 => bs_coords_a_2 K Kf Kc tn ts tc sn ss sc td sd Ht Hs E0 E1)
                (fun E0 => bs_coords_n_2 K Kf Kc tn ts tc sn ss sc td sd Ht Hs E0 E1)).
Qed.

Theorem C05_traced_batch_sample_3d :
  forall (tn ts tc sn ss sc : nat -> K) (td sd : nat -> nat -> K), wf 3 tn ts td -> wf 3 sn ss sd ->
  tn 1%nat = 1 + 1 -> tn 2%nat = 1 + 1 ->
  (tn 0%nat = 1 + 1 + 1 ->
   gen_bs_coords_a_3 (vtab 3 tn) (vtab 3 ts) (vtab 3 tc) (tab 3 3 td) (vtab 3 sn) (vtab 3 ss) (vtab 3 sc) (tab 3 3 sd)
   = lat3 (dp_src_coords 3 true (vtab 3 tn) (vtab 3 ts) (vtab 3 tc) (tab 3 3 td) (vtab 3 sn) (vtab 3 ss) (vtab 3 sc) (tab 3 3 sd)) 3 2 2) /\
  (tn 0%nat = (1 + 1) * (1 + 1) ->
   gen_bs_coords_n_3 (vtab 3 tn) (vtab 3 ts) (vtab 3 tc) (tab 3 3 td) (vtab 3 sn) (vtab 3 ss) (vtab 3 sc) (tab 3 3 sd)
   = lat3 (dp_src_coords 3 false (vtab 3 tn) (vtab 3 ts) (vtab 3 tc) (tab 3 3 td) (vtab 3 sn) (vtab 3 ss) (vtab 3 sc) (tab 3 3 sd)) 4 2 2).
Proof.
  exact (fun tn ts tc sn ss sc td sd Ht Hs E1 E2 =>
           conj (fun E0 => bs_coords_a_3 K Kf Kc tn ts tc sn ss sc td sd Ht Hs E0 E1 E2)
                (fun E0 => bs_coords_n_3 K Kf Kc tn ts tc sn ss sc td sd Ht Hs E0 E1 E2)).
Qed.

(* the module classes (traced forward passes, default axes = cube axes of the target's flag; the other
   4 x 2 axes/flag combinations are proved in Proofs/C05GenMod{A,N}.v) *)
Theorem C05_traced_modules_default_axes :
  forall (tn ts tc sn ss sc : nat -> K) (td sd : nat -> nat -> K), wf 2 tn ts td -> wf 2 sn ss sd -> tn 1%nat = 1 + 1 ->
  (tn 0%nat = 1 + 1 + 1 ->
   let M := lat2 (mod_src_coords 2 CUBE_CORNERS true (vtab 2 tn) (vtab 2 ts) (vtab 2 tc) (tab 2 2 td) (vtab 2 sn) (vtab 2 ss) (vtab 2 sc) (tab 2 2 sd)) 3 2 in
   gen_sampleimage_coords_Da_2 (vtab 2 tn) (vtab 2 ts) (vtab 2 tc) (tab 2 2 td) (vtab 2 sn) (vtab 2 ss) (vtab 2 sc) (tab 2 2 sd) = M /\
   gen_alignimage_coords_Da_2 (vtab 2 tn) (vtab 2 ts) (vtab 2 tc) (tab 2 2 td) (vtab 2 sn) (vtab 2 ss) (vtab 2 sc) (tab 2 2 sd) = M /\
   gen_transformimage_coords_Da_2 (vtab 2 tn) (vtab 2 ts) (vtab 2 tc) (tab 2 2 td) (vtab 2 sn) (vtab 2 ss) (vtab 2 sc) (tab 2 2 sd) = M) /\
  (tn 0%nat = (1 + 1) * (1 + 1) ->
   let M := lat2 (mod_src_coords 2 CUBE false (vtab 2 tn) (vtab 2 ts) (vtab 2 tc) (tab 2 2 td) (vtab 2 sn) (vtab 2 ss) (vtab 2 sc) (tab 2 2 sd)) 4 2 in
   gen_sampleimage_coords_Dn_2 (vtab 2 tn) (vtab 2 ts) (vtab 2 tc) (tab 2 2 td) (vtab 2 sn) (vtab 2 ss) (vtab 2 sc) (tab 2 2 sd) = M /\
   gen_alignimage_coords_Dn_2 (vtab 2 tn) (vtab 2 ts) (vtab 2 tc) (tab 2 2 td) (vtab 2 sn) (vtab 2 ss) (vtab 2 sc) (tab 2 2 sd) = M /\
   gen_transformimage_coords_Dn_2 (vtab 2 tn) (vtab 2 ts) (vtab 2 tc) (tab 2 2 td) (vtab 2 sn) (vtab 2 ss) (vtab 2 sc) (tab 2 2 sd) = M).
Proof.
  exact (fun tn ts tc sn ss sc td sd Ht Hs E1 =>
    conj (fun E0 => conj (sampleimage_coords_Da_2 K Kf Kc tn ts tc sn ss sc td sd Ht Hs E0 E1)
                   (conj (alignimage_coords_Da_2 K Kf Kc tn ts tc sn ss sc td sd Ht Hs E0 E1)
                         (transformimage_coords_Da_2 K Kf Kc tn ts tc sn ss sc td sd Ht Hs E0 E1)))
         (fun E0 => conj (sampleimage_coords_Dn_2 K Kf Kc tn ts tc sn ss sc td sd Ht Hs E0 E1)
                   (conj (alignimage_coords_Dn_2 K Kf Kc tn ts tc sn ss sc td sd Ht Hs E0 E1)
                         (transformimage_coords_Dn_2 K Kf Kc tn ts tc sn ss sc td sd Ht Hs E0 E1)))).
Qed.
End Statements.

Print Assumptions C05_index_matches_itk.
Print Assumptions C05_module_index_matches_itk.
Print Assumptions C05_module_own_index_id.
Print Assumptions C05_sample_matches_itk2.
Print Assumptions C05_sample_matches_itk3.
Print Assumptions C05_sample_matches_itk_border2.
Print Assumptions C05_sample_matches_itk_border3.
Print Assumptions C05_module_matches_itk3.
Print Assumptions C05_sample_self_id3.
Print Assumptions C05_const_padding_ok3.
Print Assumptions C05_traced_batch_sample_3d.
Print Assumptions C05_traced_modules_default_axes.

(* 8. over the executable field Qc, with Qfloor and torch's round-half-to-even: the hypotheses in Q's
      order.  okQ Linear = every component of ITK's source index within [0, n-1];
      okQ Nearest = within [-1/2, n-1/2) and not exactly half way between two samples. *)
Theorem C05_sample_matches_itk2_Qc :
  forall (m : smode) (p : padarg (K:=QcF)) (ac : bool) (dflt : QcF)
         (tn ts tc : nat -> QcF) (td : nat -> nat -> QcF) (ss sc : nat -> QcF) (sd : nat -> nat -> QcF)
         (img : list (list QcF)) (J : list QcF),
  wf 2 tn ts td -> wf 2 (zsz (sz2 img)) ss sd -> rect2 (zlen (hd [] img)) img -> length J = 2%nat ->
  okQ m (isizes2 img)
    (itk_cindex 2 (vtab 2 tn) (vtab 2 ts) (vtab 2 tc) (tab 2 2 td) (zvec (isizes2 img)) (vtab 2 ss) (vtab 2 sc) (tab 2 2 sd) J) ->
  qdp_sample2 m p ac (vtab 2 tn) (vtab 2 ts) (vtab 2 tc) (tab 2 2 td) (vtab 2 ss) (vtab 2 sc) (tab 2 2 sd) img J
  = qitk_resample2 m dflt (vtab 2 tn) (vtab 2 ts) (vtab 2 tc) (tab 2 2 td) (vtab 2 ss) (vtab 2 sc) (tab 2 2 sd) img J.
Proof. exact sample_matches_itk2_Qc. Qed.

Theorem C05_sample_matches_itk3_Qc :
  forall (m : smode) (p : padarg (K:=QcF)) (ac : bool) (dflt : QcF)
         (tn ts tc : nat -> QcF) (td : nat -> nat -> QcF) (ss sc : nat -> QcF) (sd : nat -> nat -> QcF)
         (img : list (list (list QcF))) (J : list QcF),
  wf 3 tn ts td -> wf 3 (zsz (sz3 img)) ss sd -> rect3 (zlen (hd [] (hd [] img))) (zlen (hd [] img)) img -> length J = 3%nat ->
  okQ m (isizes3 img)
    (itk_cindex 3 (vtab 3 tn) (vtab 3 ts) (vtab 3 tc) (tab 3 3 td) (zvec (isizes3 img)) (vtab 3 ss) (vtab 3 sc) (tab 3 3 sd) J) ->
  qdp_sample3 m p ac (vtab 3 tn) (vtab 3 ts) (vtab 3 tc) (tab 3 3 td) (vtab 3 ss) (vtab 3 sc) (tab 3 3 sd) img J
  = qitk_resample3 m dflt (vtab 3 tn) (vtab 3 ts) (vtab 3 tc) (tab 3 3 td) (vtab 3 ss) (vtab 3 sc) (tab 3 3 sd) img J.
Proof. exact sample_matches_itk3_Qc. Qed.

Theorem C05_module_matches_itk2_Qc :
  forall (m : smode) (p : padarg (K:=QcF)) (A : axes) (ac : bool) (dflt : QcF)
         (tn ts tc : nat -> QcF) (td : nat -> nat -> QcF) (ss sc : nat -> QcF) (sd : nat -> nat -> QcF)
         (img : list (list QcF)) (J : list QcF),
  wf 2 tn ts td -> wf 2 (zsz (sz2 img)) ss sd -> rect2 (zlen (hd [] img)) img -> length J = 2%nat ->
  okQ m (isizes2 img)
    (itk_cindex 2 (vtab 2 tn) (vtab 2 ts) (vtab 2 tc) (tab 2 2 td) (zvec (isizes2 img)) (vtab 2 ss) (vtab 2 sc) (tab 2 2 sd) J) ->
  qmod_sample2 m p A ac (vtab 2 tn) (vtab 2 ts) (vtab 2 tc) (tab 2 2 td) (vtab 2 ss) (vtab 2 sc) (tab 2 2 sd) img J
  = qitk_resample2 m dflt (vtab 2 tn) (vtab 2 ts) (vtab 2 tc) (tab 2 2 td) (vtab 2 ss) (vtab 2 sc) (tab 2 2 sd) img J.
Proof. exact module_matches_itk2_Qc. Qed.

Theorem C05_module_matches_itk3_Qc :
  forall (m : smode) (p : padarg (K:=QcF)) (A : axes) (ac : bool) (dflt : QcF)
         (tn ts tc : nat -> QcF) (td : nat -> nat -> QcF) (ss sc : nat -> QcF) (sd : nat -> nat -> QcF)
         (img : list (list (list QcF))) (J : list QcF),
  wf 3 tn ts td -> wf 3 (zsz (sz3 img)) ss sd -> rect3 (zlen (hd [] (hd [] img))) (zlen (hd [] img)) img -> length J = 3%nat ->
  okQ m (isizes3 img)
    (itk_cindex 3 (vtab 3 tn) (vtab 3 ts) (vtab 3 tc) (tab 3 3 td) (zvec (isizes3 img)) (vtab 3 ss) (vtab 3 sc) (tab 3 3 sd) J) ->
  qmod_sample3 m p A ac (vtab 3 tn) (vtab 3 ts) (vtab 3 tc) (tab 3 3 td) (vtab 3 ss) (vtab 3 sc) (tab 3 3 sd) img J
  = qitk_resample3 m dflt (vtab 3 tn) (vtab 3 ts) (vtab 3 tc) (tab 3 3 td) (vtab 3 ss) (vtab 3 sc) (tab 3 3 sd) img J.
Proof. exact module_matches_itk3_Qc. Qed.

Theorem C05_sample_self_id_Qc :
  (forall (m : smode) (p : padarg (K:=QcF)) (ac : bool) (s c : nat -> QcF) (d : nat -> nat -> QcF) (img : list (list QcF)) (jx jy : Z),
     wf 2 (zsz (sz2 img)) s d -> rect2 (zlen (hd [] img)) img -> (0 <= jx < zlen (hd [] img))%Z -> (0 <= jy < zlen img)%Z ->
     qdp_sample2 m p ac (zvec (isizes2 img)) (vtab 2 s) (vtab 2 c) (tab 2 2 d) (vtab 2 s) (vtab 2 c) (tab 2 2 d) img
       [of_Z jx; of_Z jy] = val2 img jy jx) /\
  (forall (m : smode) (p : padarg (K:=QcF)) (ac : bool) (s c : nat -> QcF) (d : nat -> nat -> QcF) (img : list (list (list QcF))) (jx jy jz : Z),
     wf 3 (zsz (sz3 img)) s d -> rect3 (zlen (hd [] (hd [] img))) (zlen (hd [] img)) img ->
     (0 <= jx < zlen (hd [] (hd [] img)))%Z -> (0 <= jy < zlen (hd [] img))%Z -> (0 <= jz < zlen img)%Z ->
     qdp_sample3 m p ac (zvec (isizes3 img)) (vtab 3 s) (vtab 3 c) (tab 3 3 d) (vtab 3 s) (vtab 3 c) (tab 3 3 d) img
       [of_Z jx; of_Z jy; of_Z jz] = val3 img jz jy jx).
Proof. exact (conj sample_self_id2_Qc sample_self_id3_Qc). Qed.

(* border padding over Qc: bufQ = every component of ITK's source index within [-1/2, n-1/2) *)
Theorem C05_sample_matches_itk_border2_Qc :
  forall (ac : bool) (dflt : QcF)
         (tn ts tc : nat -> QcF) (td : nat -> nat -> QcF) (ss sc : nat -> QcF) (sd : nat -> nat -> QcF)
         (img : list (list QcF)) (J : list QcF),
  wf 2 tn ts td -> wf 2 (zsz (sz2 img)) ss sd -> length J = 2%nat ->
  bufQ (isizes2 img)
    (itk_cindex 2 (vtab 2 tn) (vtab 2 ts) (vtab 2 tc) (tab 2 2 td) (zvec (isizes2 img)) (vtab 2 ss) (vtab 2 sc) (tab 2 2 sd) J) ->
  qdp_sample2 Linear (PadMode PBorder) ac (vtab 2 tn) (vtab 2 ts) (vtab 2 tc) (tab 2 2 td) (vtab 2 ss) (vtab 2 sc) (tab 2 2 sd) img J
  = qitk_resample2 Linear dflt (vtab 2 tn) (vtab 2 ts) (vtab 2 tc) (tab 2 2 td) (vtab 2 ss) (vtab 2 sc) (tab 2 2 sd) img J.
Proof. exact sample_matches_itk_border2_Qc. Qed.

Theorem C05_sample_matches_itk_border3_Qc :
  forall (ac : bool) (dflt : QcF)
         (tn ts tc : nat -> QcF) (td : nat -> nat -> QcF) (ss sc : nat -> QcF) (sd : nat -> nat -> QcF)
         (img : list (list (list QcF))) (J : list QcF),
  wf 3 tn ts td -> wf 3 (zsz (sz3 img)) ss sd -> length J = 3%nat ->
  bufQ (isizes3 img)
    (itk_cindex 3 (vtab 3 tn) (vtab 3 ts) (vtab 3 tc) (tab 3 3 td) (zvec (isizes3 img)) (vtab 3 ss) (vtab 3 sc) (tab 3 3 sd) J) ->
  qdp_sample3 Linear (PadMode PBorder) ac (vtab 3 tn) (vtab 3 ts) (vtab 3 tc) (tab 3 3 td) (vtab 3 ss) (vtab 3 sc) (tab 3 3 sd) img J
  = qitk_resample3 Linear dflt (vtab 3 tn) (vtab 3 ts) (vtab 3 tc) (tab 3 3 td) (vtab 3 ss) (vtab 3 sc) (tab 3 3 sd) img J.
Proof. exact sample_matches_itk_border3_Qc. Qed.

(* non-vacuity of the border theorems: 3x2 image, target = source grid refined by 2 with align_corners = False; target
   sample (0,0) has the ITK index (-1/4, -1/4): in the outer band (bufQ holds, okQ's field of view does not); border
   padding and ITK both return the corner value 1, zeros padding returns 9/16 *)
Example C05_border_nonvacuous :
  let img : list (list QcF) := [[q 1 1; q 2 1; q 4 1]; [q 3 1; q 7 1; q 5 1]] in
  let ss : nat -> QcF := fun i => nth i [q 2 1; q 1 1] (q 1 1) in
  let sc : nat -> QcF := fun i => nth i [q 0 1; q 0 1] (q 0 1) in
  let sd : nat -> nat -> QcF := fun i j => nth j (nth i [[q 1 1; q 0 1]; [q 0 1; q 1 1]] []) (q 0 1) in
  let tn : nat -> QcF := fun i => nth i [q 6 1; q 4 1] (q 1 1) in
  let ts : nat -> QcF := fun i => nth i [q 1 1; q 1 2] (q 1 1) in
  let J : list QcF := [q 0 1; q 0 1] in
  wf 2 tn ts sd /\ wf 2 (zsz (sz2 img)) ss sd /\
  bufQ (isizes2 img)
    (itk_cindex 2 (vtab 2 tn) (vtab 2 ts) (vtab 2 sc) (tab 2 2 sd) (zvec (isizes2 img)) (vtab 2 ss) (vtab 2 sc) (tab 2 2 sd) J) /\
  veqb (itk_cindex (K:=QcF) 2 (vtab 2 tn) (vtab 2 ts) (vtab 2 sc) (tab 2 2 sd) (zvec (isizes2 img)) (vtab 2 ss) (vtab 2 sc) (tab 2 2 sd) J)
       [q (-1) 4; q (-1) 4] = true /\
  qeqb (qdp_sample2 Linear (PadMode PBorder) false (vtab 2 tn) (vtab 2 ts) (vtab 2 sc) (tab 2 2 sd) (vtab 2 ss) (vtab 2 sc) (tab 2 2 sd) img J)
       (q 1 1) = true /\
  qeqb (qitk_resample2 Linear (q 0 1) (vtab 2 tn) (vtab 2 ts) (vtab 2 sc) (tab 2 2 sd) (vtab 2 ss) (vtab 2 sc) (tab 2 2 sd) img J)
       (q 1 1) = true /\
  qeqb (qdp_sample2 Linear (PadMode PZeros) false (vtab 2 tn) (vtab 2 ts) (vtab 2 sc) (tab 2 2 sd) (vtab 2 ss) (vtab 2 sc) (tab 2 2 sd) img J)
       (q 9 16) = true.
Proof.
  intros img ss sc sd tn ts J.
  assert (W1 : wf (K:=QcF) 2 tn ts sd).
  { repeat split; try (apply meqb_eq; vm_compute; reflexivity);
      intros [|[|i]] Hi; try lia; apply qeqb_neq; vm_compute; reflexivity. }
  assert (W2 : wf (K:=QcF) 2 (zsz (sz2 img)) ss sd).
  { repeat split; try (apply meqb_eq; vm_compute; reflexivity);
      intros [|[|i]] Hi; try lia; apply qeqb_neq; vm_compute; reflexivity. }
  split; [exact W1|]. split; [exact W2|].
  split.
  - assert (E : itk_cindex (K:=QcF) 2 (vtab 2 tn) (vtab 2 ts) (vtab 2 sc) (tab 2 2 sd) (zvec (isizes2 img)) (vtab 2 ss) (vtab 2 sc) (tab 2 2 sd) J
                = [q (-1) 4; q (-1) 4]) by (apply veqb_eq; vm_compute; reflexivity).
    rewrite E. repeat constructor; vm_compute; discriminate.
  - repeat split; vm_compute; reflexivity.
Qed.

Print Assumptions C05_sample_matches_itk_border2_Qc.
Print Assumptions C05_sample_matches_itk_border3_Qc.
Print Assumptions C05_sample_matches_itk2_Qc.
Print Assumptions C05_sample_matches_itk3_Qc.
Print Assumptions C05_module_matches_itk3_Qc.
Print Assumptions C05_sample_self_id_Qc.

From Coq Require Import String.
(* 9. the generated branch tables of core.image.grid_sample: which torch padding / interpolation mode every
      accepted argument selects (a scalar or "constant" samples with zeros padding), default rounding *)
Theorem C05_grid_sample_tables :
  gen_gs_padtable = [("none", "zeros"); ("zeros", "zeros"); ("border", "border"); ("reflection", "reflection");
                     ("enum_zeros", "zeros"); ("enum_border", "border"); ("enum_reflect", "reflection");
                     ("enum_constant", "zeros"); ("constant", "zeros"); ("zero_int", "zeros"); ("zero_float", "zeros")]%string
  /\ gen_gs_modetable = [("none", "bilinear", "bilinear"); ("linear", "bilinear", "bilinear"); ("nearest", "nearest", "nearest");
                         ("nn", "nearest", "nearest"); ("enum_linear", "bilinear", "bilinear");
                         ("enum_nearest", "nearest", "nearest")]%string
  /\ gen_bs_round_decimals = [12%Z].
Proof. exact gs_tables. Qed.

(* non-vacuity: a 3x2 image on an anisotropic grid, target grid rotated by 90 degrees, shifted and of
   different spacing; target sample (0,1) lies inside the source field of view (hypotheses of theorem 8
   hold), its ITK index is the non-integral point (1/2, 0), and the common value 3/2 differs from every
   stored sample *)
Example C05_nonvacuous :
  let img : list (list QcF) := [[q 1 1; q 2 1; q 4 1]; [q 3 1; q 7 1; q 5 1]] in
  let ss : nat -> QcF := fun i => nth i [q 2 1; q 1 2] (q 1 1) in
  let sc : nat -> QcF := fun i => nth i [q 0 1; q 0 1] (q 0 1) in
  let sd : nat -> nat -> QcF := fun i j => nth j (nth i [[q 1 1; q 0 1]; [q 0 1; q 1 1]] []) (q 0 1) in
  let tn : nat -> QcF := fun i => nth i [q 2 1; q 2 1] (q 1 1) in
  let ts : nat -> QcF := fun i => nth i [q 1 2; q 2 1] (q 1 1) in
  let tc : nat -> QcF := fun i => nth i [q 0 1; q 0 1] (q 0 1) in
  let td : nat -> nat -> QcF := fun i j => nth j (nth i [[q 0 1; q (-1) 1]; [q 1 1; q 0 1]] []) (q 0 1) in
  let J : list QcF := [q 0 1; q 1 1] in
  wf 2 tn ts td /\ wf 2 (zsz (sz2 img)) ss sd /\ rect2 (zlen (hd [] img)) img /\
  okQ Linear (isizes2 img)
    (itk_cindex 2 (vtab 2 tn) (vtab 2 ts) (vtab 2 tc) (tab 2 2 td) (zvec (isizes2 img)) (vtab 2 ss) (vtab 2 sc) (tab 2 2 sd) J) /\
  veqb (itk_cindex (K:=QcF) 2 (vtab 2 tn) (vtab 2 ts) (vtab 2 tc) (tab 2 2 td) (zvec (isizes2 img)) (vtab 2 ss) (vtab 2 sc) (tab 2 2 sd) J)
       [q 1 2; q 0 1] = true /\
  qeqb (qdp_sample2 Linear (PadConst (K:=QcF) (q 9 1)) false (vtab 2 tn) (vtab 2 ts) (vtab 2 tc) (tab 2 2 td) (vtab 2 ss) (vtab 2 sc) (tab 2 2 sd) img J)
       (q 3 2) = true.
Proof.
  intros img ss sc sd tn ts tc td J.
  assert (W1 : wf (K:=QcF) 2 tn ts td).
  { repeat split; try (apply meqb_eq; vm_compute; reflexivity);
      intros [|[|i]] Hi; try lia; apply qeqb_neq; vm_compute; reflexivity. }
  assert (W2 : wf (K:=QcF) 2 (zsz (sz2 img)) ss sd).
  { repeat split; try (apply meqb_eq; vm_compute; reflexivity);
      intros [|[|i]] Hi; try lia; apply qeqb_neq; vm_compute; reflexivity. }
  split; [exact W1|]. split; [exact W2|]. split; [repeat constructor|].
  split.
  - assert (E : itk_cindex (K:=QcF) 2 (vtab 2 tn) (vtab 2 ts) (vtab 2 tc) (tab 2 2 td) (zvec (isizes2 img)) (vtab 2 ss) (vtab 2 sc) (tab 2 2 sd) J
                = [q 1 2; q 0 1]) by (apply veqb_eq; vm_compute; reflexivity).
    rewrite E. repeat constructor; vm_compute; discriminate.
  - split; vm_compute; reflexivity.
Qed.
