(* Chains of per-axis image operations (C04): every data-side operation of Model/ImageOps.v is a list of per-axis steps;
   this file defines the step language, how a step transports the coefficients of an index-affine image, which output
   indices are "valid" (read only indices where the input is known to be affine, inside the image), and the index map of
   a step.  Definitions only. *)
From Coq Require Import ZArith List Bool.
From DV Require Import Base.Field Base.LinAlg Model.Enums Model.Sampler Model.ImageOps Gen.GridT.
Import ListNotations.
Local Open Scope fld_scope.

Section Chain.
Context {K : fld}.
Variable floorK : K -> Z.

Inductive axstep :=
| SCrop (c : K) (ax : nat) (lo hi : Z)                         (* crop / pad with constant c *)
| SInterp (pad : padmode) (ax : nat) (al be : K) (m : Z)       (* linear interpolation at source index al * j + be *)
| SPool (ax : nat) (k : Z)                                      (* window mean, stride = window *)
| SCorr (ax : nat) (w : list K).                                (* correlation with a stencil, zero "same" padding *)

Definition step_axis (s : axstep) : nat :=
  match s with SCrop _ ax _ _ => ax | SInterp _ ax _ _ _ => ax | SPool ax _ => ax | SCorr ax _ => ax end.
Definition run_step (s : axstep) (im : nimg (K:=K)) : nimg (K:=K) :=
  match s with
  | SCrop c ax lo hi => crop_ax c ax lo hi im
  | SInterp pad ax al be m => interp_ax floorK pad ax (fun j => al * of_Z j + be) m im
  | SPool ax k => pool_ax ax k false im
  | SCorr ax w => corr_ax ax w im
  end.
Fixpoint run_steps (l : list axstep) (im : nimg (K:=K)) : nimg (K:=K) :=
  match l with [] => im | s :: r => run_steps r (run_step s im) end.

(* source index (continuous) of output index x along the step's axis: x -> al x + be *)
Definition step_map (s : axstep) : K * K :=
  match s with
  | SCrop _ _ lo _ => (1, of_Z lo)
  | SInterp _ _ al be _ => (al, be)
  | SPool _ k => (of_Z k, (of_Z k - 1) / (1 + 1))
  | SCorr _ _ => (1, 0)
  end.
(* coefficients (a, b) of the index-affine image after the step *)
Definition step_coef (s : axstep) (ab : list K * K) : list K * K :=
  let '(a, b) := ab in let ax := step_axis s in let '(al, be) := step_map s in
  (upd ax (nth ax a 0 * al) a, b + nth ax a 0 * be).
Fixpoint steps_coef (l : list axstep) (ab : list K * K) : list K * K :=
  match l with [] => ab | s :: r => steps_coef r (step_coef s ab) end.
(* the index map on continuous index vectors, and its composition along a chain (output index -> index of the ORIGINAL image) *)
Definition step_phi (s : axstep) (X : list K) : list K :=
  let ax := step_axis s in let '(al, be) := step_map s in upd ax (al * nth ax X 0 + be) X.
Fixpoint steps_phi (l : list axstep) (X : list K) : list K :=
  match l with [] => X | s :: r => step_phi s (steps_phi r X) end.

(* J is valid after the step: everything the step reads for J lies inside the image and in V *)
Definition step_valid (s : axstep) (shape : list Z) (V : list Z -> Prop) (J : list Z) : Prop :=
  match s with
  | SCrop _ ax lo _ => V (upd ax (zget J ax + lo)%Z J)
  | SInterp _ ax al be _ =>
      let x := al * of_Z (zget J ax) + be in let i := floorK x in
      V (upd ax i J) /\ (x - of_Z i = 0 \/ V (upd ax (i + 1)%Z J))
  | SPool ax k => (0 < k)%Z /\ (0 <= zget J ax)%Z /\ ((zget J ax + 1) * k <= zget shape ax)%Z /\
                  forall d, (0 <= d < k)%Z -> V (upd ax (zget J ax * k + d)%Z J)
  | SCorr ax w =>
      let r := (zlen w / 2)%Z in
      vsum w = 1 /\ vsum (map (fun p => fst p * (of_Z (snd p) - of_Z r)) (combine w (zseq (zlen w)))) = 0 /\
      forall p, (0 <= p < zlen w)%Z -> V (upd ax (zget J ax + p - r)%Z J)
  end.
Fixpoint steps_valid (l : list axstep) (im : nimg (K:=K)) (V : list Z -> Prop) : list Z -> Prop :=
  match l with [] => V | s :: r => steps_valid r (run_step s im) (step_valid s (ishape im) V) end.
Definition steps_ok (D : nat) (l : list axstep) : Prop := Forall (fun s => (step_axis s < D)%nat) l.

(* the image agrees with the index-affine function (a, b) on V, and V lies inside the image *)
Definition affine_on (D : nat) (im : nimg (K:=K)) (ab : list K * K) (V : list Z -> Prop) : Prop :=
  length (fst ab) = D /\ length (ishape im) = D /\
  forall J, length J = D -> V J -> in_box (ishape im) J = true /\ ival im J = aff (fst ab) (snd ab) J.
(* validity of an output index of a step: inside the output image, and everything the step reads is valid; along a chain *)
Definition valid_after (s : axstep) (im : nimg (K:=K)) (V : list Z -> Prop) (J : list Z) : Prop :=
  in_box (ishape (run_step s im)) J = true /\ step_valid s (ishape im) V J.
Fixpoint valid_chain (l : list axstep) (im : nimg (K:=K)) (V : list Z -> Prop) : list Z -> Prop :=
  match l with [] => V | s :: r => valid_chain r (run_step s im) (valid_after s im V) end.
(* images with the same shape and the same values (value functions need not be syntactically equal) *)
Definition img_eq (im im' : nimg (K:=K)) : Prop := ishape im = ishape im' /\ forall J, ival im J = ival im' J.
End Chain.

Section ChainWorld.
Context {K : fld}.
(* the grid (N', S', C', same direction Dm) is in lock-step with the grid (N, S, C, Dm) along the chain l: it puts every
   (continuous) index X where the old grid puts the chain's source index of X *)
Definition lock (D : nat) (N S C : list K) (Dm : list (list K)) (N' S' C' : list K) (l : list (axstep (K:=K))) : Prop :=
  forall X, length X = D ->
  Gen.GridT.gen_pts D Model.Enums.GRID Model.Enums.WORLD N' S' C' Dm X
  = Gen.GridT.gen_pts D Model.Enums.GRID Model.Enums.WORLD N S C Dm (steps_phi l X).
(* per-axis steps of the concrete operations (axis 0 = x first) *)
Definition rsz_coef (ac : bool) (n m : K) : K * K :=
  if ac then ((n - 1) / (m - 1), 0) else (n / m, n / ((1 + 1) * m) - 1 / (1 + 1)).
Definition resize_steps (D : nat) (ac : bool) (n m : nat -> Z) : list (axstep (K:=K)) :=
  map (fun k => let '(al, be) := rsz_coef ac (of_Z (n k)) (of_Z (m k)) in SInterp PBorder k al be (m k)) (seq 0 D).
Definition rsm_coef (n m s s' : K) : K * K := (s' / s, (n - 1) / (1 + 1) - (m - 1) / (1 + 1) * s' / s).
Definition resample_steps (D : nat) (n m : nat -> Z) (s s' : nat -> K) : list (axstep (K:=K)) :=
  map (fun k => let '(al, be) := rsm_coef (of_Z (n k)) (of_Z (m k)) (s k) (s' k) in SInterp PZeros k al be (m k)) (seq 0 D).
Definition crop_steps (D : nat) (c : K) (lo hi : nat -> Z) : list (axstep (K:=K)) :=
  map (fun k => SCrop c k (lo k) (hi k)) (seq 0 D).
Definition pool_steps (D : nat) (ks : nat -> Z) : list (axstep (K:=K)) := map (fun k => SPool k (ks k)) (seq 0 D).
End ChainWorld.
