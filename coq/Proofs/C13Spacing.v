(* logv hands the derivatives of its BCH brackets the distance of neighbouring grid points of ITS OWN convention:
   2/(n-1) for align_corners, 2/n otherwise = coordinate of sample 1 minus coordinate of sample 0 (Model/Lattice.v). *)
From Coq Require Import ZArith QArith List Bool.
From DV Require Import Model.Lattice Model.BCH Gen.FlowBCH.
Import ListNotations.
Local Open Scope Q_scope.

Definition spacing_ok (ac : bool) (n : Z) : bool :=
  Qeq_bool (gen_logv_bch_spacing ac n) (coord_spec ac (inject_Z n) 1 - coord_spec ac (inject_Z n) 0).
Lemma logv_spacing_is_grid_distance :
  forallb (fun n => spacing_ok true n && spacing_ok false n) [2; 3; 4; 5; 6; 7; 8; 9]%Z = true.
Proof. vm_compute. reflexivity. Qed.
Lemma logv_spacing_closed_form (ac : bool) (n : Z) : In n [2; 3; 4; 5; 6; 7; 8; 9]%Z ->
  gen_logv_bch_spacing ac n == (if ac then 2 / (inject_Z n - 1) else 2 / inject_Z n).
Proof.
  intro H. cbn [In] in H. destruct ac; repeat (destruct H as [<- | H]; [vm_compute; reflexivity|]); contradiction.
Qed.
