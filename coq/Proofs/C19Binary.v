(* C19 -- elementwise operations with two tensor operands (batch o batch, batch o plain, plain o batch; ImageBatch and
   FlowFields in any combination; broadcasting): a typed result carries the grids of the first typed operand, entry i holds
   entry i (or the only entry) of every operand. *)
From Coq Require Import List ZArith Bool Arith Lia.
From DV Require Import Model.Enums Model.Batch Model.BatchSpec Proofs.C19Base Proofs.C19Generic Proofs.C19Flow.
Import ListNotations.
Local Arguments ndim : simpl never.

Section Binary.
Variable gshape : gid -> shape.
Variable gaxes : gid -> axes.

Definition nonsingle (x : tval) : Prop := is_single (t_kind x) = false.

Lemma to_batch_nonsingle x : nonsingle x -> to_batch x = x.
Proof. unfold nonsingle, to_batch. destruct x as [s k]; destruct k; cbn; congruence. Qed.

Lemma choose_disp_two a b :
  nonsingle a -> nonsingle b ->
  choose_disp (map t_kind [a; b]) =
  if is_flow (t_kind a) || is_flow (t_kind b) then DFlowFields
  else if is_batch (t_kind a) || is_batch (t_kind b) then DImageBatch else DNoDisp.
Proof.
  unfold nonsingle. destruct a as [sa ka], b as [sb kb]; cbn [t_kind map].
  destruct ka as [|[xa|] ga|fa ga]; destruct kb as [|[xb|] gb|fb gb]; cbn; intros; try congruence; reflexivity.
Qed.

(* what tf_axes returns when it succeeds: the common axes of all flow operands *)
Lemma tf_axes_two a b axo :
  tf_axes (map t_kind [a; b]) = Some axo ->
  (forall x ax, In x [a; b] -> kind_axes (t_kind x) = Some ax -> axo = Some ax)
  /\ (forall ax, axo = Some ax -> kind_axes (t_kind a) = Some ax \/ kind_axes (t_kind b) = Some ax).
Proof.
  unfold tf_axes. cbn [map flat_map app].
  destruct (kind_axes (t_kind a)) as [xa|] eqn:Ea; destruct (kind_axes (t_kind b)) as [xb|] eqn:Eb; cbn [app forallb].
  - destruct (axes_eqb xa xb) eqn:E; cbn; [|discriminate]. intros H; injection H as <-.
    assert (xa = xb) by (destruct xa, xb; try discriminate E; reflexivity). subst xb.
    split; [|intros ax H; left; congruence]. intros x ax [<-|[<-|[]]] Hx; congruence.
  - intros H; injection H as <-. split; [|intros ax H; left; congruence]. intros x ax [<-|[<-|[]]] Hx; congruence.
  - intros H; injection H as <-. split; [|intros ax H; right; congruence]. intros x ax [<-|[<-|[]]] Hx; congruence.
  - intros H; injection H as <-. split; [|discriminate]. intros x ax [<-|[<-|[]]] Hx; congruence.
Qed.

Lemma nth_error_two {A} (a b : A) f x : nth_error [a; b] f = Some x -> (f = 0 /\ x = a) \/ (f = 1 /\ x = b).
Proof. destruct f as [|[|f]]; cbn; [intros H; injection H as <-; auto|intros H; injection H as <-; auto|destruct f; discriminate]. Qed.

Definition res_any (flowcls : bool) (sh : shape) (gs : list gid) (axo : option axes) : kres :=
  if flowcls then res_flow gshape sh (Some gs) axo else res_batch gshape sh (Some gs).

Lemma res_any_typed flowcls sh gs axo fl gs' :
  res_any flowcls sh gs axo = KOk (TBatch fl gs') ->
  (fl = None \/ fl = axo) /\ gs' = gs /\ length gs = nent sh /\ 4 <= ndim sh
  /\ Forall (fun g => gshape g = skipn 2 sh) gs
  /\ (forall g0 r, gs = g0 :: r -> ndim sh = length (gshape g0) + 2).
Proof.
  unfold res_any. destruct flowcls.
  - destruct axo as [ax|].
    + intros H. apply res_flow_typed in H. destruct H as (A & B & C & D & E & F). repeat split; auto.
    + intros H. assert (H' : res_batch gshape sh (Some gs) = KOk (TBatch fl gs')).
      { unfold res_flow in H. destruct gs; exact H. }
      pose proof H' as H2. apply res_batch_typed in H'. destruct H' as (-> & -> & C & D & E). repeat split; auto.
      intros g0 r ->. eapply res_batch_typed_ndim; eauto.
  - intros H. pose proof H as H2. apply res_batch_typed in H. destruct H as (-> & -> & C & D & E). repeat split; auto.
    intros g0 r ->. eapply res_batch_typed_ndim; eauto.
Qed.
Lemma res_any_not_single flowcls sh gs axo fl g : res_any flowcls sh gs axo = KOk (TSingle fl g) -> False.
Proof. unfold res_any. destruct flowcls; [apply res_flow_not_single|apply res_batch_not_single]. Qed.

(* provenance of entry i of the broadcast result with respect to an operand of the same number of dimensions *)
Lemma bin_src_same j sj r i : ndim sj = ndim r -> bin_src j sj r i = [(j, if nent sj =? 1 then 0 else i)].
Proof. intros H. unfold bin_src. now rewrite H, Nat.eqb_refl. Qed.

Lemma binary_core a b r flowcls f xf flf gf axo :
  nonsingle a -> nonsingle b -> wf_val gshape a -> wf_val gshape b ->
  nth_error [a; b] f = Some xf -> t_kind xf = TBatch flf gf ->
  (forall j x, nth_error [a; b] j = Some x -> is_batch (t_kind x) = true -> ndim (t_shape x) = ndim (t_shape xf)) ->
  (forall ax, axo = Some ax -> kind_axes (t_kind a) = Some ax \/ kind_axes (t_kind b) = Some ax) ->
  res_sound gshape [a; b]
    (one_kind (mkD r (map (fun i => bin_src 0 (t_shape a) r i ++ bin_src 1 (t_shape b) r i) (seq 0 (nent r))))
              (res_any flowcls r gf axo)).
Proof.
  intros Hna Hnb Hwa Hwb Hf Hkf Hsame Haxes.
  assert (Hwf : wf_val gshape xf) by (destruct (nth_error_two _ _ _ _ Hf) as [[_ ->]|[_ ->]]; assumption).
  unfold wf_val in Hwf; rewrite Hkf in Hwf; destruct Hwf as (HLf & H4f & HFf).
  unfold one_kind. destruct (res_any flowcls r gf axo) as [e|k] eqn:ER; [exact I|].
  destruct k as [|fl' gs'|fl' g']; unfold res_sound, out_sound; cbn [v_kind v_shape v_src d_shape d_src];
    [exact I| |exfalso; eapply res_any_not_single; eauto].
  apply res_any_typed in ER. destruct ER as (Hfl & -> & HN & H4 & HF & Hnd0).
  split; [unfold wf_val, val_of; cbn [t_kind t_shape v_shape v_kind]; repeat split; auto|].
  intros i Hi.
  assert (Hndr : ndim r = ndim (t_shape xf)).
  { destruct gf as [|g0 rr]; [cbn in Hi; lia|]. specialize (Hnd0 g0 rr eq_refl).
    inversion HFf as [|? ? Hg0 _]; subst. rewrite Hg0, skipn_length in Hnd0. unfold ndim in *. lia. }
  assert (Hi' : i < nent r) by lia.
  rewrite nth_map_seq by exact Hi'. cbn [Nat.add].
  assert (Hsrc : forall j x, nth_error [a; b] j = Some x -> is_batch (t_kind x) = true ->
             bin_src j (t_shape x) r i = [(j, if nent (t_shape x) =? 1 then 0 else i)]).
  { intros j x Hj Hb. apply bin_src_same. rewrite (Hsame j x Hj Hb). symmetry. exact Hndr. }
  assert (Hfst0 : forall s, In s (bin_src 0 (t_shape a) r i) -> fst s = 0).
  { intros s Hs. unfold bin_src in Hs. destruct (ndim (t_shape a) =? ndim r); [destruct Hs as [<-|[]]; reflexivity|].
    unfold all_src in Hs. apply in_map_iff in Hs. destruct Hs as (e & <- & _). reflexivity. }
  assert (Hfst1 : forall s, In s (bin_src 1 (t_shape b) r i) -> fst s = 1).
  { intros s Hs. unfold bin_src in Hs. destruct (ndim (t_shape b) =? ndim r); [destruct Hs as [<-|[]]; reflexivity|].
    unfold all_src in Hs. apply in_map_iff in Hs. destruct Hs as (e & <- & _). reflexivity. }
  split; [|split].
  - (* coherent *)
    intros p q Hp Hq Hpq Hbatch. unfold arg_is_batch in Hbatch.
    destruct (nth_error [a; b] (fst p)) as [x|] eqn:Ex; [|destruct Hbatch].
    assert (Hin : forall s, In s (bin_src 0 (t_shape a) r i ++ bin_src 1 (t_shape b) r i) -> fst s = fst p ->
                    snd s = if nent (t_shape x) =? 1 then 0 else i).
    { intros s Hs Hfs. apply in_app_iff in Hs. destruct Hs as [Hs|Hs].
      - pose proof (Hfst0 s Hs) as H0. assert (Hp0 : fst p = 0) by congruence. rewrite Hp0 in Ex. cbn in Ex. injection Ex as <-.
        rewrite (Hsrc 0 a eq_refl Hbatch) in Hs. destruct Hs as [<-|[]]. reflexivity.
      - pose proof (Hfst1 s Hs) as H1. assert (Hp1 : fst p = 1) by congruence. rewrite Hp1 in Ex. cbn in Ex. injection Ex as <-.
        rewrite (Hsrc 1 b eq_refl Hbatch) in Hs. destruct Hs as [<-|[]]. reflexivity. }
    rewrite (Hin p Hp eq_refl). rewrite (Hin q Hq (eq_sym Hpq)). reflexivity.
  - (* the grid of the first typed operand *)
    assert (Hbf : is_batch (t_kind xf) = true) by (rewrite Hkf; reflexivity).
    exists (f, if nent (t_shape xf) =? 1 then 0 else i). split.
    + apply in_app_iff. destruct (nth_error_two _ _ _ _ Hf) as [[-> ->]|[-> ->]].
      * left. rewrite (Hsrc 0 a eq_refl Hbf). left; reflexivity.
      * right. rewrite (Hsrc 1 b eq_refl Hbf). left; reflexivity.
    + unfold entry_grid. cbn [fst snd]. rewrite Hf, Hkf.
      destruct (nent (t_shape xf) =? 1) eqn:E1.
      * apply Nat.eqb_eq in E1. assert (i = 0) by lia. subst i. apply nth_error_nth'. lia.
      * apply nth_error_nth'. exact Hi.
  - (* axes *)
    intros ax' Hax'. destruct Hfl as [-> | ->]; [discriminate Hax'|].
    assert (Hex : exists j x, nth_error [a; b] j = Some x /\ kind_axes (t_kind x) = Some ax').
    { destruct (Haxes ax' Hax') as [H|H]; [exists 0, a|exists 1, b]; split; auto. }
    destruct Hex as (j & x & Hj & Hkx).
    assert (Hbx : is_batch (t_kind x) = true).
    { destruct (t_kind x) as [|fx gx|fx gx] eqn:Ekx; cbn in Hkx; try discriminate; [reflexivity|].
      exfalso. destruct (nth_error_two _ _ _ _ Hj) as [[_ ->]|[_ ->]]; unfold nonsingle in *; rewrite Ekx in *; discriminate. }
    exists (j, if nent (t_shape x) =? 1 then 0 else i). split.
    + apply in_app_iff. destruct (nth_error_two _ _ _ _ Hj) as [[-> ->]|[-> ->]].
      * left. rewrite (Hsrc 0 a eq_refl Hbx). left; reflexivity.
      * right. rewrite (Hsrc 1 b eq_refl Hbx). left; reflexivity.
    + unfold arg_axes. cbn [fst]. rewrite Hj. exact Hkx.
Qed.

Theorem binary_sound a b :
  nonsingle a -> nonsingle b -> wf_val gshape a -> wf_val gshape b ->
  (is_batch (t_kind a) = true -> is_batch (t_kind b) = true -> ndim (t_shape a) = ndim (t_shape b)) ->
  res_sound gshape [a; b] (run_op gshape gaxes OBinary [a; b]).
Proof.
  intros Hna Hnb Hwa Hwb Hnd.
  unfold run_op. rewrite (choose_disp_two a b Hna Hnb).
  (* the first typed operand and what the dispatcher takes from it *)
  assert (Hfirst : (is_batch (t_kind a) || is_batch (t_kind b)) = true ->
            exists f xf flf gf, nth_error [a; b] f = Some xf /\ t_kind xf = TBatch flf gf
              /\ tf_grid_batch OBinary 0 (hd 0 (flat_map (fun x => match t_kind x with TPlain => [] | _ => [ndim (t_shape x)] end) [a; b]))
                                (map t_kind [a; b]) = GFlat gf
              /\ (forall j x, nth_error [a; b] j = Some x -> is_batch (t_kind x) = true -> ndim (t_shape x) = ndim (t_shape xf))).
  { intros Hb. destruct (t_kind a) as [|fla ga|fla ga] eqn:Eka.
    - destruct (t_kind b) as [|flb gb|flb gb] eqn:Ekb; [discriminate Hb| |unfold nonsingle in Hnb; rewrite Ekb in Hnb; discriminate].
      exists 1, b, flb, gb. repeat split; auto.
      + unfold tf_grid_batch. cbn [map flat_map app]. rewrite Eka, Ekb. reflexivity.
      + intros j x Hj Hbx. destruct (nth_error_two _ _ _ _ Hj) as [[_ ->]|[_ ->]]; [rewrite Eka in Hbx; discriminate|reflexivity].
    - exists 0, a, fla, ga. repeat split; auto.
      + unfold tf_grid_batch. cbn [map flat_map app]. rewrite Eka. destruct (t_kind b); reflexivity.
      + intros j x Hj Hbx. destruct (nth_error_two _ _ _ _ Hj) as [[_ ->]|[_ ->]]; [reflexivity|].
        symmetry. apply Hnd; [reflexivity|exact Hbx].
    - unfold nonsingle in Hna; rewrite Eka in Hna; discriminate. }
  assert (Hflowbatch : (is_flow (t_kind a) || is_flow (t_kind b)) = true -> (is_batch (t_kind a) || is_batch (t_kind b)) = true).
  { unfold nonsingle in *. destruct (t_kind a) as [|[?|] ?|[?|] ?]; destruct (t_kind b) as [|[?|] ?|[?|] ?]; cbn in *; congruence. }
  destruct (is_flow (t_kind a) || is_flow (t_kind b)) eqn:Efl;
    [|destruct (is_batch (t_kind a) || is_batch (t_kind b)) eqn:Eba].
  - (* FlowFields.__torch_function__ *)
    destruct (Hfirst (Hflowbatch eq_refl)) as (f & xf & flf & gf & Hf & Hkf & Hgrid & Hsame).
    unfold dispatch_batch. cbn [kw_of]. rewrite Hgrid.
    cbn [data_sem map nth_shape nth t_shape].
    destruct (bcast (t_shape a) (t_shape b)) as [r|] eqn:Eb; [|exact I].
    match goal with |- context [tf_axes ?k] => destruct (tf_axes k) as [axo|] eqn:Eax end; [|exact I].
    destruct (tf_axes_two a b axo Eax) as (_ & Hsome). cbn [flat_of].
    exact (binary_core a b r true f xf flf gf axo Hna Hnb Hwa Hwb Hf Hkf Hsame Hsome).
  - (* ImageBatch.__torch_function__ *)
    destruct (Hfirst eq_refl) as (f & xf & flf & gf & Hf & Hkf & Hgrid & Hsame).
    assert (Htb : map to_batch [a; b] = [a; b]) by (cbn [map]; now rewrite (to_batch_nonsingle a Hna), (to_batch_nonsingle b Hnb)).
    unfold dispatch_batch. rewrite Htb. cbn [kw_of]. rewrite Hgrid.
    cbn [data_sem map nth_shape nth t_shape].
    destruct (bcast (t_shape a) (t_shape b)) as [r|] eqn:Eb; [|exact I].
    cbn [class_of flat_of].
    assert (Hnone : forall ax : axes, @None axes = Some ax -> kind_axes (t_kind a) = Some ax \/ kind_axes (t_kind b) = Some ax) by discriminate.
    exact (binary_core a b r false f xf flf gf None Hna Hnb Hwa Hwb Hf Hkf Hsame Hnone).
  - (* two plain tensors *)
    cbn [map data_sem nth_shape nth]. destruct (bcast (t_shape a) (t_shape b)); cbn; [unfold out_sound; cbn|]; exact I.
Qed.
End Binary.
