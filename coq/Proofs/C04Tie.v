(* C04: the data-side operations of Model/ImageOps.v (the ones executed against the implementation) ARE chains of per-axis
   steps (Model/ImageChain.v), so the chain theorems speak about them; chains of operations concatenate their steps. *)
From Coq Require Import ZArith List Field Ring Lia Bool.
From DV Require Import Base.Field Base.FieldFacts Base.LinAlg Base.Tactics Model.Enums Model.Sampler Model.ImageOps Model.ImageChain
  Proofs.C04Axis Proofs.C04World Proofs.C04Chain.
Import ListNotations.
Local Open Scope fld_scope.

Section C04Tie.
Variable K : fld.
Hypothesis Kf : is_field K.
Add Field KF_C04Tie : Kf.
Variable floorK : K -> Z.

(* images with the same shape and the same values (the value functions need not be syntactically equal) *)
Lemma img_eq_refl (im : nimg (K:=K)) : img_eq im im.
Proof. split; auto. Qed.
Lemma img_eq_trans (a b c : nimg (K:=K)) : img_eq a b -> img_eq b c -> img_eq a c.
Proof. intros [S1 V1] [S2 V2]. split; [congruence | intro J; now rewrite V1]. Qed.
Lemma img_eq_sym (a b : nimg (K:=K)) : img_eq a b -> img_eq b a.
Proof. intros [S1 V1]. split; [congruence | intro J; now rewrite V1]. Qed.

Lemma get_ax_ext pad ax (im im' : nimg (K:=K)) J i : img_eq im im' -> get_ax pad ax im J i = get_ax pad ax im' J i.
Proof. intros [S V]. unfold get_ax. rewrite S. destruct pad; rewrite ?V; reflexivity. Qed.

Lemma run_step_ext (s : axstep) (im im' : nimg (K:=K)) : img_eq im im' -> img_eq (run_step floorK s im) (run_step floorK s im').
Proof.
  intros E. pose proof E as [S V]. destruct s as [c ax lo hi | pad ax al be m | ax k | ax w]; cbn [run_step].
  - split; cbn [crop_ax ishape ival]; [now rewrite S | intro J; rewrite S, V; reflexivity].
  - split; cbn [interp_ax ishape ival]; [now rewrite S|]. intro J. destruct (cell floorK (al * of_Z (zget J ax) + be)) as [i t].
    now rewrite !(get_ax_ext pad ax im im' J _ E).
  - split; cbn [pool_ax ishape ival]; [now rewrite S|]. intro J. rewrite S. f_equal. f_equal. apply map_ext. intro d0. apply get_ax_ext; exact E.
  - split; cbn [corr_ax ishape ival]; [now rewrite S|]. intro J. f_equal. apply map_ext. intro p. f_equal. apply get_ax_ext; exact E.
Qed.
Lemma run_steps_ext (l : list axstep) (im im' : nimg (K:=K)) : img_eq im im' -> img_eq (run_steps floorK l im) (run_steps floorK l im').
Proof. revert im im'; induction l as [|s r IH]; intros im im' E; cbn [run_steps]; auto. apply IH, run_step_ext, E. Qed.

Lemma interp_ax_src_ext pad ax (src src' : Z -> K) m (im : nimg (K:=K)) :
  (forall j, src j = src' j) -> img_eq (interp_ax floorK pad ax src m im) (interp_ax floorK pad ax src' m im).
Proof. intro H. split; [reflexivity|]. intro J. cbn [interp_ax ival]. now rewrite H. Qed.

(* all_axes with a step per axis is the chain of those steps *)
Lemma fold_axes_steps (f : nat -> nimg (K:=K) -> nimg (K:=K)) (g : nat -> axstep) :
  (forall k im, f k im = run_step floorK (g k) im) ->
  forall D k0 im, fold_axes f k0 D im = run_steps floorK (map g (seq k0 D)) im.
Proof. intros H D. induction D as [|D IH]; intros k0 im; cbn [fold_axes seq map run_steps]; [reflexivity|]. now rewrite IH, H. Qed.

(* ---------- crop family: exact equalities ---------- *)
Lemma d_crop_steps (D : nat) (c : K) (num : list Z) (im : nimg (K:=K)) :
  d_crop D c num im = run_steps floorK (crop_steps D c (fun k => nth (2 * k) num 0%Z) (fun k => nth (2 * k + 1) num 0%Z)) im.
Proof. unfold d_crop, all_axes, crop_steps. apply fold_axes_steps. reflexivity. Qed.
Lemma d_pad_steps (D : nat) (c : K) (num : list Z) (im : nimg (K:=K)) :
  d_pad D c num im = run_steps floorK (crop_steps D c (fun k => nth (2 * k) (map Z.opp num) 0%Z) (fun k => nth (2 * k + 1) (map Z.opp num) 0%Z)) im.
Proof. unfold d_pad. apply d_crop_steps. Qed.
Lemma d_pool_steps (D : nat) (ks : list Z) (im : nimg (K:=K)) :
  d_pool D ks false im = run_steps floorK (pool_steps D (fun k => nth k ks 1%Z)) im.
Proof. unfold d_pool, all_axes, pool_steps. apply fold_axes_steps. reflexivity. Qed.
Lemma d_narrow_steps (k : nat) (start len : Z) (im : nimg (K:=K)) :
  d_narrow k start len im = run_steps floorK [SCrop 0 k start (zget (ishape im) k - start - len)] im.
Proof. reflexivity. Qed.

(* the operations whose per-axis arguments are computed from the current shape: 2-D and 3-D *)
Lemma d_center_crop_steps2 (sx sy nx ny : Z) (im : nimg (K:=K)) : ishape im = [nx; ny] ->
  d_center_crop 2 [sx; sy] im
  = run_steps floorK (crop_steps 2 0 (fun k => nth k [(nx - Z.min nx sx) / 2; (ny - Z.min ny sy) / 2] 0)%Z
                        (fun k => nth k [nx - Z.min nx sx - (nx - Z.min nx sx) / 2; ny - Z.min ny sy - (ny - Z.min ny sy) / 2] 0)%Z) im.
Proof. intro Hs. unfold d_center_crop, all_axes. cbn [fold_axes crop_steps seq map run_steps run_step crop_ax ishape]. rewrite Hs. reflexivity. Qed.
Lemma d_center_crop_steps3 (sx sy sz nx ny nz : Z) (im : nimg (K:=K)) : ishape im = [nx; ny; nz] ->
  d_center_crop 3 [sx; sy; sz] im
  = run_steps floorK (crop_steps 3 0 (fun k => nth k [(nx - Z.min nx sx) / 2; (ny - Z.min ny sy) / 2; (nz - Z.min nz sz) / 2] 0)%Z
        (fun k => nth k [nx - Z.min nx sx - (nx - Z.min nx sx) / 2; ny - Z.min ny sy - (ny - Z.min ny sy) / 2;
                         nz - Z.min nz sz - (nz - Z.min nz sz) / 2] 0)%Z) im.
Proof. intro Hs. unfold d_center_crop, all_axes. cbn [fold_axes crop_steps seq map run_steps run_step crop_ax ishape]. rewrite Hs. reflexivity. Qed.
Lemma d_center_pad_steps2 (cv : K) (sx sy nx ny : Z) (im : nimg (K:=K)) : ishape im = [nx; ny] ->
  d_center_pad 2 cv [sx; sy] im
  = run_steps floorK (crop_steps 2 cv (fun k => nth k [- ((Z.max nx sx - nx) / 2); - ((Z.max ny sy - ny) / 2)] 0)%Z
                        (fun k => nth k [- ((Z.max nx sx - nx + 1) / 2); - ((Z.max ny sy - ny + 1) / 2)] 0)%Z) im.
Proof. intro Hs. unfold d_center_pad, all_axes. cbn [fold_axes crop_steps seq map run_steps run_step crop_ax ishape]. rewrite Hs. reflexivity. Qed.
Lemma d_center_pad_steps3 (cv : K) (sx sy sz nx ny nz : Z) (im : nimg (K:=K)) : ishape im = [nx; ny; nz] ->
  d_center_pad 3 cv [sx; sy; sz] im
  = run_steps floorK (crop_steps 3 cv (fun k => nth k [- ((Z.max nx sx - nx) / 2); - ((Z.max ny sy - ny) / 2); - ((Z.max nz sz - nz) / 2)] 0)%Z
        (fun k => nth k [- ((Z.max nx sx - nx + 1) / 2); - ((Z.max ny sy - ny + 1) / 2); - ((Z.max nz sz - nz + 1) / 2)] 0)%Z) im.
Proof. intro Hs. unfold d_center_pad, all_axes. cbn [fold_axes crop_steps seq map run_steps run_step crop_ax ishape]. rewrite Hs. reflexivity. Qed.
Lemma d_roi_steps2 (cv : K) (x0 y0 wx wy nx ny : Z) (im : nimg (K:=K)) : ishape im = [nx; ny] ->
  d_roi 2 cv [x0; y0] [wx; wy] im
  = run_steps floorK (crop_steps 2 cv (fun k => nth k [x0; y0] 0%Z) (fun k => nth k [nx - (x0 + wx); ny - (y0 + wy)] 0)%Z) im.
Proof. intro Hs. unfold d_roi, all_axes. cbn [fold_axes crop_steps seq map run_steps run_step crop_ax ishape]. rewrite Hs. reflexivity. Qed.
Lemma d_roi_steps3 (cv : K) (x0 y0 z0 wx wy wz nx ny nz : Z) (im : nimg (K:=K)) : ishape im = [nx; ny; nz] ->
  d_roi 3 cv [x0; y0; z0] [wx; wy; wz] im
  = run_steps floorK (crop_steps 3 cv (fun k => nth k [x0; y0; z0] 0%Z)
                        (fun k => nth k [nx - (x0 + wx); ny - (y0 + wy); nz - (z0 + wz)] 0)%Z) im.
Proof. intro Hs. unfold d_roi, all_axes. cbn [fold_axes crop_steps seq map run_steps run_step crop_ax ishape]. rewrite Hs. reflexivity. Qed.

(* ---------- interpolating operations: same shape and values as the chain of SInterp steps ---------- *)
Hypothesis Kc : char0 K.
Lemma interp_src_affine (ac : bool) (nz mz j : Z) : (of_Z mz - 1 : K) <> 0 -> (of_Z mz : K) <> 0 ->
  resize_src (K:=K) ac nz mz j = fst (rsz_coef ac (of_Z nz) (of_Z mz)) * of_Z j + snd (rsz_coef ac (of_Z nz) (of_Z mz)).
Proof.
  intros H1 H0. unfold resize_src. rewrite (interp_src_rsz K Kf Kc ac nz mz j H1 H0). unfold rsz, rsz_coef.
  assert (H2 : (1 + 1 : K) <> 0) by (apply (two_nz K Kf Kc)).
  destruct ac; cbn [fst snd]; field; auto.
Qed.
Lemma resample_src_affine (nz mz j : Z) (s s' : K) : s <> 0 ->
  resample_src (K:=K) nz mz s s' j = fst (rsm_coef (of_Z nz) (of_Z mz) s s') * of_Z j + snd (rsm_coef (of_Z nz) (of_Z mz) s s').
Proof.
  intro Hs. unfold resample_src, rsm_coef. assert (H2 : (1 + 1 : K) <> 0) by (apply (two_nz K Kf Kc)). cbn [fst snd]. field; auto.
Qed.

Lemma d_interp_steps2 (ac : bool) (m0 m1 nx ny : Z) (im : nimg (K:=K)) : ishape im = [nx; ny] ->
  eqshape [m0; m1] [nx; ny] = false ->
  (of_Z m0 - 1 : K) <> 0 -> (of_Z m0 : K) <> 0 -> (of_Z m1 - 1 : K) <> 0 -> (of_Z m1 : K) <> 0 ->
  img_eq (d_interp floorK 2 ac [m0; m1] im)
         (run_steps floorK (resize_steps 2 ac (fun k => nth k [nx; ny] 0%Z) (fun k => nth k [m0; m1] 0%Z)) im).
Proof.
  intros Hs Hne A1 A0 B1 B0. unfold d_interp. rewrite Hs, Hne. unfold all_axes.
  cbn [fold_axes resize_steps seq map run_steps nth]. rewrite Hs. cbn [zget nth].
  destruct (rsz_coef ac (of_Z nx) (of_Z m0)) as [al0 be0] eqn:E0. destruct (rsz_coef ac (of_Z ny) (of_Z m1)) as [al1 be1] eqn:E1.
  cbn [run_step].
  eapply img_eq_trans.
  - apply interp_ax_src_ext. intro j. cbn [interp_ax ishape]. rewrite Hs. cbn [upd zget nth].
    rewrite (interp_src_affine ac ny m1 j B1 B0), E1. reflexivity.
  - apply (run_step_ext (SInterp PBorder 1 al1 be1 m1)).
    apply interp_ax_src_ext. intro j. rewrite (interp_src_affine ac nx m0 j A1 A0), E0. reflexivity.
Qed.

Lemma d_resample_steps2 (s s' : nat -> K) (m0 m1 nx ny : Z) (im : nimg (K:=K)) : ishape im = [nx; ny] ->
  s 0%nat <> 0 -> s 1%nat <> 0 ->
  img_eq (d_resample floorK 2 (map s (seq 0 2)) (map s' (seq 0 2)) [m0; m1] im)
         (run_steps floorK (resample_steps 2 (fun k => nth k [nx; ny] 0%Z) (fun k => nth k [m0; m1] 0%Z) s s') im).
Proof.
  intros Hs S0 S1. unfold d_resample, all_axes.
  cbn [fold_axes resample_steps seq map run_steps nth]. rewrite Hs. cbn [zget nth].
  destruct (rsm_coef (of_Z nx) (of_Z m0) (s 0%nat) (s' 0%nat)) as [al0 be0] eqn:E0.
  destruct (rsm_coef (of_Z ny) (of_Z m1) (s 1%nat) (s' 1%nat)) as [al1 be1] eqn:E1.
  cbn [run_step].
  eapply img_eq_trans.
  - apply interp_ax_src_ext. intro j. cbn [interp_ax ishape]. rewrite Hs. cbn [upd zget nth].
    rewrite (resample_src_affine ny m1 j _ _ S1), E1. reflexivity.
  - apply (run_step_ext (SInterp PZeros 1 al1 be1 m1)).
    apply interp_ax_src_ext. intro j. rewrite (resample_src_affine nx m0 j _ _ S0), E0. reflexivity.
Qed.

Lemma d_interp_steps3 (ac : bool) (m0 m1 m2 nx ny nz : Z) (im : nimg (K:=K)) : ishape im = [nx; ny; nz] ->
  eqshape [m0; m1; m2] [nx; ny; nz] = false ->
  (of_Z m0 - 1 : K) <> 0 -> (of_Z m0 : K) <> 0 -> (of_Z m1 - 1 : K) <> 0 -> (of_Z m1 : K) <> 0 ->
  (of_Z m2 - 1 : K) <> 0 -> (of_Z m2 : K) <> 0 ->
  img_eq (d_interp floorK 3 ac [m0; m1; m2] im)
         (run_steps floorK (resize_steps 3 ac (fun k => nth k [nx; ny; nz] 0%Z) (fun k => nth k [m0; m1; m2] 0%Z)) im).
Proof.
  intros Hs Hne A1 A0 B1 B0 C1 C0. unfold d_interp. rewrite Hs, Hne. unfold all_axes.
  cbn [fold_axes resize_steps seq map run_steps nth]. rewrite Hs. cbn [zget nth].
  destruct (rsz_coef ac (of_Z nx) (of_Z m0)) as [al0 be0] eqn:E0. destruct (rsz_coef ac (of_Z ny) (of_Z m1)) as [al1 be1] eqn:E1.
  destruct (rsz_coef ac (of_Z nz) (of_Z m2)) as [al2 be2] eqn:E2.
  cbn [run_step].
  eapply img_eq_trans.
  - apply interp_ax_src_ext. intro j. cbn [interp_ax ishape]. rewrite Hs. cbn [upd zget nth].
    rewrite (interp_src_affine ac nz m2 j C1 C0), E2. reflexivity.
  - apply (run_step_ext (SInterp PBorder 2 al2 be2 m2)).
    eapply img_eq_trans.
    + apply interp_ax_src_ext. intro j. cbn [interp_ax ishape]. rewrite Hs. cbn [upd zget nth].
      rewrite (interp_src_affine ac ny m1 j B1 B0), E1. reflexivity.
    + apply (run_step_ext (SInterp PBorder 1 al1 be1 m1)).
      apply interp_ax_src_ext. intro j. rewrite (interp_src_affine ac nx m0 j A1 A0), E0. reflexivity.
Qed.
End C04Tie.
