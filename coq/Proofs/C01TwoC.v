From Coq Require Import ZArith List Field Ring Lia.
From DV Require Import Base.Field Base.FieldFacts Base.LinAlg Base.Tactics Model.Enums Model.Homog Model.Grid
  Gen.GridT Proofs.C01Grid.
Import ListNotations.
Local Open Scope fld_scope.

Section C01TwoC.
Variable K : fld.
Hypothesis Kf : is_field K.
Hypothesis Kc : char0 K.
Add Field KF_C01TwoC : Kf.

Let K1 := K1nz K Kf.
Let K2 := K2nz K Kf Kc.
Hint Resolve K1 K2 : core.
Ltac side := repeat split; auto.
Ltac len2 X H := destruct X as [|?x0 [|?x1 [|? ?]]]; try discriminate H; clear H.
Ltac len3 X H := destruct X as [|?x0 [|?x1 [|?x2 [|? ?]]]]; try discriminate H; clear H.
Ltac comps H :=
  let Hs := fresh "Hs" in let Hn := fresh "Hn" in let Hn1 := fresh "Hn1" in let Ho := fresh "Ho" in
  destruct H as (Hs & Hn & Hn1 & Ho);
  pose proof (Hs 0%nat ltac:(lia)); pose proof (Hs 1%nat ltac:(lia)); try pose proof (Hs 2%nat ltac:(lia));
  pose proof (Hn 0%nat ltac:(lia)); pose proof (Hn 1%nat ltac:(lia)); try pose proof (Hn 2%nat ltac:(lia));
  pose proof (Hn1 0%nat ltac:(lia)); pose proof (Hn1 1%nat ltac:(lia)); try pose proof (Hn1 2%nat ltac:(lia)).

Variable D : nat.
Hypothesis HD : D = 2%nat \/ D = 3%nat.

Lemma vecs2_linear_part (A B : axes) (n s c : nat -> K) (d : nat -> nat -> K)
      (n' s' c' : nat -> K) (d' : nat -> nat -> K) (X V : list K) :
  wf D n s d -> wf D n' s' d' -> length X = D -> length V = D ->
  vsub (gen_pts2 D A B (vtab D n) (vtab D s) (vtab D c) (tab D D d) (vtab D n') (vtab D s') (vtab D c') (tab D D d') (vadd X V))
       (gen_pts2 D A B (vtab D n) (vtab D s) (vtab D c) (tab D D d) (vtab D n') (vtab D s') (vtab D c') (tab D D d') X)
  = gen_vecs2 D A B (vtab D n) (vtab D s) (vtab D c) (tab D D d) (vtab D n') (vtab D s') (vtab D c') (tab D D d') V
  /\ form_vec D (gen_T2v_form A B)
       (gen_T2v D A B (vtab D n) (vtab D s) (vtab D c) (tab D D d) (vtab D n') (vtab D s') (vtab D c') (tab D D d')) V
     = gen_vecs2 D A B (vtab D n) (vtab D s) (vtab D c) (tab D D d) (vtab D n') (vtab D s') (vtab D c') (tab D D d') V.
Proof.
  intros H H' HX HV. destruct HD as [-> | ->]; [len2 X HX; len2 V HV | len3 X HX; len3 V HV]; comps H; comps H';
    destruct A, B; split; fcbv; list_eq; field; side.
Qed.

End C01TwoC.
