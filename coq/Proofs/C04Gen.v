(* C04: the traced ImageBatch methods (Gen/ImageOpsT.v) are the model's operations and keep data and grid in lock-step. *)
From Coq Require Import ZArith List Field Ring Lia Bool.
From DV Require Import Base.Field Base.FieldFacts Base.LinAlg Base.Tactics Model.Enums Model.Homog Model.Grid Model.Sampler
  Gen.GridT Gen.ImageOpsT Model.ImageOps Model.ImageOpsCheck Proofs.C01Grid Proofs.C04GenA.
Import ListNotations.
Local Open Scope fld_scope.

Section C04Gen.
Variable K : fld.
Hypothesis Kf : is_field K.
Hypothesis Kc : char0 K.
Add Field KF_C04Gen : Kf.

(* numerals are non-zero in characteristic 0 *)
Lemma nz1 : (of_Z 1 : K) <> 0. Proof. apply (of_Z_nz K Kf Kc); lia. Qed.
Lemma nz2 : (of_Z 2 : K) <> 0. Proof. apply (of_Z_nz K Kf Kc); lia. Qed.
Lemma nz3 : (of_Z 3 : K) <> 0. Proof. apply (of_Z_nz K Kf Kc); lia. Qed.
Lemma nz4 : (of_Z 4 : K) <> 0. Proof. apply (of_Z_nz K Kf Kc); lia. Qed.
Lemma nz5 : (of_Z 5 : K) <> 0. Proof. apply (of_Z_nz K Kf Kc); lia. Qed.
Lemma nz6 : (of_Z 6 : K) <> 0. Proof. apply (of_Z_nz K Kf Kc); lia. Qed.
Lemma nz7 : (of_Z 7 : K) <> 0. Proof. apply (of_Z_nz K Kf Kc); lia. Qed.
Lemma nz8 : (of_Z 8 : K) <> 0. Proof. apply (of_Z_nz K Kf Kc); lia. Qed.
Let K1 := K1nz K Kf.
Let K2 := K2nz K Kf Kc.
Lemma K4 : ((1 + 1) * (1 + 1) : K) <> 0.
Proof. intro E. apply K2. transitivity ((1 + 1) * (1 + 1) / (1 + 1) : K); [field; exact K2 | rewrite E; field; exact K2]. Qed.
Hint Resolve K1 K2 K4 nz1 nz2 nz3 nz4 nz5 nz6 nz7 nz8 : core.
Lemma rszZ_is_rsz (ac : bool) (n m : Z) (x : K) : rszZ ac n m x = rsz ac (of_Z n) (of_Z m) x.
Proof. unfold rszZ, rsz. rewrite !of_Z_sub by auto. reflexivity. Qed.
Lemma K3 : (1 + (1 + 1) : K) <> 0.
Proof. intro E. apply nz3. cbn [of_Z of_pos]. rewrite <- E. ring. Qed.
Lemma K3' : ((1 + 1) + 1 : K) <> 0.
Proof. intro E. apply nz3. cbn [of_Z of_pos]. rewrite <- E. ring. Qed.
Hint Resolve K3 K3' : core.
Lemma mul_nz (a b : K) : a <> 0 -> b <> 0 -> a * b <> 0.
Proof. intros Ha Hb E. apply Ha. transitivity (a * b / b); [field; exact Hb | rewrite E; field; exact Hb]. Qed.
(* closed numerals in any shape (as field leaves them, with unfolded projections): reify up to conversion *)
Ltac zofc e :=
  match e with
  | ?f ?a ?b => let _ := constr:(eq_refl : f = @fadd K) in let x := zofc a in let y := zofc b in constr:((x + y)%Z)
  | ?f ?a ?b => let _ := constr:(eq_refl : f = @fmul K) in let x := zofc a in let y := zofc b in constr:((x * y)%Z)
  | ?f ?a ?b => let _ := constr:(eq_refl : f = @fsub K) in let x := zofc a in let y := zofc b in constr:((x - y)%Z)
  | _ => let _ := constr:(eq_refl : e = @f1 K) in constr:(1%Z)
  | _ => let _ := constr:(eq_refl : e = @f0 K) in constr:(0%Z)
  end.
Ltac foldc e :=
  match e with
  | ?f ?a ?b => let _ := constr:(eq_refl : f = @fadd K) in let x := foldc a in let y := foldc b in constr:(@fadd K x y)
  | ?f ?a ?b => let _ := constr:(eq_refl : f = @fmul K) in let x := foldc a in let y := foldc b in constr:(@fmul K x y)
  | ?f ?a ?b => let _ := constr:(eq_refl : f = @fsub K) in let x := foldc a in let y := foldc b in constr:(@fsub K x y)
  | _ => let _ := constr:(eq_refl : e = @f1 K) in constr:(@f1 K)
  | _ => let _ := constr:(eq_refl : e = @f0 K) in constr:(@f0 K)
  end.
Ltac numnz :=
  match goal with
  | |- ?e <> _ =>
      let z := zofc e in let z' := eval compute in z in let e' := foldc e in
      change (e' <> 0);
      let E := fresh in
      assert (E : e' = of_Z (K:=K) z') by (cbn [of_Z of_pos]; ring);
      rewrite E; apply (of_Z_nz K Kf Kc); lia
  end.
Ltac side := repeat split; auto; try numnz.


Lemma ok_resize_default_holds : ok_resize_default K.
Proof. intros s c d. unfold interp_ok, gen_io_interp_resize_default. cbn [indices flat_map map zseq seq Z.to_nat Pos.to_nat Pos.iter_op Nat.add app Z.of_nat Pos.of_succ_nat Pos.succ].
  repeat constructor; fcbv; list_eq; field; side. Qed.
Lemma ok_resize_default_nac_holds : ok_resize_default_nac K.
Proof. intros s c d. unfold interp_ok, gen_io_interp_resize_default_nac. cbn [indices flat_map map zseq seq Z.to_nat Pos.to_nat Pos.iter_op Nat.add app Z.of_nat Pos.of_succ_nat Pos.succ].
  repeat constructor; fcbv; list_eq; field; side. Qed.
Lemma ok_resize_flag_holds : ok_resize_flag K.
Proof. intros s c d. unfold interp_ok, gen_io_interp_resize_flag. cbn [indices flat_map map zseq seq Z.to_nat Pos.to_nat Pos.iter_op Nat.add app Z.of_nat Pos.of_succ_nat Pos.succ].
  repeat constructor; fcbv; list_eq; field; side. Qed.
Lemma ok_down_default_holds : ok_down_default K.
Proof. intros s c d. unfold interp_ok, gen_io_interp_down_default. cbn [indices flat_map map zseq seq Z.to_nat Pos.to_nat Pos.iter_op Nat.add app Z.of_nat Pos.of_succ_nat Pos.succ].
  repeat constructor; fcbv; list_eq; field; side. Qed.
Lemma ok_down_default_nac_holds : ok_down_default_nac K.
Proof. intros s c d. unfold interp_ok, gen_io_interp_down_default_nac. cbn [indices flat_map map zseq seq Z.to_nat Pos.to_nat Pos.iter_op Nat.add app Z.of_nat Pos.of_succ_nat Pos.succ].
  repeat constructor; fcbv; list_eq; field; side. Qed.
Lemma ok_down_flag_holds : ok_down_flag K.
Proof. intros s c d. unfold interp_ok, gen_io_interp_down_flag. cbn [indices flat_map map zseq seq Z.to_nat Pos.to_nat Pos.iter_op Nat.add app Z.of_nat Pos.of_succ_nat Pos.succ].
  repeat constructor; fcbv; list_eq; field; side. Qed.
Lemma ok_down_dims_holds : ok_down_dims K.
Proof. intros s c d. unfold interp_ok, gen_io_interp_down_dims. cbn [indices flat_map map zseq seq Z.to_nat Pos.to_nat Pos.iter_op Nat.add app Z.of_nat Pos.of_succ_nat Pos.succ].
  repeat constructor; fcbv; list_eq; field; side. Qed.
Lemma ok_up_default_holds : ok_up_default K.
Proof. intros s c d. unfold interp_ok, gen_io_interp_up_default. cbn [indices flat_map map zseq seq Z.to_nat Pos.to_nat Pos.iter_op Nat.add app Z.of_nat Pos.of_succ_nat Pos.succ].
  repeat constructor; fcbv; list_eq; field; side. Qed.
Lemma ok_up_default_nac_holds : ok_up_default_nac K.
Proof. intros s c d. unfold interp_ok, gen_io_interp_up_default_nac. cbn [indices flat_map map zseq seq Z.to_nat Pos.to_nat Pos.iter_op Nat.add app Z.of_nat Pos.of_succ_nat Pos.succ].
  repeat constructor; fcbv; list_eq; field; side. Qed.
Lemma ok_up_flag_holds : ok_up_flag K.
Proof. intros s c d. unfold interp_ok, gen_io_interp_up_flag. cbn [indices flat_map map zseq seq Z.to_nat Pos.to_nat Pos.iter_op Nat.add app Z.of_nat Pos.of_succ_nat Pos.succ].
  repeat constructor; fcbv; list_eq; field; side. Qed.
Lemma ok_resize3_holds : ok_resize3 K.
Proof. intros s c d. unfold interp_ok, gen_io_interp_resize3.
  repeat constructor; fcbv; list_eq; field; side. Qed.

Lemma ok_down_neg_nac_holds : ok_down_neg_nac K.
Proof. intros s c d. unfold interp_ok, gen_io_interp_down_neg_nac. cbn [indices flat_map map zseq seq Z.to_nat Pos.to_nat Pos.iter_op Nat.add app Z.of_nat Pos.of_succ_nat Pos.succ].
  repeat constructor; fcbv; list_eq; field; side. Qed.
Lemma ok_down_neg_flag_holds : ok_down_neg_flag K.
Proof. intros s c d. unfold interp_ok, gen_io_interp_down_neg_flag. cbn [indices flat_map map zseq seq Z.to_nat Pos.to_nat Pos.iter_op Nat.add app Z.of_nat Pos.of_succ_nat Pos.succ].
  repeat constructor; fcbv; list_eq; field; side. Qed.

Lemma ok_up_fractional_holds : ok_up_fractional K.
Proof. intros s c d. unfold interp_ok, gen_io_interp_up_fractional. cbn [indices flat_map map zseq seq Z.to_nat Pos.to_nat Pos.iter_op Nat.add app Z.of_nat Pos.of_succ_nat Pos.succ].
  repeat constructor; fcbv; list_eq; field; side. Qed.
Lemma ok_up_fractional_nac_holds : ok_up_fractional_nac K.
Proof. intros s c d. unfold interp_ok, gen_io_interp_up_fractional_nac. cbn [indices flat_map map zseq seq Z.to_nat Pos.to_nat Pos.iter_op Nat.add app Z.of_nat Pos.of_succ_nat Pos.succ].
  repeat constructor; fcbv; list_eq; field; side. Qed.

Lemma traced_index_ops_hold_K : traced_index_ops_ok K.
Proof. unfold traced_index_ops_ok. repeat split; first [apply ok_up_fractional_holds | apply ok_up_fractional_nac_holds | apply ok_down_neg_nac_holds | apply ok_down_neg_flag_holds | apply (ok_roi2_holds K Kf Kc) | apply (ok_roi2_pad_holds K Kf Kc) | apply (ok_conv2_holds K Kf) | apply (ok_conv2_holds K Kf Kc) | apply (ok_crop_num_holds K Kf Kc) | apply (ok_crop_margin_holds K Kf Kc) | apply (ok_crop_mixed_holds K Kf Kc) | apply (ok_pad_num_holds K Kf Kc) | apply (ok_pad_margin_holds K Kf Kc) | apply (ok_center_crop_holds K Kf Kc) | apply (ok_center_crop_odd_holds K Kf Kc) | apply (ok_center_pad_holds K Kf Kc) | apply (ok_center_pad_odd_holds K Kf Kc) | apply (ok_narrow_x_holds K Kf Kc) | apply (ok_narrow_y_holds K Kf Kc) | apply (ok_crop3_holds K Kf Kc) | apply (ok_roi3_holds K Kf Kc) | apply (ok_narrow_z_holds K Kf Kc) | apply (ok_pool2_holds K Kf Kc) | apply (ok_pool_aniso_holds K Kf Kc) | apply ok_resize_default_holds | apply ok_resize_default_nac_holds | apply ok_resize_flag_holds | apply ok_down_default_holds | apply ok_down_default_nac_holds | apply ok_down_flag_holds | apply ok_down_dims_holds | apply ok_up_default_holds | apply ok_up_default_nac_holds | apply ok_up_flag_holds | apply ok_resize3_holds]. Qed.
(* pyramid's sampling branch (explicit align_corners differing from the grid's flag): both axes of the point map are the cube
   axes of the EFFECTIVE flag, for both flag combinations *)
Lemma traced_pyramid_axes_hold :
  gen_io_pyramid_axes = [(true, false, false); (false, true, true)].
Proof. reflexivity. Qed.
End C04Gen.
