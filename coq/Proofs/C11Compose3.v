(* compose_flows on affine displacement fields, D = 3 (see C11Compose.v) *)
From Coq Require Import ZArith List Field Ring Lia Bool.
From DV Require Import Base.Field Base.FieldFacts Base.LinAlg Base.Tactics Model.Sampler Model.Flow
  Proofs.SamplerFacts Proofs.C11Interp Proofs.C11Compose.
Import ListNotations.
Local Open Scope fld_scope.

Section Compose3.
Variable K : fld.
Hypothesis Kf : is_field K.
Hypothesis Kc : char0 K.
Add Field KFC3 : Kf.
Variable floorK : K -> Z.

Lemma happly3_0 (a00 a01 a02 t0 a10 a11 a12 t1 a20 a21 a22 t2 cx cy cz : K) :
  nth 0 (happly 3 (H3 a00 a01 a02 t0 a10 a11 a12 t1 a20 a21 a22 t2) [cx; cy; cz]) 0 = a00 * cx + a01 * cy + a02 * cz + t0.
Proof. fcbv. ring. Qed.
Lemma happly3_1 (a00 a01 a02 t0 a10 a11 a12 t1 a20 a21 a22 t2 cx cy cz : K) :
  nth 1 (happly 3 (H3 a00 a01 a02 t0 a10 a11 a12 t1 a20 a21 a22 t2) [cx; cy; cz]) 0 = a10 * cx + a11 * cy + a12 * cz + t1.
Proof. fcbv. ring. Qed.
Lemma happly3_2 (a00 a01 a02 t0 a10 a11 a12 t1 a20 a21 a22 t2 cx cy cz : K) :
  nth 2 (happly 3 (H3 a00 a01 a02 t0 a10 a11 a12 t1 a20 a21 a22 t2) [cx; cy; cz]) 0 = a20 * cx + a21 * cy + a22 * cz + t2.
Proof. fcbv. ring. Qed.
Lemma affdisp3_0 (a00 a01 a02 t0 a10 a11 a12 t1 a20 a21 a22 t2 cx cy cz : K) :
  nth 0 (affdisp 3 (H3 a00 a01 a02 t0 a10 a11 a12 t1 a20 a21 a22 t2) [cx; cy; cz]) 0
  = (a00 - 1) * cx + a01 * cy + a02 * cz + t0.
Proof. fcbv. ring. Qed.
Lemma affdisp3_1 (a00 a01 a02 t0 a10 a11 a12 t1 a20 a21 a22 t2 cx cy cz : K) :
  nth 1 (affdisp 3 (H3 a00 a01 a02 t0 a10 a11 a12 t1 a20 a21 a22 t2) [cx; cy; cz]) 0
  = a10 * cx + (a11 - 1) * cy + a12 * cz + t1.
Proof. fcbv. ring. Qed.
Lemma affdisp3_2 (a00 a01 a02 t0 a10 a11 a12 t1 a20 a21 a22 t2 cx cy cz : K) :
  nth 2 (affdisp 3 (H3 a00 a01 a02 t0 a10 a11 a12 t1 a20 a21 a22 t2) [cx; cy; cz]) 0
  = a20 * cx + a21 * cy + (a22 - 1) * cz + t2.
Proof. fcbv. ring. Qed.
Lemma hcomp3_H3 (b00 b01 b02 s0 b10 b11 b12 s1 b20 b21 b22 s2 a00 a01 a02 t0 a10 a11 a12 t1 a20 a21 a22 t2 : K) :
  hcomp 3 (H3 b00 b01 b02 s0 b10 b11 b12 s1 b20 b21 b22 s2) (H3 a00 a01 a02 t0 a10 a11 a12 t1 a20 a21 a22 t2)
  = H3 (b00 * a00 + b01 * a10 + b02 * a20) (b00 * a01 + b01 * a11 + b02 * a21) (b00 * a02 + b01 * a12 + b02 * a22)
       (b00 * t0 + b01 * t1 + b02 * t2 + s0)
       (b10 * a00 + b11 * a10 + b12 * a20) (b10 * a01 + b11 * a11 + b12 * a21) (b10 * a02 + b11 * a12 + b12 * a22)
       (b10 * t0 + b11 * t1 + b12 * t2 + s1)
       (b20 * a00 + b21 * a10 + b22 * a20) (b20 * a01 + b21 * a11 + b22 * a21) (b20 * a02 + b21 * a12 + b22 * a22)
       (b20 * t0 + b21 * t1 + b22 * t2 + s2).
Proof. fcbv. list_eq; ring. Qed.

Lemma compose3_affine ac nx ny nz
  (a00 a01 a02 t0 a10 a11 a12 t1 a20 a21 a22 t2 b00 b01 b02 s0 b10 b11 b12 s1 b20 b21 b22 s2 : K) :
  (2 <= nx)%Z -> (2 <= ny)%Z -> (2 <= nz)%Z ->
  cells_ok3 floorK ac nx ny nz (H3 a00 a01 a02 t0 a10 a11 a12 t1 a20 a21 a22 t2) ->
  compose3 floorK ac (aff_field3 ac nx ny nz (H3 a00 a01 a02 t0 a10 a11 a12 t1 a20 a21 a22 t2))
                     (aff_field3 ac nx ny nz (H3 b00 b01 b02 s0 b10 b11 b12 s1 b20 b21 b22 s2))
  = aff_field3 ac nx ny nz (hcomp 3 (H3 b00 b01 b02 s0 b10 b11 b12 s1 b20 b21 b22 s2)
                                    (H3 a00 a01 a02 t0 a10 a11 a12 t1 a20 a21 a22 t2)).
Proof.
  intros Hnx Hny Hnz Hc. rewrite hcomp3_H3. unfold compose3, compose3g, aff_field3. cbn [seq map nth].
  set (A := H3 a00 a01 a02 t0 a10 a11 a12 t1 a20 a21 a22 t2). set (B := H3 b00 b01 b02 s0 b10 b11 b12 s1 b20 b21 b22 s2).
  rewrite (tab3_ext nx ny nz (fun x y z => nth 0 (affdisp 3 A [ncoord ac nx x; ncoord ac ny y; ncoord ac nz z]) 0)
             (fun x y z => (a00 - 1) * ncoord ac nx x + a01 * ncoord ac ny y + a02 * ncoord ac nz z + t0))
    by (intros; apply affdisp3_0).
  rewrite (tab3_ext nx ny nz (fun x y z => nth 1 (affdisp 3 A [ncoord ac nx x; ncoord ac ny y; ncoord ac nz z]) 0)
             (fun x y z => a10 * ncoord ac nx x + (a11 - 1) * ncoord ac ny y + a12 * ncoord ac nz z + t1))
    by (intros; apply affdisp3_1).
  rewrite (tab3_ext nx ny nz (fun x y z => nth 2 (affdisp 3 A [ncoord ac nx x; ncoord ac ny y; ncoord ac nz z]) 0)
             (fun x y z => a20 * ncoord ac nx x + a21 * ncoord ac ny y + (a22 - 1) * ncoord ac nz z + t2))
    by (intros; apply affdisp3_2).
  rewrite (tab3_ext nx ny nz (fun x y z => nth 0 (affdisp 3 B [ncoord ac nx x; ncoord ac ny y; ncoord ac nz z]) 0)
             (fun x y z => (b00 - 1) * ncoord ac nx x + b01 * ncoord ac ny y + b02 * ncoord ac nz z + s0))
    by (intros; apply affdisp3_0).
  rewrite (tab3_ext nx ny nz (fun x y z => nth 1 (affdisp 3 B [ncoord ac nx x; ncoord ac ny y; ncoord ac nz z]) 0)
             (fun x y z => b10 * ncoord ac nx x + (b11 - 1) * ncoord ac ny y + b12 * ncoord ac nz z + s1))
    by (intros; apply affdisp3_1).
  rewrite (tab3_ext nx ny nz (fun x y z => nth 2 (affdisp 3 B [ncoord ac nx x; ncoord ac ny y; ncoord ac nz z]) 0)
             (fun x y z => b20 * ncoord ac nx x + b21 * ncoord ac ny y + (b22 - 1) * ncoord ac nz z + s2))
    by (intros; apply affdisp3_2).
  rewrite zlen_tab3, zlen_hd_tab3, zlen_hd_hd_tab3 by lia.
  assert (P : forall x y z, (0 <= x < nx)%Z -> (0 <= y < ny)%Z -> (0 <= z < nz)%Z ->
     good_cell floorK nx (unnorm ac nx (a00 * ncoord ac nx x + a01 * ncoord ac ny y + a02 * ncoord ac nz z + t0)) /\
     good_cell floorK ny (unnorm ac ny (a10 * ncoord ac nx x + a11 * ncoord ac ny y + a12 * ncoord ac nz z + t1)) /\
     good_cell floorK nz (unnorm ac nz (a20 * ncoord ac nx x + a21 * ncoord ac ny y + a22 * ncoord ac nz z + t2))).
  { intros x y z Hx Hy Hz. pose proof (Hc x y z Hx Hy Hz) as G. cbv zeta in G. unfold A in G.
    rewrite happly3_0, happly3_1, happly3_2 in G. exact G. }
  f_equal; [|f_equal; [|f_equal]]; apply tab3_ext; intros x y z Hx Hy Hz; rewrite !get3_tab3 by lia;
    destruct (P x y z Hx Hy Hz) as [Gx [Gy Gz]];
    replace (ncoord ac nx x + ((a00 - 1) * ncoord ac nx x + a01 * ncoord ac ny y + a02 * ncoord ac nz z + t0))
      with (a00 * ncoord ac nx x + a01 * ncoord ac ny y + a02 * ncoord ac nz z + t0) by ring;
    replace (ncoord ac ny y + (a10 * ncoord ac nx x + (a11 - 1) * ncoord ac ny y + a12 * ncoord ac nz z + t1))
      with (a10 * ncoord ac nx x + a11 * ncoord ac ny y + a12 * ncoord ac nz z + t1) by ring;
    replace (ncoord ac nz z + (a20 * ncoord ac nx x + a21 * ncoord ac ny y + (a22 - 1) * ncoord ac nz z + t2))
      with (a20 * ncoord ac nx x + a21 * ncoord ac ny y + a22 * ncoord ac nz z + t2) by ring.
  - rewrite (gs3_affine K Kf Kc floorK ac nx ny nz (b00 - 1) b01 b02 s0 _ _ _ Hnx Hny Hnz Gx Gy Gz). rewrite affdisp3_0. ring.
  - rewrite (gs3_affine K Kf Kc floorK ac nx ny nz b10 (b11 - 1) b12 s1 _ _ _ Hnx Hny Hnz Gx Gy Gz). rewrite affdisp3_1. ring.
  - rewrite (gs3_affine K Kf Kc floorK ac nx ny nz b20 b21 (b22 - 1) s2 _ _ _ Hnx Hny Hnz Gx Gy Gz). rewrite affdisp3_2. ring.
Qed.
End Compose3.
