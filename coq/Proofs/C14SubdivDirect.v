(* C14: subdivide_cubic_bspline along any axis of a 2-D / 3-D coefficient tensor keeps the tensor-product spline and its
   derivatives on every cell (both halves), for arbitrary weights on the other axes. *)
From Coq Require Import ZArith List Field Ring Lia Bool.
From DV Require Import Base.Field Base.FieldFacts Base.LinAlg Base.Tactics Model.BSplineBase Gen.BSpline Model.BSpline
  Proofs.C14Tac Proofs.C14Weights Proofs.C14Ctrl Proofs.C14Eval Proofs.C14Subdiv Proofs.C14SubdivND.
Import ListNotations.
Local Open Scope fld_scope.

Section Proofs.
Variable K : fld.
Hypothesis Kf : is_field K.
Hypothesis Kc : char0 K.
Add Field KF : Kf.

Lemma subdiv_line (d n q : nat) (second : bool) (u : K) (g : nat -> K) : (q + 3 < n)%nat ->
  pow2 d * cellv d u (fun i => nth i (subdiv1 (map g (seq 0 n))) 0) (half_Q second q) = cellv d (half_u second u) g q.
Proof.
  intro H. destruct (subdivision_preserves K Kf Kc d (map g (seq 0 n)) q u) as [A B]; [rewrite map_length, seq_length; exact H|].
  unfold cellv, spl in *.
  assert (E : forall w, spl_f w (fun i => nth i (map g (seq 0 n)) 0) q = spl_f w g q).
  { intro w. apply (spl_f_ext K). intros k Hk. apply (nth_map_seq g). lia. }
  destruct second; cbn [half_Q half_u]; [rewrite B|rewrite A]; apply E.
Qed.

Lemma length_subdiv1 (l : list K) (n : nat) : length l = n -> (1 <= n)%nat -> length (subdiv1 l) = (2 * n - 1)%nat.
Proof.
  intros Hl H1. unfold subdiv1. rewrite (length_subdiv_from K) by (intro X; rewrite X in Hl; cbn in Hl; lia). lia.
Qed.

(* D = 2 *)
Theorem subdivide2_x (d : nat) (wy : list K) (c : list (list K)) (ny nx qy q : nat) (second : bool) (u : K) :
  rect K ny nx c -> (qy + 3 < ny)%nat -> (q + 3 < nx)%nat ->
  pow2 d * spl_f wy (fun j => cellv d u (fun i => at2 (along_x2 (subdiv1 (K:=K)) c) j i) (half_Q second q)) qy
  = spl_f wy (fun j => cellv d (half_u second u) (fun i => at2 c j i) q) qy.
Proof.
  intros [Hy Hr] Ry Rx. rewrite (spl_f_scale K Kf). apply (spl_f_ext K). intros k Hk.
  rewrite <- (subdiv_line d nx q second u (fun i => at2 c (qy + k) i) Rx). f_equal. unfold cellv.
  apply (spl_f_ext K). intros k' Hk'. unfold at2, along_x2.
  rewrite (nth_map_in' (subdiv1 (K:=K)) c _ [] []) by lia. f_equal. f_equal.
  apply (nth_ext _ _ 0 0).
  - rewrite map_length, seq_length. apply Hr. lia.
  - intros i Hi. rewrite Hr in Hi by lia. rewrite (nth_map_seq (fun i' => nth i' (nth (qy + k) c []) 0)) by exact Hi. reflexivity.
Qed.

Theorem subdivide2_y (d : nat) (wx : list K) (c : list (list K)) (ny nx qx q : nat) (second : bool) (u : K) :
  rect K ny nx c -> (1 <= ny)%nat -> (qx + 3 < nx)%nat -> (q + 3 < ny)%nat ->
  pow2 d * cellv d u (fun j => spl_f wx (fun i => at2 (along_y2 (subdiv1 (K:=K)) c) j i) qx) (half_Q second q)
  = cellv d (half_u second u) (fun j => spl_f wx (fun i => at2 c j i) qx) q.
Proof.
  intros Hc H1 Rx Ry. unfold cellv.
  rewrite (spl_f_swap K Kf (gen_w d u) wx). rewrite (spl_f_swap K Kf (gen_w d (half_u second u)) wx).
  rewrite (spl_f_scale K Kf). apply (spl_f_ext K). intros k Hk.
  pose proof (subdiv_line d ny q second u (fun j => at2 c j (qx + k)) Ry) as E. unfold cellv in E. rewrite <- E.
  f_equal. apply (spl_f_ext K). intros k' Hk'.
  apply (nth_along_y2_gen K (subdiv1 (K:=K)) c ny nx (2 * ny - 1)); try assumption; try lia.
  - intros l Hl. apply length_subdiv1; assumption.
  - destruct second; cbn [half_Q]; lia.
Qed.

(* D = 3 *)
Theorem subdivide3_x (d : nat) (wy wz : list K) (c : list (list (list K))) (nz ny nx qz qy q : nat) (second : bool) (u : K) :
  box K nz ny nx c -> (qz + 3 < nz)%nat -> (qy + 3 < ny)%nat -> (q + 3 < nx)%nat ->
  pow2 d * spl_f wz (fun k => spl_f wy (fun j => cellv d u (fun i => at3 (along_x3 (subdiv1 (K:=K)) c) k j i) (half_Q second q)) qy) qz
  = spl_f wz (fun k => spl_f wy (fun j => cellv d (half_u second u) (fun i => at3 c k j i) q) qy) qz.
Proof.
  intros [Hz Hb] Rz Ry Rx. rewrite (spl_f_scale K Kf). apply (spl_f_ext K). intros kz Hkz.
  assert (Lz : (qz + kz < nz)%nat) by lia.
  pose proof (subdivide2_x d wy (nth (qz + kz) c []) ny nx qy q second u (Hb _ Lz) Ry Rx) as E.
  unfold at3, along_x3. unfold at2, along_x2 in E. rewrite (nth_map_in' (map (subdiv1 (K:=K))) c _ [] []) by lia. exact E.
Qed.

Theorem subdivide3_y (d : nat) (wx wz : list K) (c : list (list (list K))) (nz ny nx qz qx q : nat) (second : bool) (u : K) :
  box K nz ny nx c -> (1 <= ny)%nat -> (qz + 3 < nz)%nat -> (qx + 3 < nx)%nat -> (q + 3 < ny)%nat ->
  pow2 d * spl_f wz (fun k => cellv d u (fun j => spl_f wx (fun i => at3 (along_y3 (subdiv1 (K:=K)) c) k j i) qx) (half_Q second q)) qz
  = spl_f wz (fun k => cellv d (half_u second u) (fun j => spl_f wx (fun i => at3 c k j i) qx) q) qz.
Proof.
  intros [Hz Hb] H1 Rz Rx Ry. rewrite (spl_f_scale K Kf). apply (spl_f_ext K). intros kz Hkz.
  assert (Lz : (qz + kz < nz)%nat) by lia.
  pose proof (subdivide2_y d wx (nth (qz + kz) c []) ny nx qx q second u (Hb _ Lz) H1 Rx Ry) as E.
  unfold at3, along_y3. unfold at2 in E. rewrite (nth_map_in' (along_y2 (subdiv1 (K:=K))) c _ [] []) by lia. exact E.
Qed.

Theorem subdivide3_z (d : nat) (wx wy : list K) (c : list (list (list K))) (nz ny nx qy qx q : nat) (second : bool) (u : K) :
  box K nz ny nx c -> (1 <= nz)%nat -> (1 <= ny)%nat -> (1 <= nx)%nat -> (qy + 3 < ny)%nat -> (qx + 3 < nx)%nat -> (q + 3 < nz)%nat ->
  pow2 d * cellv d u (fun k => spl_f wy (fun j => spl_f wx (fun i => at3 (along_z3 (subdiv1 (K:=K)) c) k j i) qx) qy) (half_Q second q)
  = cellv d (half_u second u) (fun k => spl_f wy (fun j => spl_f wx (fun i => at3 c k j i) qx) qy) q.
Proof.
  intros Hc H1z H1y H1x Ry Rx Rz. unfold cellv.
  rewrite (spl_f_swap K Kf (gen_w d u) wy). rewrite (spl_f_swap K Kf (gen_w d (half_u second u)) wy).
  rewrite (spl_f_scale K Kf). apply (spl_f_ext K). intros ky Hky.
  rewrite (spl_f_swap K Kf (gen_w d u) wx). rewrite (spl_f_swap K Kf (gen_w d (half_u second u)) wx).
  rewrite (spl_f_scale K Kf). apply (spl_f_ext K). intros kx Hkx.
  pose proof (subdiv_line d nz q second u (fun k => at3 c k (qy + ky) (qx + kx)) Rz) as E. unfold cellv in E. rewrite <- E.
  f_equal. apply (spl_f_ext K). intros k' Hk'.
  apply (at3_along_z3_gen K (subdiv1 (K:=K)) c nz ny nx (2 * nz - 1)); try assumption; try lia.
  - intros l Hl. apply length_subdiv1; assumption.
  - destruct second; cbn [half_Q]; lia.
Qed.
End Proofs.
