(* C20 -- the executable evaluator agrees with the real-number semantics on the rational fragment (no
   transcendental node): what the correspondence computes in Qc for such terms IS the real value / the real
   derivative.  For terms with transcendental nodes the same holds whenever the oracle table is exact. *)
From Coq Require Import Reals QArith Qreals Qcanon Lra List Bool.
From DV Require Import Model.AD.
Import ListNotations.
Local Open Scope R_scope.

Definition envR (env : list Qc) : nat -> R := fun i => Q2R (this (nth i env 0%Qc)).

(* an oracle table is exact when every entry is a true function value *)
Definition oracle_exact (o : oracle) : Prop :=
  Forall (fun e => match e with (f, x, v) => ufun_R f (Q2R (this x)) = Q2R (this v) end) o.

Lemma Q2R_Q2Qc (q : Q) : Q2R (this (Q2Qc q)) = Q2R q.
Proof. apply Qeq_eqR. simpl. apply Qred_correct. Qed.

Lemma lookup_exact (o : oracle) (f : ufun) (x v : Qc) :
  oracle_exact o -> lookup o f x = Some v -> ufun_R f (Q2R (this x)) = Q2R (this v).
Proof.
  intros H. induction o as [|[[g y] w] o IH]; simpl; [discriminate|].
  inversion H as [|? ? Hx Ho]; subst.
  destruct (ufun_eqb f g && Qc_eq_bool x y) eqn:E.
  - intro E2; injection E2 as <-. apply andb_prop in E as [Ef Ex].
    apply Qc_eq_bool_correct in Ex. subst y.
    assert (f = g) by (destruct f, g; simpl in Ef; congruence). subst g. exact Hx.
  - apply IH, Ho.
Qed.

Theorem evalQ_sound (o : oracle) (env : list Qc) (e : expr) (v : Qc) :
  oracle_exact o -> evalQ o env e = Some v -> evalR (envR env) e = Q2R (this v).
Proof.
  intro Ho. revert v.
  induction e as [q | j | a IHa b IHb | a IHa b IHb | a IHa b IHb | a IHa b IHb | a IHa | f a IHa | a IHa]; intros v; simpl.
  - intro E; injection E as <-. symmetry; apply Q2R_Q2Qc.
  - intro E. unfold envR. rewrite (nth_error_nth _ _ _ E). reflexivity.
  - destruct (evalQ o env a) as [x|], (evalQ o env b) as [y|]; simpl; try discriminate.
    intro E; injection E as <-. rewrite (IHa x), (IHb y) by reflexivity.
    unfold Qcplus. rewrite Q2R_Q2Qc, Q2R_plus. reflexivity.
  - destruct (evalQ o env a) as [x|], (evalQ o env b) as [y|]; simpl; try discriminate.
    intro E; injection E as <-. rewrite (IHa x), (IHb y) by reflexivity.
    unfold Qcminus, Qcplus, Qcopp. rewrite Q2R_Q2Qc, Q2R_plus, Q2R_Q2Qc, Q2R_opp. reflexivity.
  - destruct (evalQ o env a) as [x|], (evalQ o env b) as [y|]; simpl; try discriminate.
    intro E; injection E as <-. rewrite (IHa x), (IHb y) by reflexivity.
    unfold Qcmult. rewrite Q2R_Q2Qc, Q2R_mult. reflexivity.
  - destruct (evalQ o env a) as [x|], (evalQ o env b) as [y|]; simpl; try discriminate.
    destruct (Qc_eq_bool y 0) eqn:Ey; [discriminate|].
    intro E; injection E as <-. rewrite (IHa x), (IHb y) by reflexivity.
    assert (Hy : ~ this y == 0).
    { intro H. assert (E0 : y = 0%Qc) by (apply Qc_is_canon; exact H). subst y.
      unfold Qc_eq_bool in Ey. destruct (Qc_eq_dec 0%Qc 0%Qc); [discriminate | congruence]. }
    unfold Qcdiv, Qcmult, Qcinv. rewrite Q2R_Q2Qc, Q2R_mult, Q2R_Q2Qc, Q2R_inv by exact Hy. reflexivity.
  - destruct (evalQ o env a) as [x|]; simpl; try discriminate.
    intro E; injection E as <-. rewrite (IHa x) by reflexivity.
    unfold Qcopp. rewrite Q2R_Q2Qc, Q2R_opp. reflexivity.
  - destruct (evalQ o env a) as [x|]; simpl; try discriminate.
    intro E. rewrite (IHa x) by reflexivity. apply (lookup_exact o f x v Ho E).
  - apply IHa.
Qed.

(* on the rational fragment no oracle is consulted *)
Lemma evalQ_rational_no_oracle (o : oracle) (env : list Qc) (e : expr) :
  rational e = true -> evalQ o env e = evalQ [] env e.
Proof.
  induction e; simpl; intro H; try reflexivity;
    try (apply andb_prop in H as [H1 H2]; rewrite IHe1, IHe2 by assumption; reflexivity).
  - rewrite IHe by assumption. reflexivity.
  - discriminate.
  - auto.
Qed.

Corollary evalQ_rational_sound (o : oracle) (env : list Qc) (e : expr) (v : Qc) :
  rational e = true -> evalQ o env e = Some v -> evalR (envR env) e = Q2R (this v).
Proof.
  intros Hr E. rewrite (evalQ_rational_no_oracle o env e Hr) in E.
  apply (evalQ_sound [] env e v); [constructor | exact E].
Qed.

Lemma D_rational (i : nat) (e : expr) : rational e = true -> rational (D i e) = true.
Proof.
  induction e; simpl; intro H; try reflexivity.
  - destruct (Nat.eqb i i0); reflexivity.
  - apply andb_prop in H as [H1 H2]. rewrite IHe1, IHe2; auto.
  - apply andb_prop in H as [H1 H2]. rewrite IHe1, IHe2; auto.
  - apply andb_prop in H as [H1 H2]. simpl. rewrite IHe1, IHe2, H1, H2; auto.
  - apply andb_prop in H as [H1 H2]. simpl. rewrite IHe1, IHe2, H1, H2; auto.
  - auto.
  - discriminate.
  - auto.
Qed.
