(* C18 -- boolean comparators used by the generated correspondence case files (definitions only):
   model records over Qc against what was found in real files. *)
From Coq Require Import String ZArith QArith Qabs Qcanon List Bool Arith.
From DV Require Import Base.Field Base.LinAlg Base.QcInst Model.Enums Model.CodecTypes Gen.Codec Model.Codec.
Import ListNotations.

Fixpoint nats_eqb (a b : list nat) : bool :=
  match a, b with
  | [], [] => true
  | x :: a', y :: b' => Nat.eqb x y && nats_eqb a' b'
  | _, _ => false
  end.

(* relative-absolute closeness for header numbers: |a - b| <= tol * (1 + |b|) *)
Definition qrel (tol : Q) (a b : Qc) : bool :=
  Qle_bool (Qabs (this a - this b)) (tol * (1 + Qabs (this b))).
Fixpoint vrel (tol : Q) (a b : list Qc) : bool :=
  match a, b with
  | [], [] => true
  | x :: a', y :: b' => qrel tol x y && vrel tol a' b'
  | _, _ => false
  end.
Fixpoint mrel (tol : Q) (a b : list (list Qc)) : bool :=
  match a, b with
  | [], [] => true
  | x :: a', y :: b' => vrel tol x y && mrel tol a' b'
  | _, _ => false
  end.
Fixpoint veq (a b : list Qc) : bool :=
  match a, b with
  | [], [] => true
  | x :: a', y :: b' => qeqb x y && veq a' b'
  | _, _ => false
  end.

Definition img := image QcF Qc.
Definition mfl := mfile QcF Qc.
Definition sfl := sfile QcF Qc.
Definition nfl := nfile QcF Qc.

Definition image_close (tol : Q) (a b : img) : bool :=
  nats_eqb (i_size a) (i_size b) && Nat.eqb (i_chan a) (i_chan b) && npty_eqb (i_type a) (i_type b) &&
  vrel tol (i_origin a) (i_origin b) && vrel tol (i_spacing a) (i_spacing b) && mrel tol (i_dir a) (i_dir b) &&
  veq (i_data a) (i_data b).
Definition mfile_close (tol : Q) (a b : mfl) : bool :=
  Nat.eqb (m_ndims a) (m_ndims b) && nats_eqb (m_dimsize a) (m_dimsize b) && Nat.eqb (m_nchan a) (m_nchan b) &&
  String.eqb (m_etype a) (m_etype b) && vrel tol (m_offset a) (m_offset b) && vrel tol (m_spacing a) (m_spacing b) &&
  vrel tol (m_tm a) (m_tm b) && Bool.eqb (m_compressed a) (m_compressed b) && veq (m_payload a) (m_payload b).
Definition sfile_close (tol : Q) (a b : sfl) : bool :=
  nats_eqb (s_size a) (s_size b) && Nat.eqb (s_ncomp a) (s_ncomp b) && npty_eqb (s_type a) (s_type b) &&
  vrel tol (s_origin a) (s_origin b) && vrel tol (s_spacing a) (s_spacing b) && vrel tol (s_dirflat a) (s_dirflat b) &&
  veq (s_buf a) (s_buf b).
Definition nfile_close (tol : Q) (a b : nfl) : bool :=
  nlayout_eqb (n_layout a) (n_layout b) && Nat.eqb (n_ndim a) (n_ndim b) && nats_eqb (n_sizes a) (n_sizes b) &&
  Nat.eqb (n_chan a) (n_chan b) && vrel tol (n_pixdim a) (n_pixdim b) && mrel tol (n_affine a) (n_affine b) &&
  npty_eqb (n_type a) (n_type b) && veq (n_buf a) (n_buf b).

Definition opt_close {X : Type} (cl : X -> X -> bool) (model : option X) (impl : option X) : bool :=
  match model, impl with
  | Some a, Some b => cl a b
  | None, None => true
  | _, _ => false
  end.
Definition is_none {X : Type} (o : option X) : bool := match o with None => true | Some _ => false end.
Definition obind {X Y : Type} (o : option X) (f : X -> option Y) : option Y := match o with Some x => f x | None => None end.
