"""Gen/GradFlow.v -- the gradient-flow skeleton of every differentiable public operation of the C20 registry:
which leaves the output depends on and where (if anywhere) a detach() / .data / no_grad computation cuts a
leaf-to-output path.  Needs the real torch: runs tr_units/gradflow_trace.py in a subprocess on the working tree."""
import os
import subprocess

from symtorch import TraceError

HERE = os.path.dirname(os.path.abspath(__file__))
PY = "/venv/bin/python"


def generate(loader):
    tools = os.path.dirname(HERE)
    env = dict(os.environ)
    env["PYTHONPATH"] = os.pathsep.join([loader.root, tools, os.path.join(tools, "impl")])
    env["DEEPALI_SRC"] = loader.root
    env["PYTHONHASHSEED"] = "0"
    env["PYTHONWARNINGS"] = "ignore"
    env["DEEPALI_VERIF"] = "1"
    env["OMP_NUM_THREADS"] = "2"
    p = subprocess.run([PY, os.path.join(HERE, "gradflow_trace.py")], capture_output=True, text=True, env=env, cwd="/", timeout=900)
    out = p.stdout
    i = out.rfind("\n##COQ##\n")
    if p.returncode != 0 or i < 0:
        j = out.rfind("\n##FAILED##\n")
        msg = out[j + 12:] if j >= 0 else (p.stderr[-1500:] or out[-1500:])
        raise TraceError("gradient-flow tracer failed: " + msg.strip()[:1500])
    return out[i + len("\n##COQ##\n"):]
