(* lie_bracket = the generated pointwise formula (Gen/FlowDeriv.v gen_lie2 / gen_lie3, traced from core/flow.py by the
   C12 unit) applied to the Jacobians of its two arguments, where the partial derivative along axis k is an arbitrary
   operator `dx k` on scalar fields (linearity is a hypothesis of the theorems; flow_derivatives' finite-difference /
   convolution operators are linear).  Definitions only. *)
From Coq Require Import ZArith List Bool.
From DV Require Import Base.Field Base.LinAlg Gen.FlowDeriv.
Import ListNotations.
Local Open Scope fld_scope.

Section Lie.
Context {K : fld}.
Variable P : Type.                        (* sample points *)
Notation sf := (P -> K).
Variable dx : nat -> sf -> sf.            (* partial derivative along spatial axis k (0 = x) *)

Definition vf2 := (sf * sf)%type.
Definition vf3 := (sf * sf * sf)%type.
Definition lie2 (v u : vf2) : vf2 :=
  let '(v0, v1) := v in let '(u0, u1) := u in
  let g := fun p => gen_lie2 (dx 0 v0 p) (dx 1 v0 p) (dx 0 v1 p) (dx 1 v1 p) (dx 0 u0 p) (dx 1 u0 p) (dx 0 u1 p) (dx 1 u1 p)
                             (v0 p) (v1 p) (u0 p) (u1 p) in
  (fun p => nth 0 (g p) 0, fun p => nth 1 (g p) 0).
Definition lie3 (v u : vf3) : vf3 :=
  let '(v0, v1, v2) := v in let '(u0, u1, u2) := u in
  let g := fun p => gen_lie3 (dx 0 v0 p) (dx 1 v0 p) (dx 2 v0 p) (dx 0 v1 p) (dx 1 v1 p) (dx 2 v1 p) (dx 0 v2 p) (dx 1 v2 p) (dx 2 v2 p)
                             (dx 0 u0 p) (dx 1 u0 p) (dx 2 u0 p) (dx 0 u1 p) (dx 1 u1 p) (dx 2 u1 p) (dx 0 u2 p) (dx 1 u2 p) (dx 2 u2 p)
                             (v0 p) (v1 p) (v2 p) (u0 p) (u1 p) (u2 p) in
  (fun p => nth 0 (g p) 0, fun p => nth 1 (g p) 0, fun p => nth 2 (g p) 0).

Definition sadd (f g : sf) : sf := fun p => f p + g p.
Definition sscale (c : K) (f : sf) : sf := fun p => c * f p.
Definition vadd2 (a b : vf2) : vf2 := (sadd (fst a) (fst b), sadd (snd a) (snd b)).
Definition vscale2 (c : K) (a : vf2) : vf2 := (sscale c (fst a), sscale c (snd a)).
Definition vadd3 (a b : vf3) : vf3 := (sadd (fst (fst a)) (fst (fst b)), sadd (snd (fst a)) (snd (fst b)), sadd (snd a) (snd b)).
Definition vscale3 (c : K) (a : vf3) : vf3 := (sscale c (fst (fst a)), sscale c (snd (fst a)), sscale c (snd a)).
(* equality of vector fields = equality at every sample point *)
Definition veq2 (a b : vf2) : Prop := forall p, fst a p = fst b p /\ snd a p = snd b p.
Definition veq3 (a b : vf3) : Prop := forall p, fst (fst a) p = fst (fst b) p /\ snd (fst a) p = snd (fst b) p /\ snd a p = snd b p.
Definition linear_op : Prop :=
  (forall k f g p, dx k (sadd f g) p = dx k f p + dx k g p) /\ (forall k c f p, dx k (sscale c f) p = c * dx k f p).
End Lie.
