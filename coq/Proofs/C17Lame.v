(* C17: lame_parameters -- every branch the source can execute returns (lambda, mu) that satisfy the
   defining relations of the elastic constants it was given (or not: the (lambda, E) branch). *)
From Coq Require Import ZArith QArith List Field Ring Lia Bool.
From DV Require Import Base.Field Base.FieldFacts Base.LinAlg Base.QcInst Model.Losses Model.RegStencil Model.Regularisers
  Gen.Regs Proofs.C16Lists.
Import ListNotations.
Local Open Scope fld_scope.

Section Lame.
Variable K : fld.
Hypothesis Kf : is_field K.
Hypothesis Kc : char0 K.
Add Field KF : Kf.
Let two_nz := two_nz K Kf Kc.
Ltac refold E := fold (@fadd K) (@fmul K) (@fsub K) (@fopp K) (@f1 K) (@f0 K) in E.

Lemma three_nz : (1 + 1 + 1 : K) <> 0.
Proof. replace (1 + 1 + 1 : K) with (@of_pos K 3) by (cbn [of_pos]; ring). apply Kc. Qed.

Lemma lame_direct (lam mu : K) :
  gen_lame_first_second lam mu = (lam, mu) /\ gen_lame_first_shear lam mu = (lam, mu).
Proof. split; reflexivity. Qed.

Lemma div_intro (a b c : K) : b <> 0 -> a = c * b -> a / b = c.
Proof. intros Hb ->. field. exact Hb. Qed.
Lemma div_mul (a b : K) : b <> 0 -> a / b * b = a.
Proof. intro Hb. field. exact Hb. Qed.
Lemma mul_cancel_r (x y d : K) : d <> 0 -> x * d = y * d -> x = y.
Proof. intros Hd H. transitivity (x * d / d); [field; exact Hd | rewrite H; field; exact Hd]. Qed.
Lemma nz_of_mul (x y : K) : x * y <> 0 -> x <> 0.
Proof. intros H E. apply H. rewrite E. ring. Qed.

Lemma lame_first_poisson (lam nu : K) : lam <> 0 -> nu <> 0 ->
  let '(l, m) := gen_lame_first_poisson lam nu in l = lam /\ poisson_of l m = nu.
Proof.
  intros Hl Hn. unfold gen_lame_first_poisson, poisson_of. cbn [of_Z of_pos]. split; [reflexivity|].
  assert (Hd : (1 + 1) * 1 * nu <> 0) by (apply (mul_nz K Kf); [apply (mul_nz K Kf); [exact two_nz | apply (one_nz K Kc)] | exact Hn]).
  pose proof (div_mul (lam * (1 - (1 + 1) * 1 * nu)) ((1 + 1) * 1 * nu) Hd) as Hm.
  set (mu := lam * (1 - (1 + 1) * 1 * nu) / ((1 + 1) * 1 * nu)) in *.
  assert (Eq : lam = nu * ((1 + 1) * (lam + mu))).
  { transitivity (lam * ((1 + 1) * 1 * nu) + mu * ((1 + 1) * 1 * nu)); [rewrite Hm; ring | ring]. }
  apply div_intro; [|exact Eq].
  intro E. apply Hl. rewrite Eq, E. ring.
Qed.

Lemma lame_shear_poisson (g nu : K) : g <> 0 -> 1 - (1 + 1) * nu <> 0 ->
  (let '(l, m) := gen_lame_shear_poisson g nu in m = g /\ poisson_of l m = nu) /\
  gen_lame_second_poisson g nu = gen_lame_shear_poisson g nu.
Proof.
  intros Hg Hn. split; [|reflexivity].
  unfold gen_lame_shear_poisson, poisson_of. cbn [of_Z of_pos]. split; [reflexivity|].
  assert (Hd : 1 - (1 + 1) * 1 * nu <> 0) by (intro E; apply Hn; rewrite <- E; ring).
  pose proof (div_mul ((1 + 1) * 1 * g * nu) (1 - (1 + 1) * 1 * nu) Hd) as Hm.
  set (d := 1 - (1 + 1) * 1 * nu) in *.
  set (lam := (1 + 1) * 1 * g * nu / d) in *.
  assert (Hs : (lam + g) * d = g) by (transitivity (lam * d + g * d); [ring | rewrite Hm; unfold d; ring]).
  assert (Eq : lam = nu * ((1 + 1) * (lam + g))).
  { apply (mul_cancel_r _ _ d Hd). transitivity (nu * (1 + 1) * ((lam + g) * d)); [rewrite Hs, Hm; ring | ring]. }
  apply div_intro; [|exact Eq].
  apply (mul_nz K Kf); [exact two_nz|]. apply (nz_of_mul _ d). rewrite Hs. exact Hg.
Qed.

Lemma lame_shear_young (g ym : K) : g <> 0 -> (1 + 1 + 1) * g - ym <> 0 ->
  (let '(l, m) := gen_lame_shear_young g ym in m = g /\ youngs_of l m = ym) /\
  gen_lame_second_young g ym = gen_lame_shear_young g ym.
Proof.
  intros Hg Hd0. split; [|reflexivity].
  unfold gen_lame_shear_young, youngs_of. cbn [of_Z of_pos]. split; [reflexivity|].
  assert (Hd : (1 + (1 + 1) * 1) * g - ym <> 0) by (intro E; apply Hd0; rewrite <- E; ring).
  pose proof (div_mul (g * (ym - (1 + 1) * 1 * g)) ((1 + (1 + 1) * 1) * g - ym) Hd) as Hm.
  set (d := (1 + (1 + 1) * 1) * g - ym) in *.
  set (lam := g * (ym - (1 + 1) * 1 * g) / d) in *.
  assert (Hs : (lam + g) * d = g * g) by (transitivity (lam * d + g * d); [ring | rewrite Hm; unfold d; ring]).
  assert (Eq : g * ((1 + 1 + 1) * lam + (1 + 1) * g) = ym * (lam + g)).
  { apply (mul_cancel_r _ _ d Hd).
    transitivity (g * ((1 + 1 + 1) * (lam * d) + (1 + 1) * g * d)); [ring|].
    transitivity (ym * ((lam + g) * d)); [rewrite Hs, Hm; unfold d; ring | ring]. }
  apply div_intro; [|exact Eq].
  apply (nz_of_mul _ d). rewrite Hs. apply (mul_nz K Kf); exact Hg.
Qed.

(* (lambda, E): the closed form that satisfies the relation is mu = (E - 3 lambda + r) / 4 with
   r^2 = E^2 + 9 lambda^2 + 2 E lambda (the radicand the source computes) *)
Definition lame_first_young_spec (r lam ym : K) : K * K :=
  (lam, (ym - (1 + 1 + 1) * lam + r) / ((1 + 1) * (1 + 1))).

Lemma lame_first_young_spec_ok (r lam ym : K) :
  r * r = gen_lame_first_young_radicand lam ym ->
  lam + snd (lame_first_young_spec r lam ym) <> 0 ->
  youngs_of (fst (lame_first_young_spec r lam ym)) (snd (lame_first_young_spec r lam ym)) = ym.
Proof.
  unfold gen_lame_first_young_radicand, lame_first_young_spec, youngs_of. cbn [fst snd of_Z of_pos].
  intros Hr Hd.
  assert (Hrr : r * r = ym * ym + (1 + (1 + 1) * ((1 + 1) * ((1 + 1) * 1))) * (lam * lam) + (1 + 1) * 1 * ym * lam)
    by (rewrite Hr; ring).
  assert (H4 : (1 + 1) * (1 + 1) <> (0 : K)) by (apply (mul_nz K Kf); exact two_nz).
  set (mu := (ym - (1 + 1 + 1) * lam + r) / ((1 + 1) * (1 + 1))) in *.
  pose proof (div_mul (ym - (1 + 1 + 1) * lam + r) ((1 + 1) * (1 + 1)) H4) as Hm. fold mu in Hm.
  set (four := (1 + 1) * (1 + 1)) in *.
  assert (Hq : (1 + 1) * (mu * mu) + ((1 + 1 + 1) * lam - ym) * mu - ym * lam = 0).
  { apply (mul_cancel_r _ _ (four * four) (mul_nz K Kf _ _ H4 H4)).
    transitivity ((1 + 1) * ((mu * four) * (mu * four)) + ((1 + 1 + 1) * lam - ym) * (mu * four) * four - ym * lam * (four * four));
      [ring|]. rewrite Hm. unfold four. ring [Hrr]. }
  transitivity ((mu * ((1 + 1 + 1) * lam + (1 + 1) * mu) - ((1 + 1) * (mu * mu) + ((1 + 1 + 1) * lam - ym) * mu - ym * lam)) / (lam + mu)).
  - rewrite Hq. f_equal. ring.
  - field. exact Hd.
Qed.
End Lame.

(* the source's (lambda, E) branch is not that closed form: r / 4 instead of (... + r) / 4 *)
Lemma lame_first_young_refuted :
  exists r lam ym : QcF,
    qeqb (r * r)%F (gen_lame_first_young_radicand lam ym) = true /\
    qeqb (youngs_of (fst (lame_first_young_spec QcF r lam ym)) (snd (lame_first_young_spec QcF r lam ym))) ym = true /\
    qeqb (youngs_of (fst (gen_lame_first_young r lam ym)) (snd (gen_lame_first_young r lam ym))) ym = false.
Proof. exists (q 9 1), (q 2 1), (q 5 1). vm_compute. repeat split. Qed.

(* rubber preset: mu = 0.0006 and Poisson's ratio 0.4999 up to the float evaluation of lambda *)
Lemma lame_rubber_ok :
  qeqb (snd (gen_lame_rubber (K:=QcF))) (q 3 5000) = true /\
  qclose (1 # 1000000000) (poisson_of (fst (gen_lame_rubber (K:=QcF))) (snd (gen_lame_rubber (K:=QcF)))) (q 4999 10000) = true.
Proof. vm_compute. split; reflexivity. Qed.
