"""Gen/Hmm.v -- core/linalg.py: homogeneous_matmul (9 operand-form pairs), as_homogeneous_matrix,
hmm, homogeneous_matrix(offset), homogeneous_transform (points / vectors), for D = 2, 3.
Batched operands (leading shape 1 or N on either side) are traced as well and must agree, item by
item, with the unbatched closed form (a structural check done here, so the Coq model of batching is
"map the unbatched function over the items, broadcasting a single operand")."""
import itertools

import numpy as np

import symtorch as st
import trlib
from symtorch import E, TraceError

FORMS = ["T", "A", "H"]
COQF = {"T": "FT", "A": "FA", "H": "FH"}


def cols(f, D):
    return {"T": 1, "A": D, "H": D + 1}[f]


def operand(prefix, f, D, batch=None):
    """symbolic operand; batch=None -> shape (D, c); batch=n -> (n, D, c) with per-item symbols"""
    c = cols(f, D)
    if batch is None:
        return st.symmat(prefix, D, c)
    a = np.empty((batch, D, c), dtype=object)
    for k in range(batch):
        for i in range(D):
            for j in range(c):
                a[k, i, j] = E.var(f"{prefix}{i}{j}_{k}")
    return st.Tensor(a)


def item_rename(prefix, f, D, k):
    return {f"{prefix}{i}{j}_{k}": f"{prefix}{i}{j}" for i in range(D) for j in range(cols(f, D))}


def form_of_shape(shape, D):
    if tuple(shape) == (D, 1):
        return "T"
    if tuple(shape) == (D, D):
        return "A"
    if tuple(shape) == (D, D + 1):
        return "H"
    raise TraceError(f"result shape {tuple(shape)} is none of the three operand forms")


def ren_arr(a, mapping):
    return np.vectorize(lambda e: trlib.rename(e, mapping), otypes=[object])(a)


def generate(loader):
    lin = loader.load("deepali.core.linalg")
    out = ["Section Gen.", "Context {K : fld}.", ""]
    res_form = {}
    for D in (2, 3):
        for fa, fb in itertools.product(FORMS, FORMS):
            a, b = operand("a", fa, D), operand("b", fb, D)
            c = lin.homogeneous_matmul(a, b)
            fc = form_of_shape(c.shape, D)
            if res_form.setdefault((fa, fb), fc) != fc:
                raise TraceError(f"result form of {fa}x{fb} depends on D")
            out.append(trlib.emit_match_def(f"gen_hmm_{fa}{fb}_{D}", [("a", a), ("b", b)], [], c,
                                            comment=f"homogeneous_matmul, forms {fa} o {fb}, D = {D}"))
            # hmm() = as_homogeneous_matrix(homogeneous_matmul(a, b)) must be the (D, D+1) form of c
            h = lin.hmm(a, b)
            hc = lin.as_homogeneous_matrix(c)
            if h.shape != (D, D + 1) or not trlib.same_tensor(h.a, hc.a):
                raise TraceError(f"hmm {fa}x{fb} D={D}: not as_homogeneous_matrix(homogeneous_matmul)")
            # 1-D translation operand (shape (D,)) must behave as the (D, 1) one
            if fa == "T":
                c1 = lin.homogeneous_matmul(st.Tensor(a.a[:, 0]), b)
                if not trlib.same_tensor(c1.a, c.a):
                    raise TraceError(f"1-D translation as first operand differs ({fb}, D={D})")
            if fb == "T":
                c1 = lin.homogeneous_matmul(a, st.Tensor(b.a[:, 0]))
                if not trlib.same_tensor(c1.a, c.a):
                    raise TraceError(f"1-D translation as second operand differs ({fa}, D={D})")
            # batch shapes
            for na, nb in itertools.product((None, 1, 2), (None, 1, 2)):
                if na is None and nb is None:
                    continue
                ab, bb = operand("a", fa, D, na), operand("b", fb, D, nb)
                cb = lin.homogeneous_matmul(ab, bb)
                n = max(na or 1, nb or 1)
                if cb.shape != (n,) + tuple(c.shape):
                    raise TraceError(f"{fa}x{fb} D={D} batch ({na},{nb}): result shape {cb.shape}")
                for k in range(n):
                    ren = {}
                    ren.update(item_rename("a", fa, D, k if (na or 1) > 1 else 0) if na else {})
                    ren.update(item_rename("b", fb, D, k if (nb or 1) > 1 else 0) if nb else {})
                    if not trlib.same_tensor(ren_arr(cb.a[k], ren), c.a):
                        raise TraceError(f"{fa}x{fb} D={D} batch ({na},{nb}) item {k} differs from unbatched form")
        for f in FORMS:
            a = operand("a", f, D)
            h = lin.as_homogeneous_matrix(a)
            if h.shape != (D, D + 1):
                raise TraceError(f"as_homogeneous_matrix({f}) shape {h.shape}")
            out.append(trlib.emit_match_def(f"gen_ashom_{f}_{D}", [("a", a)], [], h,
                                            comment=f"as_homogeneous_matrix, form {f}, D = {D}"))
            for nb in (1, 2):  # batched operand
                ab = operand("a", f, D, nb)
                hb = lin.as_homogeneous_matrix(ab)
                for k in range(nb):
                    if not trlib.same_tensor(ren_arr(hb.a[k], item_rename("a", f, D, k)), h.a):
                        raise TraceError(f"as_homogeneous_matrix({f}) batched item differs, D={D}")
            # homogeneous_matrix(tensor, offset) = as_homogeneous_matrix with offset added to the last column
            off = st.symvec("o", D)
            hm = lin.homogeneous_matrix(a, offset=off)
            exp = h.a.copy()
            for i in range(D):
                exp[i, D] = exp[i, D] + off.a[i]
            if not trlib.same_tensor(hm.a, exp):
                raise TraceError(f"homogeneous_matrix({f}, offset) D={D}: unexpected result")
            x = st.symvec("x", D)
            for vec in (False, True):
                y = lin.homogeneous_transform(a, x, vectors=vec)
                if y.shape != (D,):
                    raise TraceError(f"homogeneous_transform shape {y.shape}")
                nm = f"gen_apply{'v' if vec else ''}_{f}_{D}"
                out.append(trlib.emit_match_def(nm, [("a", a), ("x", x)], [], y,
                                                comment=f"homogeneous_transform(vectors={vec}), form {f}, D = {D}"))
                # point sets (M, D) and batches (N, M, D), transform batch 1 or N
                xs = st.Tensor(np.array([[E.var(f"x{i}_{m}") for i in range(D)] for m in range(2)], dtype=object))
                ys = lin.homogeneous_transform(a, xs, vectors=vec)
                for m in range(2):
                    if not trlib.same_tensor(ren_arr(ys.a[m], {f"x{i}_{m}": f"x{i}" for i in range(D)}), y.a):
                        raise TraceError(f"homogeneous_transform on a point set differs from per-point form ({f}, D={D})")
                ab = operand("a", f, D, 2)
                xb = st.Tensor(np.array([[[E.var(f"x{i}_{k}") for i in range(D)]] for k in range(2)], dtype=object))
                for xin, xk in ((xb, True), (st.Tensor(xb.a[:1]), False)):
                    yb = lin.homogeneous_transform(ab, xin, vectors=vec)
                    for k in range(2):
                        ren = item_rename("a", f, D, k)
                        ren.update({f"x{i}_{k if xk else 0}": f"x{i}" for i in range(D)})
                        if not trlib.same_tensor(ren_arr(yb.a[k, 0], ren), y.a):
                            raise TraceError(f"batched homogeneous_transform item differs ({f}, D={D})")
    def disp(name, sig, arms, default):
        return f"Definition {name} {sig} :=\n  match D, {arms[0]} with\n" + "\n".join(arms[1]) + f"\n  | _, {default[0]} => {default[1]}\n  end.\n"
    arms = [f"  | {D}%nat, {COQF[fa]}, {COQF[fb]} => gen_hmm_{fa}{fb}_{D} a b"
            for D in (2, 3) for fa in FORMS for fb in FORMS]
    out.append("Definition gen_hmm (D : nat) (fa fb : form) (a b : list (list K)) : list (list K) :=\n"
               "  match D, fa, fb with\n" + "\n".join(arms) + "\n  | _, _, _ => []\n  end.\n")
    arms = [f"  | {COQF[fa]}, {COQF[fb]} => {COQF[res_form[(fa, fb)]]}" for fa in FORMS for fb in FORMS]
    out.append("Definition gen_hmm_form (fa fb : form) : form :=\n  match fa, fb with\n" + "\n".join(arms) + "\n  end.\n")
    arms = [f"  | {D}%nat, {COQF[f]} => gen_ashom_{f}_{D} a" for D in (2, 3) for f in FORMS]
    out.append("Definition gen_ashom (D : nat) (f : form) (a : list (list K)) : list (list K) :=\n"
               "  match D, f with\n" + "\n".join(arms) + "\n  | _, _ => []\n  end.\n")
    arms = [f"  | {D}%nat, {COQF[f]}, {'true' if v else 'false'} => gen_apply{'v' if v else ''}_{f}_{D} a x"
            for D in (2, 3) for f in FORMS for v in (False, True)]
    out.append("Definition gen_apply (D : nat) (f : form) (vectors : bool) (a : list (list K)) (x : list K) : list K :=\n"
               "  match D, f, vectors with\n" + "\n".join(arms) + "\n  | _, _, _ => []\n  end.\n")
    out.append("End Gen.\n")
    return "\n".join(out)
