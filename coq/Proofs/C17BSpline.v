(* C17: bending energy in mode 'bspline' on coefficient fields sampled from quadratic polynomials equals the
   energy of the analytic second derivatives (D = 2), and the derivative weights act on quadratic / affine
   coefficient sequences as the analytic derivatives (1-D). *)
From Coq Require Import ZArith List Field Ring Lia Bool.
From DV Require Import Base.Field Base.FieldFacts Base.LinAlg Base.Tactics Model.Losses Model.RegStencil Model.Regularisers
  Gen.BSpline Proofs.C16Lists.
Import ListNotations.
Local Open Scope fld_scope.

Section BS.
Variable K : fld.
Hypothesis Kf : is_field K.
Hypothesis Kc : char0 K.
Add Field KF : Kf.
Let two_nz := two_nz K Kf Kc.
Ltac nz := repeat split; repeat (first [assumption | exact two_nz | exact (one_nz K Kc) | apply (mul_nz K Kf)
                                       | (apply (of_Z_nz K Kf Kc); discriminate) | apply Kc]).

Definition quad1 (a b c x : K) : K := a * x * x + b * x + c.

(* the derivative weights on four consecutive samples q(x), q(x+1), q(x+2), q(x+3) of a quadratic: the spline is
   q(y) + a/3 at y = x + 1 + t, its first derivative q'(y), its second derivative 2a *)
Lemma weights_on_quadratic (a b c x t : K) :
  let s := [quad1 a b c x; quad1 a b c (x + 1); quad1 a b c (x + 1 + 1); quad1 a b c (x + 1 + 1 + 1)] in
  dot (gen_w 0 t) s = quad1 a b c (x + 1 + t) + a / (1 + 1 + 1) /\
  dot (gen_w 1 t) s = (1 + 1) * a * (x + 1 + t) + b /\
  dot (gen_w 2 t) s = (1 + 1) * a /\
  dot (gen_w 3 t) s = 0.
Proof.
  assert (H3 : (1 + 1 + 1 : K) <> 0) by (replace (1 + 1 + 1 : K) with (@of_pos K 3) by (cbn [of_pos]; ring); apply Kc).
  assert (H3' : (1 + (1 + 1) : K) <> 0) by (intro E; apply H3; rewrite <- E; ring).
  cbv zeta. repeat split; fcbv; field; nz.
Qed.

(* D = 2: a coefficient field sampled from a quadratic polynomial of the control-point index *)
Definition quad2 (a b d e g h : K) : idx -> K :=
  fun p => let X := of_Z (get 0 p) in let Y := of_Z (get 1 p) in a * X * X + b * X * Y + d * Y * Y + e * X + g * Y + h.

Lemma bsev2_quadratic (a b d e g h s t : K) (i j : Z) :
  bsev (@gen_w K) [2; 0]%nat [s; t] [i; j] (quad2 a b d e g h) [] = (1 + 1) * a /\
  bsev (@gen_w K) [1; 1]%nat [s; t] [i; j] (quad2 a b d e g h) [] = b /\
  bsev (@gen_w K) [0; 2]%nat [s; t] [i; j] (quad2 a b d e g h) [] = (1 + 1) * d.
Proof.
  unfold bsev, quad2. cbn [map app get nth]. rewrite !(of_Z_add K Kf).
  generalize (@of_Z K i) (@of_Z K j). intros X Y.
  assert (H3 : (1 + 1 + 1 : K) <> 0) by (replace (1 + 1 + 1 : K) with (@of_pos K 3) by (cbn [of_pos]; ring); apply Kc).
  assert (H3' : (1 + (1 + 1) : K) <> 0) by (intro E; apply H3; rewrite <- E; ring).
  repeat split; fcbv; field; nz.
Qed.

(* bending energy of a 2-D field whose two components are such quadratics: the energy of the analytic second
   derivatives, at every evaluated point, for every stride and (non-zero) spacing *)
Lemma bs_bending_quadratic (a1 b1 d1 e1 g1 h1 a2 b2 d2 e2 g2 h2 hx hy : K) (stride : list Z) (p : idx) :
  hx <> 0 -> hy <> 0 -> length stride = 2%nat -> length p = 2%nat ->
  bs_bending_pt (@gen_w K) 2 stride [hx; hy] [quad2 a1 b1 d1 e1 g1 h1; quad2 a2 b2 d2 e2 g2 h2] p
  = sq ((1 + 1) * a1 / (hx * hx)) + (1 + 1) * sq (b1 / (hx * hy)) + sq ((1 + 1) * d1 / (hy * hy))
  + (sq ((1 + 1) * a2 / (hx * hx)) + (1 + 1) * sq (b2 / (hx * hy)) + sq ((1 + 1) * d2 / (hy * hy))).
Proof.
  intros Hx Hy Hs Hp.
  destruct stride as [|sx [|sy [|? ?]]]; cbn in Hs; try discriminate.
  destruct p as [|px [|py [|? ?]]]; cbn in Hp; try discriminate.
  unfold bs_bending_pt, sumf. cbn [seq map vsum Nat.ltb Nat.leb Nat.eqb comp nth].
  unfold bs_deriv, bs_base, bs_offs, ord2. cbn [seq map combine fst snd Nat.eqb Nat.add].
  set (s := of_Z (px mod sx) / of_Z sx). set (t := of_Z (py mod sy) / of_Z sy).
  destruct (bsev2_quadratic a1 b1 d1 e1 g1 h1 s t (px / sx) (py / sy)) as (A1 & B1 & C1).
  destruct (bsev2_quadratic a2 b2 d2 e2 g2 h2 s t (px / sx) (py / sy)) as (A2 & B2 & C2).
  rewrite A1, B1, C1, A2, B2, C2. unfold bs_denom, sq. cbn [combine fold_right fst snd fpown]. field. nz.
Qed.
End BS.
