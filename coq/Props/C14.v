(* C14 -- Cubic B-spline evaluation, derivatives and subdivision are exact.
   Statements only; every proof is `exact <lemma>`.  K ranges over all fields of characteristic 0 (instances:
   R for meaning, Qc for running the model).  gen_* are regenerated from /repo on every run (Gen/BSpline.v);
   ev*, evT*, eval_mirtk1, subdiv1, refine1 are the executable model (Model/BSpline.v) that the correspondence
   check runs against the implementation. *)
From Coq Require Import ZArith QArith Qcanon List Reals Ranalysis1.
From DV Require Import Base.Field Base.LinAlg Base.RInst Base.QcInst Model.BSplineBase Gen.BSpline Model.BSpline
  Proofs.C14Weights Proofs.C14Ctrl Proofs.C14Place Proofs.C14Eval Proofs.C14Subdiv Proofs.C14SubdivND Proofs.C14SubdivDirect Proofs.C14Struct Proofs.C14Real.
Import ListNotations.
Local Open Scope fld_scope.

(* 0. the specification side is the cubic B-spline: the coefficient lists are the truncated-power formula
      B(x) = 1/6 sum_k (-1)^k C(4,k) (x + 2 - k)_+^3 on every piece (in particular 0 beyond 2), C^2 at the knots *)
Theorem C14_spec_is_cubic_bspline :
  forall (K : fld), is_field K -> char0 K ->
  (forall (p : bpiece) (x : K), Bspec 0 p x = Btrunc p x) /\
  (forall d : nat, (d <= 2)%nat ->
     @Bspec K d PLo (of_Z (-2)) = @Bspec K d PM2 (of_Z (-2)) /\ @Bspec K d PM2 (of_Z (-1)) = @Bspec K d PM1 (of_Z (-1)) /\
     @Bspec K d PM1 0 = @Bspec K d PP0 0 /\ @Bspec K d PP0 1 = @Bspec K d PP1 1 /\
     @Bspec K d PP1 (of_Z 2) = @Bspec K d PHi (of_Z 2)).
Proof. intros K Kf Kc. split; [exact (Bspec_is_truncated_power K Kf Kc) | exact (Bspec_C2 K Kf Kc)]. Qed.
Print Assumptions C14_spec_is_cubic_bspline.

(* 1. the weights used for any stride are the analytic basis: for every derivative order d (0..3, and the zero
      weights the code returns beyond) and every offset t (hence t = o / s for every stride s and o < s) *)
Theorem C14_weights_are_basis :
  forall (K : fld), is_field K -> char0 K ->
  forall (d : nat) (t : K),
  gen_w d t = [Bspec d PP1 (t + 1); Bspec d PP0 t; Bspec d PM1 (t - 1); Bspec d PM2 (t - of_Z 2)].
Proof.
  intros K Kf Kc d t. destruct (Nat.le_gt_cases d 3) as [H|H];
  [exact (weights_are_basis K Kf Kc d t H) | exact (proj1 (weights_high_order K d t H))].
Qed.
Print Assumptions C14_weights_are_basis.

(* every derivative mode: row o of the order-d kernel for stride s is the d-th derivative of the analytic basis at the
   offset o / s -- so ev1 / ev2_at / ev3_at (= spl_f over these rows) are the tensor products of basis derivatives, i.e. the
   analytic partial derivatives of the spline w.r.t. control point coordinates, for ALL orders d (0 beyond 3) *)
Theorem C14_derivative_modes_analytic :
  forall (K : fld), is_field K -> char0 K ->
  forall d s o : nat, @wrow K d s o = basis4 d (zn o / zn s).
Proof. exact derivative_modes_analytic. Qed.
Print Assumptions C14_derivative_modes_analytic.

(* cubic_bspline_value (the kernel of the transposed algorithm and its derivatives of order 1, 2, 3; the translator checks that
   higher orders return 0) is the same B on every piece *)
Theorem C14_value_is_basis :
  forall (K : fld), is_field K -> char0 K ->
  forall (p : bpiece) (x : K),
  gen_B0 p x = Bspec 0 p x /\ gen_B1 p x = Bspec 1 p x /\ gen_B2 p x = Bspec 2 p x /\ gen_B3 p x = Bspec 3 p x.
Proof.
  intros K Kf Kc p x. repeat split;
  [exact (gen_B0_spec K Kf Kc p x)|exact (gen_B1_spec K Kf Kc p x)|exact (gen_B2_spec K Kf Kc p x)|exact (gen_B3_spec K Kf Kc p x)].
Qed.
Print Assumptions C14_value_is_basis.

(* 2. partition of unity; derivative weights sum to zero; linear precision (first moment about the cell) *)
Theorem C14_partition_of_unity :
  forall (K : fld), is_field K -> char0 K -> forall t : K, vsum (gen_w 0 t) = 1.
Proof. exact partition_of_unity. Qed.
Print Assumptions C14_partition_of_unity.

Theorem C14_derivative_weights_sum_zero :
  forall (K : fld), is_field K -> char0 K -> forall (d : nat) (t : K), (1 <= d)%nat -> vsum (gen_w d t) = 0.
Proof. exact derivative_weights_sum_zero. Qed.
Print Assumptions C14_derivative_weights_sum_zero.

Theorem C14_linear_precision :
  forall (K : fld), is_field K -> char0 K -> forall t : K,
  moment1 (gen_w 0 t) = t /\ moment1 (gen_w 1 t) = 1 /\ (forall d, (2 <= d)%nat -> moment1 (gen_w d t) = 0).
Proof.
  intros K Kf Kc t. split; [|split];
  [exact (linear_precision K Kf Kc t)|exact (linear_precision_d1 K Kf Kc t)|exact (fun d => linear_precision_high K Kf d t)].
Qed.
Print Assumptions C14_linear_precision.

(* 3. the order-(d+1) weights are the derivative of the order-d weights: each weight is the polynomial with
      coefficient list wcoef d k, the formal derivative of wcoef d k is wcoef (d+1) k, and the formal derivative
      is characterised algebraically by the Taylor shift p(t+h) = p(t) + h p'(t) + h^2 r(t,h) ... *)
Theorem C14_weights_derivative :
  forall (K : fld), is_field K -> char0 K ->
  (forall (d k : nat) (t : K), (k < 4)%nat -> nth k (gen_w d t) 0 = peval (wcoef d k) t) /\
  (forall d k : nat, pderiv (@wcoef K d k) = wcoef (S d) k) /\
  (forall (p : list K) (t h : K), peval p (t + h) = peval p t + h * peval (pderiv p) t + h * h * pshift2 K p t h).
Proof.
  intros K Kf Kc. split; [|split];
  [exact (weights_are_polynomials K Kf Kc)|exact (weights_formal_derivative K)|exact (taylor_shift K Kf)].
Qed.
Print Assumptions C14_weights_derivative.

(* ... and over the reals it is the derivative *)
Theorem C14_weights_derivative_real :
  forall (d k : nat) (t : R), (k < 4)%nat ->
  derivable_pt_lim (fun t => nth k (gen_w (K:=RF) d t) 0%R) t (nth k (gen_w (K:=RF) (S d) t) 0%R).
Proof. exact weights_real_derivative. Qed.
Print Assumptions C14_weights_derivative_real.

(* 4. a free-form deformation whose coefficients are an affine function of the control point position reproduces
      that function at every sample, and its derivative modes return the slope (per control point spacing):
      all image sizes m >= 1, all strides s >= 1 (divisible or not), all derivative orders; the control grid has
      ctrl_size m s points per axis (so this includes: every sample is covered) *)
Theorem C14_ffd_affine_exact_1d :
  forall (K : fld), is_field K -> char0 K ->
  forall (d s m : nat) (a b : K) (x : nat), (1 <= s)%nat -> (x < m)%nat ->
  nth x (ev1 d s (affine_coeffs s (ctrl_size m s) a b) m) 0
  = match d with 0%nat => a + b * zn x | 1%nat => b * zn s | _ => 0 end.
Proof. exact ffd_affine_exact_1d. Qed.
Print Assumptions C14_ffd_affine_exact_1d.

Theorem C14_ffd_affine_exact_2d :
  forall (K : fld), is_field K -> char0 K ->
  forall (dx dy sx sy mx my : nat) (c : list (list K)) (a bx by_ : K) (x y : nat),
  (1 <= sx)%nat -> (1 <= sy)%nat -> (x < mx)%nat -> (y < my)%nat ->
  (forall j i, (j < ctrl_size my sy)%nat -> (i < ctrl_size mx sx)%nat ->
     at2 c j i = a + bx * cpos K sx i + by_ * cpos K sy j) ->
  nth x (nth y (ev2 dx dy sx sy c mx my) []) 0 =
    aff_val K dy sy y (aff_val K dx sx x a bx) (match dx with 0%nat => by_ | _ => 0 end).
Proof. exact ffd_affine_exact_2d_nth. Qed.
Print Assumptions C14_ffd_affine_exact_2d.

Theorem C14_ffd_affine_exact_3d :
  forall (K : fld), is_field K -> char0 K ->
  forall (dx dy dz sx sy sz mx my mz : nat) (c : list (list (list K))) (a bx by_ bz : K) (x y z : nat),
  (1 <= sx)%nat -> (1 <= sy)%nat -> (1 <= sz)%nat -> (x < mx)%nat -> (y < my)%nat -> (z < mz)%nat ->
  (forall k j i, (k < ctrl_size mz sz)%nat -> (j < ctrl_size my sy)%nat -> (i < ctrl_size mx sx)%nat ->
     at3 c k j i = a + bx * cpos K sx i + by_ * cpos K sy j + bz * cpos K sz k) ->
  ev3_at dx dy dz sx sy sz c z y x =
    aff_val K dz sz z (aff_val K dy sy y (aff_val K dx sx x a bx) (match dx with 0%nat => by_ | _ => 0 end))
            (match dx, dy with 0%nat, 0%nat => bz | _, _ => 0 end).
Proof. exact ffd_affine_exact_3d. Qed.
Print Assumptions C14_ffd_affine_exact_3d.

(* 5. the two evaluation algorithms agree.
      (a) default algorithm, 1-D: one 4-tap correlation per offset followed by the reshuffle = the closed form *)
Theorem C14_default_algorithm_structure :
  forall (K : fld) (d s : nat) (c : list K) (m : nat),
  (1 <= s)%nat -> (m <= (length c - 3) * s)%nat -> eval_mirtk1 d s c m = ev1 d s c m.
Proof. exact mirtk1_pointwise. Qed.
Print Assumptions C14_default_algorithm_structure.

(*    (a') default algorithm, 2-D: a pass along x of every row, a pass along y of every column, crop at the end *)
Theorem C14_default_algorithm_structure_2d :
  forall (K : fld) (dx dy sx sy : nat) (c : list (list K)) (ny nx mx my : nat),
  (length c = ny /\ forall y, (y < ny)%nat -> length (nth y c []) = nx) ->
  (1 <= sx)%nat -> (1 <= sy)%nat -> (1 <= ny)%nat -> (1 <= nx)%nat ->
  (1 <= mx)%nat -> (mx <= (nx - 3) * sx)%nat -> (my <= (ny - 3) * sy)%nat ->
  eval_mirtk2 dx dy sx sy c mx my = ev2 dx dy sx sy c mx my.
Proof. exact mirtk2_pointwise. Qed.
Print Assumptions C14_default_algorithm_structure_2d.

Theorem C14_default_algorithm_structure_3d :
  forall (K : fld) (dx dy dz sx sy sz : nat) (c : list (list (list K))) (nz ny nx mx my mz : nat),
  (length c = nz /\ forall k, (k < nz)%nat -> length (nth k c []) = ny /\ forall j, (j < ny)%nat -> length (nth j (nth k c []) []) = nx) ->
  (1 <= sx)%nat -> (1 <= sy)%nat -> (1 <= sz)%nat -> (1 <= nz)%nat -> (1 <= ny)%nat -> (1 <= nx)%nat ->
  (1 <= mx)%nat -> (mx <= (nx - 3) * sx)%nat -> (1 <= my)%nat -> (my <= (ny - 3) * sy)%nat -> (mz <= (nz - 3) * sz)%nat ->
  eval_mirtk3 dx dy dz sx sy sz c mx my mz = ev3 dx dy dz sx sy sz c mx my mz.
Proof. exact mirtk3_pointwise. Qed.
Print Assumptions C14_default_algorithm_structure_3d.

(*    (b) transposed convolution with the kernel B((i - r) / s), padding, crop [s, s + m) = the closed form,
          D = 1, 2, 3, every stride, every coefficient tensor, every output size the coefficients support *)
Theorem C14_two_algorithms_agree_1d :
  forall (K : fld), is_field K -> char0 K ->
  forall (s : nat) (c : list K) (m : nat),
  (1 <= s)%nat -> (m <= (length c - 3) * s)%nat -> evT1 s c m = ev1 0 s c m.
Proof. exact two_algorithms_agree_1d. Qed.
Print Assumptions C14_two_algorithms_agree_1d.

Theorem C14_two_algorithms_agree_2d :
  forall (K : fld), is_field K -> char0 K ->
  forall (sx sy : nat) (c : list (list K)) (nx mx my : nat),
  (1 <= sx)%nat -> (1 <= sy)%nat -> (forall j, (j < length c)%nat -> length (nth j c []) = nx) ->
  (mx <= (nx - 3) * sx)%nat -> (my <= (length c - 3) * sy)%nat ->
  evT2 sx sy c mx my = ev2 0 0 sx sy c mx my.
Proof. exact two_algorithms_agree_2d. Qed.
Print Assumptions C14_two_algorithms_agree_2d.

Theorem C14_two_algorithms_agree_3d :
  forall (K : fld), is_field K -> char0 K ->
  forall (sx sy sz : nat) (c : list (list (list K))) (nx ny mx my mz : nat),
  (1 <= sx)%nat -> (1 <= sy)%nat -> (1 <= sz)%nat ->
  (forall k, (k < length c)%nat -> length (nth k c []) = ny) ->
  (forall k j, (k < length c)%nat -> (j < ny)%nat -> length (nth j (nth k c []) []) = nx) ->
  (mx <= (nx - 3) * sx)%nat -> (my <= (ny - 3) * sy)%nat -> (mz <= (length c - 3) * sz)%nat ->
  evT3 sx sy sz c mx my mz = ev3 0 0 0 sx sy sz c mx my mz.
Proof. exact two_algorithms_agree_3d. Qed.
Print Assumptions C14_two_algorithms_agree_3d.

(* 6. the control grid is always large enough, and not larger than needed: all sizes and strides *)
Theorem C14_control_grid_covers :
  forall m s : Z, (1 <= m)%Z -> (1 <= s)%Z ->
  (s * (gen_ctrl_size m s - 3) >= m)%Z /\ (s * (gen_ctrl_size m s - 4) < m)%Z /\
  (forall x : Z, (0 <= x < m)%Z -> (0 <= x / s)%Z /\ (x / s + 3 < gen_ctrl_size m s)%Z).
Proof.
  intros m s Hm Hs. split; [|split];
  [exact (ctrl_covers m s Hm Hs)|exact (ctrl_minimal m s Hm Hs)|exact (fun x H => ctrl_indices_in_range m s x Hs H)].
Qed.
Print Assumptions C14_control_grid_covers.

(* placement: along an axis with origin o and spacing h, control point k of cubic_bspline_control_point_grid lies at the
   world position of image index (k - 1) s -- one control point before the first sample; every sample lies between
   control points q+1 and q+2 (q = x / s) and the points q and q+3 (one before, two after the cell start) exist *)
Theorem C14_control_point_placement :
  forall (K : fld), is_field K ->
  (forall o h s k : K, gen_ctrl_origin o h s + gen_ctrl_spacing h s * k = o + h * ((k - 1) * s)) /\
  (forall m s x : Z, (1 <= s)%Z -> (0 <= x < m)%Z ->
     let q := (x / s)%Z in
     ((q + 1 - 1) * s <= x < (q + 2 - 1) * s)%Z /\ (0 <= q)%Z /\ (q + 3 <= gen_ctrl_size m s - 1)%Z).
Proof. intros K Kf. split; [exact (ctrl_point_position K Kf)|exact ctrl_one_before_two_after]. Qed.
Print Assumptions C14_control_point_placement.

(* 7. subdivision: the stencils are the two-scale masks 1/8 (1, 4, 6, 4, 1); subdividing any coefficient list leaves
      the spline and its derivatives unchanged on its whole domain (every cell q, both halves, every local
      coordinate u, chain-rule factor 2^d) *)
Theorem C14_two_scale_masks :
  forall (K : fld), is_field K -> char0 K ->
  @gen_sub_even K 0 0 1 = of_Q 1 8 /\ @gen_sub_odd K 0 1 = of_Q 1 2 /\ @gen_sub_even K 0 1 0 = of_Q 3 4 /\
  @gen_sub_odd K 1 0 = of_Q 1 2 /\ @gen_sub_even K 1 0 0 = of_Q 1 8.
Proof. exact stencil_masks. Qed.
Print Assumptions C14_two_scale_masks.

Theorem C14_subdivision_preserves :
  forall (K : fld), is_field K -> char0 K ->
  forall (d : nat) (c : list K) (q : nat) (u : K), (q + 3 < length c)%nat ->
  pow2 d * spl (gen_w d u) (subdiv1 c) (2 * q + 1) = spl (gen_w d (u / (1 + 1))) c q /\
  pow2 d * spl (gen_w d u) (subdiv1 c) (2 * q + 2) = spl (gen_w d ((1 + u) / (1 + 1))) c q.
Proof. exact subdivision_preserves. Qed.
Print Assumptions C14_subdivision_preserves.

(* subdivide_cubic_bspline along any axis of a 2-D / 3-D coefficient tensor: every cell of the tensor-product spline (both
   halves along the subdivided axis, any local coordinate u, any derivative order d along that axis, arbitrary weights --
   hence any position and derivative order -- along the other axes) keeps its value *)
Theorem C14_subdivision_preserves_2d :
  forall (K : fld), is_field K -> char0 K ->
  forall (d : nat) (w : list K) (c : list (list K)) (ny nx qo q : nat) (second : bool) (u : K),
  (length c = ny /\ forall y, (y < ny)%nat -> length (nth y c []) = nx) -> (1 <= ny)%nat ->
  ((qo + 3 < ny)%nat -> (q + 3 < nx)%nat ->
     pow2 d * spl_f w (fun j => cellv d u (fun i => at2 (along_x2 (subdiv1 (K:=K)) c) j i) (half_Q second q)) qo
     = spl_f w (fun j => cellv d (half_u second u) (fun i => at2 c j i) q) qo) /\
  ((qo + 3 < nx)%nat -> (q + 3 < ny)%nat ->
     pow2 d * cellv d u (fun j => spl_f w (fun i => at2 (along_y2 (subdiv1 (K:=K)) c) j i) qo) (half_Q second q)
     = cellv d (half_u second u) (fun j => spl_f w (fun i => at2 c j i) qo) q).
Proof.
  intros K Kf Kc d w c ny nx qo q second u Hc H1. split;
  [exact (subdivide2_x K Kf Kc d w c ny nx qo q second u Hc)|exact (subdivide2_y K Kf Kc d w c ny nx qo q second u Hc H1)].
Qed.
Print Assumptions C14_subdivision_preserves_2d.

Theorem C14_subdivision_preserves_3d :
  forall (K : fld), is_field K -> char0 K ->
  forall (d : nat) (w1 w2 : list K) (c : list (list (list K))) (nz ny nx q1 q2 q : nat) (second : bool) (u : K),
  (length c = nz /\ forall k, (k < nz)%nat -> length (nth k c []) = ny /\ forall j, (j < ny)%nat -> length (nth j (nth k c []) []) = nx) ->
  (1 <= nz)%nat -> (1 <= ny)%nat -> (1 <= nx)%nat ->
  ((q2 + 3 < nz)%nat -> (q1 + 3 < ny)%nat -> (q + 3 < nx)%nat ->
     pow2 d * spl_f w2 (fun k => spl_f w1 (fun j => cellv d u (fun i => at3 (along_x3 (subdiv1 (K:=K)) c) k j i) (half_Q second q)) q1) q2
     = spl_f w2 (fun k => spl_f w1 (fun j => cellv d (half_u second u) (fun i => at3 c k j i) q) q1) q2) /\
  ((q2 + 3 < nz)%nat -> (q1 + 3 < nx)%nat -> (q + 3 < ny)%nat ->
     pow2 d * spl_f w2 (fun k => cellv d u (fun j => spl_f w1 (fun i => at3 (along_y3 (subdiv1 (K:=K)) c) k j i) q1) (half_Q second q)) q2
     = spl_f w2 (fun k => cellv d (half_u second u) (fun j => spl_f w1 (fun i => at3 c k j i) q1) q) q2) /\
  ((q2 + 3 < ny)%nat -> (q1 + 3 < nx)%nat -> (q + 3 < nz)%nat ->
     pow2 d * cellv d u (fun k => spl_f w2 (fun j => spl_f w1 (fun i => at3 (along_z3 (subdiv1 (K:=K)) c) k j i) q1) q2) (half_Q second q)
     = cellv d (half_u second u) (fun k => spl_f w2 (fun j => spl_f w1 (fun i => at3 c k j i) q1) q2) q).
Proof.
  intros K Kf Kc d w1 w2 c nz ny nx q1 q2 q second u Hc Hz Hy Hx. split; [|split];
  [exact (subdivide3_x K Kf Kc d w1 w2 c nz ny nx q2 q1 q second u Hc)
  |exact (subdivide3_y K Kf Kc d w1 w2 c nz ny nx q2 q1 q second u Hc Hy)
  |exact (subdivide3_z K Kf Kc d w1 w2 c nz ny nx q2 q1 q second u Hc Hz Hy Hx)].
Qed.
Print Assumptions C14_subdivision_preserves_3d.

(* refining a free-form deformation's image grid (m -> 2 m - 1 samples, same stride): on the refined grid the
   transformation evaluates the old spline (= the old coefficients seen with twice the stride), in particular
   the old values at the old samples; all sizes, strides, derivative orders; and any number of refinements *)
Theorem C14_refine_preserves :
  forall (K : fld), is_field K -> char0 K ->
  forall (d s m : nat) (c : list K), (1 <= s)%nat -> (1 <= m)%nat -> length c = ctrl_size m s ->
  length (refine1 s m c) = ctrl_size (2 * m - 1) s /\
  map (fmul (pow2 d)) (ev1 d s (refine1 s m c) (2 * m - 1)) = ev1 d (2 * s) c (2 * m - 1) /\
  (forall x, (x < m)%nat -> nth (2 * x) (ev1 0 s (refine1 s m c) (2 * m - 1)) 0 = nth x (ev1 0 s c m) 0).
Proof.
  intros K Kf Kc d s m c Hs Hm Hc. split; [|split];
  [exact (length_refine1 K s m c Hs Hm Hc)|exact (refine_preserves K Kf Kc d s m c Hs Hm Hc)
  |exact (fun x Hx => refine_keeps_samples K Kf Kc s m c x Hs Hx Hc)].
Qed.
Print Assumptions C14_refine_preserves.

(* the same in 2-D and 3-D, for refinement along any one axis (refinement along several axes is the composition):
   on the refined image grid the refined coefficient tensor evaluates the old tensor-product spline (old coefficients,
   stride doubled along that axis), all derivative orders, all image sizes and strides *)
Theorem C14_refine_preserves_2d :
  forall (K : fld), is_field K -> char0 K ->
  forall (dx dy sx sy mx my : nat) (c : list (list K)) (x y : nat),
  (1 <= sx)%nat -> (1 <= sy)%nat -> (1 <= mx)%nat -> (1 <= my)%nat ->
  (length c = ctrl_size my sy /\ forall j, (j < ctrl_size my sy)%nat -> length (nth j c []) = ctrl_size mx sx) ->
  ((x < 2 * mx - 1)%nat -> (y < my)%nat ->
     pow2 dx * ev2_at dx dy sx sy (along_x2 (refine1 sx mx) c) y x = ev2_at dx dy (2 * sx) sy c y x) /\
  ((x < mx)%nat -> (y < 2 * my - 1)%nat ->
     pow2 dy * ev2_at dx dy sx sy (along_y2 (refine1 sy my) c) y x = ev2_at dx dy sx (2 * sy) c y x).
Proof. exact ffd_refine_2d. Qed.
Print Assumptions C14_refine_preserves_2d.

Theorem C14_refine_preserves_3d :
  forall (K : fld), is_field K -> char0 K ->
  forall (dx dy dz sx sy sz mx my mz : nat) (c : list (list (list K))) (x y z : nat),
  (1 <= sx)%nat -> (1 <= sy)%nat -> (1 <= sz)%nat -> (1 <= mx)%nat -> (1 <= my)%nat -> (1 <= mz)%nat ->
  (length c = ctrl_size mz sz /\
   forall k, (k < ctrl_size mz sz)%nat ->
     length (nth k c []) = ctrl_size my sy /\
     forall j, (j < ctrl_size my sy)%nat -> length (nth j (nth k c []) []) = ctrl_size mx sx) ->
  ((x < 2 * mx - 1)%nat -> (y < my)%nat -> (z < mz)%nat ->
     pow2 dx * ev3_at dx dy dz sx sy sz (along_x3 (refine1 sx mx) c) z y x = ev3_at dx dy dz (2 * sx) sy sz c z y x) /\
  ((x < mx)%nat -> (y < 2 * my - 1)%nat -> (z < mz)%nat ->
     pow2 dy * ev3_at dx dy dz sx sy sz (along_y3 (refine1 sy my) c) z y x = ev3_at dx dy dz sx (2 * sy) sz c z y x) /\
  ((x < mx)%nat -> (y < my)%nat -> (z < 2 * mz - 1)%nat ->
     pow2 dz * ev3_at dx dy dz sx sy sz (along_z3 (refine1 sz mz) c) z y x = ev3_at dx dy dz sx sy (2 * sz) c z y x).
Proof. exact ffd_refine_3d. Qed.
Print Assumptions C14_refine_preserves_3d.

Theorem C14_repeated_refinement :
  forall (K : fld), is_field K -> char0 K ->
  forall (k s m : nat) (c : list K), (1 <= s)%nat -> (1 <= m)%nat -> length c = ctrl_size m s ->
  ev1 0 s (refine_n k s m c) (size_n k m) = ev1 0 (pow2n k * s) c (size_n k m).
Proof. exact refine_n_preserves. Qed.
Print Assumptions C14_repeated_refinement.

(* non-vacuity: concrete non-trivial instances (stride 3, image size 7 -> 6 control points; affine and non-affine
   coefficients; the refinement hypothesis length c = ctrl_size m s is satisfiable) *)
Example C14_nonvacuous :
  let c : list QcF := [q 1 1; q (-2) 1; q 3 2; q 0 1; q 5 1; q (-1) 4] in
  ctrl_size 7 3 = 6%nat /\ length c = ctrl_size 7 3 /\
  vclose 0%Q (ev1 (K:=QcF) 0 3 (affine_coeffs (K:=QcF) 3 6 (q 1 2) (q 2 1)) 7)
             [q 1 2; q 5 2; q 9 2; q 13 2; q 17 2; q 21 2; q 25 2] = true /\
  vclose 0%Q (evT1 (K:=QcF) 3 c 7) (ev1 0 3 c 7) = true /\
  vclose 0%Q (ev1 (K:=QcF) 0 3 c 7) [q 0 1; q 0 1; q 0 1; q 0 1; q 0 1; q 0 1; q 0 1] = false /\
  vclose 0%Q (ev1 (K:=QcF) 0 3 (refine1 3 7 c) 13) (ev1 0 6 c 13) = true.
Proof. vm_compute. repeat split. Qed.
