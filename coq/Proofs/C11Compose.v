(* compose_flows is exact on affine displacement fields whose first operand keeps the sample positions inside the
   sample hull: the composite is the displacement field of the product map.  D = 1, 2, 3, every lattice size >= 2,
   both align_corners conventions, abstract field. *)
From Coq Require Import ZArith List Field Ring Lia Bool.
From DV Require Import Base.Field Base.FieldFacts Base.LinAlg Base.Tactics Model.Sampler Model.Flow
  Proofs.SamplerFacts Proofs.C11Interp.
Import ListNotations.
Local Open Scope fld_scope.

Section Compose.
Variable K : fld.
Hypothesis Kf : is_field K.
Hypothesis Kc : char0 K.
Add Field KFC : Kf.
Variable floorK : K -> Z.

Lemma zlen_tab1 n (f : Z -> K) : (0 <= n)%Z -> zlen (tab1 n f) = n.
Proof. intro H. unfold tab1. now apply zlen_map_zseq. Qed.
Lemma zlen_tab2 nx ny (f : Z -> Z -> K) : (0 <= ny)%Z -> zlen (tab2 nx ny f) = ny.
Proof. intro H. unfold tab2. now apply zlen_map_zseq. Qed.
Lemma zlen_hd_tab2 nx ny (f : Z -> Z -> K) : (0 <= nx)%Z -> (1 <= ny)%Z -> zlen (hd [] (tab2 nx ny f)) = nx.
Proof. intros Hx Hy. unfold tab2. rewrite hd_map_zseq by lia. now apply zlen_tab1. Qed.
Lemma zlen_tab3 nx ny nz (f : Z -> Z -> Z -> K) : (0 <= nz)%Z -> zlen (tab3 nx ny nz f) = nz.
Proof. intro H. unfold tab3. now apply zlen_map_zseq. Qed.
Lemma zlen_hd_tab3 nx ny nz (f : Z -> Z -> Z -> K) : (0 <= ny)%Z -> (1 <= nz)%Z -> zlen (hd [] (tab3 nx ny nz f)) = ny.
Proof. intros Hy Hz. unfold tab3. rewrite hd_map_zseq by lia. now apply zlen_tab2. Qed.
Lemma zlen_hd_hd_tab3 nx ny nz (f : Z -> Z -> Z -> K) : (0 <= nx)%Z -> (1 <= ny)%Z -> (1 <= nz)%Z ->
  zlen (hd [] (hd [] (tab3 nx ny nz f))) = nx.
Proof. intros Hx Hy Hz. unfold tab3. rewrite hd_map_zseq by lia. now apply zlen_hd_tab2. Qed.

(* ---------------- D = 1 ---------------- *)
Lemma happly1_0 (a t cx : K) : nth 0 (happly 1 (H1 a t) [cx]) 0 = a * cx + t.
Proof. fcbv. ring. Qed.
Lemma affdisp1_0 (a t cx : K) : nth 0 (affdisp 1 (H1 a t) [cx]) 0 = (a - 1) * cx + t.
Proof. fcbv. ring. Qed.
Lemma hcomp1_H1 (b s a t : K) : hcomp 1 (H1 b s) (H1 a t) = H1 (b * a) (b * t + s).
Proof. fcbv. list_eq; ring. Qed.

Lemma compose1_affine ac nx (a t b s : K) : (2 <= nx)%Z ->
  cells_ok1 floorK ac nx (H1 a t) ->
  compose1 floorK ac (aff_field1 ac nx (H1 a t)) (aff_field1 ac nx (H1 b s)) = aff_field1 ac nx (hcomp 1 (H1 b s) (H1 a t)).
Proof.
  intros Hnx Hc. rewrite hcomp1_H1. unfold compose1, compose1g, aff_field1. cbn [seq map nth].
  rewrite (tab1_ext nx (fun x => nth 0 (affdisp 1 (H1 a t) [ncoord ac nx x]) 0) (fun x => (a - 1) * ncoord ac nx x + t))
    by (intros; apply affdisp1_0).
  rewrite (tab1_ext nx (fun x => nth 0 (affdisp 1 (H1 b s) [ncoord ac nx x]) 0) (fun x => (b - 1) * ncoord ac nx x + s))
    by (intros; apply affdisp1_0).
  rewrite zlen_tab1 by lia. f_equal. apply tab1_ext. intros x Hx.
  rewrite !get1_tab1 by lia. rewrite affdisp1_0.
  pose proof (Hc x Hx) as G. rewrite happly1_0 in G.
  replace (ncoord ac nx x + ((a - 1) * ncoord ac nx x + t)) with (a * ncoord ac nx x + t) by ring.
  rewrite (gs1_affine K Kf Kc floorK ac nx (b - 1) s _ Hnx G). ring.
Qed.

(* ---------------- D = 2 ---------------- *)
Lemma happly2_0 (a00 a01 t0 a10 a11 t1 cx cy : K) :
  nth 0 (happly 2 (H2 a00 a01 t0 a10 a11 t1) [cx; cy]) 0 = a00 * cx + a01 * cy + t0.
Proof. fcbv. ring. Qed.
Lemma happly2_1 (a00 a01 t0 a10 a11 t1 cx cy : K) :
  nth 1 (happly 2 (H2 a00 a01 t0 a10 a11 t1) [cx; cy]) 0 = a10 * cx + a11 * cy + t1.
Proof. fcbv. ring. Qed.
Lemma affdisp2_0 (a00 a01 t0 a10 a11 t1 cx cy : K) :
  nth 0 (affdisp 2 (H2 a00 a01 t0 a10 a11 t1) [cx; cy]) 0 = (a00 - 1) * cx + a01 * cy + t0.
Proof. fcbv. ring. Qed.
Lemma affdisp2_1 (a00 a01 t0 a10 a11 t1 cx cy : K) :
  nth 1 (affdisp 2 (H2 a00 a01 t0 a10 a11 t1) [cx; cy]) 0 = a10 * cx + (a11 - 1) * cy + t1.
Proof. fcbv. ring. Qed.
Lemma hcomp2_H2 (b00 b01 s0 b10 b11 s1 a00 a01 t0 a10 a11 t1 : K) :
  hcomp 2 (H2 b00 b01 s0 b10 b11 s1) (H2 a00 a01 t0 a10 a11 t1)
  = H2 (b00 * a00 + b01 * a10) (b00 * a01 + b01 * a11) (b00 * t0 + b01 * t1 + s0)
       (b10 * a00 + b11 * a10) (b10 * a01 + b11 * a11) (b10 * t0 + b11 * t1 + s1).
Proof. fcbv. list_eq; ring. Qed.

Lemma compose2_affine ac nx ny (a00 a01 t0 a10 a11 t1 b00 b01 s0 b10 b11 s1 : K) : (2 <= nx)%Z -> (2 <= ny)%Z ->
  cells_ok2 floorK ac nx ny (H2 a00 a01 t0 a10 a11 t1) ->
  compose2 floorK ac (aff_field2 ac nx ny (H2 a00 a01 t0 a10 a11 t1)) (aff_field2 ac nx ny (H2 b00 b01 s0 b10 b11 s1))
  = aff_field2 ac nx ny (hcomp 2 (H2 b00 b01 s0 b10 b11 s1) (H2 a00 a01 t0 a10 a11 t1)).
Proof.
  intros Hnx Hny Hc. rewrite hcomp2_H2. unfold compose2, compose2g, aff_field2. cbn [seq map nth].
  set (A := H2 a00 a01 t0 a10 a11 t1). set (B := H2 b00 b01 s0 b10 b11 s1).
  rewrite (tab2_ext nx ny (fun x y => nth 0 (affdisp 2 A [ncoord ac nx x; ncoord ac ny y]) 0)
             (fun x y => (a00 - 1) * ncoord ac nx x + a01 * ncoord ac ny y + t0)) by (intros; apply affdisp2_0).
  rewrite (tab2_ext nx ny (fun x y => nth 1 (affdisp 2 A [ncoord ac nx x; ncoord ac ny y]) 0)
             (fun x y => a10 * ncoord ac nx x + (a11 - 1) * ncoord ac ny y + t1)) by (intros; apply affdisp2_1).
  rewrite (tab2_ext nx ny (fun x y => nth 0 (affdisp 2 B [ncoord ac nx x; ncoord ac ny y]) 0)
             (fun x y => (b00 - 1) * ncoord ac nx x + b01 * ncoord ac ny y + s0)) by (intros; apply affdisp2_0).
  rewrite (tab2_ext nx ny (fun x y => nth 1 (affdisp 2 B [ncoord ac nx x; ncoord ac ny y]) 0)
             (fun x y => b10 * ncoord ac nx x + (b11 - 1) * ncoord ac ny y + s1)) by (intros; apply affdisp2_1).
  rewrite zlen_tab2, zlen_hd_tab2 by lia.
  assert (P : forall x y, (0 <= x < nx)%Z -> (0 <= y < ny)%Z ->
     good_cell floorK nx (unnorm ac nx (a00 * ncoord ac nx x + a01 * ncoord ac ny y + t0)) /\
     good_cell floorK ny (unnorm ac ny (a10 * ncoord ac nx x + a11 * ncoord ac ny y + t1))).
  { intros x y Hx Hy. pose proof (Hc x y Hx Hy) as G. cbv zeta in G. unfold A in G.
    rewrite happly2_0, happly2_1 in G. exact G. }
  f_equal; [|f_equal]; apply tab2_ext; intros x y Hx Hy; rewrite !get2_tab2 by lia;
    destruct (P x y Hx Hy) as [Gx Gy];
    replace (ncoord ac nx x + ((a00 - 1) * ncoord ac nx x + a01 * ncoord ac ny y + t0))
      with (a00 * ncoord ac nx x + a01 * ncoord ac ny y + t0) by ring;
    replace (ncoord ac ny y + (a10 * ncoord ac nx x + (a11 - 1) * ncoord ac ny y + t1))
      with (a10 * ncoord ac nx x + a11 * ncoord ac ny y + t1) by ring.
  - rewrite (gs2_affine K Kf Kc floorK ac nx ny (b00 - 1) b01 s0 _ _ Hnx Hny Gx Gy). rewrite affdisp2_0. ring.
  - rewrite (gs2_affine K Kf Kc floorK ac nx ny b10 (b11 - 1) s1 _ _ Hnx Hny Gx Gy). rewrite affdisp2_1. ring.
Qed.
End Compose.
