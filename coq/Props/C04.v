(* C04 -- Image operations move voxel data and sampling grid in lock-step.  Statements only.

   Grid side: Model/GridDerive.v (hand model of the derivation methods of core/grid.py) over the generated
   world maps of Gen/GridT.v, Gen/GridCtor.v, Gen/GridDerive.v (regenerated on every run).
   Data side: Model/ImageOps.v -- images are (shape in (x, y[, z]) order, value function); every operation of
   core/image.py is a composition of per-axis operations (crop_ax, interp_ax, pool_ax, corr_ax); the argument
   conventions of the code are tied by the translator unit ImageOpsT (Gen/ImageOpsT.v) and the correspondence.
   d_itw g J = world position of (continuous) index J on grid g. *)
From Coq Require Import ZArith QArith Qcanon List Lia.
From DV Require Import Base.Field Base.LinAlg Base.QcInst Model.Enums Model.Homog Model.Grid Model.Sampler Model.SamplerQc
  Gen.GridT Gen.GridCtor Gen.GridDerive Model.GridDerive Model.GridDeriveQc Model.ImageOps Model.ImageOpsQc Model.ImageOpsCheck Gen.ImageOpsT
  Model.ImageChain Proofs.C03Resize Proofs.C04Axis Proofs.C04World Proofs.C04Ops Proofs.C04Qc Proofs.C04Gen
  Proofs.C04Chain Proofs.C04ChainWorld Proofs.C04Tie Proofs.C04Shapes Proofs.C04Sample Model.ItkSpec Model.Resample Gen.SampleT.
Import ListNotations.

Section Statements.
Local Open Scope fld_scope.
Variable K : fld.
Hypothesis Kf : is_field K.
Hypothesis Kc : char0 K.
Variable floorK : K -> Z.          (* floor used by interpolation (cell selection) *)
Variable ceilK floorG : K -> Z.    (* ceil / floor applied by core/grid.py to the float size *)
Variable leK : K -> K -> bool.

(* 1. lockstep_index_map, resize family (resize, downsample, upsample, pyramid levels -- all are Grid._resize with the
      spacing formulas generated from the code): the new grid puts index J where the old grid puts F.interpolate's
      source index of J, for both align_corners conventions, every continuous J *)
Theorem C04_lockstep_resize :
  forall (D : nat), D = 2%nat \/ D = 3%nat ->
  forall (n s c m : nat -> K) (d : nat -> nat -> K) (ac : bool) (J : list K), length J = D ->
  (forall i, (i < D)%nat -> m i - 1 <> 0) -> (forall i, (i < D)%nat -> m i <> 0) ->
  gen_pts D GRID WORLD (vtab D m)
    ((if ac then gen_resize_spacing_ac else gen_resize_spacing_nac) D (vtab D n) (vtab D s) (vtab D c) (tab D D d) (vtab D m))
    (vtab D c) (tab D D d) J
  = gen_pts D GRID WORLD (vtab D n) (vtab D s) (vtab D c) (tab D D d) (vtab D (fun i => rsz ac (n i) (m i) (nth i J 0))).
Proof. exact (lockstep_resize K Kf Kc). Qed.

Theorem C04_interp_src_is_rsz :
  forall (ac : bool) (nz mz j : Z), (of_Z mz - 1 : K) <> 0 -> (of_Z mz : K) <> 0 ->
  interp_src (K:=K) ac nz mz j = rsz ac (of_Z nz) (of_Z mz) (of_Z j).
Proof. exact (interp_src_rsz K Kf Kc). Qed.

(* 2. resample (same center and direction, new spacing, any new size) *)
Theorem C04_lockstep_resample :
  forall (D : nat), D = 2%nat \/ D = 3%nat ->
  forall (n s c m : nat -> K) (d : nat -> nat -> K) (s' : nat -> K) (J : list K), length J = D ->
  (forall i, (i < D)%nat -> s i <> 0) ->
  gen_pts D GRID WORLD (vtab D m) (vtab D s') (vtab D c) (tab D D d) J
  = gen_pts D GRID WORLD (vtab D n) (vtab D s) (vtab D c) (tab D D d) (vtab D (fun i => rsm (n i) (m i) (s i) (s' i) (nth i J 0))).
Proof. exact (lockstep_resample K Kf Kc). Qed.

(* 3. pooling: sample J of the pooled grid lies at the centroid of window J (grid side, from C03) *)
Theorem C04_lockstep_pool :
  forall (D : nat), D = 2%nat \/ D = 3%nat ->
  forall (n s c : nat -> K) (d : nat -> nat -> K) (n' k : nat -> K) (J : list K), length J = D ->
  let Kk := vtab D k in
  gen_pts D GRID WORLD (vtab D n') (vmul (vtab D s) Kk)
    (gen_center_of_origin D (vtab D n') (vmul (vtab D s) Kk) (tab D D d)
       (gen_pts D GRID WORLD (vtab D n) (vtab D s) (vtab D c) (tab D D d) (vscale (1 / (1 + 1)) (vsub Kk (repeat 1 (length Kk))))))
    (tab D D d) J
  = gen_pts D GRID WORLD (vtab D n) (vtab D s) (vtab D c) (tab D D d) (vadd (vmul Kk J) (vscale (1 / (1 + 1)) (vsub Kk (vones D)))).
Proof. exact (pool_keeps_centroids K Kf Kc). Qed.

(* 4. interp_affine_exact, per axis, for images of ANY number of axes and ANY sizes: linear interpolation along an axis,
      the window mean (every window length k, by induction) and every normalised stencil with vanishing first moment
      reproduce functions affine in the index, wherever the cell / window / stencil lies inside the image *)
Theorem C04_interp_axis_affine :
  forall (pad : padmode) (ax : nat) (src : Z -> K) (m : Z) (im : nimg (K:=K)) (a : list K) (b : K) (J : list Z),
  length a = length J -> (ax < length J)%nat ->
  (forall i, (0 <= i < zget (ishape im) ax)%Z -> ival im (upd ax i J) = aff a b (upd ax i J)) ->
  let x := src (zget J ax) in
  (0 <= floorK x <= zget (ishape im) ax - 1)%Z ->
  ((floorK x <= zget (ishape im) ax - 2)%Z \/ x - of_Z (floorK x) = 0) ->
  ival (interp_ax floorK pad ax src m im) J = aff a b J + nth ax a 0 * (x - of_Z (zget J ax)).
Proof. exact (interp_ax_affine K Kf floorK). Qed.

Theorem C04_pool_axis_affine :
  forall (ax : nat) (k : Z) (im : nimg (K:=K)) (a : list K) (b : K) (J : list Z),
  length a = length J -> (ax < length J)%nat -> (0 < k)%Z ->
  (forall i, (0 <= i < zget (ishape im) ax)%Z -> ival im (upd ax i J) = aff a b (upd ax i J)) ->
  (0 <= zget J ax)%Z -> ((zget J ax + 1) * k <= zget (ishape im) ax)%Z ->
  ival (pool_ax ax k false im) J = aff a b J + nth ax a 0 * (pool_src k (zget J ax) - of_Z (zget J ax)).
Proof. exact (pool_ax_affine K Kf Kc). Qed.

Theorem C04_stencil_axis_affine :
  forall (ax : nat) (w : list K) (im : nimg (K:=K)) (a : list K) (b : K) (J : list Z),
  length a = length J -> (ax < length J)%nat ->
  (forall i, (0 <= i < zget (ishape im) ax)%Z -> ival im (upd ax i J) = aff a b (upd ax i J)) ->
  let r := (zlen w / 2)%Z in
  vsum w = 1 ->
  vsum (map (fun p => fst p * (of_Z (snd p) - of_Z r)) (combine w (zseq (zlen w)))) = 0 ->
  (0 <= zget J ax - r)%Z -> (zget J ax - r + zlen w <= zget (ishape im) ax)%Z ->
  ival (corr_ax ax w im) J = aff a b J.
Proof. exact (corr_ax_affine K Kf). Qed.

(* 5. a world-space ramp is affine in the index *)
Theorem C04_ramp_is_affine :
  forall (D : nat), D = 2%nat \/ D = 3%nat ->
  forall (n s c : nat -> K) (d : nat -> nat -> K) (A : list K) (b : K) (X : list K), length A = D -> length X = D ->
  dot A (gen_pts D GRID WORLD (vtab D n) (vtab D s) (vtab D c) (tab D D d) X) + b
  = dot (vtab D (ramp_coef K D s d A)) X + ramp_off K D n s c d A b.
Proof. exact (ramp_is_affine K Kf Kc). Qed.

(* 6. ramp_preserved, resize family (F.interpolate along every axis) and resample (zero-padded sampling of the concentric
      lattice), 2-D and 3-D: an image that is the ramp A.x + b on its grid is returned as the SAME ramp on the new grid
      at every output index whose source cell lies inside the image (fovc) *)
Theorem C04_ramp_resize2 :
  forall (nz mz : nat -> Z) (s c : nat -> K) (d : nat -> nat -> K) (A : list K) (b : K) (im : nimg (K:=K)),
  length A = 2%nat -> ishape im = [nz 0%nat; nz 1%nat] ->
  (forall ix iy, (0 <= ix < nz 0%nat)%Z -> (0 <= iy < nz 1%nat)%Z ->
     ival im [ix; iy] = dot A (gen_pts 2 GRID WORLD (vtab 2 (fun i => of_Z (nz i))) (vtab 2 s) (vtab 2 c) (tab 2 2 d) [of_Z ix; of_Z iy]) + b) ->
  forall (ac : bool) (jx jy : Z),
  (forall i, (i < 2)%nat -> of_Z (K:=K) (mz i) - 1 <> 0) -> (forall i, (i < 2)%nat -> of_Z (K:=K) (mz i) <> 0) ->
  fovc floorK (nz 0%nat) (resize_src ac (nz 0%nat) (mz 0%nat) jx) -> fovc floorK (nz 1%nat) (resize_src ac (nz 1%nat) (mz 1%nat) jy) ->
  ival (interp_ax floorK PBorder 1 (resize_src ac (nz 1%nat) (mz 1%nat)) (mz 1%nat)
          (interp_ax floorK PBorder 0 (resize_src ac (nz 0%nat) (mz 0%nat)) (mz 0%nat) im)) [jx; jy]
  = dot A (gen_pts 2 GRID WORLD (vtab 2 (fun i => of_Z (mz i)))
             ((if ac then gen_resize_spacing_ac else gen_resize_spacing_nac) 2%nat (vtab 2 (fun i => of_Z (nz i))) (vtab 2 s) (vtab 2 c)
                (tab 2 2 d) (vtab 2 (fun i => of_Z (mz i))))
             (vtab 2 c) (tab 2 2 d) [of_Z jx; of_Z jy]) + b.
Proof. exact (ramp_resize2 K Kf Kc floorK). Qed.

Theorem C04_ramp_resize3 :
  forall (nz mz : nat -> Z) (s c : nat -> K) (d : nat -> nat -> K) (A : list K) (b : K) (im : nimg (K:=K)),
  length A = 3%nat -> ishape im = [nz 0%nat; nz 1%nat; nz 2%nat] ->
  (forall ix iy iz, (0 <= ix < nz 0%nat)%Z -> (0 <= iy < nz 1%nat)%Z -> (0 <= iz < nz 2%nat)%Z ->
     ival im [ix; iy; iz] = dot A (gen_pts 3 GRID WORLD (vtab 3 (fun i => of_Z (nz i))) (vtab 3 s) (vtab 3 c) (tab 3 3 d)
                                     [of_Z ix; of_Z iy; of_Z iz]) + b) ->
  forall (ac : bool) (jx jy jz : Z),
  (forall i, (i < 3)%nat -> of_Z (K:=K) (mz i) - 1 <> 0) -> (forall i, (i < 3)%nat -> of_Z (K:=K) (mz i) <> 0) ->
  fovc floorK (nz 0%nat) (resize_src ac (nz 0%nat) (mz 0%nat) jx) -> fovc floorK (nz 1%nat) (resize_src ac (nz 1%nat) (mz 1%nat) jy) ->
  fovc floorK (nz 2%nat) (resize_src ac (nz 2%nat) (mz 2%nat) jz) ->
  ival (interp_ax floorK PBorder 2 (resize_src ac (nz 2%nat) (mz 2%nat)) (mz 2%nat)
         (interp_ax floorK PBorder 1 (resize_src ac (nz 1%nat) (mz 1%nat)) (mz 1%nat)
           (interp_ax floorK PBorder 0 (resize_src ac (nz 0%nat) (mz 0%nat)) (mz 0%nat) im))) [jx; jy; jz]
  = dot A (gen_pts 3 GRID WORLD (vtab 3 (fun i => of_Z (mz i)))
             ((if ac then gen_resize_spacing_ac else gen_resize_spacing_nac) 3%nat (vtab 3 (fun i => of_Z (nz i))) (vtab 3 s) (vtab 3 c)
                (tab 3 3 d) (vtab 3 (fun i => of_Z (mz i))))
             (vtab 3 c) (tab 3 3 d) [of_Z jx; of_Z jy; of_Z jz]) + b.
Proof. exact (ramp_resize3 K Kf Kc floorK). Qed.

(* Image.resample (data side core.image.grid_resample = d_resample, grid side Grid.resample: same center and direction, new
   spacing s', new size mz): for EVERY new spacing and size -- also when the rounded shape does not change -- the ramp on the
   old grid is returned as the same ramp on the new grid wherever the source cell lies inside the image *)
Theorem C04_ramp_resample2 :
  forall (nz mz : nat -> Z) (s c : nat -> K) (d : nat -> nat -> K) (A : list K) (b : K) (im : nimg (K:=K)),
  length A = 2%nat -> ishape im = [nz 0%nat; nz 1%nat] ->
  (forall ix iy, (0 <= ix < nz 0%nat)%Z -> (0 <= iy < nz 1%nat)%Z ->
     ival im [ix; iy] = dot A (gen_pts 2 GRID WORLD (vtab 2 (fun i => of_Z (nz i))) (vtab 2 s) (vtab 2 c) (tab 2 2 d) [of_Z ix; of_Z iy]) + b) ->
  forall (s' : nat -> K) (jx jy : Z), (forall i, (i < 2)%nat -> s i <> 0) ->
  fovc floorK (nz 0%nat) (resample_src (nz 0%nat) (mz 0%nat) (s 0%nat) (s' 0%nat) jx) ->
  fovc floorK (nz 1%nat) (resample_src (nz 1%nat) (mz 1%nat) (s 1%nat) (s' 1%nat) jy) ->
  ival (d_resample floorK 2 (vtab 2 s) (vtab 2 s') [mz 0%nat; mz 1%nat] im) [jx; jy]
  = dot A (gen_pts 2 GRID WORLD (vtab 2 (fun i => of_Z (mz i))) (vtab 2 s') (vtab 2 c) (tab 2 2 d) [of_Z jx; of_Z jy]) + b.
Proof. exact (ramp_d_resample2 K Kf Kc floorK). Qed.

Theorem C04_ramp_resample3 :
  forall (nz mz : nat -> Z) (s c : nat -> K) (d : nat -> nat -> K) (A : list K) (b : K) (im : nimg (K:=K)),
  length A = 3%nat -> ishape im = [nz 0%nat; nz 1%nat; nz 2%nat] ->
  (forall ix iy iz, (0 <= ix < nz 0%nat)%Z -> (0 <= iy < nz 1%nat)%Z -> (0 <= iz < nz 2%nat)%Z ->
     ival im [ix; iy; iz] = dot A (gen_pts 3 GRID WORLD (vtab 3 (fun i => of_Z (nz i))) (vtab 3 s) (vtab 3 c) (tab 3 3 d)
                                     [of_Z ix; of_Z iy; of_Z iz]) + b) ->
  forall (s' : nat -> K) (jx jy jz : Z), (forall i, (i < 3)%nat -> s i <> 0) ->
  fovc floorK (nz 0%nat) (resample_src (nz 0%nat) (mz 0%nat) (s 0%nat) (s' 0%nat) jx) ->
  fovc floorK (nz 1%nat) (resample_src (nz 1%nat) (mz 1%nat) (s 1%nat) (s' 1%nat) jy) ->
  fovc floorK (nz 2%nat) (resample_src (nz 2%nat) (mz 2%nat) (s 2%nat) (s' 2%nat) jz) ->
  ival (d_resample floorK 3 (vtab 3 s) (vtab 3 s') [mz 0%nat; mz 1%nat; mz 2%nat] im) [jx; jy; jz]
  = dot A (gen_pts 3 GRID WORLD (vtab 3 (fun i => of_Z (mz i))) (vtab 3 s') (vtab 3 c) (tab 3 3 d) [of_Z jx; of_Z jy; of_Z jz]) + b.
Proof. exact (ramp_d_resample3 K Kf Kc floorK). Qed.

(* window means of a 2-D index-affine image (pooling, data side) *)
Theorem C04_pool_affine2 :
  forall (k0 k1 nx ny : Z) (im : nimg (K:=K)) (a0 a1 b : K) (jx jy : Z),
  ishape im = [nx; ny] -> (0 < k0)%Z -> (0 < k1)%Z ->
  (forall ix iy, (0 <= ix < nx)%Z -> (0 <= iy < ny)%Z -> ival im [ix; iy] = a0 * of_Z ix + a1 * of_Z iy + b) ->
  (0 <= jx)%Z -> ((jx + 1) * k0 <= nx)%Z -> (0 <= jy)%Z -> ((jy + 1) * k1 <= ny)%Z ->
  ival (pool_ax 1 k1 false (pool_ax 0 k0 false im)) [jx; jy] = a0 * pool_src k0 jx + a1 * pool_src k1 jy + b.
Proof. exact (pool2_affine_axes K Kf Kc). Qed.

(* 7. index_ops_exact: the data keeps the original values at shifted indices, fills the rest with the pad value, and the
      derived grid puts every retained index at its original world position -- the data-side offsets are the grid-side ones *)
Theorem C04_crop_exact2 :
  forall (f s c : nat -> K) (d : nat -> nat -> K) (a0 : bool) (cv : K) (xlo xhi ylo yhi nx ny : Z) (im : nimg (K:=K)) (jx jy : Z),
  ishape im = [nx; ny] ->
  let g := mkG (vtab 2 f) (vtab 2 s) (vtab 2 c) (tab 2 2 d) a0 in
  let num := [xlo; xhi; ylo; yhi] in
  let out := d_crop 2 cv num im in
  ishape out = [nx - xlo - xhi; ny - ylo - yhi]%Z /\
  ((0 <= jx + xlo < nx)%Z -> (0 <= jy + ylo < ny)%Z -> ival out [jx; jy] = ival im [jx + xlo; jy + ylo]%Z) /\
  (~ ((0 <= jx + xlo < nx)%Z /\ (0 <= jy + ylo < ny)%Z) -> ival out [jx; jy] = cv) /\
  d_itw ceilK 2 (g_crop ceilK leK 2 num g) [of_Z jx; of_Z jy] = d_itw ceilK 2 g [of_Z (jx + xlo); of_Z (jy + ylo)]%Z.
Proof. exact (crop_exact2 K Kf Kc ceilK floorG leK). Qed.

Theorem C04_pad_exact2 :
  forall (f s c : nat -> K) (d : nat -> nat -> K) (a0 : bool) (cv : K) (xlo xhi ylo yhi nx ny : Z) (im : nimg (K:=K)) (jx jy : Z),
  ishape im = [nx; ny] ->
  let g := mkG (vtab 2 f) (vtab 2 s) (vtab 2 c) (tab 2 2 d) a0 in
  let num := [xlo; xhi; ylo; yhi] in
  let out := d_pad 2 cv num im in
  ishape out = [nx + xlo + xhi; ny + ylo + yhi]%Z /\
  ((0 <= jx - xlo < nx)%Z -> (0 <= jy - ylo < ny)%Z -> ival out [jx; jy] = ival im [jx - xlo; jy - ylo]%Z) /\
  (~ ((0 <= jx - xlo < nx)%Z /\ (0 <= jy - ylo < ny)%Z) -> ival out [jx; jy] = cv) /\
  d_itw ceilK 2 (g_pad ceilK leK 2 num g) [of_Z jx; of_Z jy] = d_itw ceilK 2 g [of_Z (jx - xlo); of_Z (jy - ylo)]%Z.
Proof. exact (pad_exact2 K Kf Kc ceilK floorG leK). Qed.

Theorem C04_crop_exact3 :
  forall (f s c : nat -> K) (d : nat -> nat -> K) (a0 : bool) (cv : K) (xlo xhi ylo yhi zlo zhi nx ny nz : Z)
         (im : nimg (K:=K)) (jx jy jz : Z),
  ishape im = [nx; ny; nz] ->
  let g := mkG (vtab 3 f) (vtab 3 s) (vtab 3 c) (tab 3 3 d) a0 in
  let num := [xlo; xhi; ylo; yhi; zlo; zhi] in
  let out := d_crop 3 cv num im in
  ishape out = [nx - xlo - xhi; ny - ylo - yhi; nz - zlo - zhi]%Z /\
  ((0 <= jx + xlo < nx)%Z -> (0 <= jy + ylo < ny)%Z -> (0 <= jz + zlo < nz)%Z ->
     ival out [jx; jy; jz] = ival im [jx + xlo; jy + ylo; jz + zlo]%Z) /\
  (~ ((0 <= jx + xlo < nx)%Z /\ (0 <= jy + ylo < ny)%Z /\ (0 <= jz + zlo < nz)%Z) -> ival out [jx; jy; jz] = cv) /\
  d_itw ceilK 3 (g_crop ceilK leK 3 num g) [of_Z jx; of_Z jy; of_Z jz]
  = d_itw ceilK 3 g [of_Z (jx + xlo); of_Z (jy + ylo); of_Z (jz + zlo)]%Z.
Proof. exact (crop_exact3 K Kf Kc ceilK floorG leK). Qed.

(* center crop / center pad: the // 2 roundings of the two code paths agree (given data shape = grid size) *)
Theorem C04_center_crop_exact2 :
  forall (f s c : nat -> K) (d : nat -> nat -> K) (a0 : bool) (sx sy nx ny : Z) (im : nimg (K:=K)) (jx jy : Z),
  ishape im = [nx; ny] ->
  let g := mkG (vtab 2 f) (vtab 2 s) (vtab 2 c) (tab 2 2 d) a0 in
  nZ ceilK g = [nx; ny] ->
  let out := d_center_crop 2 [sx; sy] im in
  let ox := ((nx - Z.min nx sx) / 2)%Z in let oy := ((ny - Z.min ny sy) / 2)%Z in
  ishape out = [Z.min nx sx; Z.min ny sy] /\
  ((0 <= jx + ox < nx)%Z -> (0 <= jy + oy < ny)%Z -> ival out [jx; jy] = ival im [jx + ox; jy + oy]%Z) /\
  d_itw ceilK 2 (g_center_crop ceilK 2 [sx; sy] g) [of_Z jx; of_Z jy] = d_itw ceilK 2 g [of_Z (jx + ox); of_Z (jy + oy)]%Z.
Proof. exact (center_crop_exact2 K Kf Kc ceilK floorG leK). Qed.

Theorem C04_center_pad_exact2 :
  forall (f s c : nat -> K) (d : nat -> nat -> K) (a0 : bool) (cv : K) (sx sy nx ny : Z) (im : nimg (K:=K)) (jx jy : Z),
  ishape im = [nx; ny] ->
  let g := mkG (vtab 2 f) (vtab 2 s) (vtab 2 c) (tab 2 2 d) a0 in
  nZ ceilK g = [nx; ny] ->
  let out := d_center_pad 2 cv [sx; sy] im in
  let ox := ((Z.max nx sx - nx) / 2)%Z in let oy := ((Z.max ny sy - ny) / 2)%Z in
  ishape out = [Z.max nx sx; Z.max ny sy] /\
  ((0 <= jx - ox < nx)%Z -> (0 <= jy - oy < ny)%Z -> ival out [jx; jy] = ival im [jx - ox; jy - oy]%Z) /\
  d_itw ceilK 2 (g_center_pad ceilK 2 [sx; sy] g) [of_Z jx; of_Z jy] = d_itw ceilK 2 g [of_Z (jx - ox); of_Z (jy - oy)]%Z.
Proof. exact (center_pad_exact2 K Kf Kc ceilK floorG leK). Qed.

(* the same in 3-D: pad, center crop, center pad *)
Theorem C04_pad_exact3 :
  forall (f s c : nat -> K) (d : nat -> nat -> K) (a0 : bool) (cv : K) (xlo xhi ylo yhi zlo zhi nx ny nz : Z)
        (im : nimg (K:=K)) (jx jy jz : Z),
  ishape im = [nx; ny; nz] ->
  let g := mkG (vtab 3 f) (vtab 3 s) (vtab 3 c) (tab 3 3 d) a0 in
  let num := [xlo; xhi; ylo; yhi; zlo; zhi] in
  let out := d_pad 3 cv num im in
  ishape out = [nx + xlo + xhi; ny + ylo + yhi; nz + zlo + zhi]%Z /\
  ((0 <= jx - xlo < nx)%Z -> (0 <= jy - ylo < ny)%Z -> (0 <= jz - zlo < nz)%Z ->
     ival out [jx; jy; jz] = ival im [jx - xlo; jy - ylo; jz - zlo]%Z) /\
  (~ ((0 <= jx - xlo < nx)%Z /\ (0 <= jy - ylo < ny)%Z /\ (0 <= jz - zlo < nz)%Z) -> ival out [jx; jy; jz] = cv) /\
  d_itw ceilK 3 (g_pad ceilK leK 3 num g) [of_Z jx; of_Z jy; of_Z jz]
  = d_itw ceilK 3 g [of_Z (jx - xlo); of_Z (jy - ylo); of_Z (jz - zlo)]%Z.
Proof. exact (pad_exact3 K Kf Kc ceilK floorG leK). Qed.

Theorem C04_center_crop_exact3 :
  forall (f s c : nat -> K) (d : nat -> nat -> K) (a0 : bool) (sx sy sz nx ny nz : Z) (im : nimg (K:=K)) (jx jy jz : Z),
  ishape im = [nx; ny; nz] ->
  let g := mkG (vtab 3 f) (vtab 3 s) (vtab 3 c) (tab 3 3 d) a0 in
  nZ ceilK g = [nx; ny; nz] ->
  let out := d_center_crop 3 [sx; sy; sz] im in
  let ox := ((nx - Z.min nx sx) / 2)%Z in let oy := ((ny - Z.min ny sy) / 2)%Z in let oz := ((nz - Z.min nz sz) / 2)%Z in
  ishape out = [Z.min nx sx; Z.min ny sy; Z.min nz sz] /\
  ((0 <= jx + ox < nx)%Z -> (0 <= jy + oy < ny)%Z -> (0 <= jz + oz < nz)%Z ->
     ival out [jx; jy; jz] = ival im [jx + ox; jy + oy; jz + oz]%Z) /\
  d_itw ceilK 3 (g_center_crop ceilK 3 [sx; sy; sz] g) [of_Z jx; of_Z jy; of_Z jz]
  = d_itw ceilK 3 g [of_Z (jx + ox); of_Z (jy + oy); of_Z (jz + oz)]%Z.
Proof. exact (center_crop_exact3 K Kf Kc ceilK floorG leK). Qed.

Theorem C04_center_pad_exact3 :
  forall (f s c : nat -> K) (d : nat -> nat -> K) (a0 : bool) (cv : K) (sx sy sz nx ny nz : Z) (im : nimg (K:=K)) (jx jy jz : Z),
  ishape im = [nx; ny; nz] ->
  let g := mkG (vtab 3 f) (vtab 3 s) (vtab 3 c) (tab 3 3 d) a0 in
  nZ ceilK g = [nx; ny; nz] ->
  let out := d_center_pad 3 cv [sx; sy; sz] im in
  let ox := ((Z.max nx sx - nx) / 2)%Z in let oy := ((Z.max ny sy - ny) / 2)%Z in let oz := ((Z.max nz sz - nz) / 2)%Z in
  ishape out = [Z.max nx sx; Z.max ny sy; Z.max nz sz] /\
  ((0 <= jx - ox < nx)%Z -> (0 <= jy - oy < ny)%Z -> (0 <= jz - oz < nz)%Z ->
     ival out [jx; jy; jz] = ival im [jx - ox; jy - oy; jz - oz]%Z) /\
  d_itw ceilK 3 (g_center_pad ceilK 3 [sx; sy; sz] g) [of_Z jx; of_Z jy; of_Z jz]
  = d_itw ceilK 3 g [of_Z (jx - ox); of_Z (jy - oy); of_Z (jz - oz)]%Z.
Proof. exact (center_pad_exact3 K Kf Kc ceilK floorG leK). Qed.

(* 8. shape_agrees (crop and resize; the other operations' shapes are compared in the correspondence) *)
Theorem C04_shape_agrees_crop2 :
  (forall z : Z, ceilK (of_Z z) = z) -> (forall (x : K) (z : Z), ceilK (x - of_Z z) = (ceilK x - z)%Z) ->
  forall (f s c : nat -> K) (d : nat -> nat -> K) (a0 : bool) (xlo xhi ylo yhi nx ny : Z),
  let g := mkG (vtab 2 f) (vtab 2 s) (vtab 2 c) (tab 2 2 d) a0 in
  nZ ceilK g = [nx; ny] ->
  leK 1 (f 0%nat - of_Z xlo - of_Z xhi) = true -> leK 1 (f 1%nat - of_Z ylo - of_Z yhi) = true ->
  nZ ceilK (g_crop ceilK leK 2 [xlo; xhi; ylo; yhi] g) = [nx - xlo - xhi; ny - ylo - yhi]%Z.
Proof. exact (shape_agrees_crop2 K ceilK leK). Qed.

Theorem C04_shape_agrees_resize :
  (forall z : Z, ceilK (of_Z z) = z) ->
  forall (D : nat) (f s c : nat -> K) (d : nat -> nat -> K) (a0 : bool) (size : list Z) (a : option bool),
  let g := mkG (vtab D f) (vtab D s) (vtab D c) (tab D D d) a0 in
  (veqK leK (map zK size) (fs g) = true -> nZ ceilK g = size) ->
  nZ ceilK (g_resize ceilK leK D size a g) = size.
Proof. exact (shape_agrees_resize K ceilK leK). Qed.

(* 9. chains of ANY length: if every step reproduces the ramp of its grid wherever the indices it reads carry the ramp of
      the previous grid (theorems 4-7 are such steps), the whole chain returns the ramp of the final grid at every index
      whose dependency cone stays inside the region where the original image carries the ramp *)
Theorem C04_ramp_chain :
  forall (I : Type) (val ramp : nat -> I -> K) (corners : nat -> I -> list I),
  (forall k J, (forall C, In C (corners k J) -> val k C = ramp k C) -> val (S k) J = ramp (S k) J) ->
  forall dom0 : I -> Prop, (forall J, dom0 J -> val 0%nat J = ramp 0%nat J) ->
  forall k J, good I corners dom0 k J -> val k J = ramp k J.
Proof. exact (ramp_chain K). Qed.
(* 10. the traced code (Gen/ImageOpsT.v, regenerated on every run): what the ImageBatch methods crop / pad / center_crop /
       center_pad / narrow / region_of_interest / avg_pool do to a tensor of distinct symbols IS the model's data operation;
       the grid they return has the data's shape and puts every output index at the world position of the sample it holds;
       resize / downsample / upsample hand F.interpolate a (size, align_corners) pair for which the returned grid is in
       lock-step (including the calls where an explicit align_corners argument differs from the grid's flag).
       A tuple kernel_size of avg_pool is in grid order for data and grid (ok_pool_aniso); upsample on a grid with fractional
       size hands F.interpolate the grid's new size (ok_up_fractional, ok_up_fractional_nac). *)
Theorem C04_traced_index_ops : traced_index_ops_ok K.
Proof. exact (traced_index_ops_hold_K K Kf Kc). Qed.

(* ImageBatch.pyramid(levels, align_corners = X) with X different from the image grid's flag samples the finest level at the
   points of the new grid; traced: coordinates of the RETURNED grid w.r.t. X, mapped to the image grid with the cube axes of X on
   BOTH sides (third component = X: CUBE_CORNERS iff X), grid_sample with X on the unmodified data (checked by the translator,
   fail-closed); the lock-step of that route is C04_ramp_sample2 / C04_ramp_sample3 below. *)
Theorem C04_traced_pyramid_axes :
  gen_io_pyramid_axes = [(true, false, false); (false, true, true)].
Proof. exact traced_pyramid_axes_hold. Qed.
End Statements.

Section Chains.
Local Open Scope fld_scope.
Variable K : fld.
Hypothesis Kf : is_field K.
Hypothesis Kc : char0 K.
Variable floorK : K -> Z.
Variable ceilK floorG : K -> Z.
Variable leK : K -> K -> bool.
(* 13. CHAINS of per-axis steps of ANY length on images of ANY number of axes (Model/ImageChain.v): an image that is
       index-affine where it is known (V) is index-affine, with transported coefficients, at every output index whose reads
       stay inside V (valid_chain); the transported coefficients are the original ones composed with the chain's index map *)
Section SProofsC04Chainv.
Theorem C04_steps_affine (D : nat) (l : list axstep) :
  steps_ok D l ->
  forall (im : nimg (K:=K)) (ab : list K * K) (V : list Z -> Prop), affine_on D im ab V ->
  affine_on D (run_steps floorK l im) (steps_coef l ab) (valid_chain floorK l im V).
Proof. exact (steps_affine K Kf Kc floorK D l). Qed.
Theorem C04_coef_phi (D : nat) (l : list axstep) :
  steps_ok D l ->
  forall (a : list K) (b : K) (X : list K), length a = D -> length X = D ->
  dot (fst (steps_coef l (a, b))) X + snd (steps_coef l (a, b)) = dot a (steps_phi l X) + b.
Proof. exact (coef_phi K Kf D l). Qed.
End SProofsC04Chainv.
(* 14. ramp_preserved for chains, world level: if the final grid is in lock-step with the chain (lock), the ramp a.x+b on the
       original grid is returned as the same ramp on the final grid; lock-step composes (concatenated chains) ... *)
Section SProofsC04ChainWorldv1.
Variable D : nat.
Hypothesis HD : D = 2%nat \/ D = 3%nat.
Theorem C04_ramp_chain_world (n s c : nat -> K) (d : nat -> nat -> K) (A : list K) (b : K)
        (im : nimg (K:=K)) (V : list Z -> Prop) (l : list (axstep (K:=K))) (N' S' C' : list K) :
  length A = D -> length (ishape im) = D -> steps_ok D l ->
  (forall J, length J = D -> V J -> in_box (ishape im) J = true /\
     ival im J = dot A (gen_pts D GRID WORLD (vtab D n) (vtab D s) (vtab D c) (tab D D d) (map of_Z J)) + b) ->
  lock D (vtab D n) (vtab D s) (vtab D c) (tab D D d) N' S' C' l ->
  forall J, length J = D -> valid_chain floorK l im V J ->
  ival (run_steps floorK l im) J = dot A (gen_pts D GRID WORLD N' S' C' (tab D D d) (map of_Z J)) + b.
Proof. exact (ramp_chain_world K Kf Kc floorK D HD n s c d A b im V l N' S' C'). Qed.
Theorem C04_lock_trans (N S C : list K) Dm (N1 S1 C1 N2 S2 C2 : list K) l1 l2 :
  lock D N S C Dm N1 S1 C1 l1 -> lock D N1 S1 C1 Dm N2 S2 C2 l2 -> lock D N S C Dm N2 S2 C2 (l1 ++ l2).
Proof. exact (lock_trans K D N S C Dm N1 S1 C1 N2 S2 C2 l1 l2). Qed.
End SProofsC04ChainWorldv1.
(* ... and the grids derived by the resize family, resample, the crop family (any offsets: crop, pad, center crop / pad,
       narrow, region of interest) and pooling ARE in lock-step with the per-axis steps of the data operations, D in {2,3} *)
Section SProofsC04ChainWorldv2.
Variable D : nat.
Hypothesis HD : D = 2%nat \/ D = 3%nat.
Variables (n s c : nat -> K) (d : nat -> nat -> K).
Notation N := (vtab D n). Notation S := (vtab D s). Notation C := (vtab D c). Notation Dm := (tab D D d).
Theorem C04_lock_resize (ac : bool) (nz mz : nat -> Z) :
  (forall i, n i = of_Z (nz i)) ->
  (forall i, (i < D)%nat -> of_Z (K:=K) (mz i) - 1 <> 0) -> (forall i, (i < D)%nat -> of_Z (K:=K) (mz i) <> 0) ->
  lock D N S C Dm (vtab D (fun i => of_Z (mz i)))
       ((if ac then gen_resize_spacing_ac else gen_resize_spacing_nac) D N S C Dm (vtab D (fun i => of_Z (mz i)))) C
       (resize_steps D ac nz mz).
Proof. exact (lock_resize K Kf Kc floorK D HD n s c d ac nz mz). Qed.
Theorem C04_lock_resample (nz mz : nat -> Z) (s' : nat -> K) :
  (forall i, n i = of_Z (nz i)) -> (forall i, (i < D)%nat -> s i <> 0) ->
  lock D N S C Dm (vtab D (fun i => of_Z (mz i))) (vtab D s') C (resample_steps D nz mz s s').
Proof. exact (lock_resample K Kf Kc floorK D HD n s c d nz mz s'). Qed.
Theorem C04_lock_crop (cv : K) (lo hi : nat -> Z) (n' : nat -> K) :
  lock D N S C Dm (vtab D n') S
       (gen_center_of_origin D (vtab D n') S Dm (gen_pts D GRID WORLD N S C Dm (vtab D (fun i => of_Z (lo i))))) (crop_steps D cv lo hi).
Proof. exact (lock_crop K Kf Kc D HD n s c d cv lo hi n'). Qed.
Theorem C04_lock_pool (ks : nat -> Z) (n' : nat -> K) :
  let Kk := vtab D (fun i => of_Z (K:=K) (ks i)) in
  lock D N S C Dm (vtab D n') (vmul S Kk)
       (gen_center_of_origin D (vtab D n') (vmul S Kk) Dm
          (gen_pts D GRID WORLD N S C Dm (vscale (1 / (1 + 1)) (vsub Kk (repeat 1 (length Kk))))))
       (pool_steps D ks).
Proof. exact (lock_pool K Kf Kc D HD n s c d ks n'). Qed.
End SProofsC04ChainWorldv2.
(* 15. the data operations of Model/ImageOps.v (the ones run against the implementation) are these chains of steps: exact
       equalities for the crop family and pooling (2-D, 3-D, narrow / crop / pad / pool for any D), same shape and values
       (img_eq, preserved by further steps) for the interpolating ones *)
Section SProofsC04Tiev.
Theorem C04_run_steps_ext (l : list axstep) (im im' : nimg (K:=K)) :
  img_eq im im' -> img_eq (run_steps floorK l im) (run_steps floorK l im').
Proof. exact (run_steps_ext K floorK l im im'). Qed.
Theorem C04_d_crop_steps (D : nat) (c : K) (num : list Z) (im : nimg (K:=K)) :
  d_crop D c num im = run_steps floorK (crop_steps D c (fun k => nth (2 * k) num 0%Z) (fun k => nth (2 * k + 1) num 0%Z)) im.
Proof. exact (d_crop_steps K floorK D c num im). Qed.
Theorem C04_d_pad_steps (D : nat) (c : K) (num : list Z) (im : nimg (K:=K)) :
  d_pad D c num im = run_steps floorK (crop_steps D c (fun k => nth (2 * k) (map Z.opp num) 0%Z) (fun k => nth (2 * k + 1) (map Z.opp num) 0%Z)) im.
Proof. exact (d_pad_steps K floorK D c num im). Qed.
Theorem C04_d_pool_steps (D : nat) (ks : list Z) (im : nimg (K:=K)) :
  d_pool D ks false im = run_steps floorK (pool_steps D (fun k => nth k ks 1%Z)) im.
Proof. exact (d_pool_steps K floorK D ks im). Qed.
Theorem C04_d_narrow_steps (k : nat) (start len : Z) (im : nimg (K:=K)) :
  d_narrow k start len im = run_steps floorK [SCrop 0 k start (zget (ishape im) k - start - len)] im.
Proof. exact (d_narrow_steps K floorK k start len im). Qed.
Theorem C04_d_center_crop_steps2 (sx sy nx ny : Z) (im : nimg (K:=K)) :
  ishape im = [nx; ny] ->
  d_center_crop 2 [sx; sy] im
  = run_steps floorK (crop_steps 2 0 (fun k => nth k [(nx - Z.min nx sx) / 2; (ny - Z.min ny sy) / 2] 0)%Z
                        (fun k => nth k [nx - Z.min nx sx - (nx - Z.min nx sx) / 2; ny - Z.min ny sy - (ny - Z.min ny sy) / 2] 0)%Z) im.
Proof. exact (d_center_crop_steps2 K floorK sx sy nx ny im). Qed.
Theorem C04_d_center_crop_steps3 (sx sy sz nx ny nz : Z) (im : nimg (K:=K)) :
  ishape im = [nx; ny; nz] ->
  d_center_crop 3 [sx; sy; sz] im
  = run_steps floorK (crop_steps 3 0 (fun k => nth k [(nx - Z.min nx sx) / 2; (ny - Z.min ny sy) / 2; (nz - Z.min nz sz) / 2] 0)%Z
        (fun k => nth k [nx - Z.min nx sx - (nx - Z.min nx sx) / 2; ny - Z.min ny sy - (ny - Z.min ny sy) / 2;
                         nz - Z.min nz sz - (nz - Z.min nz sz) / 2] 0)%Z) im.
Proof. exact (d_center_crop_steps3 K floorK sx sy sz nx ny nz im). Qed.
Theorem C04_d_center_pad_steps2 (cv : K) (sx sy nx ny : Z) (im : nimg (K:=K)) :
  ishape im = [nx; ny] ->
  d_center_pad 2 cv [sx; sy] im
  = run_steps floorK (crop_steps 2 cv (fun k => nth k [- ((Z.max nx sx - nx) / 2); - ((Z.max ny sy - ny) / 2)] 0)%Z
                        (fun k => nth k [- ((Z.max nx sx - nx + 1) / 2); - ((Z.max ny sy - ny + 1) / 2)] 0)%Z) im.
Proof. exact (d_center_pad_steps2 K floorK cv sx sy nx ny im). Qed.
Theorem C04_d_center_pad_steps3 (cv : K) (sx sy sz nx ny nz : Z) (im : nimg (K:=K)) :
  ishape im = [nx; ny; nz] ->
  d_center_pad 3 cv [sx; sy; sz] im
  = run_steps floorK (crop_steps 3 cv (fun k => nth k [- ((Z.max nx sx - nx) / 2); - ((Z.max ny sy - ny) / 2); - ((Z.max nz sz - nz) / 2)] 0)%Z
        (fun k => nth k [- ((Z.max nx sx - nx + 1) / 2); - ((Z.max ny sy - ny + 1) / 2); - ((Z.max nz sz - nz + 1) / 2)] 0)%Z) im.
Proof. exact (d_center_pad_steps3 K floorK cv sx sy sz nx ny nz im). Qed.
Theorem C04_d_roi_steps2 (cv : K) (x0 y0 wx wy nx ny : Z) (im : nimg (K:=K)) :
  ishape im = [nx; ny] ->
  d_roi 2 cv [x0; y0] [wx; wy] im
  = run_steps floorK (crop_steps 2 cv (fun k => nth k [x0; y0] 0%Z) (fun k => nth k [nx - (x0 + wx); ny - (y0 + wy)] 0)%Z) im.
Proof. exact (d_roi_steps2 K floorK cv x0 y0 wx wy nx ny im). Qed.
Theorem C04_d_roi_steps3 (cv : K) (x0 y0 z0 wx wy wz nx ny nz : Z) (im : nimg (K:=K)) :
  ishape im = [nx; ny; nz] ->
  d_roi 3 cv [x0; y0; z0] [wx; wy; wz] im
  = run_steps floorK (crop_steps 3 cv (fun k => nth k [x0; y0; z0] 0%Z)
                        (fun k => nth k [nx - (x0 + wx); ny - (y0 + wy); nz - (z0 + wz)] 0)%Z) im.
Proof. exact (d_roi_steps3 K floorK cv x0 y0 z0 wx wy wz nx ny nz im). Qed.
Theorem C04_d_interp_steps2 (ac : bool) (m0 m1 nx ny : Z) (im : nimg (K:=K)) :
  ishape im = [nx; ny] ->
  eqshape [m0; m1] [nx; ny] = false ->
  (of_Z m0 - 1 : K) <> 0 -> (of_Z m0 : K) <> 0 -> (of_Z m1 - 1 : K) <> 0 -> (of_Z m1 : K) <> 0 ->
  img_eq (d_interp floorK 2 ac [m0; m1] im)
         (run_steps floorK (resize_steps 2 ac (fun k => nth k [nx; ny] 0%Z) (fun k => nth k [m0; m1] 0%Z)) im).
Proof. exact (d_interp_steps2 K Kf floorK Kc ac m0 m1 nx ny im). Qed.
Theorem C04_d_interp_steps3 (ac : bool) (m0 m1 m2 nx ny nz : Z) (im : nimg (K:=K)) :
  ishape im = [nx; ny; nz] ->
  eqshape [m0; m1; m2] [nx; ny; nz] = false ->
  (of_Z m0 - 1 : K) <> 0 -> (of_Z m0 : K) <> 0 -> (of_Z m1 - 1 : K) <> 0 -> (of_Z m1 : K) <> 0 ->
  (of_Z m2 - 1 : K) <> 0 -> (of_Z m2 : K) <> 0 ->
  img_eq (d_interp floorK 3 ac [m0; m1; m2] im)
         (run_steps floorK (resize_steps 3 ac (fun k => nth k [nx; ny; nz] 0%Z) (fun k => nth k [m0; m1; m2] 0%Z)) im).
Proof. exact (d_interp_steps3 K Kf floorK Kc ac m0 m1 m2 nx ny nz im). Qed.
Theorem C04_d_resample_steps2 (s s' : nat -> K) (m0 m1 nx ny : Z) (im : nimg (K:=K)) :
  ishape im = [nx; ny] ->
  s 0%nat <> 0 -> s 1%nat <> 0 ->
  img_eq (d_resample floorK 2 (map s (seq 0 2)) (map s' (seq 0 2)) [m0; m1] im)
         (run_steps floorK (resample_steps 2 (fun k => nth k [nx; ny] 0%Z) (fun k => nth k [m0; m1] 0%Z) s s') im).
Proof. exact (d_resample_steps2 K Kf floorK Kc s s' m0 m1 nx ny im). Qed.
End SProofsC04Tiev.
(* 16. shape_agrees: integer size of the derived grid = shape of the derived data, operation by operation (ceil_int,
       ceil_shift, floor_div hold for the executable instance: C04_ceilQc) *)
Section SProofsC04Shapesv1.
Hypothesis ceil_int : forall z : Z, ceilK (of_Z z) = z.
Hypothesis ceil_shift : forall (x : K) (z : Z), ceilK (x - of_Z z) = (ceilK x - z)%Z.
Variable D : nat.
Variables (f s c : nat -> K) (d : nat -> nat -> K) (a0 : bool).
Notation g := (mkG (vtab D f) (vtab D s) (vtab D c) (tab D D d) a0).
Theorem C04_shape_center_crop (size : list Z) :
  nZ ceilK (g_center_crop ceilK D size g) = map (fun p => Z.min (fst p) (snd p)) (combine (nZ ceilK g) size).
Proof. exact (shape_center_crop K ceilK ceil_int D f s c d a0 size). Qed.
Theorem C04_shape_center_pad (size : list Z) :
  nZ ceilK (g_center_pad ceilK D size g) = map (fun p => Z.max (fst p) (snd p)) (combine (nZ ceilK g) size).
Proof. exact (shape_center_pad K ceilK ceil_int D f s c d a0 size). Qed.
Theorem C04_shape_narrow (dim : nat) (start len : Z) :
  nZ ceilK (g_narrow ceilK D dim start len g) = mapi_from (fun i n => if Nat.eqb i dim then len else n) 0 (nZ ceilK g).
Proof. exact (shape_narrow K ceilK ceil_int D f s c d a0 dim start len). Qed.
End SProofsC04Shapesv1.
Section SProofsC04Shapesv2.
Hypothesis ceil_int : forall z : Z, ceilK (of_Z z) = z.
Hypothesis ceil_shift : forall (x : K) (z : Z), ceilK (x - of_Z z) = (ceilK x - z)%Z.
Hypothesis floor_div : forall n k : Z, (0 < k)%Z -> floorG (of_Z n / of_Z k) = (n / k)%Z.
Theorem C04_shape_agrees_center_crop2 (f s c : nat -> K) d a0 (sx sy nx ny : Z) (im : nimg (K:=K)) :
  let g := mkG (vtab 2 f) (vtab 2 s) (vtab 2 c) (tab 2 2 d) a0 in
  ishape im = [nx; ny] -> nZ ceilK g = [nx; ny] ->
  ishape (d_center_crop 2 [sx; sy] im) = nZ ceilK (g_center_crop ceilK 2 [sx; sy] g).
Proof. exact (shape_agrees_center_crop2 K ceilK ceil_int ceil_shift f s c d a0 sx sy nx ny im). Qed.
Theorem C04_shape_agrees_center_crop3 (f s c : nat -> K) d a0 (sx sy sz nx ny nz : Z) (im : nimg (K:=K)) :
  let g := mkG (vtab 3 f) (vtab 3 s) (vtab 3 c) (tab 3 3 d) a0 in
  ishape im = [nx; ny; nz] -> nZ ceilK g = [nx; ny; nz] ->
  ishape (d_center_crop 3 [sx; sy; sz] im) = nZ ceilK (g_center_crop ceilK 3 [sx; sy; sz] g).
Proof. exact (shape_agrees_center_crop3 K ceilK ceil_int ceil_shift f s c d a0 sx sy sz nx ny nz im). Qed.
Theorem C04_shape_agrees_center_pad2 (f s c : nat -> K) d a0 (cv : K) (sx sy nx ny : Z) (im : nimg (K:=K)) :
  let g := mkG (vtab 2 f) (vtab 2 s) (vtab 2 c) (tab 2 2 d) a0 in
  ishape im = [nx; ny] -> nZ ceilK g = [nx; ny] ->
  ishape (d_center_pad 2 cv [sx; sy] im) = nZ ceilK (g_center_pad ceilK 2 [sx; sy] g).
Proof. exact (shape_agrees_center_pad2 K floorK ceilK floorG leK ceil_int ceil_shift f s c d a0 cv sx sy nx ny im). Qed.
Theorem C04_shape_agrees_center_pad3 (f s c : nat -> K) d a0 (cv : K) (sx sy sz nx ny nz : Z) (im : nimg (K:=K)) :
  let g := mkG (vtab 3 f) (vtab 3 s) (vtab 3 c) (tab 3 3 d) a0 in
  ishape im = [nx; ny; nz] -> nZ ceilK g = [nx; ny; nz] ->
  ishape (d_center_pad 3 cv [sx; sy; sz] im) = nZ ceilK (g_center_pad ceilK 3 [sx; sy; sz] g).
Proof. exact (shape_agrees_center_pad3 K floorK ceilK floorG leK ceil_int ceil_shift f s c d a0 cv sx sy sz nx ny nz im). Qed.
Theorem C04_shape_agrees_narrow (D : nat) (f s c : nat -> K) d a0 (k : nat) (start len : Z) (im : nimg (K:=K)) :
  let g := mkG (vtab D f) (vtab D s) (vtab D c) (tab D D d) a0 in
  ishape im = nZ ceilK g -> (k < length (ishape im))%nat ->
  ishape (d_narrow k start len im) = nZ ceilK (g_narrow ceilK D k start len g).
Proof. exact (shape_agrees_narrow K ceilK ceil_int ceil_shift D f s c d a0 k start len im). Qed.
Theorem C04_shape_agrees_pad2 (f s c : nat -> K) d a0 (cv : K) (xlo xhi ylo yhi nx ny : Z) (im : nimg (K:=K)) :
  let g := mkG (vtab 2 f) (vtab 2 s) (vtab 2 c) (tab 2 2 d) a0 in
  ishape im = [nx; ny] -> nZ ceilK g = [nx; ny] ->
  leK 1 (f 0%nat + of_Z xlo + of_Z xhi) = true -> leK 1 (f 1%nat + of_Z ylo + of_Z yhi) = true ->
  ishape (d_pad 2 cv [xlo; xhi; ylo; yhi] im) = nZ ceilK (g_pad ceilK leK 2 [xlo; xhi; ylo; yhi] g).
Proof. exact (shape_agrees_pad2 K Kf floorK ceilK floorG leK ceil_int ceil_shift f s c d a0 cv xlo xhi ylo yhi nx ny im). Qed.
Theorem C04_shape_agrees_crop3 (f s c : nat -> K) d a0 (cv : K) (xlo xhi ylo yhi zlo zhi nx ny nz : Z) (im : nimg (K:=K)) :
  let g := mkG (vtab 3 f) (vtab 3 s) (vtab 3 c) (tab 3 3 d) a0 in
  ishape im = [nx; ny; nz] -> nZ ceilK g = [nx; ny; nz] ->
  leK 1 (f 0%nat - of_Z xlo - of_Z xhi) = true -> leK 1 (f 1%nat - of_Z ylo - of_Z yhi) = true ->
  leK 1 (f 2%nat - of_Z zlo - of_Z zhi) = true ->
  ishape (d_crop 3 cv [xlo; xhi; ylo; yhi; zlo; zhi] im) = nZ ceilK (g_crop ceilK leK 3 [xlo; xhi; ylo; yhi; zlo; zhi] g).
Proof. exact (shape_agrees_crop3 K floorK ceilK floorG leK ceil_int ceil_shift f s c d a0 cv xlo xhi ylo yhi zlo zhi nx ny nz im). Qed.
Theorem C04_shape_agrees_roi2 (f s c : nat -> K) d a0 (cv : K) (x0 y0 wx wy nx ny : Z) (im : nimg (K:=K)) :
  let g := mkG (vtab 2 f) (vtab 2 s) (vtab 2 c) (tab 2 2 d) a0 in
  ishape im = [nx; ny] -> nZ ceilK g = [nx; ny] ->
  leK 1 (f 0%nat - of_Z x0 - of_Z (nx - (x0 + wx))) = true -> leK 1 (f 1%nat - of_Z y0 - of_Z (ny - (y0 + wy))) = true ->
  ishape (d_roi 2 cv [x0; y0] [wx; wy] im) = [wx; wy] /\
  nZ ceilK (g_roi ceilK leK 2 [x0; y0] [wx; wy] g) = [wx; wy].
Proof. exact (shape_agrees_roi2 K floorK ceilK floorG leK ceil_int ceil_shift f s c d a0 cv x0 y0 wx wy nx ny im). Qed.
Theorem C04_shape_agrees_pool2 (f s c : nat -> K) d a0 (kx ky nx ny : Z) (im : nimg (K:=K)) :
  let g := mkG (vtab 2 f) (vtab 2 s) (vtab 2 c) (tab 2 2 d) a0 in
  ishape im = [nx; ny] -> nZ ceilK g = [nx; ny] -> (0 < kx)%Z -> (0 < ky)%Z ->
  ishape (d_pool 2 [kx; ky] false im) = nZ ceilK (g_pool ceilK floorG 2 [kx; ky] false g).
Proof. exact (shape_agrees_pool2 K ceilK floorG ceil_int floor_div f s c d a0 kx ky nx ny im). Qed.
Theorem C04_shape_agrees_pool3 (f s c : nat -> K) d a0 (kx ky kz nx ny nz : Z) (im : nimg (K:=K)) :
  let g := mkG (vtab 3 f) (vtab 3 s) (vtab 3 c) (tab 3 3 d) a0 in
  ishape im = [nx; ny; nz] -> nZ ceilK g = [nx; ny; nz] -> (0 < kx)%Z -> (0 < ky)%Z -> (0 < kz)%Z ->
  ishape (d_pool 3 [kx; ky; kz] false im) = nZ ceilK (g_pool ceilK floorG 3 [kx; ky; kz] false g).
Proof. exact (shape_agrees_pool3 K ceilK floorG ceil_int floor_div f s c d a0 kx ky kz nx ny nz im). Qed.
Theorem C04_shape_resample2 (sp sp' : list K) (m0 m1 nx ny : Z) (im : nimg (K:=K)) :
  ishape im = [nx; ny] ->
  ishape (d_resample floorK 2 sp sp' [m0; m1] im) = [m0; m1].
Proof. exact (shape_resample2 K floorK sp sp' m0 m1 nx ny im). Qed.
Theorem C04_shape_resample3 (sp sp' : list K) (m0 m1 m2 nx ny nz : Z) (im : nimg (K:=K)) :
  ishape im = [nx; ny; nz] ->
  ishape (d_resample floorK 3 sp sp' [m0; m1; m2] im) = [m0; m1; m2].
Proof. exact (shape_resample3 K floorK sp sp' m0 m1 m2 nx ny nz im). Qed.
Theorem C04_shape_interp2 (ac : bool) (m0 m1 nx ny : Z) (im : nimg (K:=K)) :
  ishape im = [nx; ny] ->
  ishape (d_interp floorK 2 ac [m0; m1] im) = [m0; m1].
Proof. exact (shape_interp2 K floorK ac m0 m1 nx ny im). Qed.
Theorem C04_shape_interp3 (ac : bool) (m0 m1 m2 nx ny nz : Z) (im : nimg (K:=K)) :
  ishape im = [nx; ny; nz] ->
  ishape (d_interp floorK 3 ac [m0; m1; m2] im) = [m0; m1; m2].
Proof. exact (shape_interp3 K floorK ac m0 m1 m2 nx ny nz im). Qed.
End SProofsC04Shapesv2.
End Chains.

(* 17. sampling on another grid (Image.sample(grid): the C05 pipeline, coordinates traced in Gen/SampleT.v) moves data and
       grid in lock-step: the ramp on the source grid is returned as the same ramp on the TARGET grid inside the source field
       of view, for every padding argument, both flags, every pair of oriented grids *)
Section SampleOnGrid.
Local Open Scope fld_scope.
Variable K : fld.
Hypothesis Kf : is_field K.
Hypothesis Kc : char0 K.
Variable floorK nearK : K -> Z.
Theorem C04_ramp_sample2 :
  forall (p : padarg) (ac : bool) (tn ts tc : nat -> K) (td : nat -> nat -> K) (ss sc : nat -> K) (sd : nat -> nat -> K)
        (img : list (list K)) (A : list K) (b : K) (J : list K),
  wf 2 tn ts td -> wf 2 (zsz (sz2 img)) ss sd -> rect2 (zlen (hd [] img)) img -> length J = 2%nat -> length A = 2%nat ->
  (forall iy ix, (0 <= iy < zlen img)%Z -> (0 <= ix < zlen (hd [] img))%Z ->
     val2 img iy ix = dot A (gen_pts 2 GRID WORLD (zvec (isizes2 img)) (vtab 2 ss) (vtab 2 sc) (tab 2 2 sd) [of_Z ix; of_Z iy]) + b) ->
  fov_ok floorK (isizes2 img)
    (itk_cindex 2 (vtab 2 tn) (vtab 2 ts) (vtab 2 tc) (tab 2 2 td) (zvec (isizes2 img)) (vtab 2 ss) (vtab 2 sc) (tab 2 2 sd) J) ->
  dp_sample2 floorK nearK Linear p ac (vtab 2 tn) (vtab 2 ts) (vtab 2 tc) (tab 2 2 td) (vtab 2 ss) (vtab 2 sc) (tab 2 2 sd) img J
  = dot A (gen_pts 2 GRID WORLD (vtab 2 tn) (vtab 2 ts) (vtab 2 tc) (tab 2 2 td) J) + b.
Proof. exact (ramp_sample2 K Kf Kc floorK nearK). Qed.

Theorem C04_ramp_sample3 :
  forall (p : padarg) (ac : bool) (tn ts tc : nat -> K) (td : nat -> nat -> K) (ss sc : nat -> K) (sd : nat -> nat -> K)
        (img : list (list (list K))) (A : list K) (b : K) (J : list K),
  wf 3 tn ts td -> wf 3 (zsz (sz3 img)) ss sd -> rect3 (zlen (hd [] (hd [] img))) (zlen (hd [] img)) img ->
  length J = 3%nat -> length A = 3%nat ->
  (forall iz iy ix, (0 <= iz < zlen img)%Z -> (0 <= iy < zlen (hd [] img))%Z -> (0 <= ix < zlen (hd [] (hd [] img)))%Z ->
     val3 img iz iy ix = dot A (gen_pts 3 GRID WORLD (zvec (isizes3 img)) (vtab 3 ss) (vtab 3 sc) (tab 3 3 sd) [of_Z ix; of_Z iy; of_Z iz]) + b) ->
  fov_ok floorK (isizes3 img)
    (itk_cindex 3 (vtab 3 tn) (vtab 3 ts) (vtab 3 tc) (tab 3 3 td) (zvec (isizes3 img)) (vtab 3 ss) (vtab 3 sc) (tab 3 3 sd) J) ->
  dp_sample3 floorK nearK Linear p ac (vtab 3 tn) (vtab 3 ts) (vtab 3 tc) (tab 3 3 td) (vtab 3 ss) (vtab 3 sc) (tab 3 3 sd) img J
  = dot A (gen_pts 3 GRID WORLD (vtab 3 tn) (vtab 3 ts) (vtab 3 tc) (tab 3 3 td) J) + b.
Proof. exact (ramp_sample3 K Kf Kc floorK nearK). Qed.
End SampleOnGrid.
Print Assumptions C04_ramp_sample3.

Print Assumptions C04_steps_affine.
Print Assumptions C04_ramp_chain_world.
Print Assumptions C04_lock_resize.
Print Assumptions C04_lock_pool.
Print Assumptions C04_d_interp_steps3.
Print Assumptions C04_shape_agrees_roi2.
Print Assumptions C04_shape_agrees_pool3.

Print Assumptions C04_lockstep_resize.
Print Assumptions C04_lockstep_resample.
Print Assumptions C04_pool_axis_affine.
Print Assumptions C04_stencil_axis_affine.
Print Assumptions C04_ramp_resize3.
Print Assumptions C04_ramp_resample3.
Print Assumptions C04_crop_exact3.
Print Assumptions C04_center_pad_exact2.
Print Assumptions C04_center_pad_exact3.
Print Assumptions C04_ramp_chain.
Print Assumptions C04_traced_index_ops.

(* 11. the ceiling of the executable instance satisfies the hypotheses of theorem 8 *)
(* shapes of downsample (all axes, no minimum size; ANY number of axes and levels): halving the rounded size (data path) and
   the float size (grid path) give the same shape; upsample agrees when the float size is integral (otherwise the data is resized to the grid's size: C04_upsample_fractional_size_lockstep) *)
Theorem C04_shape_agrees_downsample_Qc :
  forall (D : nat) (L : nat) (a : option bool) (g : dgrid (K:=QcF)),
  Forall (fun f => (0 <= this f)%Q) (fs g) ->
  nZ (K:=QcF) ceilQc (g_downsample (K:=QcF) ceilQc leQc D L None 0 a g) = down_size L None 0 (nZ (K:=QcF) ceilQc g).
Proof. exact shape_agrees_downsample_Qc. Qed.
Theorem C04_shape_agrees_upsample_int_Qc :
  forall (D : nat) (L : nat) (a : option bool) (g : dgrid (K:=QcF)) (sizes : list Z),
  fs g = map (of_Z (K:=QcF)) sizes ->
  nZ (K:=QcF) ceilQc (g_upsample (K:=QcF) ceilQc leQc D L None a g) = up_size L None (nZ (K:=QcF) ceilQc g).
Proof. exact shape_agrees_upsample_int_Qc. Qed.
Theorem C04_floorQc_div :
  forall n k : Z, (0 < k)%Z -> floorQc (fdiv (K:=QcF) (of_Z n) (of_Z k)) = (n / k)%Z.
Proof. exact floorQc_div. Qed.

Theorem C04_ceilQc :
  (forall z : Z, ceilQc (of_Z (K:=QcF) z) = z) /\
  (forall (x : Qc) (z : Z), ceilQc (fsub (K:=QcF) x (of_Z z)) = (ceilQc x - z)%Z).
Proof. exact (conj ceilQc_int ceilQc_shift). Qed.

(* 12. executable instance: the formerly defective same-shape resample (4 x 3 unit grid to spacing (6/5, 1)) is in lock-step on the
       repaired code; the formerly defective
       upsample after a fractional-size downsample likewise (the data follows the grid's size) *)
Theorem C04_resample_same_shape_lockstep :
  let op := OResample (K:=QcF) [q 6 5; q 1 1] 1 in
  let g' := apply_op (K:=QcF) ceilQc floorQc leQc 2 op ex_grid in
  let out := apply_data 2 (IGrid op (q 0 1) []) ex_grid g' ex_img in
  ishape out = nZ (K:=QcF) ceilQc g' /\ ishape out = ishape ex_img /\
  forallb (fun J => negb (in_hull ex_grid g' J) || qeqb (ival out J) (ex_ramp g' J)) (indices (ishape out)) = true /\
  existsb (fun J => in_hull ex_grid g' J && negb (qeqb (ival out J) (ival ex_img J))) (indices (ishape out)) = true.
Proof. exact resample_same_shape_lockstep. Qed.

Theorem C04_upsample_fractional_size_lockstep :
  let op := OUp (K:=QcF) 1 None None in
  let g' := apply_op (K:=QcF) ceilQc floorQc leQc 2 op ex_frac_grid in
  let out := apply_data 2 (IGrid op (q 0 1) []) ex_frac_grid g' ex_frac_img in
  nZ (K:=QcF) ceilQc ex_frac_grid = [3; 2]%Z /\ up_size 1 None [3; 2]%Z = [6; 4]%Z /\
  nZ (K:=QcF) ceilQc g' = [5; 4]%Z /\ ishape out = nZ (K:=QcF) ceilQc g' /\
  forallb (fun J => negb (in_hull_of ex_frac_grid g' J) || qeqb (ival out J) (ex_ramp g' J)) (indices (ishape out)) = true /\
  existsb (fun J => in_hull_of ex_frac_grid g' J) (indices (ishape out)) = true.
Proof. exact upsample_fractional_size_lockstep. Qed.

Print Assumptions C04_resample_same_shape_lockstep.

(* non-vacuity: the hypotheses of theorem 6 hold for a concrete ramp image, and the executable model resizes it to the
   same ramp on the resized grid (4 x 3 -> 7 x 5, align_corners = true), at a non-trivial output index *)
Example C04_nonvacuous :
  let g' := apply_op (K:=QcF) ceilQc floorQc leQc 2 (OResize (K:=QcF) [7; 5]%Z None) ex_grid in
  let out := apply_data 2 (IGrid (OResize (K:=QcF) [7; 5]%Z None) (q 0 1) []) ex_grid g' ex_img in
  ishape out = nZ (K:=QcF) ceilQc g' /\
  qeqb (ival out [3; 2]%Z) (ex_ramp g' [3; 2]%Z) = true /\
  qeqb (ival out [3; 2]%Z) (ival ex_img [1; 1]%Z) = false /\
  forallb (fun J => qeqb (ival out J) (ex_ramp g' J)) (indices (ishape out)) = true.
Proof. intros. repeat split; vm_compute; reflexivity. Qed.

(* non-vacuity of the chain theorems: a chain of two crop steps and one pooling step on the concrete ramp image; the output
   index (0,0) is valid (all its reads stay inside the image), and the value there is the ramp on the grid derived by the
   same operations -- and differs from every input sample it averages *)
Example C04_chain_nonvacuous :
  let l : list (axstep (K:=QcF)) := crop_steps (K:=QcF) 2 (q 0 1) (fun k => nth k [1; 0]%Z 0%Z) (fun k => nth k [1; 1]%Z 0%Z) ++ pool_steps (K:=QcF) 2 (fun k => nth k [2; 1]%Z 1%Z) in
  let V : list Z -> Prop := fun J => in_box [4; 3]%Z J = true in
  let g1 := apply_op (K:=QcF) ceilQc floorQc leQc 2 (OCrop [1; 1; 0; 1]%Z) ex_grid in
  let g2 := apply_op (K:=QcF) ceilQc floorQc leQc 2 (OPool [2; 1]%Z false) g1 in
  steps_ok (K:=QcF) 2 l /\ valid_chain (K:=QcF) floorQ l ex_img V [0; 0]%Z /\
  ishape (run_steps (K:=QcF) floorQ l ex_img) = nZ (K:=QcF) ceilQc g2 /\
  qeqb (ival (run_steps (K:=QcF) floorQ l ex_img) [0; 0]%Z) (ex_ramp g2 [0; 0]%Z) = true /\
  qeqb (ival (run_steps (K:=QcF) floorQ l ex_img) [0; 0]%Z) (ival ex_img [1; 0]%Z) = false.
Proof.
  intros l V g1 g2. split; [repeat constructor|]. split.
  - unfold l, V. cbn [crop_steps pool_steps seq map app valid_chain]. unfold valid_after. cbn [step_valid].
    repeat first
      [ match goal with
        | |- forall _, (0 <= _ < _)%Z -> _ =>
            let dd := fresh "dd" in let H := fresh "H" in
            intros dd H; cbn [nth zget upd] in H; assert (dd = 0 \/ dd = 1)%Z as [-> | ->] by lia; [ | try (exfalso; lia)]
        | |- _ /\ _ => split
        end
      | (vm_compute; reflexivity)
      | (cbn [nth zget upd]; lia)
      | (vm_compute; lia)
      | (vm_compute; intro; discriminate) ].
  - repeat split; vm_compute; reflexivity.
Qed.
