(* C16: the facts that need order (ranges, non-negativity, absolute values), over the reals. *)
From Coq Require Import Reals Lra Psatz List Bool.
From DV Require Import Base.Field Base.LinAlg Base.RInst Model.Losses Model.LossesR
  Proofs.C16Lists Proofs.C16Pointwise.
Import ListNotations.
Open Scope R_scope.

Notation rvec := (list RF).
Ltac single := (apply Forall_cons; [|apply Forall_nil]).
Ltac rf := cbv [RF fadd fmul fsub fopp fdiv finv f0 f1 T Rabs' Rleb'] in *.

Lemma sq_nn (x : R) : 0 <= x * x.
Proof. pose proof (Rle_0_sqr x) as H. unfold Rsqr in H. exact H. Qed.

(* ---- Cauchy-Schwarz by induction over the lists --------------------------------------------------- *)
Lemma cs_step A B C x y : 0 <= B -> 0 <= C -> A*A <= B*C -> (A+x*y)*(A+x*y) <= (B+x*x)*(C+y*y).
Proof.
  intros HB HC H.
  pose proof (Rle_0_sqr x) as Hx. pose proof (Rle_0_sqr y) as Hy. unfold Rsqr in *.
  assert (Hxy : 0 <= (x*x)*(y*y)) by (apply Rmult_le_pos; assumption).
  assert (Hp : 0 <= B*(y*y) + C*(x*x)).
  { pose proof (Rmult_le_pos _ _ HB Hy). pose proof (Rmult_le_pos _ _ HC Hx). lra. }
  assert (H1 : (A*A)*((x*x)*(y*y)) <= (B*C)*((x*x)*(y*y))) by (apply Rmult_le_compat_r; assumption).
  pose proof (Rle_0_sqr (B*(y*y) - C*(x*x))) as Hs. unfold Rsqr in Hs.
  assert (Hq : (2*A*x*y)*(2*A*x*y) <= (B*(y*y) + C*(x*x))*(B*(y*y) + C*(x*x))) by lra.
  assert (Hle : 2*A*x*y <= B*(y*y) + C*(x*x)).
  { destruct (Rle_lt_dec (2*A*x*y) (B*(y*y) + C*(x*x))) as [|Hlt]; [assumption|].
    exfalso. assert (0 < 2*A*x*y) by lra.
    assert ((B*(y*y) + C*(x*x))*(B*(y*y) + C*(x*x)) < (2*A*x*y)*(2*A*x*y)).
    { apply Rle_lt_trans with ((B*(y*y) + C*(x*x))*(2*A*x*y)).
      - apply Rmult_le_compat_l; lra.
      - apply Rmult_lt_compat_r; lra. }
    lra. }
  lra.
Qed.

Lemma dot_self_nonneg (u : rvec) : 0 <= dot u u.
Proof. unfold dot, vmul. induction u as [|x u IH]; cbn [vmap2 vsum]; rf; [lra | nra]. Qed.

Lemma cauchy_schwarz (u v : rvec) : dot u v * dot u v <= dot u u * dot v v.
Proof.
  revert v. induction u as [|x u IH]; intros v.
  - pose proof (dot_self_nonneg v). unfold dot, vmul in *. cbn [vmap2 vsum] in *. rf. nra.
  - destruct v as [|y v].
    + unfold dot, vmul. cbn [vmap2 vsum]. rf. nra.
    + specialize (IH v). pose proof (dot_self_nonneg u). pose proof (dot_self_nonneg v).
      unfold dot, vmul in *. cbn [vmap2 vsum].
      set (A := vsum (vmap2 fmul u v)) in *. set (B := vsum (vmap2 fmul u u)) in *.
      set (C := vsum (vmap2 fmul v v)) in *. clearbody A B C. rf.
      replace (x * y + A) with (A + x * y) by ring.
      replace (x * x + B) with (B + x * x) by ring.
      replace (y * y + C) with (C + y * y) by ring.
      apply cs_step; assumption.
Qed.

Lemma cc_score_range_gen (eps a b c : RF) :
  0 <= eps -> 0 <= b -> 0 <= c -> a * a <= b * c -> 0 < b * c + eps ->
  0 <= cc_score (K:=RF) eps a b c <= 1.
Proof.
  intros He Hb Hc Hcs Hd. unfold cc_score. rf.
  assert (H0 : 0 <= a * a / (b * c + eps)).
  { apply Rmult_le_pos; [nra | left; apply Rinv_0_lt_compat; exact Hd]. }
  assert (H1 : a * a / (b * c + eps) <= 1).
  { apply Rmult_le_reg_r with (b * c + eps); [exact Hd|].
    unfold Rdiv. rewrite Rmult_assoc, Rinv_l by lra. lra. }
  lra.
Qed.

(* the loss value is in [0, 1] whenever the denominator is positive *)
Lemma cc_score_range (eps : RF) (u v : rvec) :
  0 <= eps -> 0 < dot u u * dot v v + eps ->
  0 <= cc_score (K:=RF) eps (dot u v) (dot u u) (dot v v) <= 1.
Proof.
  intros He Hd. apply cc_score_range_gen; auto using dot_self_nonneg, cauchy_schwarz.
Qed.

Lemma ncc_range (eps : RF) (s t : rvec) :
  0 <= eps -> 0 < dot (center s) (center s) * dot (center t) (center t) + eps ->
  0 <= ncc_one eps s t <= 1.
Proof. intros He Hd. unfold ncc_one. cbv zeta. apply cc_score_range; assumption. Qed.

(* identical images: the minimum 0 for epsilon = 0, epsilon / (b^2 + epsilon) in general *)
Lemma ncc_identical_R (eps : RF) (s : rvec) :
  0 <= eps -> 0 < dot (center s) (center s) * dot (center s) (center s) + eps ->
  ncc_one eps s s = eps / (dot (center s) (center s) * dot (center s) (center s) + eps).
Proof. intros He Hd. unfold ncc_one, cc_score. cbv zeta. rf. field. lra. Qed.

(* windowed scores *)
Definition in01 (v : R) : Prop := 0 <= v <= 1.

Lemma cc_map_seq_forall (P : R -> Prop) (eps : RF) (FA FB FC : nat -> R) k n1 n2 n3 :
  (forall i, P (cc_score (K:=RF) eps (FA i) (FB i) (FC i))) ->
  Forall P (cc_map (K:=RF) eps (map FA (seq k n1)) (map FB (seq k n2)) (map FC (seq k n3))).
Proof.
  intro H. unfold cc_map. revert k n2 n3. induction n1 as [|n1 IH]; intros k [|n2] [|n3]; cbn [seq map combine];
    try constructor.
  - apply H.
  - apply IH.
Qed.

Lemma windowed_range (eps : RF) nb (x y : rvec) :
  0 < eps ->
  Forall in01 (cc_map (K:=RF) eps (local_sum nb (vmul x y)) (local_sum nb (vmul x x)) (local_sum nb (vmul y y))).
Proof.
  intro He. unfold local_sum, idxs. apply cc_map_seq_forall. intro i.
  rewrite !(gather_vmul RF RF_field).
  change (vsum (vmul (gather (nb i) x) (gather (nb i) y))) with (dot (gather (nb i) x) (gather (nb i) y)).
  change (vsum (vmul (gather (nb i) x) (gather (nb i) x))) with (dot (gather (nb i) x) (gather (nb i) x)).
  change (vsum (vmul (gather (nb i) y) (gather (nb i) y))) with (dot (gather (nb i) y) (gather (nb i) y)).
  apply cc_score_range; [lra|].
  pose proof (dot_self_nonneg (gather (nb i) x)). pose proof (dot_self_nonneg (gather (nb i) y)). rf. nra.
Qed.

Lemma lcc_range (eps : RF) nb (s t : rvec) : 0 < eps -> Forall in01 (lcc_none nb eps s t).
Proof. intro He. unfold lcc_none. cbv zeta. apply windowed_range. exact He. Qed.

Lemma wlcc_range (eps : RF) nb (s t : rvec) wc ws wt : 0 < eps -> Forall in01 (wlcc_none nb eps s t wc ws wt).
Proof. intro He. unfold wlcc_none. cbv zeta. apply windowed_range. exact He. Qed.

(* ---- pointwise losses over R ---------------------------------------------------------------------- *)
Lemma absd_diag (a : R) : absd (K:=RF) Rabs' a a = 0.
Proof. unfold absd. rf. replace (a - a) with 0 by ring. apply Rabs_R0. Qed.

Lemma absd_sym (a b : R) : absd (K:=RF) Rabs' a b = absd (K:=RF) Rabs' b a.
Proof. unfold absd. rf. apply Rabs_minus_sym. Qed.

Lemma absd_nonneg (a b : R) : 0 <= absd (K:=RF) Rabs' a b.
Proof. unfold absd. rf. apply Rabs_pos. Qed.

Lemma Rleb_true a b : Rleb a b = true <-> a <= b.
Proof. unfold Rleb. destruct (Rle_dec a b); split; intro; try assumption; try reflexivity; try discriminate; contradiction. Qed.

Lemma huber_diag (delta a : R) : 0 <= delta -> huber (K:=RF) Rabs' Rleb' delta a a = 0.
Proof.
  intro H. unfold huber. rf. replace (a - a) with 0 by ring. rewrite Rabs_R0.
  destruct (Rleb 0 delta) eqn:E.
  - field.
  - exfalso. assert (Rleb 0 delta = true) by (apply Rleb_true; exact H). congruence.
Qed.

Lemma huber_sym (delta a b : R) : huber (K:=RF) Rabs' Rleb' delta a b = huber (K:=RF) Rabs' Rleb' delta b a.
Proof. unfold huber. rf. rewrite (Rabs_minus_sym a b). reflexivity. Qed.

Lemma huber_nonneg (delta a b : R) : 0 <= delta -> 0 <= huber (K:=RF) Rabs' Rleb' delta a b.
Proof.
  intro H. unfold huber. rf. pose proof (Rabs_pos (a - b)) as Hp. set (d := Rabs (a - b)) in *.
  destruct (Rleb d delta) eqn:E.
  - assert (0 <= d * d) by nra. lra.
  - assert (~ d <= delta). { intro Hc. apply Rleb_true in Hc. congruence. }
    assert (0 <= delta * (d - delta / (1 + 1))) by (apply Rmult_le_pos; lra). lra.
Qed.

Lemma smooth_l1_diag (beta a : R) : 0 <= beta -> smooth_l1 (K:=RF) Rabs' Rleb' beta a a = 0.
Proof.
  intro H. unfold smooth_l1. rf. replace (a - a) with 0 by ring. rewrite Rabs_R0.
  destruct (Rleb beta 0) eqn:E.
  - apply Rleb_true in E. assert (beta = 0) by lra. subst. lra.
  - unfold Rdiv. ring.
Qed.

Lemma smooth_l1_sym (beta a b : R) :
  smooth_l1 (K:=RF) Rabs' Rleb' beta a b = smooth_l1 (K:=RF) Rabs' Rleb' beta b a.
Proof. unfold smooth_l1. rf. rewrite (Rabs_minus_sym a b). reflexivity. Qed.

Lemma smooth_l1_nonneg (beta a b : R) : 0 <= beta -> 0 <= smooth_l1 (K:=RF) Rabs' Rleb' beta a b.
Proof.
  intro H. unfold smooth_l1. rf. pose proof (Rabs_pos (a - b)) as Hp. set (d := Rabs (a - b)) in *.
  destruct (Rleb beta d) eqn:E.
  - apply Rleb_true in E. lra.
  - assert (~ beta <= d). { intro Hc. apply Rleb_true in Hc. congruence. }
    assert (0 < beta) by lra.
    apply Rmult_le_pos; [nra | left; apply Rinv_0_lt_compat; lra].
Qed.

Lemma sqd_nonneg (a b : R) : 0 <= sqd (K:=RF) a b.
Proof. unfold sqd. rf. pose proof (Rle_0_sqr (a - b)) as H. unfold Rsqr in H. lra. Qed.

(* non-negativity of every masked, reduced, normalised pointwise loss *)
Definition nonneg (l : rvec) : Prop := Forall (fun v => 0 <= v) l.

Lemma vsum_nonneg (l : rvec) : nonneg l -> 0 <= vsum l.
Proof. induction 1 as [|x l Hx _ IH]; cbn [vsum]; rf; lra. Qed.

Lemma vmap2_nonneg (f : RF -> RF -> RF) (x y : rvec) : (forall a b, 0 <= f a b) -> nonneg (vmap2 f x y).
Proof. intro H. revert y. induction x as [|a x IH]; intros [|b y]; cbn [vmap2]; constructor; auto. apply IH. Qed.

Lemma vmul_nonneg (l w : rvec) : nonneg l -> nonneg w -> nonneg (vmul l w).
Proof.
  intro H. revert w. induction H as [|a l Ha _ IH]; intros [|b w] Hw; cbn [vmul vmap2]; try constructor.
  - inversion Hw; subst. rf. nra.
  - inversion Hw; subst. apply IH. assumption.
Qed.

Lemma vmul_self_nonneg (t : rvec) : nonneg (vmul t t).
Proof. unfold vmul. induction t as [|a t IH]; cbn [vmap2]; constructor; [rf; apply sq_nn | exact IH]. Qed.

Definition mask_ok (m : option rvec) (l : rvec) : Prop :=
  match m with None => l <> [] | Some w => nonneg w /\ 0 < vsum w end.

Lemma of_nat_pos (n : nat) : n <> 0%nat -> 0 < of_nat (K:=RF) n.
Proof.
  intro H. unfold of_nat. destruct n as [|n]; [contradiction|].
  rewrite Nat2Z.inj_succ. unfold Z.succ. cbn [Z.of_nat].
  destruct n; cbn; [rf; lra|]. apply R_of_pos_pos.
Qed.

Lemma elementwise_nonneg (f : RF -> RF -> RF) r (x y : rvec) m norm :
  (forall a b, 0 <= f a b) -> mask_ok m (vmap2 f x y) ->
  nonneg (elementwise_loss Rleb' f r x y m norm).
Proof.
  intros Hf Hm. unfold elementwise_loss.
  assert (Hl : nonneg (masked_loss (vmap2 f x y) m)).
  { destruct m as [w|]; cbn [masked_loss]; [apply vmul_nonneg; [apply vmap2_nonneg; exact Hf | apply Hm]
                                            | apply vmap2_nonneg; exact Hf]. }
  assert (Hr : nonneg (reduce_loss r (masked_loss (vmap2 f x y) m) m)).
  { destruct r; cbn [reduce_loss]; [exact Hl| |single; apply vsum_nonneg; exact Hl].
    pose proof (vsum_nonneg _ Hl) as Hs. destruct m as [w|]; single.
    - destruct Hm as [_ Hw]. rf. apply Rmult_le_pos; [exact Hs | left; apply Rinv_0_lt_compat; exact Hw].
    - cbn [masked_loss mask_ok] in *. unfold vmean.
      assert (0 < of_nat (K:=RF) (length (vmap2 f x y))) by (apply of_nat_pos; destruct (vmap2 f x y); [contradiction|discriminate]).
      rf. apply Rmult_le_pos; [exact Hs | left; apply Rinv_0_lt_compat; assumption]. }
  destruct norm as [c|]; cbn [apply_norm]; [|exact Hr].
  unfold Rleb'. change (@f0 RF) with 0%R. destruct (Rleb c 0) eqn:E; [exact Hr|].
  assert (Hc : 0 < c). { destruct (Rle_lt_dec c 0) as [Hle|]; [apply Rleb_true in Hle; rf; congruence | assumption]. }
  induction Hr as [|v l Hv _ IH]; cbn [map]; constructor; [|exact IH].
  rf. apply Rmult_le_pos; [exact Hv | left; apply Rinv_0_lt_compat; exact Hc].
Qed.

(* normalisation of the absolute difference: dividing by c > 0 = loss of the images divided by c *)
Lemma absd_scaled (c a b : R) : 0 < c -> absd (K:=RF) Rabs' (a / c) (b / c) = absd (K:=RF) Rabs' a b / c.
Proof.
  intro Hc. unfold absd. rf. replace (a / c - b / c) with ((a - b) * / c) by (field; lra).
  rewrite Rabs_mult, (Rabs_pos_eq (/ c)); [reflexivity | left; apply Rinv_0_lt_compat; exact Hc].
Qed.

Lemma mae_norm_is_prescaling r (c : R) (x y : rvec) m : 0 < c ->
  pointwise_loss (absd (K:=RF) Rabs') r (map (fun a => a / c) x) (map (fun a => a / c) y) m
  = div_norm (K:=RF) c (pointwise_loss (absd (K:=RF) Rabs') r x y m).
Proof.
  intro Hc. unfold pointwise_loss. rewrite <- (reduce_div RF RF_field). f_equal.
  unfold div_norm. destruct m as [w|]; cbn [masked_loss].
  - unfold vmul. revert y w. induction x as [|a x IH]; intros [|b y] [|v w]; cbn [map vmap2]; try reflexivity.
    rewrite IH. f_equal. change (absd Rabs' (a / c) (b / c) * v = absd Rabs' a b * v / c).
    pose proof (absd_scaled c a b Hc) as E. rf. rewrite E. field. lra.
  - revert y. induction x as [|a x IH]; intros [|b y]; cbn [map vmap2]; try reflexivity.
    rewrite IH. f_equal. apply (absd_scaled c a b Hc).
Qed.

(* ---- Dice range ----------------------------------------------------------------------------------- *)
Definition wnonneg (w : option rvec) : Prop := match w with None => True | Some m => nonneg m end.

Lemma dotw_am_gm (p t : rvec) w : wnonneg w -> dotw p t w * (1 + 1) <= dotw p p w + dotw t t w.
Proof.
  destruct w as [m|]; cbn [wnonneg dotw]; intro Hw.
  - unfold vmul. revert t m Hw. induction p as [|a p IH]; intros t m Hw.
    + cbn [vmap2 vsum].
      assert (H : 0 <= vsum (vmap2 fmul (vmap2 fmul t t) m)).
      { apply vsum_nonneg. apply (vmul_nonneg _ m); [|exact Hw]. apply vmul_self_nonneg. }
      rf. lra.
    + destruct t as [|b t].
      * assert (H : 0 <= vsum (vmap2 fmul (vmap2 fmul (a :: p) (a :: p)) m)).
        { apply vsum_nonneg. apply (vmul_nonneg _ m); [|exact Hw]. apply (vmul_self_nonneg (a :: p)). }
        cbn [vmap2 vsum] in *. rf. lra.
      * destruct m as [|v m]; cbn [vmap2 vsum]; [rf; lra|].
        inversion Hw; subst. specialize (IH t m H2). rf.
        assert (0 <= (a - b) * (a - b) * v) by (apply Rmult_le_pos; [apply sq_nn | assumption]). lra.
  - unfold dot, vmul. revert t. induction p as [|a p IH]; intros t.
    + cbn [vmap2 vsum]. pose proof (dot_self_nonneg t). unfold dot, vmul in *. rf. lra.
    + destruct t as [|b t]; cbn [vmap2 vsum].
      * pose proof (dot_self_nonneg (a :: p)). unfold dot, vmul in *. cbn [vmap2 vsum] in *. rf. lra.
      * specialize (IH t). rf. pose proof (sq_nn (a - b)). lra.
Qed.

Lemma dice_le_1 (eps : RF) (p t : rvec) w :
  wnonneg w -> 0 < dotw p p w + dotw t t w + eps -> dice_score eps p t w <= 1.
Proof.
  intros Hw Hd. unfold dice_score. pose proof (dotw_am_gm p t w Hw) as H.
  set (I := dotw p t w) in *. set (P := dotw p p w) in *. set (Q := dotw t t w) in *. clearbody I P Q. rf.
  apply Rmult_le_reg_r with (P + Q + eps); [exact Hd|].
  unfold Rdiv. rewrite Rmult_assoc, Rinv_l by lra. lra.
Qed.

Lemma dotw_nonneg (p t : rvec) w : nonneg p -> nonneg t -> wnonneg w -> 0 <= dotw p t w.
Proof.
  intros Hp Ht Hw. destruct w as [m|]; cbn [dotw wnonneg] in *; apply vsum_nonneg.
  - apply vmul_nonneg; [apply vmul_nonneg|]; assumption.
  - apply vmul_nonneg; assumption.
Qed.

Lemma dice_ge_0 (eps : RF) (p t : rvec) w :
  nonneg p -> nonneg t -> wnonneg w -> 0 <= eps -> 0 < dotw p p w + dotw t t w + eps ->
  0 <= dice_score eps p t w.
Proof.
  intros Hp Ht Hw He Hd. unfold dice_score. pose proof (dotw_nonneg p t w Hp Ht Hw).
  set (I := dotw p t w) in *. set (P := dotw p p w) in *. set (Q := dotw t t w) in *. clearbody I P Q. rf.
  apply Rmult_le_pos; [lra | left; apply Rinv_0_lt_compat; exact Hd].
Qed.

(* ---- Tversky range ------------------------------------------------------------------------------------ *)
Definition unit01 (l : rvec) : Prop := Forall (fun v => 0 <= v <= 1) l.

Lemma unit01_nonneg l : unit01 l -> nonneg l.
Proof. induction 1 as [|x l Hx _ IH]; constructor; [lra | exact IH]. Qed.

Lemma unit01_ones_minus l : unit01 l -> nonneg (ones_minus l).
Proof. induction 1 as [|x l Hx _ IH]; cbn [ones_minus map]; constructor; [rf; lra | exact IH]. Qed.

Lemma tversky_range (alpha beta eps : RF) (p t : rvec) w :
  unit01 p -> unit01 t -> wnonneg w -> 0 <= alpha -> 0 <= beta -> 0 < eps ->
  0 < tversky_index alpha beta eps p t w <= 1.
Proof.
  intros Hp Ht Hw Ha Hb He. unfold tversky_index. cbv zeta.
  pose proof (dotw_nonneg p t w (unit01_nonneg p Hp) (unit01_nonneg t Ht) Hw) as HI.
  pose proof (dotw_nonneg p (ones_minus t) w (unit01_nonneg p Hp) (unit01_ones_minus t Ht) Hw) as HFP.
  pose proof (dotw_nonneg (ones_minus p) t w (unit01_ones_minus p Hp) (unit01_nonneg t Ht) Hw) as HFN.
  set (I := dotw p t w) in *. set (FP := dotw p (ones_minus t) w) in *. set (FN := dotw (ones_minus p) t w) in *.
  clearbody I FP FN. rf.
  assert (H1 : 0 <= FP * alpha) by (apply Rmult_le_pos; assumption).
  assert (H2 : 0 <= FN * beta) by (apply Rmult_le_pos; assumption).
  assert (Hd : 0 < I + eps + FP * alpha + FN * beta) by lra.
  split.
  - apply Rmult_lt_0_compat; [lra | apply Rinv_0_lt_compat; exact Hd].
  - apply Rmult_le_reg_r with (I + eps + FP * alpha + FN * beta); [exact Hd|].
    unfold Rdiv. rewrite Rmult_assoc, Rinv_l by lra. lra.
Qed.

Lemma fpow_unit (x : RF) n : 0 <= x <= 1 -> 0 <= fpow x n <= 1.
Proof.
  intro H. induction n as [|n IH]; cbn [fpow].
  - change (@f1 RF) with 1. lra.
  - destruct IH as [I0 I1]. change (@fmul RF) with Rmult. split; [apply Rmult_le_pos; lra|].
    replace 1 with (1 * 1) by ring. apply Rmult_le_compat; lra.
Qed.

Lemma tversky_loss_range gamma (alpha beta eps : RF) (p t : rvec) w :
  unit01 p -> unit01 t -> wnonneg w -> 0 <= alpha -> 0 <= beta -> 0 < eps ->
  0 <= tversky_loss gamma alpha beta eps p t w <= 1.
Proof.
  intros Hp Ht Hw Ha Hb He. unfold tversky_loss. apply fpow_unit.
  pose proof (tversky_range alpha beta eps p t w Hp Ht Hw Ha Hb He) as H. rf. lra.
Qed.

(* ---- masked (weighted) correlation: range by the weighted Cauchy-Schwarz inequality ------------------------ *)
Lemma cs_cross A B C x y : 0 <= B -> 0 <= C -> A*A <= B*C -> 2*A*x*y <= B*(y*y) + C*(x*x).
Proof.
  intros HB HC H.
  pose proof (Rle_0_sqr x) as Hx. pose proof (Rle_0_sqr y) as Hy. unfold Rsqr in *.
  assert (Hxy : 0 <= (x*x)*(y*y)) by (apply Rmult_le_pos; assumption).
  assert (Hp : 0 <= B*(y*y) + C*(x*x)).
  { pose proof (Rmult_le_pos _ _ HB Hy). pose proof (Rmult_le_pos _ _ HC Hx). lra. }
  assert (H1 : (A*A)*((x*x)*(y*y)) <= (B*C)*((x*x)*(y*y))) by (apply Rmult_le_compat_r; assumption).
  pose proof (Rle_0_sqr (B*(y*y) - C*(x*x))) as Hs. unfold Rsqr in Hs.
  assert (Hq : (2*A*x*y)*(2*A*x*y) <= (B*(y*y) + C*(x*x))*(B*(y*y) + C*(x*x))) by lra.
  destruct (Rle_lt_dec (2*A*x*y) (B*(y*y) + C*(x*x))) as [|Hlt]; [assumption|].
  exfalso. assert (0 < 2*A*x*y) by lra.
  assert ((B*(y*y) + C*(x*x))*(B*(y*y) + C*(x*x)) < (2*A*x*y)*(2*A*x*y)).
  { apply Rle_lt_trans with ((B*(y*y) + C*(x*x))*(2*A*x*y)).
    - apply Rmult_le_compat_l; lra.
    - apply Rmult_lt_compat_r; lra. }
  lra.
Qed.

Lemma wcs_step A B C x y w : 0 <= w -> 0 <= B -> 0 <= C -> A*A <= B*C ->
  (x*w*y + A)*(x*w*y + A) <= (x*w*x + B)*(y*w*y + C).
Proof.
  intros Hw HB HC H. pose proof (cs_cross A B C x y HB HC H) as Hc.
  assert (Hm : w * (2*A*x*y) <= w * (B*(y*y) + C*(x*x))) by (apply Rmult_le_compat_l; assumption).
  lra.
Qed.

Lemma wsq_nonneg (x w : rvec) : nonneg w -> 0 <= vsum (vmul (vmul x w) x).
Proof.
  unfold vmul. intro Hw. revert x. induction Hw as [|v w Hv _ IH]; intros [|a x]; cbn [vmap2 vsum]; rf; try lra.
  specialize (IH x). pose proof (sq_nn a). assert (0 <= a * v * a) by (replace (a * v * a) with (v * (a * a)) by ring; apply Rmult_le_pos; assumption). lra.
Qed.

Lemma weighted_cauchy_schwarz (x y w : rvec) : nonneg w ->
  vsum (vmul (vmul x w) y) * vsum (vmul (vmul x w) y) <= vsum (vmul (vmul x w) x) * vsum (vmul (vmul y w) y).
Proof.
  intro Hw. revert x y. induction Hw as [|v w Hv Hw IH]; intros x y.
  - destruct x, y; unfold vmul; cbn [vmap2 vsum]; rf; lra.
  - destruct x as [|a x].
    + pose proof (wsq_nonneg y (v :: w) (Forall_cons _ Hv Hw)). unfold vmul in *. cbn [vmap2 vsum] in *. rf. lra.
    + destruct y as [|b y].
      * pose proof (wsq_nonneg (a :: x) (v :: w) (Forall_cons _ Hv Hw)). unfold vmul in *. cbn [vmap2 vsum] in *. rf. lra.
      * specialize (IH x y). pose proof (wsq_nonneg x w Hw) as HB. pose proof (wsq_nonneg y w Hw) as HC.
        unfold vmul in *. cbn [vmap2 vsum].
        set (A := vsum (vmap2 fmul (vmap2 fmul x w) y)) in *. set (B := vsum (vmap2 fmul (vmap2 fmul x w) x)) in *.
        set (C := vsum (vmap2 fmul (vmap2 fmul y w) y)) in *. clearbody A B C. rf.
        apply wcs_step; assumption.
Qed.

(* masked ncc_loss (non-negative mask) is in [0, 1] *)
Lemma ncc_w_range (eps : RF) (s t w : rvec) :
  nonneg w -> 0 <= eps ->
  0 < vsum (vmul (vmul (wcenter s w) w) (wcenter s w)) * vsum (vmul (vmul (wcenter t w) w) (wcenter t w)) + eps ->
  0 <= ncc_w eps s t w <= 1.
Proof.
  intros Hw He Hd. unfold ncc_w. cbv zeta.
  apply cc_score_range_gen; auto using wsq_nonneg, weighted_cauchy_schwarz.
Qed.
