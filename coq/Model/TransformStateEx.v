(* Concrete witnesses for C09 (definitions only): a three-grid table for the executable instance
   and boolean checkers used by the refutation theorems and the non-vacuity examples. *)
From Coq Require Import List Bool Arith ZArith QArith Qcanon.
From DV Require Import Base.Field Base.QcInst Model.TransformState Model.TransformStateRun.
Import ListNotations.
Open Scope nat_scope.

(* grid 0: 5 x 4 samples, align_corners=True; grid 1: the same samples with align_corners=False
   (equal to grid 0 under Grid.__eq__, but not under the test of SpatialTransform.grid_, which also
   compares align_corners); grid 2: a different lattice on the same domain *)
Definition x_ext (g : nat) : list Qc := nth g [[Q2Qc 4%Q; Q2Qc 3%Q]; [Q2Qc 5%Q; Q2Qc 4%Q]; [Q2Qc 4%Q; Q2Qc 3%Q]] [].
Definition x_dshape (k : kind) (g : nat) : option (list nat) :=
  match k with
  | KLin => Some [2]
  | KSeq => None
  | KFfd | KSvffd => Some [2; 5; 6]
  | _ => nth g [Some [2; 4; 5]; Some [2; 4; 5]; Some [2; 7; 9]] None
  end.
Definition x_gshape (g : nat) : list nat := nth g [[4; 5]; [4; 5]; [7; 9]] [].
Definition x_geq (a b : nat) : bool := Nat.eqb a b.
Definition x_same (a b : nat) : bool := true.
Definition x_align (g : nat) : bool := negb (Nat.eqb g 1).
Definition x_ffdsub (a b : nat) : option bool := if Nat.eqb a b then Some false else if Nat.eqb b 1 then None else Some true.

Definition x_step := rstep x_ext x_dshape x_geq x_same x_align x_ffdsub.
Definition x_run (cf : cfg) (h : list rop) : rstate :=
  run PV nat CV r_p0 r_empty r_zero r_fill (r_regrid x_ext) r_call (r_fits x_dshape) x_geq x_same x_align x_ffdsub cf
      (empty_state PV nat CV) h.
Definition x_held := held PV nat CV r_p0 r_call.

Definition tag_differs (a b : tag PV nat) : bool :=
  let '(p, g, sg) := a in let '(p', g', sg') := b in
  negb (vclose 0%Q (fst p) (fst p')) || negb (Nat.eqb g g') || negb (Bool.eqb sg sg').

(* after history h, operation x on object o succeeds, and the observation obs right afterwards
   returns something else than what o holds then *)
Definition stale_after (cf : cfg) (h : list rop) (x obs : rop) (o : nat) : bool :=
  let s0 := x_run cf h in
  let (s, m) := x_step cf s0 x in
  match m with
  | Done _ _ =>
      match snd (x_step cf s obs), x_held s o with
      | Out _ _ [t] _, Some t' => tag_differs t t'
      | _, _ => false
      end
  | _ => false
  end.
(* ... returns exactly what o holds then *)
Definition fresh_after (cf : cfg) (h : list rop) (x obs : rop) (o : nat) : bool :=
  let s0 := x_run cf h in
  let (s, m) := x_step cf s0 x in
  match m with
  | Done _ _ =>
      match snd (x_step cf s obs), x_held s o with
      | Out _ _ [t] _, Some t' => negb (tag_differs t t')
      | _, _ => false
      end
  | _ => false
  end.

(* world-space reading of a held state: normalised vector times the cube extent *)
Fixpoint vmulq (a b : list Qc) : list Qc :=
  match a, b with x :: a', y :: b' => (x * y)%Qc :: vmulq a' b' | _, _ => [] end.
Definition x_world (t : tag PV nat) : list Qc := let '(p, g, _) := t in vmulq (fst p) (x_ext g).
Definition world_changed (cf : cfg) (h : list rop) (o g : nat) : bool :=
  let s0 := x_run cf h in
  let (s, m) := x_step cf s0 (GridSet PV nat CV o g) in
  match m, x_held s0 o, x_held s o with
  | Done _ _, Some t0, Some t1 => negb (vclose 0%Q (x_world t0) (x_world t1))
  | _, _, _ => false
  end.
Definition world_kept (cf : cfg) (h : list rop) (o g : nat) : bool :=
  let s0 := x_run cf h in
  let (s, m) := x_step cf s0 (GridSet PV nat CV o g) in
  match m, x_held s0 o, x_held s o with
  | Done _ _, Some t0, Some t1 => vclose 0%Q (x_world t0) (x_world t1) && negb (Nat.eqb (snd (fst t0)) (snd (fst t1)))
  | _, _, _ => false
  end.

Definition qv (a b : Z) : list Qc := [Q2Qc (a # 8)%Q; Q2Qc (b # 8)%Q].
(* witnesses *)
Definition h_lin_fun : list rop := [New PV nat CV KLin 0 (PkFun PV 0 false); Call PV nat CV 0].
Definition h_ffd_fun : list rop := [New PV nat CV KFfd 0 (PkFun PV 0 false); Call PV nat CV 0].
Definition h_disp_ten : list rop := [New PV nat CV KDisp 0 (PkTen PV (qv 1 (-2), 0) false); Call PV nat CV 0].
Definition h_svf_fun : list rop := [New PV nat CV KSvf 0 (PkFun PV 0 false); Call PV nat CV 0].
Definition x_data : rop := DataSet PV nat CV 0 (qv 3 3, 0) false.
Definition x_cond : rop := CondSet PV nat CV 0 (5, 0).
Definition x_obs : rop := TensorOf PV nat CV 0.

(* composite witness: the call of a SequentialTransform returns what its members hold *)
Fixpoint tags_match (s : rstate) (l : list (tag PV nat)) (ms : list nat) : bool :=
  match l, ms with
  | [], [] => true
  | t :: l', m :: ms' => match x_held s m with Some t' => negb (tag_differs t t') && tags_match s l' ms' | None => false end
  | _, _ => false
  end.
Definition seq_fresh_after (cf : cfg) (h : list rop) (o : nat) : bool :=
  let s := x_run cf h in
  match snd (x_step cf s (Call PV nat CV o)), get_obj PV nat CV s o with
  | Out _ _ l _, Some ob => negb (Nat.eqb (length l) 0) && tags_match s l (o_members PV nat CV ob)
  | _, _ => false
  end.
Definition h_seq : list rop :=
  [New PV nat CV KSvf 0 (PkFun PV 0 false); New PV nat CV KDisp 0 (PkTen PV (qv 1 (-2), 0) false);
   NewSeq PV nat CV [0; 1; 0]; Call PV nat CV 2; Edit PV nat CV 1 (qv 5 7, 0); CondSet PV nat CV 2 (3, 0)].

(* composite direct access witness: disp() of the composite (no call) after h *)
Definition seq_direct_fresh_after (cf : cfg) (h : list rop) (o : nat) : bool :=
  let s := x_run cf h in
  match snd (x_step cf s (Disp PV nat CV o)), get_obj PV nat CV s o with
  | Out _ _ l _, Some ob => negb (Nat.eqb (length l) 0) && tags_match s l (o_members PV nat CV ob)
  | _, _ => false
  end.
Definition h_seq_direct : list rop :=
  [New PV nat CV KSvf 0 (PkTen PV (qv 1 (-2), 0) true); New PV nat CV KLin 0 (PkTen PV (qv 2 2, 0) false);
   NewSeq PV nat CV [1; 0]; Call PV nat CV 2; Edit PV nat CV 0 (qv 5 7, 0); Clear PV nat CV 2].
(* without the clear_buffers() the composite reads the member's stale field (documented: update() required) *)
Definition h_seq_direct_noclear : list rop := firstn 5 h_seq_direct.
