"""Gen/SitkGrid.v -- utils/simpleitk/grid.py: GridAttrs (the numpy/SimpleITK-side grid attributes):
transform, inverse_transform, index_to_physical_space, the un-rounded core of
physical_space_to_continuous_index, center.  The module is numpy code; it is executed with numpy
object arrays of expression trees (np.eye is given dtype=object so that symbols can be stored)."""
import numpy as np

import symtorch as st
import trlib
from symtorch import E, TraceError


class _NP:
    """numpy with object-dtype constructors (everything else is numpy itself)"""

    def __getattr__(self, name):
        return getattr(np, name)

    @staticmethod
    def eye(n, m=None, dtype=None):
        a = np.empty((n, n if m is None else m), dtype=object)
        for i in range(a.shape[0]):
            for j in range(a.shape[1]):
                a[i, j] = E.const(1 if i == j else 0)
        return a

    @staticmethod
    def diag(v):
        v = list(v)
        a = _NP.eye(len(v))
        for i, x in enumerate(v):
            a[i, i] = E.const(x)
        return a


def lift(a):
    return np.vectorize(E.const, otypes=[object])(np.asarray(a, dtype=object))


def generate(loader):
    M = loader.load("deepali.utils.simpleitk.grid")
    M.np = _NP()
    out = ["Section Gen.", "Context {K : fld}.", ""]
    for D in (2, 3):
        g = object.__new__(M.GridAttrs)
        n = st.symvec("n", D, integer=True, positive=True)
        s = st.symvec("s", D, positive=True)
        o = st.symvec("o", D)
        d = st.symmat("d", D, D)
        g._size = tuple(float(v) for v in (5, 7, 4)[:D])  # sizes do not enter the maps; concrete values
        g.spacing = tuple(s.a.tolist())
        g.origin = tuple(o.a.tolist())
        g.direction = tuple(d.a.reshape(-1).tolist())      # flattened row-major, as GetDirection()
        # constructor: every documented form of the direction argument (flat, rows, ndarray) is stored row-major flat
        # (float() of the entries prevents symbols here; the flattening order does not depend on the values)
        dn = [[0.6, -0.8], [0.8, 0.6]] if D == 2 else [[0.0, -1.0, 0.0], [0.6, 0.0, -0.8], [0.8, 0.0, 0.6]]
        want_flat = tuple(float(v) for r in dn for v in r)
        M.np = np
        try:
            for form, arg in (("flat", list(want_flat)), ("rows", dn), ("tuple-rows", tuple(tuple(r) for r in dn)), ("ndarray", np.array(dn))):
                gc = M.GridAttrs(size=(5, 7, 4)[:D], origin=(1.0, 2.0, 3.0)[:D], spacing=(0.5, 2.0, 1.5)[:D], direction=arg)
                if tuple(gc.direction) != want_flat:
                    raise TraceError(f"GridAttrs(direction=<{form}>) does not store the direction cosines row-major")
                if tuple(gc.origin) != (1.0, 2.0, 3.0)[:D] or tuple(gc.spacing) != (0.5, 2.0, 1.5)[:D]:
                    raise TraceError("GridAttrs constructor does not store origin / spacing as given")
        finally:
            M.np = _NP()
        # indices / points: entry [k, j, i] (array order) holds the index (i, j, k) (grid order) -- numeric, shape-only check
        M.np = np
        try:
            gi_ = M.GridAttrs(size=(2, 3, 4)[:D], origin=(0.0,) * D, spacing=(1.0,) * D)
            ind = np.asarray(gi_.indices)
            shp = tuple(reversed((2, 3, 4)[:D]))
            if ind.shape != shp + (D,):
                raise TraceError(f"GridAttrs.indices has shape {ind.shape}")
            for pos in np.ndindex(*shp):
                if [int(v) for v in ind[pos]] != [int(v) for v in reversed(pos)]:
                    raise TraceError(f"GridAttrs.indices[{pos}] = {ind[pos].tolist()} is not the index {list(reversed(pos))} in (x, y, ...) order")
            if not np.array_equal(np.asarray(gi_.points), ind.astype(float)):
                raise TraceError("GridAttrs.points of the unit grid are not its indices")
        finally:
            M.np = _NP()
        ins = [("s", s), ("o", o), ("d", d)]
        T = lift(g.transform)
        Ti = lift(g.inverse_transform)
        for nm, m in (("transform", T), ("inverse_transform", Ti)):
            if m.shape != (D + 1, D + 1):
                raise TraceError(f"GridAttrs.{nm} has shape {m.shape}")
            last = m[D]
            if not all(v.is_const() and v.value() == (1 if j == D else 0) for j, v in enumerate(last)):
                raise TraceError(f"GridAttrs.{nm}: last row is not [0 .. 0 1]")
        x = st.symvec("x", D)
        y = lift(g.index_to_physical_space(np.array(x.a.tolist(), dtype=object)))
        p = lift(M.transform_point(g.inverse_transform, np.array(x.a.tolist(), dtype=object)))
        # the public world -> index function = round_12(transform_point(inverse_transform, p)): check the call structure
        calls = []
        orig_round = np.round
        class _NPR(_NP):
            @staticmethod
            def round(a, decimals=0):
                calls.append(decimals)
                return a
        M.np = _NPR()
        p2 = lift(g.physical_space_to_continuous_index(np.array(x.a.tolist(), dtype=object)))
        M.np = _NP()
        if calls != [12] or not trlib.same_tensor(p2, p):
            raise TraceError("physical_space_to_continuous_index is not round(transform_point(inverse_transform, .), 12)")
        out.append(trlib.emit_match_def(f"gen_attrs_T_{D}", ins, [], st.Tensor(T[:D]), comment=f"GridAttrs.transform (first D rows), D = {D}"))
        out.append(trlib.emit_match_def(f"gen_attrs_Tinv_{D}", ins, [], st.Tensor(Ti[:D]), comment="GridAttrs.inverse_transform (first D rows)"))
        out.append(trlib.emit_match_def(f"gen_attrs_i2p_{D}", ins + [("x", x)], [], st.Tensor(y), comment="GridAttrs.index_to_physical_space"))
        out.append(trlib.emit_match_def(f"gen_attrs_p2i_{D}", ins + [("x", x)], [], st.Tensor(p),
                                        comment="GridAttrs.physical_space_to_continuous_index before rounding to 12 decimals"))
        # image_grid_attributes(image) passes the sitk header through unchanged (concrete header: the constructor
        # converts entries with float())
        hdr = {"size": (5, 7, 4)[:D], "origin": (1.5, -2.0, 3.25)[:D], "spacing": (0.5, 2.0, 1.25)[:D],
               "direction": tuple(float(v) for v in range(1, D * D + 1))}

        class _Img:
            def GetSize(self): return hdr["size"]
            def GetOrigin(self): return hdr["origin"]
            def GetSpacing(self): return hdr["spacing"]
            def GetDirection(self): return hdr["direction"]
        h = M.image_grid_attributes(_Img())
        if not (tuple(h.origin) == hdr["origin"] and tuple(h.spacing) == hdr["spacing"] and tuple(h.direction) == hdr["direction"]
                and tuple(h.size) == hdr["size"]):
            raise TraceError("image_grid_attributes does not pass the header through")
    for nm, rty, extra in (("gen_attrs_i2p", "list K", " (x : list K)"), ("gen_attrs_p2i", "list K", " (x : list K)")):
        out.append(f"Definition {nm} (D : nat) (s o : list K) (d : list (list K)){extra} : {rty} :=\n"
                   f"  match D with 2%nat => {nm}_2 s o d x | 3%nat => {nm}_3 s o d x | _ => [] end.\n")
    out.append("End Gen.\n")
    return "\n".join(out)
