(* ITK's documented image geometry convention (itk::ImageBase):
     physical point of continuous index i  =  origin + Direction * (spacing .* i)
   with Direction's columns the unit steps along each image axis; header = (size, origin, spacing,
   direction flattened row-major).  This file is the independent specification; it is itself
   validated against SimpleITK by the correspondence check of C02. *)
From Coq Require Import ZArith List.
From DV Require Import Base.Field Base.LinAlg Model.Enums Model.Homog.
Import ListNotations.
Local Open Scope fld_scope.

Section Itk.
Context {K : fld}.
Notation vec := (list K).
Notation mat := (list (list K)).

Definition itk_phys (o s : vec) (d : mat) (i : vec) : vec := vadd o (mv d (vmul s i)).
Definition itk_index (D : nat) (o s : vec) (d : mat) (p : vec) : vec := vdiv (mv (mT D d) (vsub p o)) s.

Record header := { h_size : list K; h_origin : vec; h_spacing : vec; h_direction : vec (* row-major *) }.
Definition flatten (m : mat) : vec := concat m.
Fixpoint unflatten (D : nat) (rows : nat) (v : vec) : mat :=
  match rows with O => [] | S r => firstn D v :: unflatten D r (skipn D v) end.
Definition unit_vec (D k : nat) : vec := map (fun j => if Nat.eqb j k then 1 else 0) (seq 0 D).
End Itk.
