(* Specification side of homogeneous-coordinate transformations (hand-written): what an operand of
   each accepted form means as an affine map. *)
From Coq Require Import ZArith List.
From DV Require Import Base.Field Base.LinAlg Model.Enums.
Import ListNotations.
Local Open Scope fld_scope.

Section Homog.
Context {K : fld}.
Notation vec := (list K).
Notation mat := (list (list K)).

Definition tab (r c : nat) (f : nat -> nat -> K) : mat :=
  map (fun i => map (fun j => f i j) (seq 0 c)) (seq 0 r).
Definition vtab (n : nat) (f : nat -> K) : vec := map f (seq 0 n).

Definition fcols (D : nat) (f : form) : nat :=
  match f with FT => 1%nat | FA => D | FH => S D end.

(* the affine map an operand denotes *)
Definition form_apply (D : nat) (f : form) (a : mat) (x : vec) : vec :=
  match f with
  | FT => vadd x (col 0 a)
  | FA => mv a x
  | FH => happly D a x
  end.
(* its linear part *)
Definition form_vec (D : nat) (f : form) (a : mat) (x : vec) : vec :=
  match f with
  | FT => x
  | FA => mv a x
  | FH => hvec D a x
  end.

(* shape predicate and the fact that tab enumerates all well-shaped matrices *)
Definition mshape (r c : nat) (m : mat) : Prop :=
  length m = r /\ Forall (fun row => length row = c) m.
End Homog.
