(* C06, clause 1: every transformation model is the identity when freshly constructed.
   gen_fresh c D is the tensor() of a freshly constructed instance (traced from the real constructors,
   reset_parameters and tensor() of spatial/linear.py). *)
From Coq Require Import ZArith List Field Ring Lia.
From DV Require Import Base.Field Base.FieldFacts Base.LinAlg Base.Tactics Base.QcInst Model.Enums Model.Homog
  Model.Rotation Model.Grid Model.Transform Gen.Hmm Gen.Quat Gen.LinInv Gen.Transform Proofs.C08Quat.
Import ListNotations.
Local Open Scope fld_scope.

Section Fresh.
Variable K : fld.
Hypothesis Kf : is_field K.
Add Field KF_C06Fresh : Kf.
Let K1 : (1 : K) <> 0. Proof. destruct Kf as [_ H1 _ _]. exact H1. Qed.
Hint Resolve K1 : core.
Ltac side := repeat split; auto.

(* every linear class of spatial/linear.py, every admissible dimension *)
Lemma fresh_is_identity (c : lclass) (D : nat) : In D (gen_fresh_dims c) -> fresh_identity (K:=K) c D.
Proof.
  intros HD x. destruct c; cbn in HD;
    repeat (destruct HD as [<- | HD]; [fcbv; list_eq; ring|]); destruct HD.
Qed.

(* the class list and the admissible dimensions, as found in the source *)
Lemma fresh_dims_cover : forall c : lclass, In c all_lclass /\ In 3%nat (gen_fresh_dims c).
Proof. intro c. destruct c; split; cbn; auto 20. Qed.

(* the parameter -> matrix maps of C07's unit (Gen/LinInv.v) evaluated at the default literals, with the
   re-parameterisations evaluated (tanh 0 = 0, exp 0 = 1: scale 1; cos 0 = 1, sin 0 = 0; tan 0 = 0; |q| = 1),
   are the fresh tensors *)
Lemma fresh_is_tensor_of_defaults :
  gen_fresh (K:=K) LTranslation 2 = gen_translation2_fwd 0 0 /\
  gen_fresh (K:=K) LTranslation 3 = gen_translation3_fwd 0 0 0 /\
  gen_fresh (K:=K) LEulerRotation 2 = gen_euler2_fwd 1 0 /\
  gen_fresh (K:=K) LEulerRotation 3 = gen_euler3_fwd gen_euler3_default_order 1 1 1 0 0 0 /\
  gen_fresh (K:=K) LIsotropicScaling 2 = gen_isoscale2_fwd 1 /\
  gen_fresh (K:=K) LIsotropicScaling 3 = gen_isoscale3_fwd 1 /\
  gen_fresh (K:=K) LAnisotropicScaling 2 = gen_anisoscale2_fwd 1 1 /\
  gen_fresh (K:=K) LAnisotropicScaling 3 = gen_anisoscale3_fwd 1 1 1 /\
  gen_fresh (K:=K) LShearing 2 = gen_shear2_fwd 0 /\
  gen_fresh (K:=K) LShearing 3 = gen_shear3_fwd 0 0 0 /\
  gen_fresh (K:=K) LHomogeneousTransform 2 = gen_homogeneous2_fwd 1 0 0 0 1 0 /\
  gen_fresh (K:=K) LHomogeneousTransform 3 = gen_homogeneous3_fwd 1 0 0 0 0 1 0 0 0 0 1 0 /\
  gen_fresh (K:=K) LQuaternionRotation 3 = gen_quaternion_fwd 1 1 0 0 0.
Proof. repeat split; fcbv; list_eq; try reflexivity; field; side. Qed.

(* the default literals themselves *)
Lemma default_literals :
  gen_default (K:=K) LQuaternionRotation 3 = [1; 0; 0; 0] /\
  gen_default (K:=K) LHomogeneousTransform 2 = [1; 0; 0; 0; 1; 0] /\
  gen_default (K:=K) LHomogeneousTransform 3 = [1; 0; 0; 0; 0; 1; 0; 0; 0; 0; 1; 0] /\
  gen_default (K:=K) LTranslation 3 = vzero 3 /\ gen_default (K:=K) LEulerRotation 3 = vzero 3 /\
  gen_default (K:=K) LShearing 3 = vzero 3 /\
  gen_default (K:=K) LIsotropicScaling 3 = [1] /\ gen_default (K:=K) LAnisotropicScaling 3 = [1; 1; 1] /\
  gen_nonrigid_defaults_zero = true.
Proof. repeat split; reflexivity. Qed.

(* the default quaternion is (w, x, y, z) = (1, 0, 0, 0), the identity rotation; the other candidate reading of
   the unit quaternion, (0, 0, 0, 1), would be the half turn about z *)
Lemma quaternion_default_is_identity :
  gen_default (K:=K) LQuaternionRotation 3 = [1; 0; 0; 0] /\
  gen_quaternion_fwd (K:=K) 1 1 0 0 0 = eye 3 /\
  gen_fresh (K:=K) LQuaternionRotation 3 = eye 3 /\
  gen_quaternion_fwd (K:=K) 1 0 0 0 1 = rot AZ (- (1)) 0.
Proof. repeat split; fcbv; list_eq; try reflexivity; field; side. Qed.
End Fresh.
