(* normalize_grid / denormalize_grid (core/pointset.py) and normalize_flow / denormalize_flow (core/flow.py), traced per axis,
   are the grid's GRID <-> CUBE / CUBE_CORNERS point and vector maps (Gen/GridT.v), for both flags, and mutually inverse. *)
From Coq Require Import ZArith List Field Ring Lia Bool.
From DV Require Import Base.Field Base.FieldFacts Base.LinAlg Base.Tactics Model.Enums Model.Homog Model.Grid Model.Sampler
  Model.Flow Model.FlowRepr Gen.GridT Gen.PointsetNorm.
Import ListNotations.
Local Open Scope fld_scope.

Section Norm.
Variable K : fld.
Hypothesis Kf : is_field K.
Hypothesis Kc : char0 K.
Add Field KFN : Kf.

Lemma norm_denorm ac (n x : K) : n <> 0 -> n - 1 <> 0 ->
  gen_denormalize_grid ac n (gen_normalize_grid ac n x) = x /\ gen_normalize_grid ac n (gen_denormalize_grid ac n x) = x /\
  gen_denormalize_flow ac n (gen_normalize_flow ac n x) = x /\ gen_normalize_flow ac n (gen_denormalize_flow ac n x) = x.
Proof.
  intros Hn Hn1. pose proof (two_nz K Kf Kc) as H2.
  unfold gen_denormalize_grid, gen_normalize_grid, gen_denormalize_flow, gen_normalize_flow, of_Q. cbn [of_Z of_pos].
  destruct ac; repeat split; field; auto.
Qed.

(* sample index i of an axis with n samples is normalised to the coordinate Grid.coords reports (Model/Flow.v ncoordK) *)
Lemma normalize_grid_is_coords ac (n : Z) (p : K) : (2 <= n)%Z -> gen_normalize_grid ac (of_Z n) p = ncoordK ac n p.
Proof.
  intro H. unfold gen_normalize_grid, ncoordK, of_Q. replace (n =? 1)%Z with false by (symmetry; apply Z.eqb_neq; lia).
  assert (Hn : @of_Z K n <> 0) by (apply (of_Z_nz K Kf Kc); lia).
  assert (Hn1 : @of_Z K n - 1 <> 0).
  { replace (of_Z n - 1) with (@of_Z K (n - 1)) by (rewrite (of_Z_sub K Kf); reflexivity). apply (of_Z_nz K Kf Kc). lia. }
  pose proof (two_nz K Kf Kc). cbn [of_Z of_pos]. destruct ac; field; auto.
Qed.

(* ... and, for a whole point / vector, to the grid's own maps GRID <-> cube_of ac *)
Theorem normalize_is_grid_map2 ac (n s c : nat -> K) d (x0 x1 : K) : wf 2 n s d ->
  gpts 2 GRID (cube_of ac) (n, s, c, d) [x0; x1] = [gen_normalize_grid ac (n 0%nat) x0; gen_normalize_grid ac (n 1%nat) x1] /\
  gpts 2 (cube_of ac) GRID (n, s, c, d) [x0; x1] = [gen_denormalize_grid ac (n 0%nat) x0; gen_denormalize_grid ac (n 1%nat) x1] /\
  gvecs 2 GRID (cube_of ac) (n, s, c, d) [x0; x1] = [gen_normalize_flow ac (n 0%nat) x0; gen_normalize_flow ac (n 1%nat) x1] /\
  gvecs 2 (cube_of ac) GRID (n, s, c, d) [x0; x1] = [gen_denormalize_flow ac (n 0%nat) x0; gen_denormalize_flow ac (n 1%nat) x1].
Proof.
  intros [Hs [Hn [Hn1 _]]].
  pose proof (Hn 0%nat ltac:(lia)). pose proof (Hn 1%nat ltac:(lia)). pose proof (Hn1 0%nat ltac:(lia)). pose proof (Hn1 1%nat ltac:(lia)).
  pose proof (two_nz K Kf Kc). destruct ac; repeat split; fcbv; list_eq; field; auto.
Qed.
Theorem normalize_is_grid_map3 ac (n s c : nat -> K) d (x0 x1 x2 : K) : wf 3 n s d ->
  gpts 3 GRID (cube_of ac) (n, s, c, d) [x0; x1; x2]
    = [gen_normalize_grid ac (n 0%nat) x0; gen_normalize_grid ac (n 1%nat) x1; gen_normalize_grid ac (n 2%nat) x2] /\
  gpts 3 (cube_of ac) GRID (n, s, c, d) [x0; x1; x2]
    = [gen_denormalize_grid ac (n 0%nat) x0; gen_denormalize_grid ac (n 1%nat) x1; gen_denormalize_grid ac (n 2%nat) x2] /\
  gvecs 3 GRID (cube_of ac) (n, s, c, d) [x0; x1; x2]
    = [gen_normalize_flow ac (n 0%nat) x0; gen_normalize_flow ac (n 1%nat) x1; gen_normalize_flow ac (n 2%nat) x2] /\
  gvecs 3 (cube_of ac) GRID (n, s, c, d) [x0; x1; x2]
    = [gen_denormalize_flow ac (n 0%nat) x0; gen_denormalize_flow ac (n 1%nat) x1; gen_denormalize_flow ac (n 2%nat) x2].
Proof.
  intros [Hs [Hn [Hn1 _]]].
  pose proof (Hn 0%nat ltac:(lia)). pose proof (Hn 1%nat ltac:(lia)). pose proof (Hn 2%nat ltac:(lia)).
  pose proof (Hn1 0%nat ltac:(lia)). pose proof (Hn1 1%nat ltac:(lia)). pose proof (Hn1 2%nat ltac:(lia)).
  pose proof (two_nz K Kf Kc). destruct ac; repeat split; fcbv; list_eq; field; auto.
Qed.
End Norm.
