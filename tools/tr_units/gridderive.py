"""Gen/GridDerive.v -- core/grid.py: Grid._resize (spacing recomputed from the extent, for both
align_corners settings) with its internal allclose assertions turned into proof obligations,
cube_extent / extent formulas.  Sizes are symbols standing for the *rounded* sizes the code works
with (Grid.size_tensor()); which rounded size belongs to which fractional internal size is the
hand-written part of the model (Model/GridDerive.v), tied by correspondence."""
import numpy as np

import symtorch as st
import trlib
from symtorch import E, TraceError
from tr_units.grid import mk_grid, grid_inputs


def generate(loader):
    G = loader.load("deepali.core.grid")
    Grid = G.Grid
    out = ["Section Gen.", "Context {K : fld}.", ""]
    for D in (2, 3):
        for ac in (True, False):
            g = mk_grid(Grid, D, align=not ac)  # the explicit argument must win over the grid's own flag
            m = st.Tensor(np.array([E.var(f"m{i}", integer=True, positive=True) for i in range(D)], dtype=object))
            st.GENERIC_DISTINCT = True
            st.ASSUME_ALLCLOSE = True
            st.ALLCLOSE_LOG.clear()
            try:
                h = g._resize(m, align_corners=ac)
                log = list(st.ALLCLOSE_LOG)
            finally:
                st.GENERIC_DISTINCT = False
                st.ASSUME_ALLCLOSE = False
                st.ALLCLOSE_LOG.clear()
            if h is g:
                raise TraceError("_resize returned the grid itself for a different size")
            if not (trlib.same_tensor(h._size.a, m.a) and trlib.same_tensor(h._center.a, g._center.a)
                    and trlib.same_tensor(h._direction.a, g._direction.a) and h._align_corners == g._align_corners):
                raise TraceError("_resize changes more than size and spacing")
            # g itself must be untouched
            g0 = mk_grid(Grid, D, align=not ac)
            for nm in ("_size", "_spacing", "_center", "_direction"):
                if not trlib.same_tensor(getattr(g, nm).a, getattr(g0, nm).a):
                    raise TraceError(f"_resize modified its receiver's {nm}")
            tag = "ac" if ac else "nac"
            ins = grid_inputs(g) + [("m", m)]
            out.append(trlib.emit_match_def(f"gen_resize_spacing_{tag}_{D}", ins, [], h._spacing,
                                            comment=f"Grid._resize(size=m, align_corners={ac})._spacing, D = {D}"))
            if len(log) != 1:
                raise TraceError(f"_resize(align_corners={ac}): expected exactly one internal allclose assertion, saw {len(log)}")
            lhs, rhs = log[0]
            out.append(trlib.emit_match_def(f"gen_resize_assert_lhs_{tag}_{D}", ins, [], st.Tensor(lhs),
                                            comment="left side of the internal allclose assertion"))
            out.append(trlib.emit_match_def(f"gen_resize_assert_rhs_{tag}_{D}", ins, [], st.Tensor(rhs),
                                            comment="right side of the internal allclose assertion"))
            # same size -> the grid itself
            if g._resize(g._size, align_corners=ac) is not g:
                raise TraceError("_resize with the same size does not return the grid itself")
        g = mk_grid(Grid, D, align=True)
        gi = grid_inputs(g)
        out.append(trlib.emit_match_def(f"gen_extent_{D}", gi, [], g.extent(), comment="Grid.extent()"))
        out.append(trlib.emit_match_def(f"gen_cube_extent_ac_{D}", gi, [], g.cube_extent(), comment="Grid.cube_extent(), align_corners=True"))
        g2 = mk_grid(Grid, D, align=False)
        out.append(trlib.emit_match_def(f"gen_cube_extent_nac_{D}", gi, [], g2.cube_extent(), comment="Grid.cube_extent(), align_corners=False"))
    for nm, args in (("gen_resize_spacing_ac", "n s c d m"), ("gen_resize_spacing_nac", "n s c d m"),
                     ("gen_resize_assert_lhs_ac", "n s c d m"), ("gen_resize_assert_rhs_ac", "n s c d m"),
                     ("gen_resize_assert_lhs_nac", "n s c d m"), ("gen_resize_assert_rhs_nac", "n s c d m"),
                     ("gen_extent", "n s c d"), ("gen_cube_extent_ac", "n s c d"), ("gen_cube_extent_nac", "n s c d")):
        sig = "(n s c : list K) (d : list (list K))" + (" (m : list K)" if args.endswith("m") else "")
        out.append(f"Definition {nm} (D : nat) {sig} : list K :=\n  match D with 2%nat => {nm}_2 {args} | 3%nat => {nm}_3 {args} | _ => [] end.\n")
    out.append("End Gen.\n")
    return "\n".join(out)
