(* Executable instance (canonical rationals) of the C06 transform model, used by the correspondence case files
   and by the concrete witnesses. Definitions only. *)
From Coq Require Import ZArith QArith Qcanon List Bool.
From DV Require Import Base.Field Base.LinAlg Base.QcInst Base.QcCmp Model.Enums Model.Homog Model.Grid Model.Sampler
  Model.SamplerQc Model.Transform Gen.Hmm Gen.GridT Gen.Transform.
Import ListNotations.

Definition qgrid (n s c : list Qc) (d : list (list Qc)) : gridf (K:=QcF) :=
  mkGridf (K:=QcF) (fun i => nth i n (q 0 1)) (fun i => nth i s (q 0 1)) (fun i => nth i c (q 0 1))
          (fun i j => nth j (nth i d []) (q 0 1)).

Definition qwarp_points2 := warp_points2 (K:=QcF) floorQ.
Definition qwarp_points3 := warp_points3 (K:=QcF) floorQ.
Definition qwarp_out2 := warp_out2 (K:=QcF) floorQ.
Definition qwarp_out3 := warp_out3 (K:=QcF) floorQ.

(* lattice point of grid g (index idx, in x, y(, z) order) in the cube coordinates of flag ac *)
Definition qlattice (D : nat) (ac : bool) (g : gridf (K:=QcF)) (idx : list Qc) : list Qc :=
  target_coord (K:=QcF) D ac g idx.

(* non-rigid transform + ImageTransformer with a target lattice of the transform's domain (any size): the field is
   resized to the target shape (transform(..., grid=True)) and added to the pre-mapped target points *)
Definition qwarp_nonrigid_out2 (pad : padmode) (ac : bool) (ux uy : list (list Qc)) (tg g src : gridf (K:=QcF))
    (tnx tny : Z) (img : list (list Qc)) (jx jy : Z) : Qc :=
  let xc := target_coord (K:=QcF) 2 ac tg [of_Z (K:=QcF) jx; of_Z (K:=QcF) jy] in
  let x2 := gen_pts2 (K:=QcF) 2 (cubeax ac) (cubeax ac) (gN 2 tg) (gS 2 tg) (gC 2 tg) (gD 2 tg) (gN 2 g) (gS 2 g) (gC 2 g) (gD 2 g) xc in
  let rx := qresize2 ac tnx tny ux in let ry := qresize2 ac tnx tny uy in
  let d := [nth (Z.to_nat jx) (nth (Z.to_nat jy) rx []) (q 0 1); nth (Z.to_nat jx) (nth (Z.to_nat jy) ry []) (q 0 1)] in
  match gen_pts2 (K:=QcF) 2 (cubeax ac) (cubeax ac) (gN 2 g) (gS 2 g) (gC 2 g) (gD 2 g) (gN 2 src) (gS 2 src) (gC 2 src) (gD 2 src)
          (vadd (K:=QcF) x2 d) with
  | [x; y] => qgrid_sample2 pad ac img x y
  | _ => q 0 1
  end.

(* ImageTransformer with SequentialTransform(linear M, displacement field u): the field is INTERPOLATED at M x2 (only the
   first member is told that the points are the undeformed lattice) *)
Definition qwarp_seq_out2 (pad : padmode) (f : form) (ac : bool) (M : list (list Qc)) (ux uy : list (list Qc))
    (tg g src : gridf (K:=QcF)) (img : list (list Qc)) (j : list Qc) : Qc :=
  let x2 := gen_pts2 (K:=QcF) 2 (cubeax ac) (cubeax ac) (gN 2 tg) (gS 2 tg) (gC 2 tg) (gD 2 tg) (gN 2 g) (gS 2 g) (gC 2 g) (gD 2 g)
              (target_coord (K:=QcF) 2 ac tg j) in
  match gen_pts2 (K:=QcF) 2 (cubeax ac) (cubeax ac) (gN 2 g) (gS 2 g) (gC 2 g) (gD 2 g) (gN 2 src) (gS 2 src) (gC 2 src) (gD 2 src)
          (qwarp_points2 ac ux uy (view_forward (K:=QcF) 2 f M x2)) with
  | [x; y] => qgrid_sample2 pad ac img x y
  | _ => q 0 1
  end.

Definition ball (l : list bool) : bool := forallb (fun b => b) l.
