(* C03 -- Derived grids (resize, pyramid, crop, pad, pool) keep their place in the world.
   Statements only.  A grid state is (fs, sp, ce, di, acf): the float-valued internal size, spacing,
   center, direction, align_corners flag; the rounded size is ceil(fs).  ceil / floor / <= on sizes are
   parameters (instantiated by Qc in the correspondence); the only facts used about <= are reflexivity
   and antisymmetry.  Every theorem holds for an ARBITRARY input state (any fractional internal size),
   so it holds after any chain of operations (no bound on the chain length). *)
From Coq Require Import ZArith List.
From DV Require Import Base.Field Base.LinAlg Base.QcInst Model.Enums Model.Homog Model.Grid
  Gen.GridT Gen.GridCtor Gen.GridDerive Model.GridDerive Model.GridDeriveQc
  Proofs.C03Resize Proofs.C03Ops Proofs.C03Qc.
Import ListNotations.
Local Open Scope fld_scope.

Section Statements.
Variable K : fld.
Hypothesis Kf : is_field K.
Hypothesis Kc : char0 K.
Variable ceilK floorK : K -> Z.
Variable leK : K -> K -> bool.
Hypothesis leK_refl : forall x, leK x x = true.
Hypothesis leK_antisym : forall x y, leK x y = true -> leK y x = true -> x = y.
Variable D : nat.
Hypothesis HD : D = 2%nat \/ D = 3%nat.
Notation cz x := (cz K ceilK x).

(* 1. the internal allclose assertions of Grid._resize hold in exact arithmetic for every grid and
      every target size >= 2 (so a failure can only come from rounding) *)
Theorem C03_resize_internal_assertions :
  forall (n s c m : nat -> K) (d : nat -> nat -> K),
  ((forall i, (i < D)%nat -> m i - 1 <> 0) ->
   gen_resize_assert_lhs_ac D (vtab D n) (vtab D s) (vtab D c) (tab D D d) (vtab D m)
   = gen_resize_assert_rhs_ac D (vtab D n) (vtab D s) (vtab D c) (tab D D d) (vtab D m)) /\
  ((forall i, (i < D)%nat -> m i <> 0) ->
   gen_resize_assert_lhs_nac D (vtab D n) (vtab D s) (vtab D c) (tab D D d) (vtab D m)
   = gen_resize_assert_rhs_nac D (vtab D n) (vtab D s) (vtab D c) (tab D D d) (vtab D m)).
Proof.
  intros n s c m d. split; [exact (resize_assert_ac K Kf Kc D HD n s c m d) | exact (resize_assert_nac K Kf D HD n s c m d)].
Qed.

(* 2. resizing keeps center and orientation and, per align_corners, the corner samples or the extent;
      the cube extent is unchanged in both cases *)
Theorem C03_resize_keeps_world :
  forall (f s c : nat -> K) (d : nat -> nat -> K) (a0 : bool) (m : nat -> K) (a : bool),
  let g := mkG (vtab D f) (vtab D s) (vtab D c) (tab D D d) a0 in
  let g' := d_resize ceilK leK D (vtab D m) a g in
  ce g' = ce g /\ di g' = di g /\ acf g' = acf g /\
  (a = true -> (forall i, (i < D)%nat -> cz (m i) - 1 <> 0) ->
     d_origin ceilK D g' = d_origin ceilK D g /\
     d_itw ceilK D g' (vsub (nK ceilK g') (vones D)) = d_itw ceilK D g (vsub (nK ceilK g) (vones D)) /\
     gen_cube_extent_ac D (nK ceilK g') (sp g') (ce g') (di g') = gen_cube_extent_ac D (nK ceilK g) (sp g) (ce g) (di g)) /\
  (a = false -> (forall i, (i < D)%nat -> cz (m i) <> 0) ->
     d_extent ceilK D g' = d_extent ceilK D g /\
     gen_cube_extent_nac D (nK ceilK g') (sp g') (ce g') (di g') = gen_cube_extent_nac D (nK ceilK g) (sp g) (ce g) (di g)).
Proof. exact (resize_keeps_world K Kf Kc ceilK leK D HD). Qed.

(* 3. downsample then upsample returns the original grid (size AND spacing) whenever no axis was clamped *)
Theorem C03_down_up_identity :
  forall (f s c : nat -> K) (d : nat -> nat -> K) (a0 : bool) (L : nat) (min_size : Z) (a : bool),
  let g := mkG (vtab D f) (vtab D s) (vtab D c) (tab D D d) a0 in
  (forall i, (i < D)%nat -> leK (zK min_size) (f i / pow2 L) = true) ->
  (forall i, (i < D)%nat -> cz (f i) - 1 <> 0) -> (forall i, (i < D)%nat -> cz (f i) <> 0) ->
  (forall i, (i < D)%nat -> cz (f i / pow2 L) - 1 <> 0) -> (forall i, (i < D)%nat -> cz (f i / pow2 L) <> 0) ->
  g_upsample ceilK leK D L None (Some a) (g_downsample ceilK leK D L None min_size (Some a) g) = g.
Proof. exact (down_up_identity K Kf Kc ceilK floorK leK leK_refl leK_antisym D HD). Qed.

(* 4. every level of a pyramid (any number of levels) has the center, direction and cube extent of the grid *)
Theorem C03_pyramid_same_domain :
  forall (f s c : nat -> K) (d : nat -> nat -> K) (a0 : bool) (L : nat) (dims : option (list nat)) (min_size : Z) (level : nat),
  let g := mkG (vtab D f) (vtab D s) (vtab D c) (tab D D d) a0 in
  let g' := g_pyramid_level ceilK leK D L dims min_size level g in
  (forall i, (i < D)%nat -> cz (nth i (fs g') 0) - 1 <> 0) -> (forall i, (i < D)%nat -> cz (nth i (fs g') 0) <> 0) ->
  ce g' = ce g /\ di g' = di g /\ d_cube_extent ceilK D g' = d_cube_extent ceilK D g.
Proof. first [exact (pyramid_same_domain K Kf Kc ceilK leK leK_refl leK_antisym D HD) | exact (pyramid_same_domain K Kf Kc ceilK floorK leK leK_refl leK_antisym D HD)]. Qed.

(* 4b. resample(spacing): center and orientation kept, internal size * new spacing = old physical extent
       (when the new spacing differs from the old one and no axis is clamped by min_size) *)
Theorem C03_resample_keeps_extent :
  forall (f s c : nat -> K) (d : nat -> nat -> K) (a0 : bool) (sp' : nat -> K) (min_size : Z),
  let g := mkG (vtab D f) (vtab D s) (vtab D c) (tab D D d) a0 in
  (forall i, (i < D)%nat -> sp' i <> 0) ->
  let g' := g_resample ceilK leK D (vtab D sp') min_size g in
  ce g' = ce g /\ di g' = di g /\ acf g' = acf g /\
  (veqK leK (vtab D sp') (sp g) = false ->
   (forall i, (i < D)%nat -> leK (zK min_size) (cz (f i) * s i / sp' i) = true) ->
   sp g' = vtab D sp' /\ vmul (fs g') (sp g') = d_extent ceilK D g).
Proof.
  first [ exact (resample_keeps_extent K Kf Kc ceilK leK D HD) | exact (resample_keeps_extent K Kf ceilK leK D HD)
        | exact (resample_keeps_extent K Kf Kc ceilK floorK leK D HD) | exact (resample_keeps_extent K Kf ceilK floorK leK D HD)
        | exact (resample_keeps_extent K Kf Kc ceilK leK leK_refl leK_antisym D HD)
        | exact (resample_keeps_extent K Kf ceilK leK leK_refl leK_antisym D HD) ].
Qed.

(* 5. crop / pad / narrow / region of interest / center crop / center pad build the new grid through the
      origin= route from a sample of the old one: spacing, direction, flag unchanged and index j of the new
      grid lies exactly where index j + start of the old grid lies *)
Theorem C03_crop_like_keeps_samples :
  forall (f s c : nat -> K) (d : nat -> nat -> K) (a0 : bool) (size' X : list K),
  let g := mkG (vtab D f) (vtab D s) (vtab D c) (tab D D d) a0 in
  length size' = D -> length X = D ->
  let g' := mk_origin ceilK D size' (d_itw ceilK D g X) (sp g) (di g) (acf g) in
  sp g' = sp g /\ di g' = di g /\ acf g' = acf g /\ fs g' = size' /\
  forall J, length J = D -> d_itw ceilK D g' J = d_itw ceilK D g (vadd J X).
Proof. exact (mk_origin_keeps_samples K Kf Kc ceilK D HD). Qed.

(* 6. pooling: direction unchanged, spacing multiplied by the window, sample j at the centroid of window j *)
Theorem C03_pool_keeps_centroids :
  forall (f s c : nat -> K) (d : nat -> nat -> K) (a0 : bool) (ks : nat -> Z) (ceil_mode : bool),
  let g := mkG (vtab D f) (vtab D s) (vtab D c) (tab D D d) a0 in
  let kz := map ks (seq 0 D) in
  let g' := g_pool ceilK floorK D kz ceil_mode g in
  sp g' = vmul (sp g) (map zK kz) /\ di g' = di g /\ acf g' = acf g /\
  forall J, length J = D ->
    d_itw ceilK D g' J = d_itw ceilK D g (vadd (vmul (map zK kz) J) (vscale (1 / (1 + 1)) (vsub (map zK kz) (vones D)))).
Proof. exact (pool_keeps_window_centroids K Kf Kc ceilK floorK D HD). Qed.
End Statements.

(* which (size', start) each crop-like method uses, by definition of the model (tied by correspondence) *)
Theorem C03_crop_like_are_origin_route :
  forall (K : fld) (ceilK : K -> Z) (leK : K -> K -> bool) (D : nat) (g : dgrid) (num : list Z) (size : list Z)
         (dim : nat) (start len : Z),
  (forallb (Z.eqb 0) num = false ->
   g_crop ceilK leK D num g = mk_origin ceilK D (map (clamp1 leK) (vsub (vsub (fs g) (map zK (evens num))) (map zK (odds num))))
                                  (d_itw ceilK D g (map zK (evens num))) (sp g) (di g) (acf g)) /\
  (forallb (Z.eqb 0) num = false ->
   g_pad ceilK leK D num g = mk_origin ceilK D (map (clamp1 leK) (vadd (vadd (fs g) (map zK (evens num))) (map zK (odds num))))
                                 (d_itw ceilK D g (vopp (map zK (evens num)))) (sp g) (di g) (acf g)) /\
  g_center_crop ceilK D size g =
    (let sz := map (fun p => Z.min (fst p) (snd p)) (combine (nZ ceilK g) size) in
     mk_origin ceilK D (map zK sz) (d_itw ceilK D g (map zK (map (fun p => ((fst p - snd p) / 2)%Z) (combine (nZ ceilK g) sz))))
               (sp g) (di g) (acf g)) /\
  g_narrow ceilK D dim start len g =
    mk_origin ceilK D (map zK (mapi_from (fun i n => if Nat.eqb i dim then len else n) 0 (nZ ceilK g)))
      (d_itw ceilK D g (map zK (mapi_from (fun i (_ : Z) => if Nat.eqb i dim then start else 0%Z) 0 (nZ ceilK g))))
      (sp g) (di g) (acf g).
Proof.
  intros. repeat split; try reflexivity; intro H; unfold g_crop, g_pad; rewrite H; reflexivity.
Qed.

(* 7. pyramid sizes: for EVERY number of levels, consecutive levels satisfy n_{l} = 2 n_{l+1} - 1 down to
      the coarsest size, which is (n + m) / 2^L rounded to nearest (m = 2^L - 1 with align_corners) *)
Local Open Scope Z_scope.
Theorem C03_pyramid_sizes :
  forall (n : Z) (a : bool) (L : nat) (min_size : Z) (k : nat),
  1 <= pyr_coarsest n a L -> min_size <= pyr_coarsest n a L -> (k <= L)%nat ->
  pyr_size n a L min_size k = pyr_up (pyr_coarsest n a L) (L - k) /\
  ((k < L)%nat -> pyr_size n a L min_size k = 2 * pyr_size n a L min_size (S k) - 1).
Proof. exact pyr_size_levels. Qed.

Theorem C03_pyramid_coarsest :
  forall (n : Z) (a : bool) (L : nat), 0 <= n ->
  let m := if a then 2 ^ Z.of_nat L - 1 else 0 in
  let c := pyr_coarsest n a L in
  2 * (n + m) - 2 ^ Z.of_nat L < 2 ^ (Z.of_nat L + 1) * c <= 2 * (n + m) + 2 ^ Z.of_nat L.
Proof. exact pyr_coarsest_round. Qed.

(* the order facts assumed about <= hold for the executable instance *)
Theorem C03_qc_instance_order :
  (forall x, leQc x x = true) /\ (forall x y, leQc x y = true -> leQc y x = true -> x = y).
Proof. split; [exact leQc_refl | exact leQc_antisym]. Qed.

(* non-vacuity: a 2-level pyramid of a 9-point axis *)
Example C03_nonvacuous : pyr_size 9 true 2 0 0 = 9 /\ pyr_size 9 true 2 0 1 = 5 /\ pyr_size 9 true 2 0 2 = 3
  /\ pyr_size 10 false 1 0 1 = 5 /\ pyr_size 10 false 1 0 0 = 9.
Proof. vm_compute. repeat split. Qed.
