"""Gen/Quat.v -- core/_kornia.py: quaternion_to_rotation_matrix in (w, x, y, z) order (with the
normalisation it performs: the norm enters as the parameter n, n*n = w^2+x^2+y^2+z^2), and the
per-branch bodies of rotation_matrix_to_quaternion are checked by correspondence only."""
import numpy as np

import symtorch as st
import trlib
from symtorch import E, TraceError


def generate(loader):
    kor = loader.load("deepali.core._kornia")
    q = st.Tensor(np.array([E.var(n) for n in ("qw", "qx", "qy", "qz")], dtype=object))
    m = kor.quaternion_to_rotation_matrix(q)
    if m.shape != (3, 3):
        raise TraceError(f"quaternion_to_rotation_matrix shape {m.shape}")
    # the only transcendental node allowed is the norm
    norm_txt = None
    def scan(e):
        nonlocal norm_txt
        if e.op == "fn":
            if e.args[0] != "sqrt":
                raise TraceError(f"unexpected function {e.args[0]}")
            t = st.to_text(e.args[1])
            if norm_txt is None:
                norm_txt = t
            elif norm_txt != t:
                raise TraceError("more than one square root")
            norm_arg.append(e.args[1])
        elif e.op not in ("const", "var"):
            for a in e.args:
                scan(a)
    norm_arg = []
    for e in m.a.reshape(-1):
        scan(e)
    fnmap = {("sqrt", norm_txt): "n"} if norm_txt else {}
    out = ["Section Gen.", "Context {K : fld}.", ""]
    out.append(trlib.emit_match_def("gen_quat_matrix", [], ["n", "qw", "qx", "qy", "qz"], m, fnmap,
                                    "quaternion_to_rotation_matrix; n stands for the norm the code divides by"))
    if norm_arg:
        out.append("Definition gen_quat_norm2 (qw qx qy qz : K) : K :=\n  " + st.to_coq(norm_arg[0]) + ".\n")
    else:
        out.append("Definition gen_quat_norm2 (qw qx qy qz : K) : K := 1.\n")
    # batched input must give per-item results
    qb = st.Tensor(np.array([[E.var(f"{n}_{k}") for n in ("qw", "qx", "qy", "qz")] for k in range(2)], dtype=object))
    mb = kor.quaternion_to_rotation_matrix(qb)
    for k in range(2):
        ren = {f"{n}_{k}": n for n in ("qw", "qx", "qy", "qz")}
        item = np.vectorize(lambda e: trlib.rename(e, ren), otypes=[object])(mb.a[k])
        if not trlib.same_tensor(item, m.a):
            raise TraceError("batched quaternion item differs")
    out.append("End Gen.\n")
    return "\n".join(out)
