(* C14: evaluation of the spline -- list structure of the default algorithm, agreement of the transposed
   algorithm, exactness on affine coefficients. *)
From Coq Require Import ZArith List Field Ring Lia Bool.
From DV Require Import Base.Field Base.FieldFacts Base.LinAlg Base.Tactics Model.BSplineBase Gen.BSpline Model.BSpline
  Proofs.C14Tac Proofs.C14Weights Proofs.C14Ctrl.
Import ListNotations.
Local Open Scope fld_scope.

Section Proofs.
Variable K : fld.
Hypothesis Kf : is_field K.
Hypothesis Kc : char0 K.
Add Field KF : Kf.
Ltac side := refold K; repeat split; auto; nz Kc.

(* ---------- lists ---------- *)
Lemma nth_map_seq {A} (f : nat -> A) (m x : nat) (d : A) : (x < m)%nat -> nth x (map f (seq 0 m)) d = f x.
Proof.
  intro H. rewrite (nth_indep _ d (f 0%nat)) by (rewrite map_length, seq_length; exact H).
  rewrite map_nth, seq_nth by exact H. reflexivity.
Qed.

Lemma nth_ev1 (d s : nat) (c : list K) (m x : nat) : (x < m)%nat ->
  nth x (ev1 d s c m) 0 = spl (wrow d s (x mod s)) c (x / s).
Proof. intro H. unfold ev1. apply (nth_map_seq (fun x => spl (wrow d s (x mod s)) c (x / s))). exact H. Qed.

Lemma length_conv4 (w c : list K) : length (conv4 w c) = (length c - 3)%nat.
Proof.
  induction c as [|a r IH]; [reflexivity|].
  destruct r as [|b [|c2 [|d r']]]; try reflexivity.
  change (conv4 w (a :: b :: c2 :: d :: r')) with
    ((nth 0 w 0 * a + nth 1 w 0 * b + nth 2 w 0 * c2 + nth 3 w 0 * d) :: conv4 w (b :: c2 :: d :: r')).
  cbn [length]. rewrite IH. cbn [length]. lia.
Qed.

Lemma nth_conv4 (w c : list K) (j : nat) : (j + 3 < length c)%nat -> nth j (conv4 w c) 0 = spl w c j.
Proof.
  revert j. induction c as [|a r IH]; intros j H; [cbn in H; lia|].
  destruct r as [|b [|c2 [|d r']]]; try (cbn in H; lia).
  change (conv4 w (a :: b :: c2 :: d :: r')) with
    ((nth 0 w 0 * a + nth 1 w 0 * b + nth 2 w 0 * c2 + nth 3 w 0 * d) :: conv4 w (b :: c2 :: d :: r')).
  destruct j as [|j].
  - reflexivity.
  - cbn [nth]. rewrite IH by (cbn [length] in *; lia).
    unfold spl, spl_f. replace (S j + 1)%nat with (S (j + 1)) by lia.
    replace (S j + 2)%nat with (S (j + 2)) by lia. replace (S j + 3)%nat with (S (j + 3)) by lia. reflexivity.
Qed.

Lemma nth_flat_map_blocks (f : nat -> list K) (s : nat) : (0 < s)%nat -> (forall j, length (f j) = s) ->
  forall n a x, (x < n * s)%nat -> nth x (flat_map f (seq a n)) 0 = nth (x mod s) (f (a + x / s)%nat) 0.
Proof.
  intros Hs Hl. induction n as [|n IH]; intros a x Hx; [lia|].
  cbn [seq flat_map]. destruct (Nat.lt_ge_cases x s) as [L|G].
  - rewrite app_nth1 by (rewrite Hl; exact L).
    rewrite Nat.div_small, Nat.mod_small by exact L. rewrite Nat.add_0_r. reflexivity.
  - rewrite app_nth2 by (rewrite Hl; exact G). rewrite Hl.
    rewrite IH by (cbn in Hx; lia).
    replace x with ((x - s) + 1 * s)%nat at 3 4 by lia.
    rewrite Nat.mod_add, Nat.div_add by lia. f_equal. f_equal. lia.
Qed.

Lemma nth_firstn_lt {A} (l : list A) (m x : nat) (d : A) : (x < m)%nat -> nth x (firstn m l) d = nth x l d.
Proof.
  revert l x. induction m as [|m IH]; intros l x H; [lia|].
  destruct l as [|a l]; [reflexivity|]. destruct x as [|x]; [reflexivity|]. cbn. apply IH. lia.
Qed.

Lemma length_flat_map_blocks (f : nat -> list K) (s : nat) : (forall j, length (f j) = s) ->
  forall n a, length (flat_map f (seq a n)) = (n * s)%nat.
Proof.
  intro Hl. induction n as [|n IH]; intro a; [reflexivity|].
  cbn [seq flat_map]. rewrite app_length, Hl, IH. lia.
Qed.

(* the grouped convolution + reshuffle of the default algorithm computes the closed form (1-D, every size) *)
Lemma mirtk1_pointwise (d s : nat) (c : list K) (m : nat) :
  (1 <= s)%nat -> (m <= (length c - 3) * s)%nat -> eval_mirtk1 d s c m = ev1 d s c m.
Proof.
  intros Hs Hm. unfold eval_mirtk1, interleave.
  set (chans := map (fun o => conv4 (wrow d s o) c) (seq 0 s)).
  set (f := fun j : nat => map (fun ch : list K => nth j ch 0) chans).
  assert (Hl : forall j, length (f j) = s) by (intro j; unfold f, chans; rewrite !map_length, seq_length; reflexivity).
  assert (Hlen : length (flat_map f (seq 0 (length c - 3))) = ((length c - 3) * s)%nat).
  { apply length_flat_map_blocks. exact Hl. }
  apply (nth_ext _ _ 0 0).
  - rewrite firstn_length, Hlen. unfold ev1. rewrite map_length, seq_length. lia.
  - intros x Hx. rewrite firstn_length, Hlen in Hx. assert (Hxm : (x < m)%nat) by lia.
    rewrite nth_firstn_lt by exact Hxm.
    rewrite (nth_flat_map_blocks f s) by (auto; lia). cbn [plus].
    rewrite nth_ev1 by exact Hxm.
    assert (Ho : (x mod s < s)%nat) by (apply Nat.mod_upper_bound; lia).
    assert (Hq : (x / s < length c - 3)%nat) by (apply Nat.div_lt_upper_bound; lia).
    unfold f. rewrite (nth_indep _ 0 (nth (x / s) [] 0)) by (rewrite map_length; unfold chans; rewrite map_length, seq_length; exact Ho).
    rewrite (map_nth (fun ch : list K => nth (x / s) ch 0)).
    unfold chans. rewrite (nth_map_seq (fun o => conv4 (wrow d s o) c)) by exact Ho.
    apply nth_conv4. lia.
Qed.

(* ---------- finite sums ---------- *)
Lemma sumf_ext (n : nat) (f g : nat -> K) : (forall j, (j < n)%nat -> f j = g j) -> sumf n f = sumf n g.
Proof.
  induction n as [|n IH]; intro H; [reflexivity|]. cbn [sumf]. rewrite IH by (intros; apply H; lia).
  rewrite H by lia. reflexivity.
Qed.

Lemma sumf_zero (n : nat) (f : nat -> K) : (forall j, (j < n)%nat -> f j = 0) -> sumf n f = 0.
Proof.
  induction n as [|n IH]; intro H; [reflexivity|]. cbn [sumf]. rewrite IH by (intros; apply H; lia).
  rewrite H by lia. ring.
Qed.

Lemma sumf_split (a b : nat) (f : nat -> K) : sumf (a + b) f = sumf a f + sumf b (fun j => f (a + j)%nat).
Proof.
  induction b as [|b IH]; [rewrite Nat.add_0_r; cbn [sumf]; ring|].
  rewrite Nat.add_succ_r. cbn [sumf]. rewrite IH. ring.
Qed.

Lemma sumf_four (n q : nat) (f : nat -> K) : (q + 4 <= n)%nat ->
  (forall j, (j < q)%nat -> f j = 0) -> (forall j, (q + 4 <= j)%nat -> (j < n)%nat -> f j = 0) ->
  sumf n f = f q + f (q + 1)%nat + f (q + 2)%nat + f (q + 3)%nat.
Proof.
  intros Hn Hlo Hhi. replace n with (q + (4 + (n - q - 4)))%nat by lia.
  rewrite sumf_split, sumf_split. rewrite (sumf_zero q) by exact Hlo.
  rewrite (sumf_zero (n - q - 4)) by (intros j Hj; apply Hhi; lia).
  cbn [sumf]. rewrite Nat.add_0_r. ring.
Qed.

(* ---------- the kernel of the transposed algorithm against the weights ---------- *)
Lemma zn_nz (s : nat) : (1 <= s)%nat -> @zn K s <> 0.
Proof. intro H. unfold zn. apply of_Z_nz; auto. lia. Qed.

Section Alg.
Variables a b : K.
Hypothesis Hb : b <> 0.
Ltac fldb := fcbv; field; refold K; repeat split; auto; nz Kc.
Lemma Bw0 : gen_B0 PP1 ((a + b) / b) = nth 0 (gen_w 0 (a / b)) 0.
Proof. fldb. Qed.
Lemma Bw1 : gen_B0 PP0 (a / b) = nth 1 (gen_w 0 (a / b)) 0.
Proof. fldb. Qed.
Lemma Bw2 : gen_B0 PM1 ((a - b) / b) = nth 2 (gen_w 0 (a / b)) 0.
Proof. fldb. Qed.
Lemma Bw2' : gen_B0 PM2 ((0 - b) / b) = nth 2 (gen_w 0 (0 / b)) 0.
Proof. fldb. Qed.
Lemma Bw3 : gen_B0 PM2 ((a - b - b) / b) = nth 3 (gen_w 0 (a / b)) 0.
Proof. fldb. Qed.
Lemma Bw3' : 0 = nth 3 (gen_w 0 (0 / b)) 0.
Proof. fldb. Qed.
End Alg.

Ltac Zify.zify_post_hook ::= Z.to_euclidean_division_equations.

Definition karg (s x j : nat) : Z := (Z.of_nat (s + x) + padT s - Z.of_nat j * Z.of_nat s)%Z.

Lemma divmod_Z (s x : nat) : (1 <= s)%nat ->
  (Z.of_nat x = Z.of_nat (x / s) * Z.of_nat s + Z.of_nat (x mod s) /\ 0 <= Z.of_nat (x mod s) < Z.of_nat s)%Z.
Proof.
  intro H. pose proof (Nat.div_mod x s ltac:(lia)) as E. pose proof (Nat.mod_upper_bound x s ltac:(lia)) as U.
  split; [|lia]. rewrite E at 1. rewrite Nat2Z.inj_add, Nat2Z.inj_mul. lia.
Qed.

Lemma padT_val (s : nat) : (1 <= s)%nat -> padT s = (2 * Z.of_nat s - 1)%Z.
Proof. intro H. unfold padT. lia. Qed.

Lemma kerT_outside (s x j : nat) : (1 <= s)%nat -> (j < x / s \/ x / s + 4 <= j)%nat -> @kerT K s (karg s x j) = 0.
Proof.
  intros Hs Hj. destruct (divmod_Z s x Hs) as [E U].
  unfold kerT, karg. rewrite padT_val by exact Hs.
  set (sz := Z.of_nat s) in *. set (q := Z.of_nat (x / s)) in *. set (o := Z.of_nat (x mod s)) in *.
  assert (Hsz : (1 <= sz)%Z) by (unfold sz; lia).
  assert (Hq : (Z.of_nat j < q \/ q + 4 <= Z.of_nat j)%Z) by (unfold q; lia).
  rewrite Nat2Z.inj_add, E. fold sz.
  destruct ((0 <=? _)%Z && _) eqn:R; [|reflexivity].
  apply andb_true_iff in R. destruct R as [R1 R2]. apply Z.leb_le in R1. apply Z.ltb_lt in R2.
  replace ((4 * sz - 1) / 2)%Z with (2 * sz - 1)%Z by lia.
  unfold piece_of_Z.
  destruct Hq as [Hq|Hq].
  - assert (G : (2 * sz <= sz + (q * sz + o) + (2 * sz - 1) - Z.of_nat j * sz - (2 * sz - 1))%Z) by nia.
    exfalso. lia.
  - assert (G : (sz + (q * sz + o) + (2 * sz - 1) - Z.of_nat j * sz - (2 * sz - 1) <= - 2 * sz)%Z) by nia.
    exfalso. lia.
Qed.

Lemma kerT_inside (s x k : nat) : (1 <= s)%nat -> (k < 4)%nat ->
  @kerT K s (karg s x (x / s + k)) = nth k (wrow 0 s (x mod s)) 0.
Proof.
  intros Hs Hk. destruct (divmod_Z s x Hs) as [E U].
  pose proof (zn_nz s Hs) as Hb.
  unfold kerT, karg, wrow. rewrite padT_val by exact Hs.
  rewrite !Nat2Z.inj_add, E.
  set (sz := Z.of_nat s) in *. set (q := Z.of_nat (x / s)) in *. set (o := Z.of_nat (x mod s)) in *.
  assert (Hsz : (1 <= sz)%Z) by (unfold sz; lia).
  replace ((4 * sz - 1) / 2)%Z with (2 * sz - 1)%Z by lia.
  replace (sz + (q * sz + o) + (2 * sz - 1) - (q + Z.of_nat k) * sz - (2 * sz - 1))%Z
    with (o + (1 - Z.of_nat k) * sz)%Z by ring.
  replace (sz + (q * sz + o) + (2 * sz - 1) - (q + Z.of_nat k) * sz)%Z
    with (o + (1 - Z.of_nat k) * sz + (2 * sz - 1))%Z by ring.
  assert (Ezn : @zn K (x mod s) = of_Z o) by reflexivity.
  assert (Ezs : @zn K s = of_Z sz) by reflexivity.
  rewrite Ezn, Ezs in *. clear Ezn Ezs.
  unfold piece_of_Z.
  destruct k as [|[|[|[|k]]]]; [change (Z.of_nat 0) with 0%Z|change (Z.of_nat 1) with 1%Z|change (Z.of_nat 2) with 2%Z|change (Z.of_nat 3) with 3%Z|lia].
  - (* k = 0: z = o + s in [s, 2 s) *)
    replace (o + (1 - 0) * sz)%Z with (o + sz)%Z by ring.
    destruct ((0 <=? _)%Z && _) eqn:R; [|apply andb_false_iff in R; destruct R as [R|R]; [apply Z.leb_gt in R|apply Z.ltb_ge in R]; lia].
    repeat match goal with |- context [(?u <=? ?v)%Z] => destruct (Z.leb_spec u v); try lia end.
    repeat match goal with |- context [(?u <? ?v)%Z] => destruct (Z.ltb_spec u v); try lia end.
    rewrite of_Z_add by assumption. apply Bw0. exact Hb.
  - replace (o + (1 - 1) * sz)%Z with o by ring.
    destruct ((0 <=? _)%Z && _) eqn:R; [|apply andb_false_iff in R; destruct R as [R|R]; [apply Z.leb_gt in R|apply Z.ltb_ge in R]; lia].
    repeat match goal with |- context [(?u <=? ?v)%Z] => destruct (Z.leb_spec u v); try lia end.
    repeat match goal with |- context [(?u <? ?v)%Z] => destruct (Z.ltb_spec u v); try lia end.
    apply Bw1. exact Hb.
  - replace (o + (1 - 2) * sz)%Z with (o - sz)%Z by ring.
    destruct ((0 <=? _)%Z && _) eqn:R; [|apply andb_false_iff in R; destruct R as [R|R]; [apply Z.leb_gt in R|apply Z.ltb_ge in R]; lia].
    destruct (Z.eq_dec o 0) as [O|O].
    + rewrite O in *. replace (0 - sz)%Z with (- sz)%Z by ring.
      repeat match goal with |- context [(?u <=? ?v)%Z] => destruct (Z.leb_spec u v); try lia end.
      rewrite of_Z_opp by assumption. cbn [of_Z].
      replace (- of_Z sz) with (0 - @of_Z K sz) by ring. apply Bw2'. exact Hb.
    + repeat match goal with |- context [(?u <=? ?v)%Z] => destruct (Z.leb_spec u v); try lia end.
      repeat match goal with |- context [(?u <? ?v)%Z] => destruct (Z.ltb_spec u v); try lia end.
      rewrite of_Z_sub by assumption. apply Bw2. exact Hb.
  - replace (o + (1 - 3) * sz)%Z with (o - sz - sz)%Z by ring.
    destruct (Z.eq_dec o 0) as [O|O].
    + rewrite O in *.
      destruct ((0 <=? _)%Z && _) eqn:R.
      * apply andb_true_iff in R. destruct R as [R1 R2]. apply Z.leb_le in R1. lia.
      * cbn [of_Z]. apply Bw3'. exact Hb.
    + destruct ((0 <=? _)%Z && _) eqn:R; [|apply andb_false_iff in R; destruct R as [R|R]; [apply Z.leb_gt in R|apply Z.ltb_ge in R]; lia].
      repeat match goal with |- context [(?u <=? ?v)%Z] => destruct (Z.leb_spec u v); try lia end.
      rewrite !of_Z_sub by assumption. apply Bw3. exact Hb.
Qed.

(* one axis of the transposed algorithm = four weights on the cell (any coefficient accessor f) *)
Lemma transpose_axis (s n : nat) (f : nat -> K) (x : nat) : (1 <= s)%nat -> (x / s + 3 < n)%nat ->
  evT1_at s n f x = spl_f (wrow 0 s (x mod s)) f (x / s).
Proof.
  intros Hs Hn. unfold evT1_at, convT_at.
  change (fun j : nat => f j * kerT s (Z.of_nat (s + x) + padT s - Z.of_nat j * Z.of_nat s)%Z)
    with (fun j : nat => f j * kerT s (karg s x j)).
  rewrite (sumf_four n (x / s)).
  - pose proof (kerT_inside s x 0 Hs ltac:(lia)) as H0. rewrite Nat.add_0_r in H0.
    rewrite H0, !kerT_inside by (auto; lia). unfold spl_f. ring.
  - lia.
  - intros j Hj. rewrite kerT_outside by (auto; lia). ring.
  - intros j Hj _. rewrite kerT_outside by (auto; lia). ring.
Qed.

Lemma cell_in_range (s n m x : nat) : (1 <= s)%nat -> (m <= (n - 3) * s)%nat -> (x < m)%nat -> (x / s + 3 < n)%nat.
Proof.
  intros Hs Hm Hx. assert (x / s < n - 3)%nat by (apply Nat.div_lt_upper_bound; lia). lia.
Qed.

Lemma spl_f_ext (w : list K) (f g : nat -> K) (q : nat) :
  (forall k, (k < 4)%nat -> f (q + k)%nat = g (q + k)%nat) -> spl_f w f q = spl_f w g q.
Proof.
  intro H. unfold spl_f. pose proof (H 0%nat ltac:(lia)) as H0. rewrite Nat.add_0_r in H0.
  rewrite H0, !H by lia. reflexivity.
Qed.

Lemma two_algorithms_agree_1d (s : nat) (c : list K) (m : nat) :
  (1 <= s)%nat -> (m <= (length c - 3) * s)%nat -> evT1 s c m = ev1 0 s c m.
Proof.
  intros Hs Hm. unfold evT1, ev1. apply map_ext_in. intros x Hx. apply in_seq in Hx.
  rewrite transpose_axis by (auto; eapply cell_in_range; eauto; lia). reflexivity.
Qed.

Lemma two_algorithms_agree_2d (sx sy : nat) (c : list (list K)) (nx mx my : nat) :
  (1 <= sx)%nat -> (1 <= sy)%nat -> (forall j, (j < length c)%nat -> length (nth j c []) = nx) ->
  (mx <= (nx - 3) * sx)%nat -> (my <= (length c - 3) * sy)%nat ->
  evT2 sx sy c mx my = ev2 0 0 sx sy c mx my.
Proof.
  intros Hsx Hsy Hrow Hmx Hmy. unfold evT2, ev2. apply map_ext_in. intros y Hy. apply in_seq in Hy.
  apply map_ext_in. intros x Hx. apply in_seq in Hx.
  assert (Qy : (y / sy + 3 < length c)%nat) by (eapply cell_in_range; eauto; lia).
  rewrite transpose_axis by auto. unfold ev2_at. apply spl_f_ext. intros k Hk.
  rewrite Hrow by lia. apply transpose_axis; auto. eapply cell_in_range; eauto; lia.
Qed.

Lemma two_algorithms_agree_3d (sx sy sz : nat) (c : list (list (list K))) (nx ny mx my mz : nat) :
  (1 <= sx)%nat -> (1 <= sy)%nat -> (1 <= sz)%nat ->
  (forall k, (k < length c)%nat -> length (nth k c []) = ny) ->
  (forall k j, (k < length c)%nat -> (j < ny)%nat -> length (nth j (nth k c []) []) = nx) ->
  (mx <= (nx - 3) * sx)%nat -> (my <= (ny - 3) * sy)%nat -> (mz <= (length c - 3) * sz)%nat ->
  evT3 sx sy sz c mx my mz = ev3 0 0 0 sx sy sz c mx my mz.
Proof.
  intros Hsx Hsy Hsz Hpl Hrow Hmx Hmy Hmz. unfold evT3, ev3.
  apply map_ext_in. intros z Hz. apply in_seq in Hz.
  apply map_ext_in. intros y Hy. apply in_seq in Hy.
  apply map_ext_in. intros x Hx. apply in_seq in Hx.
  assert (Qz : (z / sz + 3 < length c)%nat) by (eapply cell_in_range; eauto; lia).
  assert (Qy : (y / sy + 3 < ny)%nat) by (eapply cell_in_range; eauto; lia).
  rewrite transpose_axis by auto. unfold ev3_at. apply spl_f_ext. intros k Hk.
  rewrite Hpl by lia. rewrite transpose_axis by auto. apply spl_f_ext. intros j Hj.
  rewrite Hrow by lia. apply transpose_axis; auto. eapply cell_in_range; eauto; lia.
Qed.

(* ---------- exactness on affine coefficients ---------- *)
Definition cpos (s j : nat) : K := of_Z (Z.of_nat j - 1) * zn s.   (* image index of control point j *)
Definition aff_val (d s x : nat) (A B : K) : K :=
  match d with 0%nat => A + B * zn x | 1%nat => B * zn s | _ => 0 end.

Lemma zn_add (i j : nat) : @zn K (i + j) = zn i + zn j.
Proof. unfold zn. rewrite Nat2Z.inj_add, of_Z_add by assumption. reflexivity. Qed.
Lemma zn_mul (i j : nat) : @zn K (i * j) = zn i * zn j.
Proof. unfold zn. rewrite Nat2Z.inj_mul, of_Z_mul by assumption. reflexivity. Qed.

Lemma cpos_shift (s q k : nat) : cpos s (q + k) = (zn q + zn k - 1) * zn s.
Proof. unfold cpos. rewrite of_Z_sub, <- zn_add by assumption. fold (@zn K (q + k)). cbn [of_Z of_pos]. ring. Qed.

Lemma spl_affine_gen (d : nat) (t S Q A B : K) :
  nth 0 (gen_w d t) 0 * (A + B * ((Q + 0 - 1) * S)) + nth 1 (gen_w d t) 0 * (A + B * ((Q + 1 - 1) * S))
  + nth 2 (gen_w d t) 0 * (A + B * ((Q + (1 + 1) - 1) * S)) + nth 3 (gen_w d t) 0 * (A + B * ((Q + (1 + 1 + 1) - 1) * S))
  = match d with 0%nat => A + B * (S * Q + S * t) | 1%nat => B * S | _ => 0 end.
Proof.
  destruct d as [|[|[|[|d]]]]; fcbv; field; side.
Qed.

Lemma spl_f_affine (d s x : nat) (A B : K) : (1 <= s)%nat ->
  spl_f (wrow d s (x mod s)) (fun j => A + B * cpos s j) (x / s) = aff_val d s x A B.
Proof.
  intro Hs. unfold spl_f, wrow. pose proof (cpos_shift s (x / s) 0) as H0. rewrite Nat.add_0_r in H0.
  rewrite H0, !cpos_shift.
  change (@zn K 0) with (@f0 K). change (@zn K 1) with (@f1 K).
  replace (@zn K 2) with (1 + 1 : K) by (fcbv; ring). replace (@zn K 3) with (1 + 1 + 1 : K) by (fcbv; ring).
  rewrite spl_affine_gen. unfold aff_val.
  destruct d as [|[|d]]; try reflexivity.
  f_equal. f_equal. pose proof (zn_nz s Hs) as Hb.
  rewrite (Nat.div_mod x s) at 3 by lia. rewrite zn_add, zn_mul. field. exact Hb.
Qed.

Lemma nth_affine_coeffs (s n : nat) (a b : K) (j : nat) : (j < n)%nat ->
  nth j (affine_coeffs s n a b) 0 = a + b * cpos s j.
Proof. intro H. unfold affine_coeffs. rewrite (nth_map_seq (fun j => a + b * (of_Z (Z.of_nat j - 1) * zn s))) by exact H. reflexivity. Qed.

(* D = 1: all image sizes m, strides s, derivative orders d *)
Lemma ffd_affine_exact_1d (d s m : nat) (a b : K) (x : nat) : (1 <= s)%nat -> (x < m)%nat ->
  nth x (ev1 d s (affine_coeffs s (ctrl_size m s) a b) m) 0 = aff_val d s x a b.
Proof.
  intros Hs Hx. rewrite nth_ev1 by exact Hx. unfold spl.
  pose proof (ctrl_nat_in_range m s x Hs Hx) as R.
  rewrite <- spl_f_affine by exact Hs. apply spl_f_ext. intros k Hk.
  apply nth_affine_coeffs. lia.
Qed.

(* D = 2, 3: any coefficient tensor that is affine in the control point position on the control grid *)
Lemma ffd_affine_exact_2d (dx dy sx sy mx my : nat) (c : list (list K)) (a bx by_ : K) (x y : nat) :
  (1 <= sx)%nat -> (1 <= sy)%nat -> (x < mx)%nat -> (y < my)%nat ->
  (forall j i, (j < ctrl_size my sy)%nat -> (i < ctrl_size mx sx)%nat -> at2 c j i = a + bx * cpos sx i + by_ * cpos sy j) ->
  ev2_at dx dy sx sy c y x =
    aff_val dy sy y (aff_val dx sx x a bx) (match dx with 0%nat => by_ | _ => 0 end).
Proof.
  intros Hsx Hsy Hx Hy Hc. unfold ev2_at.
  pose proof (ctrl_nat_in_range mx sx x Hsx Hx) as Rx. pose proof (ctrl_nat_in_range my sy y Hsy Hy) as Ry.
  rewrite <- (spl_f_affine dy sy y _ _ Hsy). apply spl_f_ext. intros k Hk.
  transitivity (spl_f (wrow dx sx (x mod sx)) (fun i => (a + by_ * cpos sy (y / sy + k)) + bx * cpos sx i) (x / sx)).
  - apply spl_f_ext. intros k' Hk'. rewrite Hc by lia. ring.
  - rewrite spl_f_affine by exact Hsx. unfold aff_val. destruct dx as [|[|dx]]; ring.
Qed.

Lemma ffd_affine_exact_2d_nth (dx dy sx sy mx my : nat) (c : list (list K)) (a bx by_ : K) (x y : nat) :
  (1 <= sx)%nat -> (1 <= sy)%nat -> (x < mx)%nat -> (y < my)%nat ->
  (forall j i, (j < ctrl_size my sy)%nat -> (i < ctrl_size mx sx)%nat -> at2 c j i = a + bx * cpos sx i + by_ * cpos sy j) ->
  nth x (nth y (ev2 dx dy sx sy c mx my) []) 0 =
    aff_val dy sy y (aff_val dx sx x a bx) (match dx with 0%nat => by_ | _ => 0 end).
Proof.
  intros Hsx Hsy Hx Hy Hc. unfold ev2.
  rewrite (nth_map_seq (fun y => map (fun x => ev2_at dx dy sx sy c y x) (seq 0 mx))) by exact Hy.
  rewrite (nth_map_seq (fun x => ev2_at dx dy sx sy c y x)) by exact Hx.
  apply (ffd_affine_exact_2d dx dy sx sy mx my c a bx by_ x y Hsx Hsy Hx Hy Hc).
Qed.

Lemma ffd_affine_exact_3d (dx dy dz sx sy sz mx my mz : nat) (c : list (list (list K))) (a bx by_ bz : K) (x y z : nat) :
  (1 <= sx)%nat -> (1 <= sy)%nat -> (1 <= sz)%nat -> (x < mx)%nat -> (y < my)%nat -> (z < mz)%nat ->
  (forall k j i, (k < ctrl_size mz sz)%nat -> (j < ctrl_size my sy)%nat -> (i < ctrl_size mx sx)%nat ->
     at3 c k j i = a + bx * cpos sx i + by_ * cpos sy j + bz * cpos sz k) ->
  ev3_at dx dy dz sx sy sz c z y x =
    aff_val dz sz z (aff_val dy sy y (aff_val dx sx x a bx) (match dx with 0%nat => by_ | _ => 0 end))
            (match dx, dy with 0%nat, 0%nat => bz | _, _ => 0 end).
Proof.
  intros Hsx Hsy Hsz Hx Hy Hz Hc. unfold ev3_at.
  pose proof (ctrl_nat_in_range mx sx x Hsx Hx) as Rx. pose proof (ctrl_nat_in_range my sy y Hsy Hy) as Ry.
  pose proof (ctrl_nat_in_range mz sz z Hsz Hz) as Rz.
  rewrite <- (spl_f_affine dz sz z _ _ Hsz). apply spl_f_ext. intros k Hk.
  transitivity (spl_f (wrow dy sy (y mod sy))
     (fun j => aff_val dx sx x (a + bz * cpos sz (z / sz + k)) bx + (match dx with 0%nat => by_ | _ => 0 end) * cpos sy j) (y / sy)).
  - apply spl_f_ext. intros k' Hk'.
    transitivity (spl_f (wrow dx sx (x mod sx))
       (fun i => (a + bz * cpos sz (z / sz + k) + by_ * cpos sy (y / sy + k')) + bx * cpos sx i) (x / sx)).
    + apply spl_f_ext. intros k'' Hk''. rewrite Hc by lia. ring.
    + rewrite spl_f_affine by exact Hsx. unfold aff_val. destruct dx as [|[|dx]]; ring.
  - rewrite spl_f_affine by exact Hsy. unfold aff_val. destruct dx as [|[|dx]]; destruct dy as [|[|dy]]; ring.
Qed.
(* spatial_derivatives(mode='bspline') on coefficients that are affine in the control point position *)
Lemma bspline_mode_affine_2d (dx dy sx sy mx my : nat) (hx hy : K) (c : list (list K)) (a bx by_ : K) (x y : nat) :
  (1 <= sx)%nat -> (1 <= sy)%nat -> (x < mx)%nat -> (y < my)%nat ->
  (forall j i, (j < ctrl_size my sy)%nat -> (i < ctrl_size mx sx)%nat -> at2 c j i = a + bx * cpos sx i + by_ * cpos sy j) ->
  bsd2_at dx dy sx sy hx hy c y x =
    aff_val dy sy y (aff_val dx sx x a bx) (match dx with 0%nat => by_ | _ => 0 end) / (fpow hx dx * fpow hy dy).
Proof.
  intros Hsx Hsy Hx Hy Hc. unfold bsd2_at.
  rewrite (ffd_affine_exact_2d dx dy sx sy mx my c a bx by_ x y Hsx Hsy Hx Hy Hc). reflexivity.
Qed.

Lemma bspline_mode_affine_3d (dx dy dz sx sy sz mx my mz : nat) (hx hy hz : K) (c : list (list (list K))) (a bx by_ bz : K) (x y z : nat) :
  (1 <= sx)%nat -> (1 <= sy)%nat -> (1 <= sz)%nat -> (x < mx)%nat -> (y < my)%nat -> (z < mz)%nat ->
  (forall k j i, (k < ctrl_size mz sz)%nat -> (j < ctrl_size my sy)%nat -> (i < ctrl_size mx sx)%nat ->
     at3 c k j i = a + bx * cpos sx i + by_ * cpos sy j + bz * cpos sz k) ->
  bsd3_at dx dy dz sx sy sz hx hy hz c z y x =
    aff_val dz sz z (aff_val dy sy y (aff_val dx sx x a bx) (match dx with 0%nat => by_ | _ => 0 end))
            (match dx, dy with 0%nat, 0%nat => bz | _, _ => 0 end) / (fpow hx dx * fpow hy dy * fpow hz dz).
Proof.
  intros Hsx Hsy Hsz Hx Hy Hz Hc. unfold bsd3_at.
  rewrite (ffd_affine_exact_3d dx dy dz sx sy sz mx my mz c a bx by_ bz x y z Hsx Hsy Hsz Hx Hy Hz Hc). reflexivity.
Qed.

(* first order, coefficients given as a function of the *physical* control point position P_j = (j - 1) h (slope g per
   physical unit): the B-spline-mode partial derivative is g, at every output sample and for every stride *)
Lemma bspline_mode_gradient_3d (sx sy sz mx my mz : nat) (hx hy hz : K) (c : list (list (list K))) (a gx gy gz : K) (x y z : nat) :
  (1 <= sx)%nat -> (1 <= sy)%nat -> (1 <= sz)%nat -> (x < mx)%nat -> (y < my)%nat -> (z < mz)%nat ->
  hx <> 0 -> hy <> 0 -> hz <> 0 ->
  (forall k j i, (k < ctrl_size mz sz)%nat -> (j < ctrl_size my sy)%nat -> (i < ctrl_size mx sx)%nat ->
     at3 c k j i = a + gx * (of_Z (Z.of_nat i - 1) * hx) + gy * (of_Z (Z.of_nat j - 1) * hy) + gz * (of_Z (Z.of_nat k - 1) * hz)) ->
  bsd3_at 1 0 0 sx sy sz hx hy hz c z y x = gx /\ bsd3_at 0 1 0 sx sy sz hx hy hz c z y x = gy /\
  bsd3_at 0 0 1 sx sy sz hx hy hz c z y x = gz.
Proof.
  intros Hsx Hsy Hsz Hx Hy Hz Nx Ny Nz Hc.
  pose proof (zn_nz sx Hsx) as Zx. pose proof (zn_nz sy Hsy) as Zy. pose proof (zn_nz sz Hsz) as Zz.
  assert (Hc' : forall k j i, (k < ctrl_size mz sz)%nat -> (j < ctrl_size my sy)%nat -> (i < ctrl_size mx sx)%nat ->
     at3 c k j i = a + (gx * hx / zn sx) * cpos sx i + (gy * hy / zn sy) * cpos sy j + (gz * hz / zn sz) * cpos sz k).
  { intros k j i Hk Hj Hi. rewrite Hc by assumption. unfold cpos. field. repeat split; assumption. }
  repeat split.
  - rewrite (bspline_mode_affine_3d 1 0 0 sx sy sz mx my mz hx hy hz c _ _ _ _ x y z Hsx Hsy Hsz Hx Hy Hz Hc').
    unfold aff_val, fpow. field. repeat split; assumption.
  - rewrite (bspline_mode_affine_3d 0 1 0 sx sy sz mx my mz hx hy hz c _ _ _ _ x y z Hsx Hsy Hsz Hx Hy Hz Hc').
    unfold aff_val, fpow. field. repeat split; assumption.
  - rewrite (bspline_mode_affine_3d 0 0 1 sx sy sz mx my mz hx hy hz c _ _ _ _ x y z Hsx Hsy Hsz Hx Hy Hz Hc').
    unfold aff_val, fpow. field. repeat split; assumption.
Qed.
End Proofs.
