(* C19 -- Batches keep one correctly aligned grid per image under tensor operations.
   Statements only; every proof is `exact <lemma>`.

   Model: Model/Batch.v (provenance semantics data_sem of the torch operation family + transcription run_op
   of the grid bookkeeping of data/image.py, data/flow.py, data/tensor.py, data/collate.py),
   Model/BatchSpec.v (the property: out_sound / res_sound / no_raise / ginv).

   FULL STATEMENT (false of the faithful model -- see C19_batch_reorder_refuted, C19_batch_mix_refuted; kept by the
   maintainers as a design decision of the shape-based dispatcher):
     dispatch_sound : forall gshape gaxes o args, Forall (wf_val gshape) args ->
       res_sound gshape args (run_op gshape gaxes o args) /\ no_raise o args (run_op gshape gaxes o args).
   What is proved (for EVERY batch size, grid assignment, shape and argument value):
     - every single-operand operation that reaches the generic branch of ImageBatch.__torch_function__ AND of
       FlowFields.__torch_function__ (elementwise / casts / clone, reductions, narrow, select, index_select, flip, roll,
       permute, expand, repeat, reshape, interpolation / pooling / padding / conv, grid_sample, chunk, unbind, cumsum),
       provided it does not reorder or mix the batch dimension (batch_aligned) -- this proviso is exactly what the two
       _refuted theorems show to be necessary; flow results keep the axes of the operand;
     - elementwise operations with two tensor operands (ImageBatch / FlowFields / plain in any combination, broadcasting);
       batch o image (the image is converted to a batch of one); image o batch gives a plain tensor;
     - torch.cat of any number of image batches along the batch dimension and along any other dimension; torch.stack;
     - torch.split (int and list), split_with_sizes, tensor_split (sections and indices) along the batch dimension and
       along any other dimension; FlowFields: cat of any number of flow batches and every split form along the batch
       dimension (grids per entry and axes);
     - __getitem__ for EVERY form (int, slice, index list / tensor / array, boolean mask, Ellipsis, tuples), ImageBatch and
       FlowFields; the narrow method along the batch dimension (also negative dim); __iter__; from_images / collate_samples of
       any selection of items; append; the FlowFields(batch) constructor; copy / deepcopy / pickle;
     - Image / FlowField dispatchers: a typed result carries the operand's grid, of the data's spatial shape, and its axes;
     - programs of any length (induction over the operation list): for a syntactic family of steps, and in general for
       any run whose steps satisfy the step theorems above.
   Covered by the correspondence and the implementation-side evaluation only (no theorem): cat / split of FlowFields
   along NON-batch dimensions (modelled, same code path as ImageBatch plus the axes test), operations with three or
   more operands mixing single images and batches, batch o flow field, ImageBatch.sample, the VALUES of converted flow vectors (append of other axes: value oracle on the implementation). *)
From Coq Require Import String List ZArith Bool Arith Lia.
From DV Require Import Model.Enums Model.Batch Model.BatchSpec Model.BatchPins Gen.BatchTables
  Proofs.C19Base Proofs.C19Generic Proofs.C19Aligned Proofs.C19Cat Proofs.C19GetItem Proofs.C19Split Proofs.C19Flow Proofs.C19Binary Proofs.C19Explicit Proofs.C19Single Proofs.C19Prog Proofs.C19Refuted Proofs.C19FlowCat Proofs.C19Mixed Proofs.C19Ctor.
Import ListNotations.

(* 0. the tables / conditions / method bodies the model transcribes are the ones in the source now *)
Theorem C19_model_pinned_to_source :
  gen_dispatch_tests = pin_dispatch_tests /\ gen_grid_tests = pin_grid_tests /\ gen_grid_guard = pin_grid_guard /\ gen_grid_dim = pin_grid_dim
  /\ gen_result_conditions = pin_result_conditions /\ gen_fingerprints = pin_fingerprints.
Proof. exact (conj eq_refl (conj eq_refl (conj eq_refl (conj eq_refl (conj eq_refl eq_refl))))). Qed.
Print Assumptions C19_model_pinned_to_source.

(* 1. generic branch of the dispatcher, one image-batch operand, any batch size / grids / shape *)
Theorem C19_dispatch_sound_partial :
  forall (gshape : gid -> shape) (gaxes : gid -> axes) (o : op) (s : shape) (gs : list gid),
  generic_op o = true -> batch_aligned o s = true ->
  wf_val gshape (mkT s (TBatch None gs)) ->
  res_sound gshape [mkT s (TBatch None gs)] (run_op gshape gaxes o [mkT s (TBatch None gs)])
  /\ no_raise o [mkT s (TBatch None gs)] (run_op gshape gaxes o [mkT s (TBatch None gs)]).
Proof.
  exact (fun gshape gaxes o s gs Hg Hb Hwf =>
           conj (generic_sound gshape gaxes o s gs Hg Hwf (batch_aligned_ok o s Hg Hb))
                (generic_no_raise gshape gaxes o s gs Hg Hwf)).
Qed.
Print Assumptions C19_dispatch_sound_partial.

(* 1b. the same for a batch of flow fields (FlowFields.__torch_function__): FlowFields with the operand's axes, ImageBatch, or plain *)
Theorem C19_flowfields_dispatch_sound_partial :
  forall (gshape : gid -> shape) (gaxes : gid -> axes) (o : op) (s : shape) (ax : axes) (gs : list gid),
  generic_op o = true -> batch_aligned o s = true ->
  wf_val gshape (mkT s (TBatch (Some ax) gs)) ->
  res_sound gshape [mkT s (TBatch (Some ax) gs)] (run_op gshape gaxes o [mkT s (TBatch (Some ax) gs)]).
Proof.
  exact (fun gshape gaxes o s ax gs Hg Hb Hwf => generic_flow_sound gshape gaxes o s ax gs Hg Hwf (batch_aligned_ok o s Hg Hb)).
Qed.
Print Assumptions C19_flowfields_dispatch_sound_partial.

Theorem C19_flowfields_keep_axes :
  forall (gshape : gid -> shape) (gaxes : gid -> axes) (o : op) (s : shape) (ax : axes) (gs : list gid) (d : dout)
         (fl : option axes) (gs' : list gid),
  generic_op o = true -> data_sem o [s] = DOne d ->
  run_op gshape gaxes o [mkT s (TBatch (Some ax) gs)] = OOne (mkO (d_shape d) (TBatch fl gs') (d_src d)) ->
  fl = None \/ fl = Some ax.
Proof. exact generic_flow_axes. Qed.
Print Assumptions C19_flowfields_keep_axes.

(* 1c. elementwise operations with two tensor operands: batches of either class and plain tensors, broadcasting *)
Theorem C19_binary_sound :
  forall (gshape : gid -> shape) (gaxes : gid -> axes) (a b : tval),
  nonsingle a -> nonsingle b -> wf_val gshape a -> wf_val gshape b ->
  (is_batch (t_kind a) = true -> is_batch (t_kind b) = true -> ndim (t_shape a) = ndim (t_shape b)) ->
  res_sound gshape [a; b] (run_op gshape gaxes OBinary [a; b]).
Proof. exact binary_sound. Qed.
Print Assumptions C19_binary_sound.

(* 1c'. batch o image: the image is converted with Image.batch() and the result keeps the grids of the batch;
   image o batch: Image.__torch_function__ runs first and the result is a plain tensor (never a wrongly typed one) *)
Theorem C19_batch_image_binary_sound :
  forall (gshape : gid -> shape) (gaxes : gid -> axes) (sa : shape) (gs : list gid) (sb : shape) (g : gid),
  wf_val gshape (mkT sa (TBatch None gs)) -> wf_val gshape (mkT sb (TSingle None g)) ->
  ndim sa = S (ndim sb) ->
  res_sound gshape [mkT sa (TBatch None gs); mkT sb (TSingle None g)]
    (run_op gshape gaxes OBinary [mkT sa (TBatch None gs); mkT sb (TSingle None g)]).
Proof. exact binary_batch_image_sound. Qed.
Print Assumptions C19_batch_image_binary_sound.

Theorem C19_image_batch_binary_plain :
  forall (gshape : gid -> shape) (gaxes : gid -> axes) (sa : shape) (fl : option axes) (g : gid) (sb : shape) (flb : option axes) (gs : list gid),
  match run_op gshape gaxes OBinary [mkT sa (TSingle fl g); mkT sb (TBatch flb gs)] with
  | OOne o => v_kind o = TPlain
  | OErr _ => True
  | OTuple _ => False
  end.
Proof. exact binary_image_batch_plain. Qed.
Print Assumptions C19_image_batch_binary_plain.

(* 1d. Image / FlowField: a typed result carries the operand's grid (of the data's spatial shape) and its axes *)
Theorem C19_single_dispatch_ok :
  forall (gshape : gid -> shape) (gaxes : gid -> axes) (o : op) (s : shape) (fl : option axes) (g : gid),
  generic_op o = true -> single_res_ok gshape fl g (run_op gshape gaxes o [mkT s (TSingle fl g)]).
Proof. exact single_generic_ok. Qed.
Print Assumptions C19_single_dispatch_ok.

(* 2. "a result whose batch size or shape no longer matches the grids is a plain tensor" *)
Theorem C19_mismatch_is_plain :
  forall (gshape : gid -> shape) (sh : shape) (g0 : gid) (r : list gid),
  (nent sh <> length (g0 :: r) \/ ndim sh <> length (gshape g0) + 2 \/ skipn 2 sh <> gshape g0) ->
  res_batch gshape sh (Some (g0 :: r)) = KOk TPlain.
Proof.
  exact (fun gshape sh g0 r H =>
           match H with
           | or_introl H1 => res_batch_plain_count gshape sh (g0 :: r) H1
           | or_intror (or_introl H2) => res_batch_plain_ndim gshape sh g0 r H2
           | or_intror (or_intror H3) => res_batch_plain_spatial gshape sh g0 r H3
           end).
Qed.
Print Assumptions C19_mismatch_is_plain.

(* 3. concatenation along the batch dimension: any number of batches, any sizes *)
Theorem C19_cat_sound :
  forall (gshape : gid -> shape) (gaxes : gid -> axes) (d : dimarg) (a : tval) (args : list tval),
  cat_dim0 d -> all_image_batches gshape (a :: args) ->
  res_sound gshape (a :: args) (run_op gshape gaxes (OCat d) (a :: args)).
Proof. exact cat_dim0_sound. Qed.
Print Assumptions C19_cat_sound.

(* ... and along any other (non-negative) dimension: grids of the first batch, entry i = entry i of every operand *)
Theorem C19_cat_other_dim_sound :
  forall (gshape : gid -> shape) (gaxes : gid -> axes) (d : dimarg) (a : tval) (args : list tval),
  (0 < dim_value d)%Z -> all_image_batches gshape (a :: args) ->
  res_sound gshape (a :: args) (run_op gshape gaxes (OCat d) (a :: args)).
Proof. exact cat_other_dim_sound. Qed.
Print Assumptions C19_cat_other_dim_sound.

(* torch.stack: never a non-empty batch *)
Theorem C19_stack_sound :
  forall (gshape : gid -> shape) (gaxes : gid -> axes) (d : dimarg) (a : tval) (args : list tval),
  all_image_batches gshape (a :: args) ->
  res_sound gshape (a :: args) (run_op gshape gaxes (OStack d) (a :: args))
  /\ (0 < nent (t_shape a) -> forall o, run_op gshape gaxes (OStack d) (a :: args) = OOne o -> v_kind o = TPlain).
Proof. exact stack_sound. Qed.
Print Assumptions C19_stack_sound.

(* 3b. split (int / list of sizes), split_with_sizes, tensor_split (sections / indices) along the batch dimension *)
Theorem C19_split_sound :
  forall (gshape : gid -> shape) (gaxes : gid -> axes) (o : op) (s : shape) (gs : list gid),
  split_dim0 o -> wf_val gshape (mkT s (TBatch None gs)) ->
  res_sound gshape [mkT s (TBatch None gs)] (run_op gshape gaxes o [mkT s (TBatch None gs)]).
Proof. exact split_batch_dim_sound. Qed.
Print Assumptions C19_split_sound.

Theorem C19_split_other_dim_sound :
  forall (gshape : gid -> shape) (gaxes : gid -> axes) (o : op) (s : shape) (gs : list gid),
  split_other_dim o -> wf_val gshape (mkT s (TBatch None gs)) ->
  res_sound gshape [mkT s (TBatch None gs)] (run_op gshape gaxes o [mkT s (TBatch None gs)]).
Proof. exact split_other_dim_sound. Qed.
Print Assumptions C19_split_other_dim_sound.

(* 3c. FlowFields: torch.cat of any number of flow batches with the same axes along the batch dimension; split / split_with_sizes /
   tensor_split of a flow batch along the batch dimension -- grids per entry AND axes *)
Theorem C19_flowfields_cat_sound :
  forall (gshape : gid -> shape) (gaxes : gid -> axes) (ax : axes) (d : dimarg) (a : tval) (args : list tval),
  cat_dim0 d -> all_flow_batches gshape ax (a :: args) ->
  res_sound gshape (a :: args) (run_op gshape gaxes (OCat d) (a :: args)).
Proof. exact cat_flow_dim0_sound. Qed.
Print Assumptions C19_flowfields_cat_sound.

Theorem C19_flowfields_split_sound :
  forall (gshape : gid -> shape) (gaxes : gid -> axes) (o : op) (s : shape) (ax : axes) (gs : list gid),
  split_dim0 o -> wf_val gshape (mkT s (TBatch (Some ax) gs)) ->
  res_sound gshape [mkT s (TBatch (Some ax) gs)] (run_op gshape gaxes o [mkT s (TBatch (Some ax) gs)]).
Proof. exact split_flow_batch_dim_sound. Qed.
Print Assumptions C19_flowfields_split_sound.

(* 4. indexing: every form *)
Theorem C19_getitem_sound :
  forall (gshape : gid -> shape) (gaxes : gid -> axes) (fl : option axes) (sh : shape) (gs : list gid) (f : gform),
  wf_val gshape (mkT sh (TBatch fl gs)) ->
  res_sound gshape [mkT sh (TBatch fl gs)] (run_op gshape gaxes (OGetItem f) [mkT sh (TBatch fl gs)]).
Proof.
  exact (fun gshape gaxes fl sh gs f Hwf =>
           match f with
           | GOne i => getitem_one_sound gshape gaxes fl sh gs i Hwf
           | GTup l => getitem_tuple_sound gshape gaxes fl sh gs l Hwf
           end).
Qed.
Print Assumptions C19_getitem_sound.

(* batch.narrow(dim, start, length) along the batch dimension, dim = 0 or dim = -ndim, start from the front or (negative)
   from the end *)
Theorem C19_narrow_method_sound :
  forall (gshape : gid -> shape) (gaxes : gid -> axes) (fl : option axes) (sh : shape) (gs : list gid) (z st : Z) (len : nat),
  wf_val gshape (mkT sh (TBatch fl gs)) -> (z = 0 \/ z = - Z.of_nat (ndim sh))%Z ->
  res_sound gshape [mkT sh (TBatch fl gs)] (run_op gshape gaxes (ONarrowM z st len) [mkT sh (TBatch fl gs)]).
Proof. exact narrow_method_batch_sound. Qed.
Print Assumptions C19_narrow_method_sound.

Theorem C19_iter_sound :
  forall (gshape : gid -> shape) (gaxes : gid -> axes) (fl : option axes) (sh : shape) (gs : list gid) (k : nat),
  wf_val gshape (mkT sh (TBatch fl gs)) ->
  res_sound gshape [mkT sh (TBatch fl gs)] (run_op gshape gaxes (OIterPick k) [mkT sh (TBatch fl gs)]).
Proof. exact iter_pick_sound. Qed.
Print Assumptions C19_iter_sound.

(* 4b. explicit constructors *)
Theorem C19_from_images_collate_sound :
  forall (gshape : gid -> shape) (gaxes : gid -> axes) (how : buildkind) (fl : option axes) (sh : shape) (gs : list gid) (sel : list nat),
  wf_val gshape (mkT sh (TBatch fl gs)) ->
  res_sound gshape [mkT sh (TBatch fl gs)] (run_op gshape gaxes (OIterBuild how sel) [mkT sh (TBatch fl gs)]).
Proof. exact iter_build_sound. Qed.
Print Assumptions C19_from_images_collate_sound.

(* FlowFields(batch): same data, the grids of the batch entry by entry, the axes of the operand if it is a FlowFields and the
   default axes of its first grid otherwise; refused only for nchannels <> sdim (or an empty image batch) *)
Theorem C19_flowfields_constructor_sound :
  forall (gshape : gid -> shape) (gaxes : gid -> axes) (sh : shape) (fl : option axes) (gs : list gid),
  wf_val gshape (mkT sh (TBatch fl gs)) ->
  match run_op gshape gaxes OAsFlows [mkT sh (TBatch fl gs)] with
  | OOne o => v_shape o = sh /\ v_src o = ident_src 0 (nent sh) /\ wf_val gshape (val_of o)
              /\ exists ax, v_kind o = TBatch (Some ax) gs
                 /\ (forall a, fl = Some a -> ax = a)
                 /\ (fl = None -> exists g0, hd_error gs = Some g0 /\ ax = gaxes g0)
  | OErr _ => nth 1 sh 0 <> ndim sh - 2 \/ (fl = None /\ gs = [])
  | OTuple _ => False
  end.
Proof. exact as_flows_sound. Qed.
Print Assumptions C19_flowfields_constructor_sound.

Theorem C19_append_sound :
  forall (gshape : gid -> shape) (gaxes : gid -> axes) (fl : option axes) (sh : shape) (gs : list gid)
         (fl' : option axes) (sh' : shape) (gs' : list gid),
  wf_val gshape (mkT sh (TBatch fl gs)) -> wf_val gshape (mkT sh' (TBatch fl' gs')) -> (fl = None \/ fl' = fl) ->
  res_sound gshape [mkT sh (TBatch fl gs); mkT sh' (TBatch fl' gs')]
    (run_op gshape gaxes OAppend [mkT sh (TBatch fl gs); mkT sh' (TBatch fl' gs')]).
Proof. exact append_sound. Qed.
Print Assumptions C19_append_sound.

(* 5. copies: copy.copy, deepcopy and pickle preserve type, grids and axes for all four classes *)
Theorem C19_copy_preserves :
  forall (gshape : gid -> shape) (gaxes : gid -> axes) (c : copykind) (v : tval),
  run_op gshape gaxes (OCopy c) [v] = OOne (mkO (t_shape v) (t_kind v) (ident_src 0 (nent (t_shape v)))).
Proof. exact copy_preserves. Qed.
Print Assumptions C19_copy_preserves.

(* 6. programs: any number of steps; every typed value carries per entry the grid of an input item it holds *)
Theorem C19_programs_sound_partial :
  forall (gshape : gid -> shape) (gaxes : gid -> axes) (grid_of : nat -> gid)
         (steps : list step) (cur : pval) (inputs : list pval) (final : pval),
  wf_val gshape (fst cur) -> ginv grid_of cur -> no_single cur ->
  Forall (fun p => wf_val gshape (fst p) /\ ginv grid_of p /\ no_single p) inputs ->
  steps_ok gshape gaxes (fst cur) (map fst inputs) steps ->
  prun gshape gaxes cur inputs steps = Some final ->
  wf_val gshape (fst final) /\ ginv grid_of final.
Proof. exact (fun gshape gaxes grid_of steps => prog_sound gshape gaxes grid_of steps). Qed.
Print Assumptions C19_programs_sound_partial.

(* 6b. the same for ANY run whose steps are sound (every step theorem above can be plugged in) *)
Theorem C19_programs_sound_general :
  forall (gshape : gid -> shape) (gaxes : gid -> axes) (grid_of : nat -> gid)
         (steps : list step) (cur : pval) (inputs : list pval) (final : pval),
  ginv grid_of cur -> no_single cur -> Forall (fun p => ginv grid_of p /\ no_single p) inputs ->
  steps_sound gshape gaxes (fst cur) (map fst inputs) steps ->
  prun gshape gaxes cur inputs steps = Some final -> ginv grid_of final.
Proof. exact (fun gshape gaxes grid_of steps => prog_sound_general gshape gaxes grid_of steps). Qed.
Print Assumptions C19_programs_sound_general.

(* 7. refutations of the full statement on the faithful model (each a concrete batch with distinct grids) *)
Theorem C19_batch_reorder_refuted :
  res_ok [0; 1; 2] (run1 (OFlip [0%Z]) b3) = false /\ res_ok [0; 1; 2] (run1 (ORoll 1%Z 0%Z) b3) = false
  /\ res_ok [0; 1; 2] (run1 (OIndexSelect 0%Z [2; 0; 1]) b3) = false.
Proof. exact (conj flip0_refuted (conj roll0_refuted index_select0_refuted)). Qed.
Print Assumptions C19_batch_reorder_refuted.

Theorem C19_batch_mix_refuted :
  res_ok [0; 1] (run1 (OPermute [1; 0; 2; 3]) b2sq) = false /\ res_ok [0; 1; 2] (run1 (OScan 0%Z) b3) = false.
Proof. exact (conj transpose01_refuted cumsum0_refuted). Qed.
Print Assumptions C19_batch_mix_refuted.

(* 8. the former counterexamples (split sizes, tensor_split sections, splits along other dims, batch[...], masks, narrow with
      a negative dim, FlowFields batch size / split / copy / from_images) behave correctly on the repaired tree *)
Theorem C19_former_counterexamples_fixed :
  (res_ok [0; 1; 2] (run1 (OSplitL [1; 2] DNone) b3) = true /\ typed_pieces (run1 (OSplitSizes [1; 2] DNone) b3) = [[0]; [1; 2]])
  /\ typed_pieces (run1 (OTSplitN 3 DNone) b6) = [[0; 1]; [2; 3]; [4; 5]]
  /\ (typed_pieces (run1 (OSplit 1 (DKw 1%Z)) b3) = [[0; 1; 2]; [0; 1; 2]]
      /\ typed_pieces (run1 (OTSplitI [1] (DPos 1%Z)) b3) = [[0; 1; 2]; [0; 1; 2]]
      /\ typed_pieces (run1 (OSplitSizes [1; 2] (DPos (-4)%Z)) b3) = [[0]; [1; 2]])
  /\ (res_ok [0; 1; 2] (run1 (OGetItem (GOne IEll)) b3) = true
      /\ res_ok [0; 1; 2] (run1 (OGetItem (GOne (IBools [true; false; true]))) b3) = true
      /\ res_ok [0; 1; 2] (run1 (ONarrowM (-4)%Z 1%Z 2) b3) = true).
Proof. exact (conj split_sizes_fixed (conj tensor_split_int_fixed (conj split_other_dim_fixed getitem_narrow_fixed))). Qed.
Print Assumptions C19_former_counterexamples_fixed.

Theorem C19_flowfields_fixed :
  (res_ok [0; 1; 2] (run1 (ONarrow 0%Z 1 2) f3) = true /\ res_ok [0; 1; 2] (run1 (ORepeat [2; 1; 1; 1]) f3) = true)
  /\ typed_pieces (run1 (OSplit 1 DNone) f3) = [[0]; [1]; [2]]
  /\ run1 (OCopy CCopy) f3 = OOne (mkO [3; 2; 3; 4] (TBatch (Some WORLD) [0; 1; 2]) [[(0, 0)]; [(0, 1)]; [(0, 2)]])
  /\ match run1 (OIterBuild BFromImages [0; 1; 2]) f3 with OOne o => kind_axes (v_kind o) | _ => None end = Some WORLD.
Proof. exact flowfields_fixed. Qed.
Print Assumptions C19_flowfields_fixed.

(* the executable check used by the refutations rejects nothing the specification accepts *)
Theorem C19_refutation_check_complete :
  forall (gs_in : list gid) (sh : shape) (fl : option axes) (o : oval),
  (forall i, i < length (v_src o) -> exists e, nth i (v_src o) [] = [(0, e)]) ->
  length (v_src o) = nent (v_shape o) ->
  out_sound gsh2 [mkT sh (TBatch fl gs_in)] o -> batch_out_ok gs_in o = true.
Proof. exact batch_out_ok_complete. Qed.
Print Assumptions C19_refutation_check_complete.

(* non-vacuity: a well formed batch of three images with distinct grids, an aligned operation typed as a batch,
   a program of three admissible steps that runs to a typed value *)
Example C19_nonvacuous :
  generic_op (OFlip [(-1)%Z]) = true /\ batch_aligned (OFlip [(-1)%Z]) [3; 2; 3; 4] = true
  /\ run1 (OFlip [(-1)%Z]) b3 = OOne (mkO [3; 2; 3; 4] (TBatch None [0; 1; 2]) [[(0, 0)]; [(0, 1)]; [(0, 2)]])
  /\ match prun gsh2 gax (b3, [[0]; [1]; [2]]) [(b3, [[3]; [4]; [5]])]
             [mkStep (OUnary true) [RCur] 0; mkStep (OCat DNone) [RCur; RIn 0] 0;
              mkStep (OGetItem (GOne (IList [5; 0]%Z))) [RCur] 0] with
     | Some (v, pr) => t_kind v = TBatch None [2; 0] /\ pr = [[5]; [0]]
     | None => False
     end
  (* two flow field batches added (typed, axes kept), a split into sections, a stack (plain) *)
  /\ match run_op gsh2 gax OBinary [f3; f3] with OOne o => v_kind o | _ => TPlain end = TBatch (Some WORLD) [0; 1; 2]
  /\ typed_pieces (run1 (OTSplitI [1] DNone) b3) = [[0]; [1; 2]]
  /\ match run_op gsh2 gax (OStack DNone) [b3; b3] with OOne o => v_kind o | _ => TBatch None [] end = TPlain
  /\ match run_op gsh2 gax (OUnary false) [mkT [2; 3; 4] (TSingle (Some GRID) 5)] with OOne o => v_kind o | _ => TPlain end = TSingle (Some GRID) 5.
Proof. vm_compute. repeat split. Qed.
