From Coq Require Import ZArith List Field Ring Lia.
From DV Require Import Base.Field Base.FieldFacts Base.LinAlg Base.Tactics Model.Enums Model.Homog Model.Grid Model.ItkSpec
  Gen.GridT Gen.GridCtor Proofs.C01Grid Proofs.C01Laws.
Import ListNotations.
Local Open Scope fld_scope.

Section Itk.
Variable K : fld.
Hypothesis Kf : is_field K.
Hypothesis Kc : char0 K.
Add Field KF5 : Kf.
Let K1 := K1nz K Kf.
Let K2 := K2nz K Kf Kc.
Hint Resolve K1 K2 : core.
Ltac side := repeat split; auto.
Ltac len2 X H := destruct X as [|?x0 [|?x1 [|? ?]]]; try discriminate H; clear H.
Ltac len3 X H := destruct X as [|?x0 [|?x1 [|?x2 [|? ?]]]]; try discriminate H; clear H.
Ltac comps H :=
  let Hs := fresh "Hs" in let Hn := fresh "Hn" in let Hn1 := fresh "Hn1" in let Ho := fresh "Ho" in
  destruct H as (Hs & Hn & Hn1 & Ho);
  pose proof (Hs 0%nat ltac:(lia)); pose proof (Hs 1%nat ltac:(lia)); try pose proof (Hs 2%nat ltac:(lia));
  pose proof (Hn 0%nat ltac:(lia)); pose proof (Hn 1%nat ltac:(lia)); try pose proof (Hn 2%nat ltac:(lia));
  pose proof (Hn1 0%nat ltac:(lia)); pose proof (Hn1 1%nat ltac:(lia)); try pose proof (Hn1 2%nat ltac:(lia)).

Variable D : nat.
Hypothesis HD : D = 2%nat \/ D = 3%nat.
Variables (n s o : nat -> K) (d : nat -> nat -> K).
Notation N := (vtab D n). Notation S := (vtab D s). Notation O := (vtab D o). Notation Dm := (tab D D d).
(* the grid built through the origin= route *)
Notation Cn := (gen_center_of_origin D N S Dm O).

(* a grid built from (size, origin, spacing, direction) places continuous index i where ITK does --
   for every index, inside or outside the image; no orthonormality needed *)
Lemma index_to_world_is_itk (X : list K) : length X = D ->
  gen_pts D GRID WORLD N S Cn Dm X = itk_phys O S Dm X.
Proof.
  intro HX. destruct HD as [-> | ->]; [len2 X HX | len3 X HX]; fcbv; list_eq; field; side.
Qed.

(* origin is the position of sample 0 and is reproduced by origin() *)
Lemma origin_roundtrip :
  gen_origin D N S Cn Dm = O /\ gen_origin_of_center D N S Dm Cn = O
  /\ gen_pts D GRID WORLD N S Cn Dm (vzero D) = O.
Proof. destruct HD as [-> | ->]; repeat split; fcbv; list_eq; field; side. Qed.

(* the center stored by the grid is consistent with that origin: building from the center gives the same grid *)
Lemma center_route_same (c : nat -> K) :
  gen_center_of_origin D N S Dm (gen_origin_of_center D N S Dm (vtab D c)) = vtab D c.
Proof. destruct HD as [-> | ->]; fcbv; list_eq; field; side. Qed.

(* direction columns are the unit steps along each axis *)
Lemma direction_columns_are_steps (k : nat) : (k < D)%nat ->
  vsub (gen_pts D GRID WORLD N S Cn Dm (unit_vec D k)) (gen_pts D GRID WORLD N S Cn Dm (vzero D))
  = vscale (s k) (col k Dm).
Proof.
  intro Hk. destruct HD as [-> | ->].
  - destruct k as [|[|k]]; try lia; fcbv; list_eq; field; side.
  - destruct k as [|[|[|k]]]; try lia; fcbv; list_eq; field; side.
Qed.

(* physical points map back to the same continuous index *)
Lemma world_to_index_inverts_itk (X : list K) : wf D n s d -> length X = D ->
  gen_pts D WORLD GRID N S Cn Dm (itk_phys O S Dm X) = X.
Proof.
  intros H HX. rewrite <- index_to_world_is_itk by exact HX.
  assert (HC : exists c, Cn = vtab D c).
  { exists (fun i => nth i Cn 0). destruct HD as [-> | ->]; fcbv; reflexivity. }
  destruct HC as (c & Ec). rewrite Ec.
  apply (pts_inverse K Kf Kc D n s c d HD H GRID WORLD X HX).
Qed.
End Itk.

Section Header.
Variable K : fld.
Lemma flatten_unflatten (D rows : nat) (v : list K) :
  length v = (rows * D)%nat -> flatten (unflatten D rows v) = v.
Proof.
  revert v; induction rows as [|r IH]; intros v Hv; cbn in *.
  - destruct v; [reflexivity | discriminate].
  - unfold flatten in *. cbn [concat]. rewrite IH.
    + apply firstn_skipn.
    + rewrite skipn_length. lia.
Qed.

Lemma unflatten_flatten3 (a b c d e f g h i : K) :
  unflatten 3 3 (flatten [[a; b; c]; [d; e; f]; [g; h; i]]) = [[a; b; c]; [d; e; f]; [g; h; i]].
Proof. reflexivity. Qed.
Lemma unflatten_flatten2 (a b c d : K) : unflatten 2 2 (flatten [[a; b]; [c; d]]) = [[a; b]; [c; d]].
Proof. reflexivity. Qed.
End Header.

(* ITK's index map inverts ITK's physical-point map (orthonormal direction, non-zero spacing) *)
Section ItkInverse.
Variable K : fld.
Hypothesis Kf : is_field K.
Hypothesis Kc : char0 K.
Add Field KFI2 : Kf.

Lemma itk_index_inverts_phys (D : nat) (s o : nat -> K) (d : nat -> nat -> K) (X : list K) :
  D = 2%nat \/ D = 3%nat -> (forall i, (i < D)%nat -> s i <> 0) -> orthonormal D (tab D D d) -> length X = D ->
  itk_index D (vtab D o) (vtab D s) (tab D D d) (itk_phys (vtab D o) (vtab D s) (tab D D d) X) = X.
Proof.
  intros HD Hs [Ho _] HX. unfold itk_index, itk_phys.
  assert (K1 : (1 : K) <> 0) by (destruct Kf as [_ H1 _ _]; exact H1).
  destruct HD as [-> | ->].
  - destruct X as [|x0 [|x1 [|? ?]]]; try discriminate HX.
    pose proof (Hs 0%nat ltac:(lia)); pose proof (Hs 1%nat ltac:(lia)).
    fcbv_in Ho. injection Ho as R00 R01 R10 R11.
    apply (rule2 K Kf) in R00, R01, R11.
    fcbv. list_eq; field [R00 R01 R11]; repeat split; auto.
  - destruct X as [|x0 [|x1 [|x2 [|? ?]]]]; try discriminate HX.
    pose proof (Hs 0%nat ltac:(lia)) as H0; pose proof (Hs 1%nat ltac:(lia)) as H1; pose proof (Hs 2%nat ltac:(lia)) as H2.
    assert (E : vsub (vadd (vtab 3 o) (mv (tab 3 3 d) (vmul (vtab 3 s) [x0; x1; x2]))) (vtab 3 o)
                = mv (tab 3 3 d) (vmul (vtab 3 s) (vtab 3 (fun i => nth i [x0; x1; x2] 0))))
      by (fcbv; list_eq; ring).
    rewrite E. exact (RtR_cancel3 K Kf d s (fun i => nth i [x0; x1; x2] 0) Ho H0 H1 H2).
Qed.
End ItkInverse.
