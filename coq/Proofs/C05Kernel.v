(* C05: kernel-level facts -- padding is irrelevant inside the field of view, the constant-padding
   emulation of core.image.grid_sample is interpolation of the constant-extended image, sampling at
   integral positions returns the stored sample. *)
From Coq Require Import ZArith List Field Ring Lia Bool.
From DV Require Import Base.Field Base.FieldFacts Base.LinAlg Base.Tactics Model.Enums Model.Homog Model.Grid Model.ItkSpec
  Model.Sampler Gen.GridT Gen.SampleT Model.Resample Proofs.SamplerFacts.
Import ListNotations.
Local Open Scope fld_scope.

Section C05Kernel.
Variable K : fld.
Hypothesis Kf : is_field K.
Add Field KF_C05Kernel : Kf.
Variable floorK : K -> Z.
Variable nearK : K -> Z.

(* ---------- accessors ---------- *)
Lemma inb_true i n : inb i n = true <-> (0 <= i < n)%Z.
Proof. unfold inb. rewrite andb_true_iff, Z.leb_le, Z.ltb_lt. tauto. Qed.

Lemma nth_in_Forall {A} (P : A -> Prop) (l : list A) (d : A) (i : Z) :
  Forall P l -> (0 <= i < zlen l)%Z -> P (nth (Z.to_nat i) l d).
Proof.
  intros HF Hi. rewrite Forall_forall in HF. apply HF, nth_In. unfold zlen in Hi. lia.
Qed.

Lemma acc2_in pad nx (img : list (list K)) iy ix : rect2 nx img -> (0 <= iy < zlen img)%Z -> (0 <= ix < nx)%Z ->
  acc2 pad img iy ix = val2 img iy ix.
Proof.
  intros HR Hy Hx. unfold acc2, val2. rewrite (getp_in pad [] img iy Hy).
  pose proof (nth_in_Forall _ img [] iy HR Hy) as HL. cbn beta in HL.
  apply getp_in. lia.
Qed.

Lemma getc2_in (c : K) nx (img : list (list K)) iy ix : rect2 nx img -> (0 <= iy < zlen img)%Z -> (0 <= ix < nx)%Z ->
  getc2 c img iy ix = val2 img iy ix.
Proof.
  intros HR Hy Hx. unfold getc2, getc1, val2.
  pose proof (nth_in_Forall _ img [] iy HR Hy) as HL. cbn beta in HL.
  rewrite (proj2 (inb_true iy (zlen img)) Hy). rewrite (proj2 (inb_true ix _)) by lia. reflexivity.
Qed.

Lemma rect3_slice nx ny (img : list (list (list K))) iz : rect3 nx ny img -> (0 <= iz < zlen img)%Z ->
  zlen (nth (Z.to_nat iz) img []) = ny /\ rect2 nx (nth (Z.to_nat iz) img []).
Proof. intros HR Hz. exact (nth_in_Forall _ img [] iz HR Hz). Qed.

Lemma acc3_in pad nx ny (img : list (list (list K))) iz iy ix : rect3 nx ny img -> (0 <= iz < zlen img)%Z -> (0 <= iy < ny)%Z -> (0 <= ix < nx)%Z ->
  acc3 pad img iz iy ix = val3 img iz iy ix.
Proof.
  intros HR Hz Hy Hx. unfold acc3, val3. rewrite (getp_in pad [] img iz Hz).
  destruct (rect3_slice nx ny img iz HR Hz) as [HL HR2].
  apply (acc2_in pad nx); auto. lia.
Qed.

Lemma getc3_in (c : K) nx ny (img : list (list (list K))) iz iy ix : rect3 nx ny img -> (0 <= iz < zlen img)%Z -> (0 <= iy < ny)%Z -> (0 <= ix < nx)%Z ->
  getc3 c img iz iy ix = val3 img iz iy ix.
Proof.
  intros HR Hz Hy Hx. unfold getc3, val3. rewrite (proj2 (inb_true iz (zlen img)) Hz).
  destruct (rect3_slice nx ny img iz HR Hz) as [HL HR2].
  apply (getc2_in c nx); auto. lia.
Qed.

(* ---------- interpolation formulas over an accessor ---------- *)
Lemma interp2_bil pad (img : list (list K)) ix iy tx ty : interp2 pad img ix iy tx ty = bil (acc2 pad img) ix iy tx ty.
Proof. reflexivity. Qed.
Lemma interp3_tril pad (img : list (list (list K))) ix iy iz tx ty tz : interp3 pad img ix iy iz tx ty tz = tril (acc3 pad img) ix iy iz tx ty tz.
Proof. reflexivity. Qed.
Lemma interpc2_bil (c : K) (img : list (list K)) ix iy tx ty : interpc2 c img ix iy tx ty = bil (getc2 c img) ix iy tx ty.
Proof. reflexivity. Qed.
Lemma interpc3_tril (c : K) (img : list (list (list K))) ix iy iz tx ty tz : interpc3 c img ix iy iz tx ty tz = tril (getc3 c img) ix iy iz tx ty tz.
Proof. reflexivity. Qed.

Lemma lerp0 (a b : K) : lerp a b 0 = a.
Proof. unfold lerp. ring. Qed.

(* 1-D: two accessors that agree inside [0,n) give the same interpolant inside the field of view *)
Lemma lerp_fov (g g' : Z -> K) (n i : Z) (t : K) :
  (forall j, (0 <= j < n)%Z -> g j = g' j) ->
  (0 <= i <= n - 1)%Z -> ((i <= n - 2)%Z \/ t = 0) ->
  lerp (g i) (g (i + 1)%Z) t = lerp (g' i) (g' (i + 1)%Z) t.
Proof.
  intros H Hi [Hl | ->].
  - rewrite (H i), (H (i + 1)%Z) by lia. reflexivity.
  - rewrite !lerp0. apply H. lia.
Qed.

Lemma bil_fov (g g' : Z -> Z -> K) (nx ny ix iy : Z) (tx ty : K) :
  (forall jy jx, (0 <= jy < ny)%Z -> (0 <= jx < nx)%Z -> g jy jx = g' jy jx) ->
  (0 <= ix <= nx - 1)%Z -> ((ix <= nx - 2)%Z \/ tx = 0) ->
  (0 <= iy <= ny - 1)%Z -> ((iy <= ny - 2)%Z \/ ty = 0) ->
  bil g ix iy tx ty = bil g' ix iy tx ty.
Proof.
  intros H Hx Hx' Hy Hy'. unfold bil.
  apply (lerp_fov (fun j => lerp (g j ix) (g j (ix + 1)%Z) tx) (fun j => lerp (g' j ix) (g' j (ix + 1)%Z) tx) ny iy ty); auto.
  intros j Hj. apply (lerp_fov (g j) (g' j) nx ix tx); auto.
Qed.

Lemma tril_fov (g g' : Z -> Z -> Z -> K) (nx ny nz ix iy iz : Z) (tx ty tz : K) :
  (forall jz jy jx, (0 <= jz < nz)%Z -> (0 <= jy < ny)%Z -> (0 <= jx < nx)%Z -> g jz jy jx = g' jz jy jx) ->
  (0 <= ix <= nx - 1)%Z -> ((ix <= nx - 2)%Z \/ tx = 0) ->
  (0 <= iy <= ny - 1)%Z -> ((iy <= ny - 2)%Z \/ ty = 0) ->
  (0 <= iz <= nz - 1)%Z -> ((iz <= nz - 2)%Z \/ tz = 0) ->
  tril g ix iy iz tx ty tz = tril g' ix iy iz tx ty tz.
Proof.
  intros H Hx Hx' Hy Hy' Hz Hz'. unfold tril.
  apply (lerp_fov (fun j => bil (g j) ix iy tx ty) (fun j => bil (g' j) ix iy tx ty) nz iz tz); auto.
  intros j Hj. apply (bil_fov (g j) (g' j) nx ny); auto.
Qed.

(* ---------- constant padding emulation: subtract c, sample with zeros padding, add c ---------- *)
Lemma pre_post (c v : K) : gen_gs_post c (gen_gs_pre c v) = v.
Proof. unfold gen_gs_post, gen_gs_pre. ring. Qed.
Lemma post_zero (c : K) : gen_gs_post c 0 = c.
Proof. unfold gen_gs_post. ring. Qed.
(* the post map commutes with interpolation weights that sum to one *)
Lemma post_lerp (c a b t : K) : gen_gs_post c (lerp a b t) = lerp (gen_gs_post c a) (gen_gs_post c b) t.
Proof. unfold gen_gs_post, lerp. ring. Qed.

Lemma zlen_map {A B} (f : A -> B) l : zlen (map f l) = zlen l.
Proof. unfold zlen. now rewrite map_length. Qed.

Lemma getp_zeros_pre1 (c : K) (l : list K) (i : Z) :
  gen_gs_post c (getp PZeros 0 (map (gen_gs_pre c) l) i) = getc1 c l i.
Proof.
  unfold getp, getc1. rewrite zlen_map. destruct (inb i (zlen l)) eqn:E.
  - apply inb_true in E. rewrite (nth_indep _ 0 (gen_gs_pre c 0)) by (rewrite map_length; unfold zlen in E; lia).
    rewrite map_nth. apply pre_post.
  - apply post_zero.
Qed.

Lemma getp_zeros_map {A B} (f : A -> B) (l : list A) (i : Z) (d : A) :
  getp PZeros (f d) (map f l) i = f (getp PZeros d l i).
Proof. unfold getp. rewrite zlen_map. destruct (inb i (zlen l)); [apply map_nth | reflexivity]. Qed.

Lemma acc2_zeros_pre (c : K) (img : list (list K)) (iy ix : Z) :
  gen_gs_post c (acc2 PZeros (map (map (gen_gs_pre c)) img) iy ix) = getc2 c img iy ix.
Proof.
  unfold acc2, getc2.
  assert (E : getp PZeros [] (map (map (gen_gs_pre c)) img) iy = map (gen_gs_pre c) (getp PZeros [] img iy))
    by exact (getp_zeros_map (map (gen_gs_pre c)) img iy []).
  rewrite E, getp_zeros_pre1.
  unfold getp. destruct (inb iy (zlen img)); [reflexivity|].
  unfold getc1, inb, zlen. cbn [length]. destruct ix; reflexivity.
Qed.

Lemma acc3_zeros_pre (c : K) (img : list (list (list K))) (iz iy ix : Z) :
  gen_gs_post c (acc3 PZeros (map (map (map (gen_gs_pre c))) img) iz iy ix) = getc3 c img iz iy ix.
Proof.
  unfold acc3, getc3.
  assert (E : getp PZeros [] (map (map (map (gen_gs_pre c))) img) iz = map (map (gen_gs_pre c)) (getp PZeros [] img iz))
    by exact (getp_zeros_map (map (map (gen_gs_pre c))) img iz []).
  rewrite E.
  pose proof (acc2_zeros_pre c (getp PZeros [] img iz) iy ix) as H. unfold acc2 in H. rewrite H.
  unfold getp. destruct (inb iz (zlen img)); [reflexivity|].
  unfold getc2, inb, zlen. cbn [length]. destruct iy; reflexivity.
Qed.

Lemma post_bil (c : K) (g : Z -> Z -> K) ix iy tx ty :
  gen_gs_post c (bil g ix iy tx ty) = bil (fun a b => gen_gs_post c (g a b)) ix iy tx ty.
Proof. unfold bil. rewrite !post_lerp. reflexivity. Qed.
Lemma post_tril (c : K) (g : Z -> Z -> Z -> K) ix iy iz tx ty tz :
  gen_gs_post c (tril g ix iy iz tx ty tz) = tril (fun a b d => gen_gs_post c (g a b d)) ix iy iz tx ty tz.
Proof. unfold tril. rewrite post_lerp, !post_bil. reflexivity. Qed.

Lemma bil_ext (g g' : Z -> Z -> K) ix iy tx ty : (forall a b, g a b = g' a b) -> bil g ix iy tx ty = bil g' ix iy tx ty.
Proof. intro H. unfold bil. now rewrite !H. Qed.
Lemma tril_ext (g g' : Z -> Z -> Z -> K) ix iy iz tx ty tz :
  (forall a b d, g a b d = g' a b d) -> tril g ix iy iz tx ty tz = tril g' ix iy iz tx ty tz.
Proof. intro H. unfold tril. f_equal; apply bil_ext; intros; apply H. Qed.

(* const_padding_ok: for every image, every cell and every fraction (inside or outside the image) *)
Lemma const_padding_ok1 (c : K) (l : list K) (i : Z) (t : K) :
  gen_gs_post c (interp1 PZeros (map (gen_gs_pre c) l) i t) = interpc1 c l i t.
Proof. unfold interp1, interpc1. rewrite post_lerp, !getp_zeros_pre1. reflexivity. Qed.

Lemma const_padding_ok2 (c : K) (img : list (list K)) (ix iy : Z) (tx ty : K) :
  gen_gs_post c (interp2 PZeros (map (map (gen_gs_pre c)) img) ix iy tx ty) = interpc2 c img ix iy tx ty.
Proof. rewrite interp2_bil, interpc2_bil, post_bil. apply bil_ext. intros; apply acc2_zeros_pre. Qed.

Lemma const_padding_ok3 (c : K) (img : list (list (list K))) (ix iy iz : Z) (tx ty tz : K) :
  gen_gs_post c (interp3 PZeros (map (map (map (gen_gs_pre c))) img) ix iy iz tx ty tz) = interpc3 c img ix iy iz tx ty tz.
Proof. rewrite interp3_tril, interpc3_tril, post_tril. apply tril_ext. intros; apply acc3_zeros_pre. Qed.

(* the same for nearest-neighbour sampling *)
Lemma const_padding_nearest2 (c : K) (img : list (list K)) (x y : K) :
  gen_gs_post c (nearest2 nearK PZeros (map (map (gen_gs_pre c)) img) x y) = getc2 c img (nearK y) (nearK x).
Proof. apply acc2_zeros_pre. Qed.
Lemma const_padding_nearest3 (c : K) (img : list (list (list K))) (x y z : K) :
  gen_gs_post c (nearest3 nearK PZeros (map (map (map (gen_gs_pre c))) img) x y z) = getc3 c img (nearK z) (nearK y) (nearK x).
Proof. apply acc3_zeros_pre. Qed.

(* ---------- the deepali kernel inside the field of view does not depend on the padding argument ---------- *)
Lemma in_fov_cell n (x : K) : in_fov floorK n x ->
  (0 <= floorK x <= n - 1)%Z /\ ((floorK x <= n - 2)%Z \/ x - of_Z (floorK x) = 0).
Proof. unfold in_fov, cell. tauto. Qed.

Lemma dp_linear2_fov (p : padarg) (img : list (list K)) (x y : K) :
  rect2 (zlen (hd [] img)) img ->
  in_fov floorK (zlen (hd [] img)) x -> in_fov floorK (zlen img) y ->
  dp_kernel2 floorK nearK Linear p img [x; y] = sample2 floorK PBorder img x y.
Proof.
  intros HR Hx Hy. apply in_fov_cell in Hx, Hy. destruct Hx as [Hx Hx'], Hy as [Hy Hy'].
  destruct p as [pad | c]; cbn [dp_kernel2 kern2 vsample2]; unfold sample2, cell.
  - rewrite !interp2_bil. apply (bil_fov _ _ (zlen (hd [] img)) (zlen img)); auto.
    intros jy jx Hjy Hjx. rewrite !(acc2_in _ (zlen (hd [] img))) by auto. reflexivity.
  - rewrite const_padding_ok2, interpc2_bil, interp2_bil.
    apply (bil_fov _ _ (zlen (hd [] img)) (zlen img)); auto.
    intros jy jx Hjy Hjx. rewrite (acc2_in _ (zlen (hd [] img))), (getc2_in _ (zlen (hd [] img))) by auto. reflexivity.
Qed.

Lemma dp_linear3_fov (p : padarg) (img : list (list (list K))) (x y z : K) :
  rect3 (zlen (hd [] (hd [] img))) (zlen (hd [] img)) img ->
  in_fov floorK (zlen (hd [] (hd [] img))) x -> in_fov floorK (zlen (hd [] img)) y -> in_fov floorK (zlen img) z ->
  dp_kernel3 floorK nearK Linear p img [x; y; z] = sample3 floorK PBorder img x y z.
Proof.
  intros HR Hx Hy Hz. apply in_fov_cell in Hx, Hy, Hz. destruct Hx as [Hx Hx'], Hy as [Hy Hy'], Hz as [Hz Hz'].
  destruct p as [pad | c]; cbn [dp_kernel3 kern3 vsample3]; unfold sample3, cell.
  - rewrite !interp3_tril. apply (tril_fov _ _ (zlen (hd [] (hd [] img))) (zlen (hd [] img)) (zlen img)); auto.
    intros jz jy jx Hjz Hjy Hjx. rewrite !(acc3_in _ (zlen (hd [] (hd [] img))) (zlen (hd [] img))) by auto. reflexivity.
  - rewrite const_padding_ok3, interpc3_tril, interp3_tril.
    apply (tril_fov _ _ (zlen (hd [] (hd [] img))) (zlen (hd [] img)) (zlen img)); auto.
    intros jz jy jx Hjz Hjy Hjx.
    rewrite (acc3_in _ (zlen (hd [] (hd [] img))) (zlen (hd [] img))), (getc3_in _ (zlen (hd [] (hd [] img))) (zlen (hd [] img))) by auto.
    reflexivity.
Qed.

(* nearest neighbour: inside the buffer and away from ties both conventions read the same stored sample *)
Lemma dp_nearest2_ok (p : padarg) (img : list (list K)) (x y : K) :
  rect2 (zlen (hd [] img)) img ->
  nearK x = itk_round floorK x -> nearK y = itk_round floorK y ->
  inside_buffer floorK (zlen (hd [] img)) x = true -> inside_buffer floorK (zlen img) y = true ->
  dp_kernel2 floorK nearK Nearest p img [x; y] = acc2 PBorder img (itk_round floorK y) (itk_round floorK x).
Proof.
  intros HR Ex Ey Ix Iy. unfold inside_buffer in *. apply inb_true in Ix, Iy.
  fold (itk_round floorK x) in Ix. fold (itk_round floorK y) in Iy.
  destruct p as [pad | c]; cbn [dp_kernel2 kern2 vnearest2].
  - unfold nearest2. rewrite Ex, Ey. fold (acc2 pad img (itk_round floorK y) (itk_round floorK x)).
    rewrite !(acc2_in _ (zlen (hd [] img))) by auto. reflexivity.
  - rewrite const_padding_nearest2, Ex, Ey.
    rewrite (acc2_in _ (zlen (hd [] img))), (getc2_in _ (zlen (hd [] img))) by auto. reflexivity.
Qed.

Lemma dp_nearest3_ok (p : padarg) (img : list (list (list K))) (x y z : K) :
  rect3 (zlen (hd [] (hd [] img))) (zlen (hd [] img)) img ->
  nearK x = itk_round floorK x -> nearK y = itk_round floorK y -> nearK z = itk_round floorK z ->
  inside_buffer floorK (zlen (hd [] (hd [] img))) x = true -> inside_buffer floorK (zlen (hd [] img)) y = true ->
  inside_buffer floorK (zlen img) z = true ->
  dp_kernel3 floorK nearK Nearest p img [x; y; z]
  = acc3 PBorder img (itk_round floorK z) (itk_round floorK y) (itk_round floorK x).
Proof.
  intros HR Ex Ey Ez Ix Iy Iz. unfold inside_buffer in *. apply inb_true in Ix, Iy, Iz.
  fold (itk_round floorK x) in Ix. fold (itk_round floorK y) in Iy. fold (itk_round floorK z) in Iz.
  destruct p as [pad | c]; cbn [dp_kernel3 kern3 vnearest3].
  - unfold nearest3. rewrite Ex, Ey, Ez.
    fold (acc3 pad img (itk_round floorK z) (itk_round floorK y) (itk_round floorK x)).
    rewrite !(acc3_in _ (zlen (hd [] (hd [] img))) (zlen (hd [] img))) by auto. reflexivity.
  - rewrite const_padding_nearest3, Ex, Ey, Ez.
    rewrite (acc3_in _ (zlen (hd [] (hd [] img))) (zlen (hd [] img))), (getc3_in _ (zlen (hd [] (hd [] img))) (zlen (hd [] img))) by auto.
    reflexivity.
Qed.

(* ---------- sampling at integral positions returns the stored sample, whatever mode and padding ---------- *)
Hypothesis floor_int : forall i : Z, floorK (of_Z i) = i.
Hypothesis near_int : forall i : Z, nearK (of_Z i) = i.

Lemma bil_at_sample (g : Z -> Z -> K) ix iy : bil g ix iy 0 0 = g iy ix.
Proof. unfold bil. rewrite !lerp0. reflexivity. Qed.
Lemma tril_at_sample (g : Z -> Z -> Z -> K) ix iy iz : tril g ix iy iz 0 0 0 = g iz iy ix.
Proof. unfold tril. rewrite lerp0. apply bil_at_sample. Qed.

Lemma sub_self (a : K) : a - a = 0.
Proof. ring. Qed.

Lemma dp_kernel2_at_sample (m : smode) (p : padarg) (img : list (list K)) (jx jy : Z) :
  rect2 (zlen (hd [] img)) img -> (0 <= jx < zlen (hd [] img))%Z -> (0 <= jy < zlen img)%Z ->
  dp_kernel2 floorK nearK m p img [of_Z jx; of_Z jy] = val2 img jy jx.
Proof.
  intros HR Hx Hy.
  destruct m, p as [pad | c]; cbn [dp_kernel2 kern2 vsample2 vnearest2]; unfold sample2, nearest2, cell;
    rewrite ?floor_int, ?near_int, ?sub_self.
  - rewrite interp2_bil, bil_at_sample. apply (acc2_in _ (zlen (hd [] img))); auto.
  - rewrite const_padding_ok2, interpc2_bil, bil_at_sample. apply (getc2_in _ (zlen (hd [] img))); auto.
  - apply (acc2_in pad (zlen (hd [] img))); auto.
  - pose proof (acc2_zeros_pre c img jy jx) as H. unfold acc2 in H. rewrite H. apply (getc2_in _ (zlen (hd [] img))); auto.
Qed.

Lemma dp_kernel3_at_sample (m : smode) (p : padarg) (img : list (list (list K))) (jx jy jz : Z) :
  rect3 (zlen (hd [] (hd [] img))) (zlen (hd [] img)) img ->
  (0 <= jx < zlen (hd [] (hd [] img)))%Z -> (0 <= jy < zlen (hd [] img))%Z -> (0 <= jz < zlen img)%Z ->
  dp_kernel3 floorK nearK m p img [of_Z jx; of_Z jy; of_Z jz] = val3 img jz jy jx.
Proof.
  intros HR Hx Hy Hz.
  destruct m, p as [pad | c]; cbn [dp_kernel3 kern3 vsample3 vnearest3]; unfold sample3, nearest3, cell;
    rewrite ?floor_int, ?near_int, ?sub_self.
  - rewrite interp3_tril, tril_at_sample. apply (acc3_in _ (zlen (hd [] (hd [] img))) (zlen (hd [] img))); auto.
  - rewrite const_padding_ok3, interpc3_tril, tril_at_sample. apply (getc3_in _ (zlen (hd [] (hd [] img))) (zlen (hd [] img))); auto.
  - apply (acc3_in pad (zlen (hd [] (hd [] img))) (zlen (hd [] img))); auto.
  - pose proof (acc3_zeros_pre c img jz jy jx) as H. unfold acc3 in H. rewrite H.
    apply (getc3_in _ (zlen (hd [] (hd [] img))) (zlen (hd [] img))); auto.
Qed.
End C05Kernel.
