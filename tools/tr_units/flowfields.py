"""Gen/FlowFields.v -- data/flow.py FlowFields.axes / exp / sample / warp_image, traced from the source text.

data/flow.py is loaded with torch bound to symtorch and with `deepali.data.image` replaced by a stub (plain classes
Image / ImageBatch that hold a tensor and a list of grids, build instances, and record `sample` calls): FlowFields is a
Tensor subclass in the real library, so only the *glue* of its methods is executed -- exactly what the hand model of
Model/FlowRepr.v describes.  Grids are symbolic (tr_units.grid.mk_grid), U.expv / U.warp_image are recorders.

Emitted (per source axes A of the batch):
* gen_ff_exp_ac A, gen_ff_exp_cube A      align_corners handed to expv, and the axes X such that the tensor handed to expv
                                          is  self.axes(X).tensor()  (UNCONVERTED input other than for X = A aborts)
* gen_ff_exp_restores A                   the result is  expv's output, labelled X, converted back to A  (bool)
* gen_ff_warp_ac / _coords_ac / _cube A   flag handed to warp_image, flag of the coordinates, axes of the flow handed over
* gen_ff_sample_rescales A                sample(grids'): every item is  grid_i.transform_vectors(resampled_i, A, A, grid'_i)
* gen_ff_append_converts A B              a.append(other): other (axes B, own grids) is converted to a's axes A first
Structural checks (fail closed): axes(B) converts item i with grid i from the batch's axes to B and labels the result B
(all 16 pairs, 2 items with different grids); FlowField wrappers are not traced (they go through batch()[0])."""
import itertools
import random
import sys
import types
from fractions import Fraction

import numpy as np

import symtorch as st
import trlib
from symtorch import E, TraceError
from tr_units.bspline import patched, fr_eval
from tr_units.flowalg import sym, torch_proxy, env_for, same_values
from tr_units.grid import mk_grid

AXN = ["GRID", "CUBE", "CUBE_CORNERS", "WORLD"]


def gen_env(tensors, rng):
    """generic positive values (no zero denominators such as n - 1 = 0)"""
    env = {}
    for t in tensors:
        for e in t.a.reshape(-1):
            for v in e.free_vars():
                env.setdefault(v, Fraction(rng.randint(5, 90), rng.choice([2, 3, 7, 11])))
    return env


def same_generic(a, b, tensors, rng, tries=6):
    """equality of two traced tensors at generic points (retry when a point hits a singular grid)"""
    if a.shape != b.shape:
        return False
    done = 0
    for _ in range(tries * 3):
        env = gen_env(tensors + [a, b], rng)
        try:
            for x, y in zip(a.a.reshape(-1), b.a.reshape(-1)):
                if fr_eval(x, env) != fr_eval(y, env):
                    return False
        except ZeroDivisionError:
            continue
        done += 1
        if done >= 2:
            return True
    raise TraceError("no generic evaluation point found")


def make_stub_image_module():
    mod = types.ModuleType("sym.deepali.data.image")

    class ImageBatch:
        calls = []

        def __init__(self, data, grid=None, **kwargs):
            self._data = data
            self._grid = list(grid) if isinstance(grid, (list, tuple)) else [grid]

        def tensor(self):
            return self._data

        def grids(self):
            return tuple(self._grid)

        def grid(self, n=0):
            return self._grid[n]

        def __len__(self):
            return len(self._grid)

        def align_corners(self):
            return self._grid[0].align_corners()

        @property
        def device(self):
            return st.device("cpu")

        @property
        def shape(self):
            return self._data.shape

        @property
        def ndim(self):
            return self._data.ndim

        def _make_instance(self, data, grid=None, **kwargs):
            obj = object.__new__(type(self))
            obj._data = data
            obj._grid = list(grid) if grid is not None else list(self._grid)
            if "axes" in kwargs:
                obj._axes = kwargs["axes"]
            return obj

        def append(self, other):
            ImageBatch.calls.append({"append": other})
            return ("appended", self, other)

        def sample(self, arg, mode=None, padding=None):
            grids = list(arg) if isinstance(arg, (list, tuple)) else [arg] * len(self._grid)
            N, C = self._data.shape[0], self._data.shape[1]
            shp = (N, C) + tuple(int(n) for n in reversed(self._rshape))
            data = sym(shp, "r")
            ImageBatch.calls.append({"arg": arg, "mode": mode, "padding": padding, "data": data})
            return self._make_instance(data, grids)

    class Image:
        def batch(self):
            raise TraceError("Image.batch is outside the traced glue")

    mod.ImageBatch = ImageBatch
    mod.Image = Image
    return mod


def load(loader):
    stub = make_stub_image_module()
    loader.mods.pop("deepali.data.flow", None)
    loader.mods["deepali.data.image"] = stub
    try:
        M = loader.load("deepali.data.flow")
    finally:
        loader.mods.pop("deepali.data.image", None)
        loader.mods.pop("deepali.data.flow", None)
    return M, stub


def new_batch(M, data, grids, axes):
    ff = object.__new__(M.FlowFields)
    ff._data = data
    ff._grid = list(grids)
    ff._axes = axes
    return ff


def convert(grids, data, a, b):
    """reference: per item grid_i.transform_vectors, tensors (N, D, ...)"""
    out = []
    for i, g in enumerate(grids):
        v = data[i:i + 1]
        v = st.Tensor(np.moveaxis(v.a, 1, -1))
        w = g.transform_vectors(v, axes=a, to_axes=b)
        out.append(np.moveaxis(w.a, -1, 1))
    return st.Tensor(np.concatenate(out, axis=0))


def concrete_grid(Grid, D, sizes, p, align):
    g = mk_grid(Grid, D, p=p, align=align)
    g._size = st.Tensor(np.array([E.const(n) for n in sizes], dtype=object))
    return g


def generate(loader):
    rng = random.Random(12)
    Gm = loader.load("deepali.core.grid")
    flow_mod = loader.load("deepali.core.flow")
    Grid, Axes = Gm.Grid, Gm.Axes
    M, stub = load(loader)
    IB = stub.ImageBatch
    AX = {a: Axes(a.lower()) for a in AXN}
    had_unsq = hasattr(st.Tensor, "unsqueeze_")
    if not had_unsq:
        st.Tensor.unsqueeze_ = lambda self, d: self.unsqueeze(d)
    table = {k: {} for k in ("exp_ac", "exp_cube", "exp_restores", "warp_ac", "warp_coords_ac", "warp_cube", "sample_rescales")}
    st.GENERIC_DISTINCT = True
    try:
        for D in (2, 3):
            sizes = (4, 2) if D == 2 else (2, 4, 2)     # dyadic lattices for both conventions
            shape = tuple(reversed(sizes))
            # ---- axes: all 16 pairs, two items with their own grids ----
            for a, b in itertools.product(AXN, AXN):
                grids = [mk_grid(Grid, D, p="g"), mk_grid(Grid, D, p="h", align=False)]
                data = sym((2, D) + (1,) * (D - 1) + (2,), "v")
                ff = new_batch(M, data, grids, AX[a])
                r = ff.axes(AX[b])
                if r._axes is not AX[b] or [id(g) for g in r._grid] != [id(g) for g in grids]:
                    raise TraceError(f"axes({b}) does not label the result {b} with the same grids")
                want = convert(grids, data, AX[a], AX[b])
                if not trlib.same_tensor(r.tensor().a, want.a):
                    raise TraceError(f"FlowFields.axes {a}->{b}: item i is not grid_i.transform_vectors(v_i, {a}, {b})")
                if ff.axes() is not AX[a]:
                    raise TraceError("axes() getter")
            # ---- append: the other batch is converted to this batch's axes before the data are concatenated ----
            for a, b in itertools.product(AXN, AXN):
                grids = [mk_grid(Grid, D, p="g")]
                ogrids = [mk_grid(Grid, D, p="h", align=False), mk_grid(Grid, D, p="k")]
                me = new_batch(M, sym((1, D) + (1,) * (D - 1) + (2,), "v"), grids, AX[a])
                odata = sym((2, D) + (1,) * (D - 1) + (2,), "w")
                other = new_batch(M, odata, ogrids, AX[b])
                IB.calls.clear()
                r = me.append(other)
                if len(IB.calls) != 1 or "append" not in IB.calls[0] or r[:2] != ("appended", me):
                    raise TraceError("FlowFields.append does not go through ImageBatch.append once")
                got = IB.calls[0]["append"]
                conv = (getattr(got, "_axes", None) is AX[a] and [id(g) for g in got._grid] == [id(g) for g in ogrids]
                        and same_generic(got.tensor(), convert(ogrids, odata, AX[b], AX[a]), [odata], rng))
                if not conv and not (got is other):
                    raise TraceError(f"FlowFields.append ({a} <- {b}): appended batch is neither the argument nor its conversion")
                if table.setdefault("append_converts", {}).setdefault((a, b), conv) != conv:
                    raise TraceError("FlowFields.append: conversion depends on D")
                # a plain ImageBatch is appended unchanged
                plain = object.__new__(IB)
                plain._data, plain._grid = odata, list(ogrids)
                IB.calls.clear()
                me.append(plain)
                if IB.calls[0]["append"] is not plain:
                    raise TraceError("FlowFields.append modifies a plain ImageBatch argument")
            for a in AXN:
                for gflag in (True, False):   # the grid's own flag must not matter
                    grids = [concrete_grid(Grid, D, sizes, "g", gflag), concrete_grid(Grid, D, sizes, "h", gflag)]
                    data = sym((2, D) + shape, "v")
                    envs = None
                    # ---- exp ----
                    calls = []

                    def expv(x, **kw):
                        calls.append((x, kw))
                        return sym(x.shape, "e")
                    ff = new_batch(M, data, grids, AX[a])
                    with patched(flow_mod, "expv", expv):
                        r = ff.exp(scale=Fraction(3, 2), steps=3)
                    if len(calls) != 1:
                        raise TraceError("FlowFields.exp does not call expv exactly once")
                    x, kw = calls[0]
                    if kw.get("scale") != Fraction(3, 2) or kw.get("steps") != 3:
                        raise TraceError("FlowFields.exp does not forward scale / steps")
                    if not isinstance(kw.get("align_corners"), bool):
                        raise TraceError("FlowFields.exp: align_corners not a bool")
                    envs = None
                    exp_cube = None
                    for cand in [c for c in ("CUBE_CORNERS", "CUBE") if (c == "CUBE_CORNERS") == kw["align_corners"]] + AXN:
                        if same_generic(x, convert(grids, data, AX[a], AX[cand]), [data], rng):
                            exp_cube = cand
                            break
                    if exp_cube is None:
                        raise TraceError("tensor handed to expv is not a representation of the input")
                    eres = sym(x.shape, "e")
                    restores = same_generic(r.tensor(), convert(grids, eres, AX[exp_cube], AX[a]), [data], rng) and r._axes is AX[a]
                    for key, val in (("exp_ac", kw["align_corners"]), ("exp_cube", exp_cube), ("exp_restores", restores)):
                        if table[key].setdefault(a, val) != val:
                            raise TraceError(f"FlowFields.exp: {key} depends on D / the grid's align_corners flag")
                    # ---- warp_image ----
                    wcalls = []

                    def warp(dat, grid, **kw):
                        wcalls.append((dat, grid, kw))
                        return sym(dat.shape, "w")
                    img = object.__new__(IB)
                    img._data = sym((2, 1) + shape, "i")
                    img._grid = list(grids)
                    ff = new_batch(M, data, grids, AX[a])
                    with patched(flow_mod, "warp_image", warp), patched(Gm, "torch", torch_proxy()):
                        r = ff.warp_image(img)
                    if len(wcalls) != 1 or not trlib.same_tensor(wcalls[0][0].a, img._data.a):
                        raise TraceError("FlowFields.warp_image does not warp the image data once")
                    dat, cgrid, kw = wcalls[0]
                    if kw.get("mode") is not None or kw.get("padding") is not None or not isinstance(kw.get("align_corners"), bool):
                        raise TraceError("FlowFields.warp_image options")
                    if [id(g) for g in r._grid] != [id(g) for g in grids]:
                        raise TraceError("warp_image result does not carry the flow's grids")
                    cac = None
                    for cand in (True, False):
                        ok = True
                        for i in range(2):
                            ref = grids[i].coords(align_corners=cand) if False else None
                        with patched(Gm, "torch", torch_proxy()):
                            refs = [g.coords(align_corners=cand) for g in grids]
                        ref = st.Tensor(np.stack([t.a for t in refs], axis=0))
                        if ref.shape == cgrid.shape and all(fr_eval(x_, {}) == fr_eval(y_, {}) for x_, y_ in zip(ref.a.reshape(-1), cgrid.a.reshape(-1))):
                            cac = cand
                            break
                    if cac is None:
                        raise TraceError("warp_image coordinates are not the grids' normalised coordinates")
                    fl = kw.get("flow")
                    wcube = None
                    for cand in [c for c in ("CUBE_CORNERS", "CUBE") if (c == "CUBE_CORNERS") == kw["align_corners"]] + AXN:
                        w = convert(grids, data, AX[a], AX[cand])
                        w = st.Tensor(np.moveaxis(w.a, 1, -1))
                        if same_generic(fl, w, [data], rng):
                            wcube = cand
                            break
                    if wcube is None:
                        raise TraceError("flow handed to warp_image is not a representation of the input")
                    for key, val in (("warp_ac", kw["align_corners"]), ("warp_coords_ac", cac), ("warp_cube", wcube)):
                        if table[key].setdefault(a, val) != val:
                            raise TraceError(f"FlowFields.warp_image: {key} depends on D / the grid's flag")
                # ---- sample on other grids ----
                grids = [mk_grid(Grid, D, p="g"), mk_grid(Grid, D, p="h", align=False)]
                to = [mk_grid(Grid, D, p="tg"), mk_grid(Grid, D, p="th", align=False)]
                data = sym((2, D) + (1,) * (D - 1) + (2,), "v")
                ff = new_batch(M, data, grids, AX[a])
                ff._rshape = (2,) + (1,) * (D - 1)
                IB.calls.clear()
                r = ff.sample(to)
                if len(IB.calls) != 1 or IB.calls[0]["arg"] is not to:
                    raise TraceError("FlowFields.sample does not resample through ImageBatch.sample once")
                plain = IB.calls[0]["data"]
                if r._axes is not AX[a] or [id(g) for g in r._grid] != [id(g) for g in to]:
                    raise TraceError("FlowFields.sample: axes label / grids of the result")
                want = []
                for i in range(2):
                    v = st.Tensor(np.moveaxis(plain.a[i:i + 1], 1, -1))
                    w = grids[i].transform_vectors(v, axes=AX[a], to_axes=AX[a], to_grid=to[i])
                    want.append(np.moveaxis(w.a, -1, 1))
                want = st.Tensor(np.concatenate(want, axis=0))
                resc = same_generic(r.tensor(), want, [plain], rng)
                if not resc and not same_generic(r.tensor(), plain, [plain], rng):
                    raise TraceError(f"FlowFields.sample ({a}): result is neither the resampled data nor its re-scaling to the new grids")
                if table["sample_rescales"].setdefault(a, resc) != resc:
                    raise TraceError("FlowFields.sample: re-scaling depends on D")
    finally:
        st.GENERIC_DISTINCT = False
        if not had_unsq:
            del st.Tensor.unsqueeze_

    def b(x):
        return "true" if x else "false"

    def tab(name, rty, f):
        arms = "\n".join(f"  | {a} => {f(table_val)}" for a, table_val in ((a, None) for a in AXN))
        return arms
    out = ["(* FlowFields glue per axes A of the batch (see tools/tr_units/flowfields.py) *)"]
    for key, rty, conv in (("exp_ac", "bool", b), ("exp_cube", "axes", str), ("exp_restores", "bool", b), ("warp_ac", "bool", b),
                           ("warp_coords_ac", "bool", b), ("warp_cube", "axes", str), ("sample_rescales", "bool", b)):
        arms = "\n".join(f"  | {a} => {conv(table[key][a])}" for a in AXN)
        out.append(f"Definition gen_ff_{key} (A : axes) : {rty} :=\n  match A with\n{arms}\n  end.\n")
    ap = table["append_converts"]
    arms = "\n".join(f"  | {a}, {b_} => {b(ap[(a, b_)])}" for a, b_ in itertools.product(AXN, AXN))
    out.append("(* a.append(other) with a.axes() = A, other.axes() = B: is `other` converted to A (with its own grids) before ImageBatch.append? *)\n"
               f"Definition gen_ff_append_converts (A B : axes) : bool :=\n  match A, B with\n{arms}\n  end.\n")
    return "\n".join(out) + "\n"
