(* C18 -- payload layout: moving the channel axis of a C-order array between first and last position is a
   transposition of the flat C x N matrix, and the two moves are mutually inverse for every channel count C
   and every number of voxels N (hence every dimension and size).  Induction over lists, no size bound. *)
From Coq Require Import String ZArith List Bool Arith Lia.
From DV Require Import Base.Field Model.Codec.
Import ListNotations.

Section Layout.
Context {A : Type}.
Notation rect := (@rect A).

Lemma zipcons_nil_l (m : list (list A)) : zipcons [] m = [].
Proof. reflexivity. Qed.

Lemma tr0_repeat (c : nat) : tr 0 (repeat (@nil A) c) = [].
Proof. destruct c; reflexivity. Qed.

Lemma firstn_app_len (a b : list A) : firstn (length a) (a ++ b) = a.
Proof. induction a; cbn; [now destruct b | now f_equal]. Qed.

Lemma skipn_app_len (a b : list A) : skipn (length a) (a ++ b) = b.
Proof. induction a; cbn; auto. Qed.

Lemma tr_zipcons (r : nat) (row : list A) (M : list (list A)) :
  length row = length M -> tr (S r) (zipcons row M) = row :: tr r M.
Proof.
  revert M; induction row as [|x row IH]; intros [|col M] H; cbn in H; try discriminate.
  - reflexivity.
  - cbn [zipcons tr]. rewrite IH by lia. reflexivity.
Qed.

Lemma zipcons_rect (r c : nat) (row : list A) (M : list (list A)) :
  length row = c -> rect c r M -> rect c (S r) (zipcons row M).
Proof.
  intros Hr [HM HF]. subst c. revert M HM HF.
  induction row as [|x row IH]; intros [|col M] HM HF; cbn in HM; try discriminate.
  - split; [reflexivity | constructor].
  - pose proof (Forall_inv HF) as Hc. pose proof (Forall_inv_tail HF) as HF'.
    destruct (IH M) as [L F]; [lia | assumption |].
    split; cbn; [now rewrite L | constructor; [cbn; now rewrite Hc | exact F]].
Qed.

Lemma repeat_nil_rect (c : nat) : rect c 0 (repeat [] c).
Proof.
  split; [apply repeat_length |].
  induction c; cbn; constructor; auto.
Qed.

Lemma tr_rect (r c : nat) (m : list (list A)) : rect r c m -> rect c r (tr c m).
Proof.
  revert r; induction m as [|row m IH]; intros r [L F]; cbn in L; subst r.
  - apply repeat_nil_rect.
  - pose proof (Forall_inv F) as Hc. pose proof (Forall_inv_tail F) as F'. cbn [tr length].
    apply zipcons_rect; [assumption | apply IH; split; auto].
Qed.

Lemma tr_tr (r c : nat) (m : list (list A)) : rect r c m -> tr r (tr c m) = m.
Proof.
  revert r; induction m as [|row m IH]; intros r [L F]; cbn in L; subst r.
  - cbn. apply tr0_repeat.
  - pose proof (Forall_inv F) as Hc. pose proof (Forall_inv_tail F) as F'. cbn beta in Hc. subst c. cbn [tr length].
    assert (R : rect (length row) (length m) (tr (length row) m)) by (apply tr_rect; split; auto).
    rewrite tr_zipcons by (destruct R as [R _]; now rewrite R).
    f_equal. apply IH. split; auto.
Qed.

Lemma chunk_concat (r c : nat) (m : list (list A)) : rect r c m -> chunk r c (List.concat m) = m.
Proof.
  revert r; induction m as [|row m IH]; intros r [L F]; cbn in L; subst r; [reflexivity|].
  pose proof (Forall_inv F) as Hc. pose proof (Forall_inv_tail F) as F'. cbn beta in Hc. subst c. cbn [chunk length List.concat].
  rewrite firstn_app_len, skipn_app_len. f_equal. apply IH. split; auto.
Qed.

Lemma concat_chunk (r c : nat) (l : list A) : length l = (r * c)%nat -> List.concat (chunk r c l) = l.
Proof.
  revert l; induction r as [|r IH]; intros l H; cbn in *.
  - destruct l; [reflexivity | discriminate].
  - rewrite IH; [apply firstn_skipn | rewrite skipn_length; lia].
Qed.

Lemma chunk_rect (r c : nat) (l : list A) : length l = (r * c)%nat -> rect r c (chunk r c l).
Proof.
  revert l; induction r as [|r IH]; intros l H; cbn in *.
  - split; [reflexivity | constructor].
  - destruct (IH (skipn c l)) as [L F]; [rewrite skipn_length; lia |].
    split; cbn; [now rewrite L | constructor; [apply firstn_length_le; lia | exact F]].
Qed.

Lemma concat_rect_length (r c : nat) (m : list (list A)) : rect r c m -> length (List.concat m) = (r * c)%nat.
Proof.
  revert r; induction m as [|row m IH]; intros r [L F]; cbn in L; subst r; [reflexivity|].
  pose proof (Forall_inv F) as Hc. pose proof (Forall_inv_tail F) as F'. cbn beta in Hc.
  cbn. rewrite app_length, (IH (length m)); [lia | split; auto].
Qed.

Lemma tflat_length (r c : nat) (l : list A) : length l = (r * c)%nat -> length (tflat r c l) = (c * r)%nat.
Proof. intro H. apply concat_rect_length, tr_rect, chunk_rect, H. Qed.

(* transposing the flat r x c matrix and then the flat c x r matrix gives the data back *)
Lemma tflat_involutive (r c : nat) (l : list A) : length l = (r * c)%nat -> tflat c r (tflat r c l) = l.
Proof.
  intro H. unfold tflat.
  pose proof (chunk_rect r c l H) as RM.
  pose proof (tr_rect r c _ RM) as RT.
  rewrite (chunk_concat c r _ RT), (tr_tr r c _ RM). apply concat_chunk, H.
Qed.

(* moving the channel axis last (write) and first again (read): every C >= 1, every N *)
Lemma chan_first_last (C N : nat) (l : list A) :
  length l = (C * N)%nat -> chan_first C N (chan_last C N l) = l.
Proof.
  intro H. unfold chan_first, chan_last. destruct (Nat.eqb C 1); [reflexivity | apply tflat_involutive, H].
Qed.

Lemma chan_last_first (C N : nat) (l : list A) :
  length l = (N * C)%nat -> chan_last C N (chan_first C N l) = l.
Proof.
  intro H. unfold chan_first, chan_last. destruct (Nat.eqb C 1); [reflexivity | apply tflat_involutive, H].
Qed.

Lemma chan_last_length (C N : nat) (l : list A) :
  length l = (C * N)%nat -> length (chan_last C N l) = (C * N)%nat.
Proof.
  intro H. unfold chan_last. destruct (Nat.eqb C 1); [exact H | rewrite tflat_length by exact H; lia].
Qed.

(* the permutation is the expected index map: entry (k, c) of the channel-last array is entry (c, k) of the
   channel-first array.  Stated through nth on the nested form. *)
Lemma nth_zipcons (d : A) (row : list A) (M : list (list A)) (j : nat) :
  length row = length M -> (j < length row)%nat ->
  nth j (zipcons row M) [] = nth j row d :: nth j M [].
Proof.
  revert M j; induction row as [|x row IH]; intros [|col M] j H Hj; cbn in *; try discriminate; try lia.
  destruct j; [reflexivity | apply IH; lia].
Qed.

Lemma nth_tr (d : A) (r c : nat) (m : list (list A)) (i j : nat) :
  rect r c m -> (i < r)%nat -> (j < c)%nat ->
  nth i (nth j (tr c m) []) d = nth j (nth i m []) d.
Proof.
  revert r i; induction m as [|row m IH]; intros r i [L F] Hi Hj; cbn in L; subst r; [cbn in Hi; lia|].
  pose proof (Forall_inv F) as Hc. pose proof (Forall_inv_tail F) as F'. cbn beta in Hc. subst c. cbn [tr].
  assert (R : rect (length row) (length m) (tr (length row) m)) by (apply tr_rect; split; auto).
  rewrite (nth_zipcons d) by (try (destruct R as [R _]; now rewrite R); assumption).
  destruct i; cbn; [reflexivity |]. apply (IH (length m)); [split; auto | cbn in Hi; lia | assumption].
Qed.
End Layout.
