(* C07 / velocity-field models on an affine invariant generator (definitions only).
   For the velocity field v(x) = h x (per axis of a diagonal generator; h a field element), scaling and
   squaring with k steps -- u <- v / 2^k, then k times phi <- phi o phi, every step exact on linear
   fields -- yields the linear map x -> exp_k k h * x. *)
From Coq Require Import ZArith List.
From DV Require Import Base.Field.
Local Open Scope fld_scope.

Section VelocityAffine.
Context {K : fld}.
(* a^(2^k) by k squarings *)
Fixpoint sq_iter (k : nat) (a : K) : K := match k with O => a | S k' => sq_iter k' (a * a) end.
(* 2^k *)
Fixpoint pow2 (k : nat) : K := match k with O => 1 | S k' => (1 + 1) * pow2 k' end.
(* multiplier of the flow after k scaling-and-squaring steps, scale s (= -1 for ExpFlow.inverse) *)
Definition exp_k (k : nat) (s h : K) : K := sq_iter k (1 + s * h / pow2 k).
(* inverse o forward *)
Definition round_trip (k : nat) (h : K) : K := exp_k k (- (1)) h * exp_k k 1 h.
Definition round_trip_closed (k : nat) (h : K) : K := sq_iter k (1 - h * h / (pow2 k * pow2 k)).
End VelocityAffine.
