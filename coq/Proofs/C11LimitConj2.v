(* Similarity invariance of the convergence statement in 2-D: if the closed form of scaling and squaring for the linear
   generator M converges entrywise to the matrix E, then for every invertible P the closed form for P M P^-1 converges
   entrywise to P E P^-1.  Used with the three real canonical forms of a 2 x 2 matrix (diagonal, Jordan block,
   rotation-scaling) in C11LimitForms2.v. *)
From Coq Require Import Reals Lra Lia List.
From Coquelicot Require Import Coquelicot.
From DV Require Import Base.Field Base.LinAlg Base.RInst Base.Tactics Model.Sampler Model.Flow Proofs.C11Compose
  Proofs.C11Limit Proofs.C11LimitModel.
Import ListNotations.
Local Open Scope R_scope.

(* linear homogeneous 2-D matrix from its four entries *)
Definition L2 (a b c d : R) : list (list R) := H2 (K:=RF) a b 0 c d 0.

(* P [[a b] [c d]] P^-1 for P = [[p q] [r s]] *)
Definition conj2 (p q r s a b c d : R) : list (list R) :=
  let D := p * s - q * r in
  L2 ((p * a * s + q * c * s - p * b * r - q * d * r) / D) ((- p * a * q - q * c * q + p * b * p + q * d * p) / D)
     ((r * a * s + s * c * s - r * b * r - s * d * r) / D) ((- r * a * q - s * c * q + r * b * p + s * d * p) / D).
Definition conj2m (p q r s : R) (A : list (list R)) : list (list R) :=
  conj2 p q r s (hentry A 0 0) (hentry A 0 1) (hentry A 1 0) (hentry A 1 1).

Lemma hcomp_L2 a b c d a' b' c' d' :
  hcomp (K:=RF) 2 (L2 a b c d) (L2 a' b' c' d') = L2 (a * a' + b * c') (a * b' + b * d') (c * a' + d * c') (c * b' + d * d').
Proof. unfold L2. rewrite (hcomp2_H2 RF RF_field). unfold H2. list_eq; cbn; ring. Qed.

Lemma hid_L2 : hid (K:=RF) 2 = L2 1 0 0 1.
Proof. unfold hid, L2, H2. cbn. list_eq; cbn; ring. Qed.

Lemma hpow_L2_form a b c d m : exists a' b' c' d', hpow (K:=RF) 2 (L2 a b c d) m = L2 a' b' c' d'.
Proof.
  induction m as [|m [a' [b' [c' [d' IH]]]]]; cbn [hpow].
  - exists 1, 0, 0, 1. apply hid_L2.
  - rewrite IH, hcomp_L2. eauto.
Qed.

Lemma conj2_mul p q r s a b c d a' b' c' d' : p * s - q * r <> 0 ->
  hcomp (K:=RF) 2 (conj2 p q r s a b c d) (conj2 p q r s a' b' c' d')
  = conj2 p q r s (a * a' + b * c') (a * b' + b * d') (c * a' + d * c') (c * b' + d * d').
Proof. intro Hd. unfold conj2. rewrite hcomp_L2. unfold L2, H2. list_eq; cbn; field; exact Hd. Qed.

Lemma conj2_one p q r s : p * s - q * r <> 0 -> conj2 p q r s 1 0 0 1 = hid (K:=RF) 2.
Proof. intro Hd. rewrite hid_L2. unfold conj2, L2, H2. list_eq; cbn; field; exact Hd. Qed.

Lemma conj2m_L2 p q r s a b c d : conj2m p q r s (L2 a b c d) = conj2 p q r s a b c d.
Proof. reflexivity. Qed.

Lemma hpow_conj2 p q r s a b c d m : p * s - q * r <> 0 ->
  hpow (K:=RF) 2 (conj2 p q r s a b c d) m = conj2m p q r s (hpow (K:=RF) 2 (L2 a b c d) m).
Proof.
  intro Hd. induction m as [|m IH]; cbn [hpow].
  - rewrite hid_L2, conj2m_L2. symmetry. apply conj2_one. exact Hd.
  - rewrite IH. destruct (hpow_L2_form a b c d m) as [a' [b' [c' [d' E]]]]. rewrite E, conj2m_L2, hcomp_L2, conj2m_L2.
    apply conj2_mul. exact Hd.
Qed.

Lemma hone_plus_L2 t a b c d : hone_plus (K:=RF) 2 t (L2 a b c d) = L2 (1 + t * a) (t * b) (t * c) (1 + t * d).
Proof. unfold hone_plus, hid, L2, H2. cbn. list_eq; cbn; ring. Qed.

Lemma hone_plus_conj2 p q r s t a b c d : p * s - q * r <> 0 ->
  hone_plus (K:=RF) 2 t (conj2 p q r s a b c d) = conj2 p q r s (1 + t * a) (t * b) (t * c) (1 + t * d).
Proof. intro Hd. unfold hone_plus, hid, conj2, L2, H2. cbn. list_eq; cbn; field; exact Hd. Qed.

(* the closed form of the conjugated generator is the conjugated closed form, for every k *)
Theorem closed_form_conj2 p q r s a b c d (k : nat) : p * s - q * r <> 0 ->
  hpow (K:=RF) 2 (hone_plus (K:=RF) 2 (/ 2 ^ k) (conj2 p q r s a b c d)) (2 ^ k)
  = conj2m p q r s (hpow (K:=RF) 2 (hone_plus (K:=RF) 2 (/ 2 ^ k) (L2 a b c d)) (2 ^ k)).
Proof.
  intro Hd. rewrite hone_plus_conj2 by exact Hd. rewrite hone_plus_L2. apply hpow_conj2. exact Hd.
Qed.

Lemma hentry_conj2 p q r s a b c d :
  hentry (conj2 p q r s a b c d) 0 0 = (p * a * s + q * c * s - p * b * r - q * d * r) / (p * s - q * r) /\
  hentry (conj2 p q r s a b c d) 0 1 = (- p * a * q - q * c * q + p * b * p + q * d * p) / (p * s - q * r) /\
  hentry (conj2 p q r s a b c d) 1 0 = (r * a * s + s * c * s - r * b * r - s * d * r) / (p * s - q * r) /\
  hentry (conj2 p q r s a b c d) 1 1 = (- r * a * q - s * c * q + r * b * p + s * d * p) / (p * s - q * r).
Proof. repeat split; reflexivity. Qed.

Lemma lim_lincomb4 (u1 u2 u3 u4 : nat -> R) (c1 c2 c3 c4 l1 l2 l3 l4 : R) :
  is_lim_seq u1 l1 -> is_lim_seq u2 l2 -> is_lim_seq u3 l3 -> is_lim_seq u4 l4 ->
  is_lim_seq (fun k => c1 * u1 k + c2 * u2 k + c3 * u3 k + c4 * u4 k) (c1 * l1 + c2 * l2 + c3 * l3 + c4 * l4).
Proof.
  intros H1 H2 H3 H4.
  repeat apply is_lim_seq_plus'.
  - apply (is_lim_seq_scal_l u1 c1 (Finite l1)). exact H1.
  - apply (is_lim_seq_scal_l u2 c2 (Finite l2)). exact H2.
  - apply (is_lim_seq_scal_l u3 c3 (Finite l3)). exact H3.
  - apply (is_lim_seq_scal_l u4 c4 (Finite l4)). exact H4.
Qed.

(* entrywise convergence of a sequence of linear 2-D matrices *)
Definition conv2 (A : nat -> list (list R)) (E : list (list R)) : Prop :=
  forall i j, (i < 2)%nat -> (j < 2)%nat -> is_lim_seq (fun k => hentry (A k) i j) (hentry E i j).

Theorem conv2_conj p q r s (A : nat -> list (list R)) (E : list (list R)) : p * s - q * r <> 0 ->
  conv2 A E -> conv2 (fun k => conj2m p q r s (A k)) (conj2m p q r s E).
Proof.
  intros Hd HA.
  pose proof (HA 0%nat 0%nat ltac:(lia) ltac:(lia)) as L00. pose proof (HA 0%nat 1%nat ltac:(lia) ltac:(lia)) as L01.
  pose proof (HA 1%nat 0%nat ltac:(lia) ltac:(lia)) as L10. pose proof (HA 1%nat 1%nat ltac:(lia) ltac:(lia)) as L11.
  intros i j Hi Hj.
  destruct i as [|[|i]]; [| |lia]; (destruct j as [|[|j]]; [| |lia]).
  - apply is_lim_seq_ext with (fun k => (p * s / (p * s - q * r)) * hentry (A k) 0 0 + (- p * r / (p * s - q * r)) * hentry (A k) 0 1
                                         + (q * s / (p * s - q * r)) * hentry (A k) 1 0 + (- q * r / (p * s - q * r)) * hentry (A k) 1 1).
    + intro k. unfold conj2m. destruct (hentry_conj2 p q r s (hentry (A k) 0 0) (hentry (A k) 0 1) (hentry (A k) 1 0) (hentry (A k) 1 1)) as [E00 [E01 [E10 E11]]].
      rewrite ?E00, ?E01, ?E10, ?E11. field. exact Hd.
    + replace (hentry (conj2m p q r s E) 0 0) with
        ((p * s / (p * s - q * r)) * hentry E 0 0 + (- p * r / (p * s - q * r)) * hentry E 0 1 + (q * s / (p * s - q * r)) * hentry E 1 0 + (- q * r / (p * s - q * r)) * hentry E 1 1)
        by (unfold conj2m; destruct (hentry_conj2 p q r s (hentry E 0 0) (hentry E 0 1) (hentry E 1 0) (hentry E 1 1)) as [E00 [E01 [E10 E11]]];
            rewrite ?E00, ?E01, ?E10, ?E11; field; exact Hd).
      apply lim_lincomb4; assumption.
  - apply is_lim_seq_ext with (fun k => (- p * q / (p * s - q * r)) * hentry (A k) 0 0 + (p * p / (p * s - q * r)) * hentry (A k) 0 1
                                         + (- q * q / (p * s - q * r)) * hentry (A k) 1 0 + (q * p / (p * s - q * r)) * hentry (A k) 1 1).
    + intro k. unfold conj2m. destruct (hentry_conj2 p q r s (hentry (A k) 0 0) (hentry (A k) 0 1) (hentry (A k) 1 0) (hentry (A k) 1 1)) as [E00 [E01 [E10 E11]]].
      rewrite ?E00, ?E01, ?E10, ?E11. field. exact Hd.
    + replace (hentry (conj2m p q r s E) 0 1) with
        ((- p * q / (p * s - q * r)) * hentry E 0 0 + (p * p / (p * s - q * r)) * hentry E 0 1 + (- q * q / (p * s - q * r)) * hentry E 1 0 + (q * p / (p * s - q * r)) * hentry E 1 1)
        by (unfold conj2m; destruct (hentry_conj2 p q r s (hentry E 0 0) (hentry E 0 1) (hentry E 1 0) (hentry E 1 1)) as [E00 [E01 [E10 E11]]];
            rewrite ?E00, ?E01, ?E10, ?E11; field; exact Hd).
      apply lim_lincomb4; assumption.
  - apply is_lim_seq_ext with (fun k => (r * s / (p * s - q * r)) * hentry (A k) 0 0 + (- r * r / (p * s - q * r)) * hentry (A k) 0 1
                                         + (s * s / (p * s - q * r)) * hentry (A k) 1 0 + (- s * r / (p * s - q * r)) * hentry (A k) 1 1).
    + intro k. unfold conj2m. destruct (hentry_conj2 p q r s (hentry (A k) 0 0) (hentry (A k) 0 1) (hentry (A k) 1 0) (hentry (A k) 1 1)) as [E00 [E01 [E10 E11]]].
      rewrite ?E00, ?E01, ?E10, ?E11. field. exact Hd.
    + replace (hentry (conj2m p q r s E) 1 0) with
        ((r * s / (p * s - q * r)) * hentry E 0 0 + (- r * r / (p * s - q * r)) * hentry E 0 1 + (s * s / (p * s - q * r)) * hentry E 1 0 + (- s * r / (p * s - q * r)) * hentry E 1 1)
        by (unfold conj2m; destruct (hentry_conj2 p q r s (hentry E 0 0) (hentry E 0 1) (hentry E 1 0) (hentry E 1 1)) as [E00 [E01 [E10 E11]]];
            rewrite ?E00, ?E01, ?E10, ?E11; field; exact Hd).
      apply lim_lincomb4; assumption.
  - apply is_lim_seq_ext with (fun k => (- r * q / (p * s - q * r)) * hentry (A k) 0 0 + (r * p / (p * s - q * r)) * hentry (A k) 0 1
                                         + (- s * q / (p * s - q * r)) * hentry (A k) 1 0 + (s * p / (p * s - q * r)) * hentry (A k) 1 1).
    + intro k. unfold conj2m. destruct (hentry_conj2 p q r s (hentry (A k) 0 0) (hentry (A k) 0 1) (hentry (A k) 1 0) (hentry (A k) 1 1)) as [E00 [E01 [E10 E11]]].
      rewrite ?E00, ?E01, ?E10, ?E11. field. exact Hd.
    + replace (hentry (conj2m p q r s E) 1 1) with
        ((- r * q / (p * s - q * r)) * hentry E 0 0 + (r * p / (p * s - q * r)) * hentry E 0 1 + (- s * q / (p * s - q * r)) * hentry E 1 0 + (s * p / (p * s - q * r)) * hentry E 1 1)
        by (unfold conj2m; destruct (hentry_conj2 p q r s (hentry E 0 0) (hentry E 0 1) (hentry E 1 0) (hentry E 1 1)) as [E00 [E01 [E10 E11]]];
            rewrite ?E00, ?E01, ?E10, ?E11; field; exact Hd).
      apply lim_lincomb4; assumption.
Qed.

(* conj2 really is conjugation: (P M P^-1) P = P M *)
Lemma conj2_is_conjugation p q r s a b c d : p * s - q * r <> 0 ->
  hcomp (K:=RF) 2 (conj2 p q r s a b c d) (L2 p q r s) = hcomp (K:=RF) 2 (L2 p q r s) (L2 a b c d).
Proof. intro Hd. unfold conj2. rewrite !hcomp_L2. unfold L2, H2. list_eq; cbn; field; exact Hd. Qed.

(* similarity invariance of the convergence statement *)
Theorem convergence_similarity_invariant2 p q r s a b c d (E : list (list R)) : p * s - q * r <> 0 ->
  conv2 (fun k : nat => hpow (K:=RF) 2 (hone_plus (K:=RF) 2 (/ 2 ^ k) (L2 a b c d)) (2 ^ k)) E ->
  conv2 (fun k : nat => hpow (K:=RF) 2 (hone_plus (K:=RF) 2 (/ 2 ^ k) (conj2 p q r s a b c d)) (2 ^ k)) (conj2m p q r s E).
Proof.
  intros Hd HA i j Hi Hj.
  apply is_lim_seq_ext with (fun k => hentry (conj2m p q r s (hpow (K:=RF) 2 (hone_plus (K:=RF) 2 (/ 2 ^ k) (L2 a b c d)) (2 ^ k))) i j).
  - intro k. rewrite closed_form_conj2 by exact Hd. reflexivity.
  - apply (conv2_conj p q r s _ E Hd HA i j Hi Hj).
Qed.
