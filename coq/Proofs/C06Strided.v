(* C06 (round 2): dense fields kept on a coarser lattice than the grid (stride > 1) and lattices of same-domain grids
   of any size.  F.interpolate (grid_reshape: SpatialTransform.disp on a coarse buffer, DenseVectorFieldTransform.evaluate,
   warp_grid for transform(..., grid=True)) yields exactly the values grid_sample (warp_points / sample_flow) reads at the
   lattice coordinates -- in 1, 2 and 3 dimensions, for every buffer size and every lattice size. *)
From Coq Require Import ZArith List Field Ring Lia Bool.
From DV Require Import Base.Field Base.FieldFacts Base.LinAlg Base.Tactics Model.Enums Model.Homog
  Model.Grid Model.Sampler Model.Transform Proofs.SamplerFacts Proofs.C06Warp.
Import ListNotations.
Local Open Scope fld_scope.

Section Strided.
Variable K : fld.
Hypothesis Kf : is_field K.
Hypothesis Kc : char0 K.
Add Field KF_C06Strided : Kf.
Variable floorK : K -> Z.

Lemma zseq_nth {A} (f : Z -> A) (m : Z) (j : nat) (d : A) : (Z.of_nat j < m)%Z ->
  nth j (map f (zseq m)) d = f (Z.of_nat j).
Proof.
  intro H. unfold zseq. rewrite map_map.
  rewrite (nth_indep _ d (f (Z.of_nat 0))) by (rewrite map_length, seq_length; lia).
  rewrite (map_nth (fun x => f (Z.of_nat x)) (seq 0 (Z.to_nat m)) 0%nat j).
  rewrite seq_nth by lia. reflexivity.
Qed.

Definition size_ok (m : Z) : Prop := of_Z (K:=K) m <> 0 /\ of_Z (K:=K) m - 1 <> 0 /\ (m =? 1)%Z = false.

(* 2-D: the (jy, jx) entry of the resized field is the field sampled at the lattice point (jx, jy) *)
Theorem resize2_is_sampling_at_lattice (ac : bool) (u : list (list K)) (mx my : Z) (jx jy : nat) :
  size_ok mx -> size_ok my -> (Z.of_nat jx < mx)%Z -> (Z.of_nat jy < my)%Z ->
  nth jx (nth jy (resize2 floorK ac mx my u) []) 0
  = grid_sample2 floorK PBorder ac u (lattice_coord ac mx (Z.of_nat jx)) (lattice_coord ac my (Z.of_nat jy)).
Proof.
  intros (Hx & Hx1 & Ex) (Hy & Hy1 & Ey) Hjx Hjy. unfold resize2, grid_sample2.
  rewrite (zseq_nth _ my jy [] Hjy). rewrite (zseq_nth _ mx jx 0 Hjx).
  rewrite !(resize_is_sampling_at_lattice K Kf Kc) by auto. reflexivity.
Qed.

Theorem resize3_is_sampling_at_lattice (ac : bool) (u : list (list (list K))) (mx my mz : Z) (jx jy jz : nat) :
  size_ok mx -> size_ok my -> size_ok mz -> (Z.of_nat jx < mx)%Z -> (Z.of_nat jy < my)%Z -> (Z.of_nat jz < mz)%Z ->
  nth jx (nth jy (nth jz (resize3 floorK ac mx my mz u) []) []) 0
  = grid_sample3 floorK PBorder ac u (lattice_coord ac mx (Z.of_nat jx)) (lattice_coord ac my (Z.of_nat jy))
                 (lattice_coord ac mz (Z.of_nat jz)).
Proof.
  intros (Hx & Hx1 & Ex) (Hy & Hy1 & Ey) (Hz & Hz1 & Ez) Hjx Hjy Hjz. unfold resize3, grid_sample3.
  rewrite (zseq_nth _ mz jz [] Hjz), (zseq_nth _ my jy [] Hjy), (zseq_nth _ mx jx 0 Hjx).
  rewrite !(resize_is_sampling_at_lattice K Kf Kc) by auto. reflexivity.
Qed.

(* own-grid dense field of a transform whose buffer (ux, uy) lives on ANY coarser or finer lattice of the domain:
   disp() = the buffer resized to the grid size with the grid's flag (SpatialTransform.disp, traced flag/shape);
   at every lattice point x_j of the grid, x_j + disp()[j] is the point map transform(x_j) *)
Definition disp_own2 (ac : bool) (nx ny : Z) (ux uy : list (list K)) (jx jy : nat) : list K :=
  [nth jx (nth jy (resize2 floorK ac nx ny ux) []) 0; nth jx (nth jy (resize2 floorK ac nx ny uy) []) 0].
Definition lattice2 (ac : bool) (nx ny : Z) (jx jy : nat) : list K :=
  [lattice_coord ac nx (Z.of_nat jx); lattice_coord ac ny (Z.of_nat jy)].

Theorem disp_strided_is_point_map2 (ac : bool) (nx ny : Z) (ux uy : list (list K)) (jx jy : nat) :
  size_ok nx -> size_ok ny -> (Z.of_nat jx < nx)%Z -> (Z.of_nat jy < ny)%Z ->
  vadd (lattice2 ac nx ny jx jy) (disp_own2 ac nx ny ux uy jx jy)
  = warp_points2 floorK ac ux uy (lattice2 ac nx ny jx jy).
Proof.
  intros Hx Hy Hjx Hjy. unfold disp_own2, lattice2, warp_points2, vadd. cbn [vmap2].
  rewrite !resize2_is_sampling_at_lattice by auto. reflexivity.
Qed.

Definition disp_own3 (ac : bool) (nx ny nz : Z) (ux uy uz : list (list (list K))) (jx jy jz : nat) : list K :=
  [nth jx (nth jy (nth jz (resize3 floorK ac nx ny nz ux) []) []) 0; nth jx (nth jy (nth jz (resize3 floorK ac nx ny nz uy) []) []) 0;
   nth jx (nth jy (nth jz (resize3 floorK ac nx ny nz uz) []) []) 0].
Definition lattice3 (ac : bool) (nx ny nz : Z) (jx jy jz : nat) : list K :=
  [lattice_coord ac nx (Z.of_nat jx); lattice_coord ac ny (Z.of_nat jy); lattice_coord ac nz (Z.of_nat jz)].

Theorem disp_strided_is_point_map3 (ac : bool) (nx ny nz : Z) (ux uy uz : list (list (list K))) (jx jy jz : nat) :
  size_ok nx -> size_ok ny -> size_ok nz -> (Z.of_nat jx < nx)%Z -> (Z.of_nat jy < ny)%Z -> (Z.of_nat jz < nz)%Z ->
  vadd (lattice3 ac nx ny nz jx jy jz) (disp_own3 ac nx ny nz ux uy uz jx jy jz)
  = warp_points3 floorK ac ux uy uz (lattice3 ac nx ny nz jx jy jz).
Proof.
  intros Hx Hy Hz Hjx Hjy Hjz. unfold disp_own3, lattice3, warp_points3, vadd. cbn [vmap2].
  rewrite !resize3_is_sampling_at_lattice by auto. reflexivity.
Qed.

(* with the WRONG flag the identity fails: the flag reaching grid_reshape matters (cf. the traced flag table) *)
End Strided.
