(* C17: properties of the finite-difference stencils on affine functions; linearity. *)
From Coq Require Import ZArith List Field Ring Lia Bool.
From DV Require Import Base.Field Base.FieldFacts Base.LinAlg Model.Losses Model.RegStencil Proofs.C16Lists.
Import ListNotations.
Local Open Scope fld_scope.

(* ---- index lemmas (no field) ----------------------------------------------------------------------- *)
Lemma upd_length d (i : idx) v : length (upd d i v) = length i.
Proof. revert i. induction d as [|d IH]; intros [|c r]; cbn; try reflexivity. rewrite IH. reflexivity. Qed.

Lemma shift_length d (i : idx) k : length (shift d i k) = length i.
Proof. apply upd_length. Qed.

Lemma shift_cons d c (r : idx) k : shift (S d) (c :: r) k = c :: shift d r k.
Proof. reflexivity. Qed.

Lemma get_shift d (i : idx) k : (d < length i)%nat -> get d (shift d i k) = (get d i + k)%Z.
Proof.
  revert i. induction d as [|d IH]; intros [|c r] H; cbn in H; try lia.
  - reflexivity.
  - rewrite shift_cons. unfold get in *. cbn [nth]. apply IH. lia.
Qed.

Lemma get_upd_other d e (i : idx) v : d <> e -> get e (upd d i v) = get e i.
Proof.
  unfold get. revert e i. induction d as [|d IH]; intros e [|c r] H; cbn [upd]; try reflexivity.
  - destruct e; [contradiction | reflexivity].
  - destruct e; [reflexivity | cbn [nth]; apply IH; lia].
Qed.

Lemma upd_upd_comm d e (i : idx) v u : d <> e -> upd e (upd d i v) u = upd d (upd e i u) v.
Proof.
  revert e i. induction d as [|d IH]; intros e [|c r] H.
  - destruct e; reflexivity.
  - destruct e; [contradiction | reflexivity].
  - destruct e; reflexivity.
  - destruct e; [reflexivity | cbn [upd]; f_equal; apply IH; lia].
Qed.

Lemma cshift_length sh d (i : idx) k : length (cshift sh d i k) = length i.
Proof. apply upd_length. Qed.

(* moving along axis d and the clamped neighbour along another axis e commute *)
Lemma cshift_shift_comm sh e d (i : idx) k dl : e <> d -> cshift sh e (shift d i k) dl = shift d (cshift sh e i dl) k.
Proof.
  intro H. unfold cshift, shift.
  rewrite (get_upd_other d e) by (intro E; apply H; symmetry; exact E).
  rewrite (get_upd_other e d) by exact H.
  apply upd_upd_comm. intro E; apply H; symmetry; exact E.
Qed.

Definition region := list (Z * Z).
Fixpoint inR (R : region) (j : idx) : Prop :=
  match R, j with
  | [], [] => True
  | (lo, hi) :: R', c :: j' => (lo <= c <= hi)%Z /\ inR R' j'
  | _, _ => False
  end.
Fixpoint shrink (d : nat) (R : region) : region :=
  match d, R with
  | O, (lo, hi) :: R' => ((lo + 1)%Z, (hi - 1)%Z) :: R'
  | S d', p :: R' => p :: shrink d' R'
  | _, [] => []
  end.
Definition lo_of (d : nat) (R : region) : Z := fst (nth d R (0%Z, 0%Z)).
Definition hi_of (d : nat) (R : region) : Z := snd (nth d R (0%Z, 0%Z)).
Definition full (sh : list Z) : region := map (fun n => (0%Z, (n - 1)%Z)) sh.

Lemma inR_length R j : inR R j -> length j = length R.
Proof. revert j. induction R as [|[lo hi] R IH]; intros [|c j] H; cbn in *; try tauto. f_equal. apply IH. tauto. Qed.

Lemma inR_shrink d R j :
  (d < length R)%nat -> inR (shrink d R) j ->
  inR R j /\ inR R (shift d j 1) /\ inR R (shift d j (-1)) /\ (lo_of d R + 1 <= get d j <= hi_of d R - 1)%Z.
Proof.
  revert R j. induction d as [|d IH]; intros [|[lo hi] R] [|c j] Hd H; cbn in Hd; cbn [shrink inR] in H; try lia; try tauto.
  - unfold shift, get, lo_of, hi_of. cbn. destruct H as [H1 H2]. repeat split; try lia; assumption.
  - destruct H as [H1 H2]. destruct (IH R j ltac:(lia) H2) as (A & B & C & E).
    rewrite !shift_cons. unfold get, lo_of, hi_of in *. cbn [nth inR]. repeat split; try lia; assumption.
Qed.

Lemma inbox_full sh j : inbox sh j <-> inR (full sh) j.
Proof.
  revert j. induction sh as [|n sh IH]; intros [|c j]; cbn; try tauto.
  rewrite IH. split; intros [A B]; split; try assumption; lia.
Qed.

Section Stencil.
Variable K : fld.
Hypothesis Kf : is_field K.
Hypothesis Kc : char0 K.
Add Field KF : Kf.
Notation img := (idx -> K).

Let two_nz := two_nz K Kf Kc.

Lemma lin_nil_l (i : idx) : lin (@nil K) i = 0.
Proof. destruct i; reflexivity. Qed.

Lemma lin_shift (a : list K) d (i : idx) k :
  (d < length i)%nat -> lin a (shift d i k) = lin a i + nth d a 0 * of_Z k.
Proof.
  revert a i. induction d as [|d IH]; intros a i H.
  - destruct i as [|c r]; [cbn in H; lia|]. destruct a as [|x a].
    + rewrite !lin_nil_l. cbn [nth]. ring.
    + unfold shift, get. cbn [upd nth lin]. rewrite (of_Z_add K Kf). ring.
  - destruct i as [|c r]; [cbn in H; lia|]. cbn in H. rewrite shift_cons. destruct a as [|x a].
    + rewrite !lin_nil_l. cbn [nth]. ring.
    + cbn [lin nth]. rewrite IH by lia. ring.
Qed.

Lemma aff_shift c (a : list K) d (i : idx) k :
  (d < length i)%nat -> aff c a (shift d i k) = aff c a i + nth d a 0 * of_Z k.
Proof. intro H. unfold aff. rewrite lin_shift by exact H. ring. Qed.

(* ---- the forward/central/backward scheme is exact on affine functions, at every point -------------- *)
Lemma fd_aff sh (h : K) d c (a : list K) (i : idx) :
  h <> 0 -> (d < length i)%nat -> fd sh h d (aff c a) i = nth d a 0 / h.
Proof.
  intros Hh Hd. unfold fd. cbv zeta.
  rewrite !aff_shift by exact Hd. cbn [of_Z of_pos].
  destruct (Z.eqb (get d i) 0); [field; exact Hh|].
  destruct (Z.eqb (get d i) (nth d sh 0%Z - 1)); field; auto.
Qed.

(* a function that takes the same value at the stencil points has derivative zero *)
Lemma fd_const sh (h : K) d (g : img) (i : idx) v :
  g i = v -> g (shift d i 1) = v -> g (shift d i (-1)) = v -> fd sh h d g i = 0.
Proof.
  intros A B C. unfold fd. cbv zeta. rewrite A, B, C.
  destruct (Z.eqb _ _); [|destruct (Z.eqb _ _)]; rewrite (Fdiv_def Kf); ring.
Qed.

(* second derivatives of an affine function vanish everywhere (forward_central_backward) *)
Lemma d2_fcb_aff sh (sp : list K) d e c (a : list K) (i : idx) :
  hs sp (Nat.min d e) <> 0 -> (Nat.min d e < length i)%nat ->
  d2 MFcb sh sp d e (aff c a) i = 0.
Proof.
  intros Hh Hd. unfold d2, dstep.
  apply fd_const with (v := nth (Nat.min d e) a 0 / hs sp (Nat.min d e));
    apply fd_aff; rewrite ?shift_length; assumption.
Qed.

Lemma d1_fcb_aff sh (sp : list K) d c (a : list K) (i : idx) :
  hs sp d <> 0 -> (d < length i)%nat -> d1 MFcb sh sp d (aff c a) i = nth d a 0 / hs sp d.
Proof. intros. unfold d1, dstep. apply fd_aff; assumption. Qed.

(* ---- linearity and extensionality of the stencil operators ----------------------------------------- *)
Lemma fd_ext sh h d (f g : img) : (forall j, f j = g j) -> forall i, fd sh h d f i = fd sh h d g i.
Proof. intros H i. unfold fd. rewrite !H. reflexivity. Qed.

Lemma smooth_ext sh w d (f g : img) : (forall j, f j = g j) -> forall i, smooth sh w d f i = smooth sh w d g i.
Proof. intros H i. unfold smooth. rewrite !H. reflexivity. Qed.

Lemma fold_smooth_ext sh w d l (f g : img) :
  (forall j, f j = g j) ->
  forall i, fold_left (fun g0 e => if Nat.eqb e d then g0 else smooth sh w e g0) l f i
          = fold_left (fun g0 e => if Nat.eqb e d then g0 else smooth sh w e g0) l g i.
Proof.
  revert f g. induction l as [|e l IH]; intros f g H i; cbn [fold_left]; [apply H|].
  apply IH. intro j. destruct (Nat.eqb e d); [apply H | apply smooth_ext; exact H].
Qed.

Lemma dstep_ext m sh h d (f g : img) : (forall j, f j = g j) -> forall i, dstep m sh h d f i = dstep m sh h d g i.
Proof.
  intros H i. destruct m; cbn [dstep]; apply fd_ext; try exact H;
    intro j; unfold smooth_others; apply fold_smooth_ext; exact H.
Qed.

Lemma fd_plus sh h d (f g : img) i : fd sh h d (fplus f g) i = fd sh h d f i + fd sh h d g i.
Proof.
  unfold fd, fplus. cbv zeta. destruct (Z.eqb _ _); [|destruct (Z.eqb _ _)]; rewrite !(Fdiv_def Kf); ring.
Qed.

Lemma fd_scale sh h d s (f : img) i : fd sh h d (fscale s f) i = s * fd sh h d f i.
Proof.
  unfold fd, fscale. cbv zeta. destruct (Z.eqb _ _); [|destruct (Z.eqb _ _)]; rewrite !(Fdiv_def Kf); ring.
Qed.

Lemma smooth_plus sh w d (f g : img) i : smooth sh w d (fplus f g) i = smooth sh w d f i + smooth sh w d g i.
Proof.
  unfold smooth, fplus. rewrite !(Fdiv_def Kf). ring.
Qed.

Lemma smooth_scale sh w d s (f : img) i : smooth sh w d (fscale s f) i = s * smooth sh w d f i.
Proof.
  unfold smooth, fscale. rewrite !(Fdiv_def Kf). ring.
Qed.

Lemma fold_smooth_plus sh w d l (f g : img) i :
  fold_left (fun g0 e => if Nat.eqb e d then g0 else smooth sh w e g0) l (fplus f g) i
  = fold_left (fun g0 e => if Nat.eqb e d then g0 else smooth sh w e g0) l f i
  + fold_left (fun g0 e => if Nat.eqb e d then g0 else smooth sh w e g0) l g i.
Proof.
  revert f g i. induction l as [|e l IH]; intros f g i; cbn [fold_left]; [reflexivity|].
  destruct (Nat.eqb e d); [apply IH|].
  rewrite <- IH. apply fold_smooth_ext. intro j. apply smooth_plus.
Qed.

Lemma fold_smooth_scale sh w d l s (f : img) i :
  fold_left (fun g0 e => if Nat.eqb e d then g0 else smooth sh w e g0) l (fscale s f) i
  = s * fold_left (fun g0 e => if Nat.eqb e d then g0 else smooth sh w e g0) l f i.
Proof.
  revert f i. induction l as [|e l IH]; intros f i; cbn [fold_left]; [reflexivity|].
  destruct (Nat.eqb e d); [apply IH|].
  rewrite <- IH. apply fold_smooth_ext. intro j. apply smooth_scale.
Qed.

Lemma dstep_plus m sh h d (f g : img) i : dstep m sh h d (fplus f g) i = dstep m sh h d f i + dstep m sh h d g i.
Proof.
  destruct m; cbn [dstep]; [apply fd_plus| |];
    rewrite <- fd_plus; apply fd_ext; intro j; unfold smooth_others; apply fold_smooth_plus.
Qed.

Lemma dstep_scale m sh h d s (f : img) i : dstep m sh h d (fscale s f) i = s * dstep m sh h d f i.
Proof.
  destruct m; cbn [dstep]; [apply fd_scale| |];
    rewrite <- fd_scale; apply fd_ext; intro j; unfold smooth_others; apply fold_smooth_scale.
Qed.

Lemma d1_plus m sh sp d (f g : img) i : d1 m sh sp d (fplus f g) i = d1 m sh sp d f i + d1 m sh sp d g i.
Proof. apply dstep_plus. Qed.
Lemma d1_scale m sh sp d s (f : img) i : d1 m sh sp d (fscale s f) i = s * d1 m sh sp d f i.
Proof. apply dstep_scale. Qed.

Lemma d2_plus m sh sp d e (f g : img) i : d2 m sh sp d e (fplus f g) i = d2 m sh sp d e f i + d2 m sh sp d e g i.
Proof.
  unfold d2. rewrite <- dstep_plus. apply dstep_ext. intro j. apply dstep_plus.
Qed.
Lemma d2_scale m sh sp d e s (f : img) i : d2 m sh sp d e (fscale s f) i = s * d2 m sh sp d e f i.
Proof.
  unfold d2. rewrite <- dstep_scale. apply dstep_ext. intro j. apply dstep_scale.
Qed.

(* spacing: a step h * k gives the derivative divided by k *)
Lemma fd_spacing sh h k d (f : img) i : h <> 0 -> k <> 0 -> fd sh (h * k) d f i = fd sh h d f i / k.
Proof.
  intros Hh Hk. unfold fd. cbv zeta. destruct (Z.eqb _ _); [|destruct (Z.eqb _ _)]; field; auto.
Qed.

(* ---- affine functions through the replicate-padded cross smoothing ---------------------------------------- *)
(* g has slope a along axis d: moving k samples along d adds a * k, at every point *)
Definition slope_along (d : nat) (g : img) (a : K) : Prop :=
  forall (i : idx) k, (d < length i)%nat -> g (shift d i k) = g i + a * of_Z k.

Lemma aff_slope c (a : list K) d : slope_along d (aff c a) (nth d a 0).
Proof. intros i k H. apply aff_shift. exact H. Qed.

(* smoothing along another axis keeps the slope along d (also at the boundary, where the smoothed function is
   no longer the affine function itself) *)
Lemma smooth_slope sh w e d (g : img) a :
  w + (1 + 1) <> 0 -> e <> d -> slope_along d g a -> slope_along d (smooth sh w e g) a.
Proof.
  intros Hw Hne Hg i k Hd. unfold smooth.
  rewrite !(cshift_shift_comm sh e d i k) by exact Hne.
  rewrite !Hg by (rewrite ?cshift_length; exact Hd). field. exact Hw.
Qed.

Lemma fold_smooth_slope sh w d l (g : img) a :
  w + (1 + 1) <> 0 -> slope_along d g a ->
  slope_along d (fold_left (fun g0 e => if Nat.eqb e d then g0 else smooth sh w e g0) l g) a.
Proof.
  intro Hw. revert g. induction l as [|e l IH]; intros g Hg; cbn [fold_left]; [exact Hg|].
  apply IH. destruct (Nat.eqb e d) eqn:E; [exact Hg|]. apply Nat.eqb_neq in E. apply smooth_slope; assumption.
Qed.

(* the difference scheme along d of a function with slope a along d is a / h, at every point *)
Lemma fd_slope sh h d (g : img) a (i : idx) :
  h <> 0 -> (d < length i)%nat -> slope_along d g a -> fd sh h d g i = a / h.
Proof.
  intros Hh Hd Hg. unfold fd. cbv zeta. rewrite !Hg by exact Hd. cbn [of_Z of_pos].
  destruct (Z.eqb _ _); [|destruct (Z.eqb _ _)]; field; auto.
Qed.

(* smoothing a function that is constant on all points of one length gives that constant *)
Lemma fold_smooth_const sh w d l (g : img) v n :
  w + (1 + 1) <> 0 -> (forall j, length j = n -> g j = v) ->
  forall j, length j = n -> fold_left (fun g0 e => if Nat.eqb e d then g0 else smooth sh w e g0) l g j = v.
Proof.
  intro Hw. revert g. induction l as [|e l IH]; intros g Hg j Hj; cbn [fold_left]; [apply Hg; exact Hj|].
  apply IH; [|exact Hj]. destruct (Nat.eqb e d); [exact Hg|].
  intros j' Hj'. unfold smooth. rewrite !Hg by (rewrite ?cshift_length; exact Hj'). field. exact Hw.
Qed.

Lemma nth_nil_zero d : nth d (@nil K) 0 = 0.
Proof. destruct d; reflexivity. Qed.

End Stencil.
