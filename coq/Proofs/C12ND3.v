(* C12: the composed 2-D / 3-D operators (smooth the other axes for prewitt / sobel with replicate padding, difference along
   the axis) are exact on affine fields at every point the difference scheme supports -- all shapes, spacings, modes. *)
From Coq Require Import ZArith List Field Ring Lia Bool.
From DV Require Import Base.Field Base.FieldFacts Base.LinAlg Base.Tactics Model.BSplineBase Gen.BSpline Model.BSpline
  Gen.FlowDeriv Model.FiniteDiff Proofs.C14Tac Proofs.C14Eval Proofs.C12FD Proofs.C12ND.
Import ListNotations.
Local Open Scope fld_scope.

Section Field3.
Context {K : fld}.
(* f(z, y, x) = a + bx (x hx) + by (y hy) + bz (z hz) on an nz x ny x nx grid (tensor order [z][y][x]) *)
Definition field3 (a bx by_ bz hx hy hz : K) (nx ny nz : nat) : list (list (list K)) :=
  map (fun z => map (fun y => map (fun x => a + bx * (zn x * hx) + by_ * (zn y * hy) + bz * (zn z * hz)) (seq 0 nx)) (seq 0 ny)) (seq 0 nz).
Definition rect2 (ny nx : nat) (c : list (list K)) : Prop :=
  length c = ny /\ forall y, (y < ny)%nat -> length (nth y c []) = nx.
Definition box3 (nz ny nx : nat) (c : list (list (list K))) : Prop :=
  length c = nz /\ (forall z, (z < nz)%nat -> length (nth z c []) = ny /\
                     forall y, (y < ny)%nat -> length (nth y (nth z c []) []) = nx).
End Field3.

Section Proofs.
Variable K : fld.
Hypothesis Kf : is_field K.
Hypothesis Kc : char0 K.
Add Field KF : Kf.

Notation acc := (@at3 K).
Definition lenpres (f : list K -> list K) : Prop := forall l, length (f l) = length l.

Lemma nth_map_in {A B} (f : A -> B) (l : list A) (i : nat) (da : A) (db : B) : (i < length l)%nat ->
  nth i (map f l) db = f (nth i l da).
Proof. intro H. rewrite (nth_indep _ db (f da)) by (rewrite map_length; exact H). apply map_nth. Qed.

(* ---- along x ---- *)
Lemma Lx (f : list K -> list K) (c : list (list (list K))) (nz ny nx : nat) : lenpres f -> box3 nz ny nx c ->
  box3 nz ny nx (along_x3 f c) /\
  forall z y x, (z < nz)%nat -> (y < ny)%nat ->
    acc (along_x3 f c) z y x = nth x (f (map (fun x' => acc c z y x') (seq 0 nx))) 0.
Proof.
  intros Hf [Hz Hb]. unfold along_x3. split.
  - split; [rewrite map_length; exact Hz|]. intros z Lz. destruct (Hb z Lz) as [Hy Hr].
    rewrite (nth_map_in (map f) c z [] []) by lia. rewrite map_length. split; [exact Hy|].
    intros y Ly. rewrite (nth_map_in f _ y [] []) by lia. rewrite Hf. apply Hr. exact Ly.
  - intros z y x Lz Ly. destruct (Hb z Lz) as [Hy Hr]. unfold at3.
    rewrite (nth_map_in (map f) c z [] []) by lia. rewrite (nth_map_in f _ y [] []) by lia.
    f_equal. f_equal. apply (nth_ext _ _ 0 0).
    + rewrite map_length, seq_length. apply Hr. exact Ly.
    + intros i Hi. rewrite Hr in Hi by exact Ly.
      rewrite (nth_map_seq (fun x' => nth x' (nth y (nth z c []) []) 0)) by exact Hi. reflexivity.
Qed.

(* ---- along y ---- *)
Lemma Ly (f : list K -> list K) (c : list (list (list K))) (nz ny nx : nat) : lenpres f -> box3 nz ny nx c ->
  (1 <= ny)%nat -> (1 <= nx)%nat ->
  box3 nz ny nx (along_y3 f c) /\
  forall z y x, (z < nz)%nat -> (y < ny)%nat -> (x < nx)%nat ->
    acc (along_y3 f c) z y x = nth y (f (map (fun y' => acc c z y' x) (seq 0 ny))) 0.
Proof.
  intros Hf [Hz Hb] H1y H1x. unfold along_y3.
  assert (R0 : forall z, (z < nz)%nat -> length (nth 0 (nth z c []) []) = nx).
  { intros z Lz. destruct (Hb z Lz) as [_ Hr]. apply Hr. lia. }
  split.
  - split; [rewrite map_length; exact Hz|]. intros z Lz. destruct (Hb z Lz) as [Hy Hr].
    rewrite (nth_map_in (along_y2 f) c z [] []) by lia. split.
    + unfold along_y2. rewrite map_length, seq_length. rewrite (R0 z Lz).
      rewrite (nth_map_seq (fun i => f (map (fun r => nth i r 0) (nth z c [])))) by lia.
      rewrite Hf, map_length. exact Hy.
    + intros y Ly'. apply (length_along_y2_row K f (nth z c []) nx y Hf (R0 z Lz) H1x). lia.
  - intros z y x Lz Ly' Lx'. destruct (Hb z Lz) as [Hy Hr]. unfold at3.
    rewrite (nth_map_in (along_y2 f) c z [] []) by lia.
    rewrite (nth_along_y2 K f (nth z c []) nx x y Hf (R0 z Lz) Lx') by lia.
    f_equal. f_equal. unfold colx. apply (nth_ext _ _ 0 0).
    + rewrite !map_length, seq_length. exact Hy.
    + intros i Hi. rewrite map_length, Hy in Hi.
      rewrite (nth_map_in (fun r => nth x r 0) _ i [] 0) by lia.
      rewrite (nth_map_seq (fun y' => nth x (nth y' (nth z c []) []) 0)) by exact Hi. reflexivity.
Qed.

(* ---- along z ---- *)
Lemma Lz (f : list K -> list K) (c : list (list (list K))) (nz ny nx : nat) : lenpres f -> box3 nz ny nx c ->
  (1 <= nz)%nat -> (1 <= ny)%nat -> (1 <= nx)%nat ->
  box3 nz ny nx (along_z3 f c) /\
  forall z y x, (z < nz)%nat -> (y < ny)%nat -> (x < nx)%nat ->
    acc (along_z3 f c) z y x = nth z (f (map (fun z' => acc c z' y x) (seq 0 nz))) 0.
Proof.
  intros Hf [Hz Hb] H1z H1y H1x. unfold along_z3.
  destruct (Hb 0%nat ltac:(lia)) as [Hy0 Hr0]. rewrite Hy0, (Hr0 0%nat ltac:(lia)).
  set (cols := map (fun j => map (fun i => f (map (fun pl => at2 pl j i) c)) (seq 0 nx)) (seq 0 ny)).
  assert (C00 : length (nth 0 (nth 0 cols []) []) = nz).
  { unfold cols. rewrite (nth_map_seq (fun j => map (fun i => f (map (fun pl => at2 pl j i) c)) (seq 0 nx))) by lia.
    rewrite (nth_map_seq (fun i => f (map (fun pl => at2 pl 0 i) c))) by lia. rewrite Hf, map_length. exact Hz. }
  rewrite C00.
  assert (Col : forall y x, (y < ny)%nat -> (x < nx)%nat ->
            nth x (nth y cols []) [] = f (map (fun z' => acc c z' y x) (seq 0 nz))).
  { intros y x Ly' Lx'. unfold cols.
    rewrite (nth_map_seq (fun j => map (fun i => f (map (fun pl => at2 pl j i) c)) (seq 0 nx))) by exact Ly'.
    rewrite (nth_map_seq (fun i => f (map (fun pl => at2 pl y i) c))) by exact Lx'. f_equal.
    apply (nth_ext _ _ 0 0).
    - rewrite !map_length, seq_length. exact Hz.
    - intros i Hi. rewrite map_length, Hz in Hi. rewrite (nth_map_in (fun pl => at2 pl y x) c i [] 0) by lia.
      rewrite (nth_map_seq (fun z' => acc c z' y x)) by exact Hi. reflexivity. }
  assert (Lc : length cols = ny) by (unfold cols; rewrite map_length, seq_length; reflexivity).
  assert (Lr : forall y, (y < ny)%nat -> length (nth y cols []) = nx).
  { intros y Ly'. unfold cols.
    rewrite (nth_map_seq (fun j => map (fun i => f (map (fun pl => at2 pl j i) c)) (seq 0 nx))) by exact Ly'.
    rewrite map_length, seq_length. reflexivity. }
  split.
  - split; [rewrite map_length, seq_length; reflexivity|]. intros z Lz'.
    rewrite (nth_map_seq (fun k => map (fun row => map (fun cl => nth k cl 0) row) cols)) by exact Lz'.
    rewrite map_length. split; [exact Lc|]. intros y Ly'.
    rewrite (nth_map_in (fun row => map (fun cl => nth z cl 0) row) cols y [] []) by lia.
    rewrite map_length. apply Lr. exact Ly'.
  - intros z y x Lz' Ly' Lx'. unfold at3.
    rewrite (nth_map_seq (fun k => map (fun row => map (fun cl => nth k cl 0) row) cols)) by exact Lz'.
    rewrite (nth_map_in (fun row => map (fun cl => nth z cl 0) row) cols y [] []) by lia.
    rewrite (nth_map_in (fun cl => nth z cl 0) _ x [] 0) by (rewrite Lr by exact Ly'; exact Lx').
    rewrite Col by assumption. reflexivity.
Qed.

Lemma lenpres_smooth m : lenpres (smooth1 (K:=K) m).
Proof. intro l. apply length_smooth1. Qed.
Lemma lenpres_fd m (h : K) : lenpres (fd1 m h).
Proof. intro l. apply length_fd1. Qed.

Lemma box_field3 (a bx by_ bz hx hy hz : K) nx ny nz : box3 nz ny nx (field3 a bx by_ bz hx hy hz nx ny nz).
Proof.
  unfold field3. split; [rewrite map_length, seq_length; reflexivity|]. intros z Lz'.
  rewrite (nth_map_seq (fun z => map (fun y => map (fun x => a + bx * (zn x * hx) + by_ * (zn y * hy) + bz * (zn z * hz)) (seq 0 nx)) (seq 0 ny))) by exact Lz'.
  rewrite map_length, seq_length. split; [reflexivity|]. intros y Ly'.
  rewrite (nth_map_seq (fun y => map (fun x => a + bx * (zn x * hx) + by_ * (zn y * hy) + bz * (zn z * hz)) (seq 0 nx))) by exact Ly'.
  rewrite map_length, seq_length. reflexivity.
Qed.

Lemma acc_field3 (a bx by_ bz hx hy hz : K) nx ny nz z y x : (z < nz)%nat -> (y < ny)%nat -> (x < nx)%nat ->
  acc (field3 a bx by_ bz hx hy hz nx ny nz) z y x = a + bx * (zn x * hx) + by_ * (zn y * hy) + bz * (zn z * hz).
Proof.
  intros Lz' Ly' Lx'. unfold at3, field3.
  rewrite (nth_map_seq (fun z => map (fun y => map (fun x => a + bx * (zn x * hx) + by_ * (zn y * hy) + bz * (zn z * hz)) (seq 0 nx)) (seq 0 ny))) by exact Lz'.
  rewrite (nth_map_seq (fun y => map (fun x => a + bx * (zn x * hx) + by_ * (zn y * hy) + bz * (zn z * hz)) (seq 0 nx))) by exact Ly'.
  rewrite (nth_map_seq (fun x => a + bx * (zn x * hx) + by_ * (zn y * hy) + bz * (zn z * hz))) by exact Lx'. reflexivity.
Qed.

(* a tensor that agrees with an affine function on the lines we look at: smoothing along an axis keeps the values at
   points whose coordinate along that axis is smooth_ok *)
Definition affv (a bx by_ bz hx hy hz : K) (z y x : nat) : K :=
  a + bx * (zn x * hx) + by_ * (zn y * hy) + bz * (zn z * hz).

Lemma smooth_line (m : fdmode) (n i : nat) (s b h : K) (g : nat -> K) :
  (forall j, (j < n)%nat -> g j = s * (zn j * h) + b) -> (i < n)%nat ->
  nth i (smooth1 m (map g (seq 0 n))) 0 = s * (zn i * h) + b + shiftc K m n i * (s * h).
Proof.
  intros Hg Hi. assert (E : map g (seq 0 n) = aff_seq s b h n).
  { unfold aff_seq. apply map_ext_in. intros j Hj. apply in_seq in Hj. apply Hg. lia. }
  rewrite E. apply smooth_affine; assumption.
Qed.

Lemma diff_line (m : fdmode) (n i : nat) (s b h : K) (g : nat -> K) : h <> 0 ->
  (forall j, (j < n)%nat -> g j = s * (zn j * h) + b) -> exact1 m n i ->
  nth i (fd1 m h (map g (seq 0 n))) 0 = s.
Proof.
  intros Hh Hg Hi. assert (E : map g (seq 0 n) = aff_seq s b h n).
  { unfold aff_seq. apply map_ext_in. intros j Hj. apply in_seq in Hj. apply Hg. lia. }
  rewrite E. apply fd1_affine_exact; assumption.
Qed.

Lemma ex_lt m n i : exact1 m n i -> (i < n)%nat.
Proof. destruct m; cbn; lia. Qed.

Lemma Lx2 (f : list K -> list K) (c : list (list K)) (ny nx : nat) : lenpres f -> rect2 ny nx c ->
  rect2 ny nx (along_x2 f c) /\
  forall y x, (y < ny)%nat -> at2 (along_x2 f c) y x = nth x (f (map (fun x' => at2 c y x') (seq 0 nx))) 0.
Proof.
  intros Hf [Hy Hr]. unfold along_x2. split.
  - split; [rewrite map_length; exact Hy|]. intros y Ly'. rewrite (nth_map_in f c y [] []) by lia. rewrite Hf. apply Hr. exact Ly'.
  - intros y x Ly'. unfold at2. rewrite (nth_map_in f c y [] []) by lia. f_equal. f_equal.
    apply (nth_ext _ _ 0 0).
    + rewrite map_length, seq_length. apply Hr. exact Ly'.
    + intros i Hi. rewrite Hr in Hi by exact Ly'. rewrite (nth_map_seq (fun x' => nth x' (nth y c []) 0)) by exact Hi. reflexivity.
Qed.

Lemma Ly2 (f : list K -> list K) (c : list (list K)) (ny nx : nat) : lenpres f -> rect2 ny nx c ->
  (1 <= ny)%nat -> (1 <= nx)%nat ->
  rect2 ny nx (along_y2 f c) /\
  forall y x, (y < ny)%nat -> (x < nx)%nat -> at2 (along_y2 f c) y x = nth y (f (map (fun y' => at2 c y' x) (seq 0 ny))) 0.
Proof.
  intros Hf [Hy Hr] H1y H1x. assert (R0 : length (nth 0 c []) = nx) by (apply Hr; lia). split.
  - split.
    + unfold along_y2. rewrite map_length, seq_length, R0.
      rewrite (nth_map_seq (fun i => f (map (fun r => nth i r 0) c))) by lia. rewrite Hf, map_length. exact Hy.
    + intros y Ly'. apply (length_along_y2_row K f c nx y Hf R0 H1x). lia.
  - intros y x Ly' Lx'. unfold at2. rewrite (nth_along_y2 K f c nx x y Hf R0 Lx') by lia.
    f_equal. f_equal. unfold colx. apply (nth_ext _ _ 0 0).
    + rewrite !map_length, seq_length. exact Hy.
    + intros i Hi. rewrite map_length, Hy in Hi. rewrite (nth_map_in (fun r => nth x r 0) c i [] 0) by lia.
      rewrite (nth_map_seq (fun y' => nth x (nth y' c []) 0)) by exact Hi. reflexivity.
Qed.


(* ---- D = 2: d/dx = along_x2 fd (along_y2 smooth c), d/dy = along_y2 fd (along_x2 smooth c) ---- *)
Section Affine2.
Variables (m : fdmode) (a bx by_ hx hy : K) (nx ny : nat).
Let c := field2 a bx by_ hx hy nx ny.

Lemma rect_field2 : rect2 ny nx c.
Proof.
  unfold c. split; [apply length_field2|]. intros y Ly'. rewrite (field2_row K Kf) by exact Ly'. apply length_aff.
Qed.

Lemma at2_field2 y x : (y < ny)%nat -> (x < nx)%nat -> at2 c y x = a + bx * (zn x * hx) + by_ * (zn y * hy).
Proof. intros Ly' Lx'. unfold at2, c. rewrite (field2_row K Kf) by exact Ly'. rewrite nth_aff by exact Lx'. ring. Qed.

Theorem dstep2_affine_x (x y : nat) : hx <> 0 -> exact1 m nx x -> (y < ny)%nat ->
  nth x (nth y (dstep2 m 0 hx c) []) 0 = bx.
Proof.
  intros Hh Hx Ly'. pose proof (ex_lt _ _ _ Hx) as Lx'. unfold dstep2. fold (at2 (along_x2 (fd1 m hx) (along_y2 (smooth1 m) c)) y x).
  destruct (Ly2 (smooth1 m) c ny nx (lenpres_smooth m) rect_field2 ltac:(lia) ltac:(lia)) as [B1 A1].
  destruct (Lx2 (fd1 m hx) _ ny nx (lenpres_fd m hx) B1) as [_ A2].
  rewrite A2 by exact Ly'.
  apply (diff_line m nx x bx (a + by_ * (zn y * hy) + shiftc K m ny y * (by_ * hy)) hx); try assumption.
  intros x' Hx'. rewrite A1 by assumption.
  rewrite (smooth_line m ny y by_ (a + bx * (zn x' * hx)) hy); [ring| |exact Ly'].
  intros y' Hy'. rewrite at2_field2 by assumption. ring.
Qed.

Theorem dstep2_affine_y (x y : nat) : hy <> 0 -> exact1 m ny y -> (x < nx)%nat ->
  nth x (nth y (dstep2 m 1 hy c) []) 0 = by_.
Proof.
  intros Hh Hy Lx'. pose proof (ex_lt _ _ _ Hy) as Ly'. unfold dstep2. fold (at2 (along_y2 (fd1 m hy) (along_x2 (smooth1 m) c)) y x).
  destruct (Lx2 (smooth1 m) c ny nx (lenpres_smooth m) rect_field2) as [B1 A1].
  destruct (Ly2 (fd1 m hy) _ ny nx (lenpres_fd m hy) B1 ltac:(lia) ltac:(lia)) as [_ A2].
  rewrite A2 by assumption.
  apply (diff_line m ny y by_ (a + bx * (zn x * hx) + shiftc K m nx x * (bx * hx)) hy); try assumption.
  intros y' Hy'. rewrite A1 by assumption.
  rewrite (smooth_line m nx x bx (a + by_ * (zn y' * hy)) hx); [ring| |exact Lx'].
  intros x' Hx'. rewrite at2_field2 by assumption. ring.
Qed.
End Affine2.

Section Affine.
Variables (m : fdmode) (a bx by_ bz hx hy hz : K) (nx ny nz : nat).
Let c := field3 a bx by_ bz hx hy hz nx ny nz.

(* d/dx = along_x3 fd (along_z3 smooth (along_y3 smooth c)) *)
Theorem dstep3_affine_x (x y z : nat) : hx <> 0 -> exact1 m nx x -> (y < ny)%nat -> (z < nz)%nat ->
  acc (dstep3 m 0 hx c) z y x = bx.
Proof.
  intros Hh Hx Ly' Lz'. pose proof (ex_lt _ _ _ Hx) as Lx'.
  unfold dstep3.
  destruct (Ly (smooth1 m) c nz ny nx (lenpres_smooth m) (box_field3 _ _ _ _ _ _ _ _ _ _) ltac:(lia) ltac:(lia)) as [B1 A1].
  destruct (Lz (smooth1 m) _ nz ny nx (lenpres_smooth m) B1 ltac:(lia) ltac:(lia) ltac:(lia)) as [B2 A2].
  destruct (Lx (fd1 m hx) _ nz ny nx (lenpres_fd m hx) B2) as [_ A3].
  rewrite A3 by assumption.
  apply (diff_line m nx x bx (a + by_ * (zn y * hy) + bz * (zn z * hz) + shiftc K m ny y * (by_ * hy) + shiftc K m nz z * (bz * hz)) hx); try assumption.
  intros x' Hx'. rewrite A2 by assumption.
  rewrite (smooth_line m nz z bz (a + bx * (zn x' * hx) + by_ * (zn y * hy) + shiftc K m ny y * (by_ * hy)) hz); [ring| |exact Lz'].
  intros z' Hz'. rewrite A1 by assumption.
  rewrite (smooth_line m ny y by_ (a + bx * (zn x' * hx) + bz * (zn z' * hz)) hy); [ring| |exact Ly'].
  intros y' Hy'. unfold c. rewrite acc_field3 by assumption. ring.
Qed.

(* d/dy = along_y3 fd (along_z3 smooth (along_x3 smooth c)) *)
Theorem dstep3_affine_y (x y z : nat) : hy <> 0 -> exact1 m ny y -> (x < nx)%nat -> (z < nz)%nat ->
  acc (dstep3 m 1 hy c) z y x = by_.
Proof.
  intros Hh Hy Lx' Lz'. pose proof (ex_lt _ _ _ Hy) as Ly'.
  unfold dstep3.
  destruct (Lx (smooth1 m) c nz ny nx (lenpres_smooth m) (box_field3 _ _ _ _ _ _ _ _ _ _)) as [B1 A1].
  destruct (Lz (smooth1 m) _ nz ny nx (lenpres_smooth m) B1 ltac:(lia) ltac:(lia) ltac:(lia)) as [B2 A2].
  destruct (Ly (fd1 m hy) _ nz ny nx (lenpres_fd m hy) B2 ltac:(lia) ltac:(lia)) as [_ A3].
  rewrite A3 by assumption.
  apply (diff_line m ny y by_ (a + bx * (zn x * hx) + bz * (zn z * hz) + shiftc K m nx x * (bx * hx) + shiftc K m nz z * (bz * hz)) hy); try assumption.
  intros y' Hy'. rewrite A2 by assumption.
  rewrite (smooth_line m nz z bz (a + bx * (zn x * hx) + by_ * (zn y' * hy) + shiftc K m nx x * (bx * hx)) hz); [ring| |exact Lz'].
  intros z' Hz'. rewrite A1 by assumption.
  rewrite (smooth_line m nx x bx (a + by_ * (zn y' * hy) + bz * (zn z' * hz)) hx); [ring| |exact Lx'].
  intros x' Hx'. unfold c. rewrite acc_field3 by assumption. ring.
Qed.

(* d/dz = along_z3 fd (along_y3 smooth (along_x3 smooth c)) *)
Theorem dstep3_affine_z (x y z : nat) : hz <> 0 -> exact1 m nz z -> (x < nx)%nat -> (y < ny)%nat ->
  acc (dstep3 m 2 hz c) z y x = bz.
Proof.
  intros Hh Hz Lx' Ly'. pose proof (ex_lt _ _ _ Hz) as Lz'.
  unfold dstep3.
  destruct (Lx (smooth1 m) c nz ny nx (lenpres_smooth m) (box_field3 _ _ _ _ _ _ _ _ _ _)) as [B1 A1].
  destruct (Ly (smooth1 m) _ nz ny nx (lenpres_smooth m) B1 ltac:(lia) ltac:(lia)) as [B2 A2].
  destruct (Lz (fd1 m hz) _ nz ny nx (lenpres_fd m hz) B2 ltac:(lia) ltac:(lia) ltac:(lia)) as [_ A3].
  rewrite A3 by assumption.
  apply (diff_line m nz z bz (a + bx * (zn x * hx) + by_ * (zn y * hy) + shiftc K m nx x * (bx * hx) + shiftc K m ny y * (by_ * hy)) hz); try assumption.
  intros z' Hz'. rewrite A2 by assumption.
  rewrite (smooth_line m ny y by_ (a + bx * (zn x * hx) + bz * (zn z' * hz) + shiftc K m nx x * (bx * hx)) hy); [ring| |exact Ly'].
  intros y' Hy'. rewrite A1 by assumption.
  rewrite (smooth_line m nx x bx (a + by_ * (zn y' * hy) + bz * (zn z' * hz)) hx); [ring| |exact Lx'].
  intros x' Hx'. unfold c. rewrite acc_field3 by assumption. ring.
Qed.
End Affine.
End Proofs.
