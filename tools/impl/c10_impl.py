"""Implementation-side runner for C10 (runs against /repo's working tree): FlowFields / FlowField axes, exp, sample,
warp_image; normalize_flow / denormalize_flow; normalize_grid / denormalize_grid."""
import json
import math
import random
import sys

import torch

from vlib import emit_json

import c01_impl as G1
from deepali.core import flow as FL
from deepali.core import pointset as PS
from deepali.core.grid import Axes, Grid
from deepali.data import FlowField, FlowFields, Image, ImageBatch

AX = {"GRID": Axes.GRID, "CUBE": Axes.CUBE, "CUBE_CORNERS": Axes.CUBE_CORNERS, "WORLD": Axes.WORLD}
AXN = list(AX)


def err(e):
    return {"error": type(e).__name__, "msg": str(e)[:200]}


def out(t):
    return t.detach().to(torch.float64).tolist()


def mk(gd):
    return G1.mk(gd)


def small_grid(rng, D, nmax=4):
    g = G1.rand_grid(rng, D)
    g["size"] = [rng.randint(2, nmax) for _ in range(D)]
    return g


# ------------------------------------------------------------------------------------------------
# correspondence
# ------------------------------------------------------------------------------------------------
def model_cases(p):
    res = []
    for c in p["cases"]:
        try:
            k = c["kind"]
            grids = [mk(g) for g in c.get("grids", [])]
            data = torch.tensor(c.get("data", []), dtype=torch.float64)
            st = [G1.stored(g) for g in grids]
            if k == "axes":
                ff = FlowFields(data, grids if len(grids) > 1 or data.shape[0] == 1 else grids[0], axes=AX[c["a"]])
                r = ff.axes(AX[c["b"]])
                res.append({"val": out(r.tensor()), "axes": r.axes().value, "stored": st})
            elif k == "axes1":
                f = FlowField(data[0], grids[0], axes=AX[c["a"]])
                r = f.axes(AX[c["b"]])
                res.append({"val": [out(r.tensor())], "axes": r.axes().value, "stored": st})
            elif k == "exp":
                ff = FlowFields(data, grids, axes=AX[c["a"]])
                r = ff.exp(scale=c["scale"], steps=c["steps"])
                res.append({"val": out(r.tensor()), "axes": r.axes().value, "stored": st})
            elif k == "warp":
                ff = FlowFields(data, grids, axes=AX[c["a"]])
                img = ImageBatch(torch.tensor(c["image"], dtype=torch.float64), grids)
                r = ff.warp_image(img)
                res.append({"val": out(r.tensor()), "stored": st})
            elif k == "sample":
                ff = FlowFields(data, grids, axes=AX[c["a"]])
                to = [mk(g) for g in c["to"]]
                r = ff.sample(to if len(to) > 1 else to[0])
                plain = ImageBatch(data, grids).sample(to if len(to) > 1 else to[0])
                res.append({"val": out(r.tensor()), "plain": out(plain.tensor()), "axes": r.axes().value, "stored": st,
                            "stored_to": [G1.stored(g) for g in to], "ngrids": len(r.grids())})
            elif k == "norm_auto":
                # size=None: sizes inferred from the tensor shape, channels last or first
                x = torch.tensor(c["x"], dtype=torch.float64).unsqueeze(0)              # (1, Y, X, 2)
                fn = {"normalize_grid": PS.normalize_grid, "denormalize_grid": PS.denormalize_grid,
                      "normalize_flow": FL.normalize_flow, "denormalize_flow": FL.denormalize_flow}[c["fn"]]
                if c["layout"] == "first":
                    r = fn(x.movedim(-1, 1), align_corners=c["ac"], channels_last=False).movedim(1, -1)
                else:
                    r = fn(x, align_corners=c["ac"], channels_last=True)
                res.append({"val": out(r[0])})
                continue
            elif k == "norm":
                x = torch.tensor(c["x"], dtype=torch.float64).reshape(1, 1, -1, 1)        # one axis with n = len(x) samples
                x = torch.cat([x, x.flip(2)], dim=-1)                                         # second axis of size 1
                fn = {"normalize_grid": PS.normalize_grid, "denormalize_grid": PS.denormalize_grid}.get(c["fn"])
                if fn is not None:
                    r = fn(x, size=(c["n"], c["n"]), align_corners=c["ac"])
                    res.append({"val": out(r[0, 0, :, 0])})
                else:
                    v = torch.tensor(c["x"], dtype=torch.float64).reshape(1, 1, -1, 1).expand(1, 2, len(c["x"]), 1)
                    fn = {"normalize_flow": FL.normalize_flow, "denormalize_flow": FL.denormalize_flow}[c["fn"]]
                    r = fn(v, size=(c["n"], c["n"]), align_corners=c["ac"])
                    res.append({"val": out(r[0, 0, :, 0])})
                continue
            else:
                res.append({"error": "unknown kind"})
        except Exception as e:  # noqa
            res.append(err(e))
    return res


# ------------------------------------------------------------------------------------------------
# the property itself
# ------------------------------------------------------------------------------------------------
def smooth_field(grid, rng, amp):
    """world-space displacement field (D, ..., X) that is smooth and small, as float64"""
    D = grid.ndim
    x = grid.coords(align_corners=True, dtype=torch.float64).movedim(-1, 0)
    ph = [rng.uniform(0, math.pi) for _ in range(D)]
    return torch.stack([amp * torch.sin(1.3 * x[(a + 1) % D] + ph[a]) * torch.cos(0.7 * x[a]) for a in range(D)])


def affine_world(grid, rng, amp):
    D = grid.ndim
    w = grid.points(Axes.WORLD, dtype=torch.float64).movedim(-1, 0)
    c = grid.center().double()
    A = torch.tensor([[rng.uniform(-1, 1) for _ in range(D)] for _ in range(D)], dtype=torch.float64) * amp / float(grid.cube_extent().max())
    t = torch.tensor([rng.uniform(-1, 1) for _ in range(D)], dtype=torch.float64) * amp
    rel = w - c.reshape((D,) + (1,) * D)
    return torch.einsum("ij,j...->i...", A, rel) + t.reshape((D,) + (1,) * D)


def oracle(p):
    rng = random.Random(p["seed"])
    n = p["n"]
    fails, counts = [], {}
    derived_fail = []

    def fail(key, what, case):
        fails.append({"key": key, "what": what, "case": case})

    def count(k):
        counts[k] = counts.get(k, 0) + 1

    for it in range(n):
        D = rng.choice([2, 3])
        N = rng.choice([1, 2, 3])
        shared = rng.random() < 0.4
        base = G1.rand_grid(rng, D, max_n=7)
        gds = []
        for i in range(N):
            g = dict(base) if shared else G1.rand_grid(rng, D, max_n=7)
            g["size"] = base["size"]
            g["align_corners"] = base["align_corners"]
            gds.append(g)
        grids = [mk(g) for g in gds]
        derived = None
        if it % 4 == 3:
            # grids with a FRACTIONAL stored size (Grid.downsample of odd sizes / resampling to a non-dividing spacing)
            derived = rng.choice(["downsample", "resample"])
            try:
                if derived == "downsample":
                    dg = [g.downsample() for g in grids]
                else:
                    f_ = rng.choice([1.5, 1.25, 2.5])
                    dg = [g.resample(tuple(float(s_) * f_ for s_ in g.spacing())) for g in grids]
                if len({tuple(g.shape) for g in dg}) != 1 or min(dg[0].shape) < 2:
                    derived = None
                else:
                    grids = dg
            except AssertionError:
                # Grid._resize self-check (float32 cancellation for large centers): a C03 matter, not exercised here
                counts["derived-grid:AssertionError"] = counts.get("derived-grid:AssertionError", 0) + 1
                derived_fail.append({"how": derived, "grids": gds})
                derived = None
        case = {"D": D, "N": N, "shared": shared, "grids": gds, "derived": derived}
        gshape = tuple(grids[0].shape)
        ext = float(min(float(g.cube_extent().min()) for g in grids))
        amp = 0.08 * ext
        world = torch.stack([(smooth_field(g, rng, amp) if rng.random() < 0.6 else affine_world(g, rng, amp)) for g in grids])
        W = FlowFields(world, grids, axes=Axes.WORLD)
        sc = float(world.abs().max()) + 1e-9
        a, b, c3 = (rng.choice(AXN) for _ in range(3))
        if derived and rng.random() < 0.6:
            a = "CUBE"            # the fractional stored size enters the CUBE -> * vector scaling
        case.update(a=a, b=b, c=c3)
        try:
            FA = W.axes(AX[a])
            FB = FA.axes(AX[b])
            count(f"axes:{a}->{b}" + (":fractional-size" if derived else ""))
            # round trip, path independence, own grid's vector map
            back = FB.axes(AX[a])
            d = float((back.tensor() - FA.tensor()).abs().max()) / (float(FA.tensor().abs().max()) + 1e-9)
            if not d <= 2e-5:
                fail(f"C10:FlowFields.axes:roundtrip:{a}->{b}", f"axes({b}) then axes({a}) changes the vectors by {d:.3g} (relative)", case)
            via = FB.axes(AX[c3]).tensor()
            direct = FA.axes(AX[c3]).tensor()
            d = float((via - direct).abs().max()) / (float(direct.abs().max()) + 1e-9)
            if not d <= 2e-5:
                fail(f"C10:FlowFields.axes:path:{a}->{b}->{c3}", f"{a}->{b}->{c3} differs from {a}->{c3} by {d:.3g} (relative)", case)
            for i, g in enumerate(grids):
                v = FA.tensor()[i].movedim(0, -1)
                x0 = torch.tensor([rng.uniform(-1, 1) for _ in range(D)], dtype=torch.float64)
                if a == "GRID":
                    x0 = x0 * 3
                elif a == "WORLD":
                    x0 = g.center().double() + x0
                p1 = g.transform_points(x0 + v, axes=AX[a], to_axes=AX[b], decimals=None)
                p0 = g.transform_points(x0.expand_as(v), axes=AX[a], to_axes=AX[b], decimals=None)
                want = (p1 - p0).movedim(-1, 0)
                d = float((FB.tensor()[i] - want).abs().max()) / (float(want.abs().max()) + 1e-9)
                if not d <= 5e-4:
                    fail(f"C10:FlowFields.axes:grid-vector-map:{a}->{b}", f"item {i}: converted vectors differ from the difference of the grid's "
                                                                           f"point map by {d:.3g} (relative)", case)
                # single-field API
                f1 = FlowField(FA.tensor()[i], g, axes=AX[a]).axes(AX[b])
                if not float((f1.tensor() - FB.tensor()[i]).abs().max()) <= 1e-12 or f1.axes() is not AX[b]:
                    fail("C10:FlowField.axes:differs-from-batch", "FlowField.axes differs from FlowFields.axes on the same item", case)
            if FB.axes() is not AX[b]:
                fail("C10:FlowFields.axes:label", "returned batch is not labelled with the target axes", case)
        except Exception as e:  # noqa
            fail(f"C10:FlowFields.axes:raises:{a}->{b}", f"raised {type(e).__name__}: {str(e)[:150]}", case)
            continue

        # append / from_images of fields given in different representations: same world-space vectors item by item
        try:
            WB = W.axes(AX[b])
            count("append")
            cat = FA.append(WB)
            if cat.axes() is not AX[a] or len(cat) != 2 * N:
                fail(f"C10:FlowFields.append:label:{a}<-{b}", f"append of a {b} batch to a {a} batch is labelled {cat.axes()} with {len(cat)} items", case)
            d = float((cat.axes(Axes.WORLD).tensor() - torch.cat([world, world])).abs().max())
            if not d <= 3e-4 * sc:
                fail(f"C10:FlowFields.append:repr-dependent:{a}<-{b}",
                     f"a.append(b) with a in {a} and b in {b} axes (same world-space fields): world vectors of the result differ by {d:.3g} "
                     f"(amplitude {sc:.3g})", case)
            fields = [FlowField(FA.tensor()[0], grids[0], axes=AX[a]), FlowField(WB.tensor()[N - 1], grids[N - 1], axes=AX[b])]
            fi = FlowFields.from_images(fields)
            count("from_images")
            d = float((fi.axes(Axes.WORLD).tensor() - torch.stack([world[0], world[N - 1]])).abs().max())
            if not d <= 3e-4 * sc:
                fail(f"C10:FlowFields.from_images:repr-dependent:{a},{b}",
                     f"from_images of one field in {a} and one in {b} axes: world vectors of the batch differ by {d:.3g} (amplitude {sc:.3g})", case)
        except Exception as e:  # noqa
            fail(f"C10:FlowFields.append:raises:{a}<-{b}", f"raised {type(e).__name__}: {str(e)[:150]}", case)

        # exp: same world-space result regardless of the representation
        if it % 2 == 0:
            try:
                steps = rng.choice([0, 1, 3, 5])
                ref = W.axes(Axes.CUBE).exp(steps=steps).axes(Axes.WORLD).tensor()
                count(f"exp:{a}")
                got = FA.exp(steps=steps)
                if got.axes() is not AX[a]:
                    fail("C10:FlowFields.exp:label", "exp does not restore the axes label", case)
                gw = got.axes(Axes.WORLD).tensor()
                d = float((gw - ref).abs().max())
                # the two cube conventions differ only by rounding; float32 grid attributes bound the accuracy
                if not d <= 2e-4 * sc:
                    key = f"C10:FlowFields.exp:unconverted-tensor:{a}" if a in ("WORLD", "GRID") else f"C10:FlowFields.exp:repr-dependent:{a}"
                    fail(key, f"exp(steps={steps}) of the same world-space field given w.r.t. {a} differs in world space by {d:.3g} from the "
                              f"result for CUBE axes (field amplitude {sc:.3g})", dict(case, steps=steps))
                f1 = FlowField(FA.tensor()[0], grids[0], axes=AX[a]).exp(steps=steps)
                if not float((f1.tensor() - got.tensor()[0]).abs().max()) <= 1e-12:
                    fail("C10:FlowField.exp:differs-from-batch", "FlowField.exp differs from FlowFields.exp on the same item", case)
            except Exception as e:  # noqa
                fail(f"C10:FlowFields.exp:raises:{a}", f"raised {type(e).__name__}: {str(e)[:150]}", case)

        # warp_image: same warped image regardless of the representation
        if it % 2 == 1:
            try:
                img = ImageBatch(torch.rand((N, 1) + gshape, dtype=torch.float64,
                                            generator=torch.Generator().manual_seed(rng.randrange(10 ** 6))), grids)
                ref = W.axes(Axes.CUBE).warp_image(img).tensor()
                got = FA.warp_image(img).tensor()
                count(f"warp:{a}")
                d = float((got - ref).abs().max())
                if not d <= 5e-4:
                    fail(f"C10:FlowFields.warp_image:repr-dependent:{a}", f"warped image for {a} vectors differs from CUBE vectors by {d:.3g}", case)
                one = FlowField(FA.tensor()[0], grids[0], axes=AX[a]).warp_image(img[0]).tensor()
                if not float((one - got[0]).abs().max()) <= 1e-12:
                    fail("C10:FlowField.warp_image:differs-from-batch", "FlowField.warp_image differs from the batch result", case)
            except Exception as e:  # noqa
                fail(f"C10:FlowFields.warp_image:raises:{a}", f"raised {type(e).__name__}: {str(e)[:150]}", case)

        # sample on other grids (one per item): vectors follow the grid change; world-space field is what was sampled
        if it % 3 == 0:
            try:
                to = []
                tsize = [max(2, s_ + rng.choice([-1, 0, 1, 2])) for s_ in reversed(gshape)]
                for g in gds:
                    t = dict(g)
                    t["size"] = tsize
                    t["spacing"] = [s_ * rng.choice([0.5, 1, 1.5]) for s_ in g["spacing"]]
                    to.append(t)
                tg = [mk(t) for t in to]
                SA = FA.sample(tg)
                SW = W.sample(tg)
                count(f"sample:{a}")
                d = float((SA.axes(Axes.WORLD).tensor() - SW.tensor()).abs().max())
                if not d <= 3e-4 * sc:
                    fail(f"C10:FlowFields.sample:repr-dependent:{a}", f"sampling {a} vectors on new grids and converting to world differs from "
                                                                       f"sampling the world vectors by {d:.3g} (amplitude {sc:.3g})", dict(case, to=to))
                if SA.axes() is not AX[a]:
                    fail("C10:FlowFields.sample:label", "sample changes the axes label", case)
            except Exception as e:  # noqa
                fail(f"C10:FlowFields.sample:raises:{a}", f"raised {type(e).__name__}: {str(e)[:150]}", dict(case))

    # normalize_flow / denormalize_flow and normalize_grid / denormalize_grid
    for it in range(max(8, n // 4)):
        D = rng.choice([2, 3])
        shape = tuple(rng.randint(2, 7) for _ in range(D))
        ac = rng.random() < 0.5
        g = Grid(shape=shape, align_corners=ac)
        cube = Axes.from_align_corners(ac)
        v = torch.rand((2, D) + shape, dtype=torch.float64, generator=torch.Generator().manual_seed(rng.randrange(10 ** 6))) - 0.5
        case = {"D": D, "shape": list(shape), "ac": ac}
        try:
            count("normalize_flow")
            nv = FL.normalize_flow(v, align_corners=ac)
            want = g.transform_vectors(v.movedim(1, -1), axes=Axes.GRID, to_axes=cube).movedim(-1, 1)
            d1 = float((nv - want).abs().max())
            d2 = float((FL.denormalize_flow(nv, align_corners=ac) - v).abs().max())
            if not d1 <= 1e-6:
                fail(f"C10:normalize_flow:grid-vector-map:align_corners={ac}", f"normalize_flow differs from Grid.transform_vectors(GRID -> {cube.value}) by {d1:.3g}", case)
            if not d2 <= 1e-12:
                fail(f"C10:denormalize_flow:roundtrip:align_corners={ac}", f"denormalize_flow(normalize_flow(v)) differs from v by {d2:.3g}", case)
            cl = FL.normalize_flow(v.movedim(1, -1), size=tuple(reversed(shape)), align_corners=ac, channels_last=True).movedim(-1, 1)
            if not float((cl - nv).abs().max()) <= 1e-12:
                fail("C10:normalize_flow:channels_last", "channels_last=True gives different vectors", case)
        except Exception as e:  # noqa
            fail("C10:normalize_flow:raises", f"raised {type(e).__name__}: {str(e)[:150]}", case)
        try:
            count("normalize_grid")
            idx = g.coords(normalize=False, dtype=torch.float64).unsqueeze(0)
            ng = PS.normalize_grid(idx, align_corners=ac)
            want = g.transform_points(idx, axes=Axes.GRID, to_axes=cube, decimals=None)
            d1 = float((ng - want).abs().max())
            d2 = float((PS.denormalize_grid(ng, align_corners=ac) - idx).abs().max())
            if not d2 <= 1e-12:
                fail(f"C10:denormalize_grid:roundtrip:align_corners={ac}", f"denormalize_grid(normalize_grid(x)) differs from x by {d2:.3g}", case)
            if not d1 <= 1e-6:
                fail(f"C10:normalize_grid:grid-point-map:align_corners={ac}",
                     f"normalize_grid(sample indices, align_corners={ac}) differs from the grid's GRID -> {cube.value} point map "
                     f"(= Grid.coords) by {d1:.3g} (1/n = half a sample)", case)
        except Exception as e:  # noqa
            fail("C10:normalize_grid:raises", f"raised {type(e).__name__}: {str(e)[:150]}", case)

    # world axes on file / SimpleITK output
    try:
        import SimpleITK as sitk  # noqa
        for it in range(3):
            D = rng.choice([2, 3])
            gd = G1.rand_grid(rng, D, max_n=5)
            g = mk(gd)
            a = rng.choice(AXN)
            W = FlowField(smooth_field(g, rng, 0.1 * float(g.cube_extent().min())), g, axes=Axes.WORLD)
            FA = W.axes(AX[a])
            im = FA.sitk()
            count("sitk-world-axes")
            arr = torch.from_numpy(sitk.GetArrayFromImage(im)).double().movedim(-1, 0)
            d = float((arr - W.tensor()).abs().max())
            if not d <= 1e-4 * (float(W.tensor().abs().max()) + 1e-9) + 1e-6:
                fail(f"C10:FlowField.sitk:world-axes:{a}", f"sitk() of a field given w.r.t. {a} does not hold the world-space vectors (diff {d:.3g})", {"grid": gd})
            # explicit axes: sitk(axes=X) stores X vectors, from_sitk(image, axes=X) reads them back as X vectors
            xax = rng.choice(AXN)
            back = FlowField.from_sitk(FA.sitk(axes=AX[xax]), axes=AX[xax], align_corners=g.align_corners())
            count("sitk-explicit-axes-roundtrip")
            d = float((back.axes(Axes.WORLD).tensor() - W.tensor()).abs().max())
            if back.axes() is not AX[xax] or not d <= 2e-4 * (float(W.tensor().abs().max()) + 1e-9) + 1e-6:
                fail(f"C10:FlowField.sitk:explicit-axes-roundtrip:{xax}",
                     f"from_sitk(sitk(axes={xax}), axes={xax}) does not give back the field (world diff {d:.3g})", {"grid": gd})
    except ImportError:
        pass
    return {"fails": fails, "counts": counts, "derived_fail": derived_fail[:2]}


if __name__ == "__main__":
    payload = json.load(sys.stdin)
    fn_ = {"model_cases": model_cases, "oracle": oracle}[payload["fn"]]
    emit_json(fn_(payload))
