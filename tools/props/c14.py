"""C14 -- cubic B-spline evaluation, derivatives and subdivision are exact."""
import math

import vlib
from vlib import Violation, qc, coq_list

ID = "C14"
GEN_UNITS = ["BSpline"]
PROPS_FILE = "Props/C14.v"
PROPS_MOD = "Props.C14"
COQ_TARGETS = ["Props/C14.vo"]
SOURCES = ["deepali/core/bspline.py", "deepali/core/kernels.py", "deepali/spatial/bspline.py", "deepali/core/image.py"]
TRUSTED = [
    "Coq 8.16.1 kernel + vm_compute",
    "translator: tools/symtorch.py semantics of the traced torch subset incl. F.conv{1,2,3}d / F.pad (validated against torch "
    "when written; the generated definitions are run against the real functions by this run's correspondence)",
    "modelled not verified: F.conv_transpose1d (gather form), grouped F.conv{1,2,3}d + reshape/transpose/flatten for D > 1 "
    "(closed form checked symbolically by the translator on small sizes, numerically here), torch.arange(0, 1, 1/s) "
    "(read as o/s exactly; float rounding of the offsets and of the float32 kernel of cubic_bspline1d is outside the model)",
]
ASSUMPTIONS = [
    "float literals are read as the simplest rational with the same double (1/6, 2/3, ...)",
    "batch items and channels are processed independently (each (n, c) slice is compared with the model separately)",
    "spatial_derivatives(mode='bspline'): 'spacing' is the spacing of the coefficient (control point) grid",
]
TOL64 = "1 # 1000000000"
TOL32 = "1 # 20000"


def dy(rng, bits=3, lo=-4, hi=4):
    return rng.randint(lo * 2 ** bits, hi * 2 ** bits) / 2 ** bits


def nest(x):
    """Coq nested list of Qc literals"""
    if isinstance(x, (list, tuple)):
        return coq_list([nest(v) for v in x])
    return qc(float(x))


def rand_tensor(rng, shape, bits=3):
    if not shape:
        return dy(rng, bits)
    return [rand_tensor(rng, shape[1:], bits) for _ in range(shape[0])]


def ctrl(m, s):
    return m // s + 3 + (0 if m % s == 0 else 1)


PREAMBLE = """From Coq Require Import ZArith QArith Qcanon List String Bool.
From DV Require Import Base.Field Base.LinAlg Base.QcInst Model.BSplineBase Gen.BSpline Model.BSpline.
Import ListNotations.
Definition tol : Q := %s.
Definition tol32 : Q := %s.
Fixpoint tclose (t : Q) (a b : list (list (list Qc))) : bool :=
  match a, b with
  | [], [] => true
  | x :: a', y :: b' => mclose t x y && tclose t a' b'
  | _, _ => false
  end.
Definition sc1 (d : Qc) (v : list Qc) := map (fun x => Qcdiv x d) v.
Definition sc2 (d : Qc) (v : list (list Qc)) := map (sc1 d) v.
Definition sc3 (d : Qc) (v : list (list (list Qc))) := map (sc2 d) v.
""" % (TOL64, TOL32)


def gen_cases(ctx):
    rng = ctx.rng
    n = ctx.n(110, 900)
    cases = []
    # exhaustive small tables first
    for s in range(1, 17):
        for d in range(0, 5):
            if ctx.thorough() or (s + d) % 3 == 0 or s <= 3:
                cases.append({"kind": "weights", "s": s, "d": d})
    for s in ([1, 2, 3, 5, 8, 16] if not ctx.thorough() else range(1, 17)):
        cases.append({"kind": "kernel1d", "s": s})
    for x in [-2.5, -2.0, -1.5, -1.0, -0.5, 0.0, 0.25, 1.0, 1.75, 2.0, 3.0]:
        for d in (0, 1, 2, 3):
            cases.append({"kind": "bvalue", "x": x, "d": d})
    for _ in range(ctx.n(12, 120)):
        cases.append({"kind": "bvalue", "x": dy(rng, 6, -3, 3), "d": rng.choice([0, 1, 2, 3])})
    for _ in range(ctx.n(8, 60)):
        D = rng.choice([1, 2, 3])
        cases.append({"kind": "kernelnd", "D": D, "stride": [rng.randint(1, 4 if D < 3 else 3) for _ in range(D)] if rng.random() < 0.8 else rng.randint(1, 3),
                      "d": rng.choice([0, 0, 1, 2, 3])})
    for _ in range(ctx.n(25, 300)):
        if rng.random() < 0.6:
            cases.append({"kind": "ctrl", "m": rng.randint(1, 300), "s": rng.randint(1, 16)})
        else:
            D = rng.choice([2, 3])
            cases.append({"kind": "ctrl", "m": [rng.randint(1, 300) for _ in range(D)], "s": [rng.randint(1, 16) for _ in range(D)]})
    for _ in range(ctx.n(12, 100)):
        D = rng.choice([1, 2, 3]) if False else rng.choice([2, 3])
        ms = [rng.randint(1, 40) for _ in range(D)]
        ss = [rng.randint(1, 16) for _ in range(D)]
        nn = [ctrl(a, b) for a, b in zip(ms, ss)]
        cases.append({"kind": "ctrlgrid", "D": D, "size": ms, "stride": ss if rng.random() < 0.8 else [ss[0]] * D,
                      "seq": rng.random() < 0.5, "spacing": [rng.choice([0.5, 1.0, 2.0, 0.25]) for _ in range(D)],
                      "center": [rng.choice([0.0, 1.0, -2.5]) for _ in range(D)],
                      "ks": [[rng.randint(0, k - 1) for k in nn] for _ in range(3)] + [[0] * D, [k - 1 for k in nn]]})
    for i in range(n):
        kind = ["eval", "eval", "eval", "subdiv", "ffd", "sderiv"][i % 6]
        if kind == "eval":
            D = [1, 2, 3][(i // 6) % 3]
            ms = [rng.randint(1, {1: 24, 2: 8, 3: 4}[D]) for _ in range(D)]
            ss = [rng.randint(1, {1: 16, 2: 6, 3: 3}[D]) for _ in range(D)]
            nn = [ctrl(a, b) for a, b in zip(ms, ss)]
            tr = rng.random() < 0.35
            der = [0] * D if tr or rng.random() < 0.4 else [rng.choice([0, 1, 2, 3]) for _ in range(D)]
            N, C = rng.choice([(1, 1), (2, 1), (1, 2)])
            crop = tr or rng.random() < 0.8  # the transposed algorithm is modelled with its crop [s, s + m)
            c = {"kind": "eval", "D": D, "ms": ms, "stride": ss, "derivative": der, "transpose": tr,
                 "data": rand_tensor(rng, [N, C] + list(reversed(nn)))}
            if crop:
                if rng.random() < 0.5:
                    c["size"] = ms
                else:
                    c["shape"] = list(reversed(ms))
            else:
                c["ms"] = [(k - 3) * s_ for k, s_ in zip(nn, ss)]
            cases.append(c)
        elif kind == "subdiv":
            D = rng.choice([1, 2, 2, 3])
            nn = [rng.randint(2, 9 if D == 1 else (6 if D == 2 else 4)) for _ in range(D)]
            dims = None if rng.random() < 0.4 else sorted(rng.sample(range(D), rng.randint(1, D)))
            cases.append({"kind": "subdiv", "D": D, "nn": nn, "dims": dims, "data": rand_tensor(rng, [1, 1] + list(reversed(nn)))})
        elif kind == "ffd":
            D = rng.choice([2, 2, 3])
            ms = [rng.randint(2, 7 if D == 2 else 4) for _ in range(D)]
            ss = [rng.randint(1, 4 if D == 2 else 3) for _ in range(D)]
            nn = [ctrl(a, b) for a, b in zip(ms, ss)]
            which = [rng.random() < 0.6 for _ in range(D)]
            c = {"kind": "ffd", "D": D, "size": ms, "stride": ss, "spacing": [rng.choice([0.5, 1.0, 2.0]) for _ in range(D)],
                 "transpose": rng.random() < 0.3, "params": rand_tensor(rng, [1, D] + list(reversed(nn)), bits=2)}
            if any(which):
                c["refine"] = [2 * m - 1 if w else m for m, w in zip(ms, which)]
                c["which"] = which
            cases.append(c)
        else:
            D = rng.choice([2, 3])
            nn = [rng.randint(4, 6 if D == 2 else 5) for _ in range(D)]
            ss = [rng.randint(1, 3) for _ in range(D)]
            N = rng.choice([1, 2])
            letters = "xyz"[:D]
            keys = [a for a in letters] + [a + b for a in letters for b in letters]
            keys3 = [a + b + c_ for a in letters for b in letters for c_ in letters]  # total order 3, mixed ones included
            which = rng.sample(keys, rng.randint(1, 2)) + rng.sample(keys3, 1)
            form = rng.randrange(4)
            spv = [[rng.choice([0.5, 1.0, 2.0, 0.25]) for _ in range(D)] for _ in range(N)]
            if form == 0:
                spacing, spv = None, [[1.0] * D] * N
            elif form == 1:
                spacing, spv = spv[0][0], [[spv[0][0]] * D] * N
            elif form == 2:
                spacing, spv = list(spv[0]), [spv[0]] * N
            else:
                spacing = [list(r) for r in spv]
            cases.append({"kind": "sderiv", "D": D, "nn": nn, "stride": ss, "which": which, "spacing": spacing, "spv": spv,
                          "data": rand_tensor(rng, [N, 1] + list(reversed(nn)))})
    return cases


def ev_term(D, der, ss, data, ms, transpose=False):
    """model term for one (n, c) slice `data` (nested lists in tensor order); der/ss/ms in (x, y, z) order"""
    if transpose:
        fn = {1: "evT1", 2: "evT2", 3: "evT3"}[D]
        return f"({fn} (K:=QcF) {' '.join(map(str, ss))} {nest(data)} {' '.join(map(str, ms))})"
    fn = {1: "ev1", 2: "ev2", 3: "ev3"}[D]
    return f"({fn} (K:=QcF) {' '.join(map(str, der))} {' '.join(map(str, ss))} {nest(data)} {' '.join(map(str, ms))})"


CLOSE = {1: "vclose", 2: "mclose", 3: "tclose"}
ALONG1 = "(fun f c => f c)"


def case_terms(c, r):
    """list of Coq boolean terms for one case (None entries = structural mismatch found in Python)"""
    k = c["kind"]
    if k == "weights":
        return [f"mclose tol (map (fun o => wrow (K:=QcF) {c['d']} {c['s']} o) (seq 0 {c['s']})) {nest(r['val'])}"]
    if k == "kernel1d":
        s = c["s"]
        return [f"vclose tol32 (map (fun i => kerT (K:=QcF) {s} (Z.of_nat i)) (seq 0 {4 * s - 1})) {nest(r['val'])}"]
    if k == "kernelnd":
        D = c["D"]
        ss = [c["stride"]] * D if isinstance(c["stride"], int) else c["stride"]  # (sx, sy, sz)
        d = c["d"]
        if r["shape"] != [4 * s_ - 1 for s_ in reversed(ss)]:
            return [None]
        kv = lambda s_, i: (f"(let z := (Z.of_nat {i} - {(4 * s_ - 1) // 2})%Z in "
                            f"gen_B{d} (K:=QcF) (piece_of_Z z {s_}) (Qcdiv (Q2Qc (inject_Z z)) (q {s_} 1)))")
        if D == 1:
            t = coq_list([kv(ss[0], i) for i in range(4 * ss[0] - 1)])
            return [f"vclose tol32 {t} {nest(r['val'])}"]
        if D == 2:
            t = coq_list([coq_list([f"Qcmult {kv(ss[1], j)} {kv(ss[0], i)}" for i in range(4 * ss[0] - 1)]) for j in range(4 * ss[1] - 1)])
            return [f"mclose tol32 {t} {nest(r['val'])}"]
        t = coq_list([coq_list([coq_list([f"Qcmult (Qcmult {kv(ss[2], k_)} {kv(ss[1], j)}) {kv(ss[0], i)}" for i in range(4 * ss[0] - 1)])
                                for j in range(4 * ss[1] - 1)]) for k_ in range(4 * ss[2] - 1)])
        return [f"tclose tol32 {t} {nest(r['val'])}"]
    if k == "bvalue":
        from fractions import Fraction
        fr = Fraction(c["x"])
        return [f"qclose tol (gen_B{c['d']} (K:=QcF) (piece_of_Z ({fr.numerator}) {fr.denominator}) {qc(c['x'])}) {qc(r['val'])}"]
    if k == "ctrl":
        if isinstance(c["m"], list):
            if r["scalar"] or len(r["val"]) != len(c["m"]):
                return [None]
            return [f"Z.eqb (gen_ctrl_size {m} {s}) {v}" for m, s, v in zip(c["m"], c["s"], r["val"])]
        if not r["scalar"]:
            return [None]
        return [f"Z.eqb (gen_ctrl_size {c['m']} {c['s']}) {r['val']}"]
    if k == "ctrlgrid":
        ss = c["stride"]
        nn = [ctrl(a, b) for a, b in zip(c["size"], ss)]
        if r["size"] != nn:
            return [None]
        out = []
        for kk, idx in zip(c["ks"], r["index"]):
            # control point k along an axis with origin 0 and spacing 1 (image index units): gen_ctrl_origin 0 1 s + gen_ctrl_spacing 1 s * k
            want = coq_list([f"(Qcplus (gen_ctrl_origin (K:=QcF) (q 0 1) (q 1 1) (q {s_} 1)) (Qcmult (gen_ctrl_spacing (K:=QcF) (q 1 1) (q {s_} 1)) (q {k_} 1)))"
                             for s_, k_ in zip(ss, kk)])
            out.append(f"vclose tol32 {want} {nest(idx)}")
        return out
    if k == "eval":
        D = c["D"]
        out = []
        want_shape = list(reversed(c["ms"]))
        if r["shape"][2:] != want_shape:
            return [None]
        tol = "tol32" if c["transpose"] else "tol"
        for b in range(len(c["data"])):
            for ch in range(len(c["data"][0])):
                t = ev_term(D, c["derivative"], c["stride"], c["data"][b][ch], c["ms"], c["transpose"])
                out.append(f"{CLOSE[D]} {tol} {t} {nest(r['val'][b][ch])}")
                if D in (2, 3) and not c["transpose"] and all(m_ >= 1 for m_ in c["ms"]):
                    out.append(f"{CLOSE[D]} tol (eval_mirtk{D} (K:=QcF) {' '.join(map(str, c['derivative']))} {' '.join(map(str, c['stride']))} "
                               f"{nest(c['data'][b][ch])} {' '.join(map(str, c['ms']))}) {nest(r['val'][b][ch])}")
                if D == 1 and not c["transpose"]:
                    out.append(f"vclose tol (eval_mirtk1 (K:=QcF) {c['derivative'][0]} {c['stride'][0]} {nest(c['data'][b][ch])} {c['ms'][0]}) "
                               f"{nest(r['val'][b][ch])}")
        return out
    if k == "subdiv":
        D = c["D"]
        dims = list(range(D)) if c["dims"] is None else c["dims"]
        t = nest(c["data"][0][0])
        for d_ in dims:  # spatial dim 0 = x
            ax = "xyz"[d_]
            t = f"(subdiv1 (K:=QcF) {t})" if D == 1 else f"(along_{ax}{D} (subdiv1 (K:=QcF)) {t})"
        return [f"{CLOSE[D]} tol {t} {nest(r['val'][0][0])}"]
    if k == "ffd":
        D = c["D"]
        nn = [ctrl(a, b) for a, b in zip(c["size"], c["stride"])]
        out = []
        if r["data_shape"] != [D] + list(reversed(nn)) or r["u_shape"] != [1, D] + list(reversed(c["size"])):
            return [None]
        for ch in range(D):
            t = ev_term(D, [0] * D, c["stride"], c["params"][0][ch], c["size"], c["transpose"])
            out.append(f"{CLOSE[D]} tol32 {t} {nest(r['u'][0][ch])}")
        if c.get("refine") is not None:
            n2 = [ctrl(a, b) for a, b in zip(c["refine"], c["stride"])]
            if r["new_shape"] != [1, D] + list(reversed(n2)) or r["u2_shape"] != [1, D] + list(reversed(c["refine"])) or not r["same_domain"]:
                return out + [None]
            for ch in range(D):
                t = nest(c["params"][0][ch])
                for d_ in range(D):
                    if c["which"][d_]:
                        t = f"(along_{'xyz'[d_]}{D} (refine1 (K:=QcF) {c['stride'][d_]} {c['size'][d_]}) {t})"
                out.append(f"{CLOSE[D]} tol32 {t} {nest(r['new_params'][0][ch])}")
                fn = {2: "evT2", 3: "evT3"}[D] if c["transpose"] else {2: "ev2", 3: "ev3"}[D]
                zeros = "" if c["transpose"] else " ".join(["0"] * D) + " "
                out.append(f"{CLOSE[D]} tol32 ({fn} (K:=QcF) {zeros}{' '.join(map(str, c['stride']))} {t} {' '.join(map(str, c['refine']))}) "
                           f"{nest(r['u2'][0][ch])}")
        return out
    if k == "sderiv":
        D = c["D"]
        out = []
        ms = [(k_ - 3) * s_ for k_, s_ in zip(c["nn"], c["stride"])]
        for key in c["which"]:
            if key not in r["val"]:
                return [None]
            der = [key.count("xyz"[ax]) for ax in range(D)]
            if r["shape"][key][2:] != list(reversed(ms)):
                return [None]
            for b in range(len(c["data"])):
                den = 1.0
                for ax in range(D):
                    den *= c["spv"][b][ax] ** der[ax]
                hs = " ".join(qc(v) for v in c["spv"][b])
                t = (f"(bsd{D} (K:=QcF) {' '.join(map(str, der))} {' '.join(map(str, c['stride']))} {hs} {nest(c['data'][b][0])} "
                     f"{' '.join(map(str, ms))})")
                out.append(f"{CLOSE[D]} tol {t} {nest(r['val'][key][b][0])}")
        return out
    raise ValueError(k)


def tag_of(c):
    k = c["kind"]
    if k == "eval":
        return f"eval:D{c['D']}:{'transpose' if c['transpose'] else 'default'}:{'deriv' if any(c['derivative']) else 'value'}"
    if k in ("subdiv", "ffd", "sderiv", "ctrlgrid", "kernelnd"):
        return f"{k}:D{c['D']}" + (":refine" if c.get("refine") else "")
    return k


def correspondence(ctx):
    cases = gen_cases(ctx)
    res = vlib.run_impl("c14_impl", {"fn": "model_cases", "cases": cases})
    failures = []
    dist = {}
    terms = []  # (case index, term)
    for i, (c, r) in enumerate(zip(cases, res)):
        dist[tag_of(c)] = dist.get(tag_of(c), 0) + 1
        if "error" in r:
            failures.append({"case": small(c), "impl": r, "why": "implementation raised where the model is defined"})
            continue
        for t in case_terms(c, r):
            if t is None:
                failures.append({"case": small(c), "impl": {k: v for k, v in r.items() if "shape" in k or k in ("scalar", "keys")},
                                 "why": "shape / structure of the implementation's result differs from the model"})
            else:
                terms.append((i, t))
    shard = 250
    n_eval = 0
    for a in range(0, len(terms), shard):
        part = terms[a:a + shard]
        lines = [PREAMBLE]
        for j, (_, t) in enumerate(part):
            lines.append(f"Definition c{j} : bool := {t}.")
        lines.append("Definition results : list bool := " + coq_list([f"c{j}" for j in range(len(part))]) + ".")
        lines.append('Eval vm_compute in ("FAIL"%string, failing results).')
        rc, out = vlib.coqc_text("\n".join(lines) + "\n", ctx.scratch, f"cases_c14_{a // shard}")
        bad = vlib.parse_nat_list(out, "FAIL")
        if rc != 0 or bad is None:
            failures.append({"why": "case file did not evaluate (generated definitions missing or ill-typed)", "coq": out[-800:]})
            continue
        n_eval += len(part)
        for j in bad:
            i = part[j][0]
            failures.append({"case": small(cases[i]), "why": "model value differs from implementation", "term": part[j][1][:200]})
    samples = [{"case": small(cases[i]), "impl": str(res[i])[:300]} for i in (0, len(cases) // 2, len(cases) - 1)]
    return {"evaluations": n_eval, "distinct_nontrivial": len({str(c) for c in cases}),
            "rule": "weights: every stride 1..16 x derivative 0..4 (thorough; a third of them quick); cubic_bspline1d kernels; "
                    "cubic_bspline_value at knots, mid-points and random dyadic points; control grid sizes (scalar and sequence forms); "
                    "control grid placement (image index of control points, anisotropic spacing, shifted centre); "
                    "evaluate_cubic_bspline for D=1..3, random image sizes / strides (mostly non-divisible), derivative orders 0..3, "
                    "both algorithms, cropped by size= / shape= / not at all, N x C in {1x1, 2x1, 1x2}, random dyadic coefficients; "
                    "subdivide_cubic_bspline along random axis subsets; FreeFormDeformation update().u and grid_(finer) params + u; "
                    "spatial_derivatives(mode='bspline') for random key subsets and all four spacing forms. evaluations = boolean "
                    "comparisons done inside Coq (one per (n, c) slice / key); distinct by full input; every case is non-trivial "
                    "(random non-zero coefficients)",
            "samples": samples, "failures": failures, "distribution": dist,
            "tolerances": {"float64 paths": "1e-9 absolute", "float32 paths (cubic_bspline1d kernel, FreeFormDeformation)": "5e-5 absolute",
                           "sizes / shapes": "exact"}}


def small(c):
    d = dict(c)
    for k in ("data", "params"):
        if k in d:
            d[k] = "<%s>" % k
    return d


def search(ctx, broken, corr_failures):
    n = ctx.n(45, 400)
    r = vlib.run_impl("c14_impl", {"fn": "oracle", "seed": ctx.seed, "n": n}, timeout=1500)
    ctx.notes.append(f"implementation-side property evaluation: {r['counts']}")
    out = []
    seen = set()
    for f in r["fails"]:
        if f["key"] in seen:
            continue
        seen.add(f["key"])
        out.append(Violation(key=f["key"], what=f["what"], replay={"oracle": "c14", "seed": ctx.seed, "n": n, "failure": f}))
    return out


def explains(broken_item, found):
    """a concrete failing input explains a broken obligation when it is about the same source function; the lemma name
    (proof obligations read 'Proofs/File.v:line lemma: message') is matched first, the whole text otherwise"""
    import re
    known, _ = vlib.load_findings()  # a known finding never explains a newly broken obligation
    keys = " ".join(v.key for v in found if v.key not in known).lower()
    m = re.search(r"\.v:\d+ ([A-Za-z0-9_']+):", broken_item)
    if not m or "was not found in the current environment" in broken_item:
        # (a missing generated definition is a consequence of a translator unit that failed closed)
        # translator unit / correspondence / build items name no lemma: any new concrete failing input explains them
        return any(v.key not in known for v in found)
    b = m.group(1).lower()
    table = [(("gen_b", "bspec", "bw0", "bw1", "bw2", "bw3", "kert", "kernel1d", "transpose", "algorithms", "evt"),
              ("cubic_bspline_value", "algorithms-disagree", "transpose=true")),
             (("ctrl", "control", "covers", "refine_size"), ("control_point_grid",)),
             (("two_scale", "stencil", "subdiv", "refine", "grid_"), ("subdivide", "grid_")),
             (("gen_w", "weights", "basis", "partition", "precision", "polynomial", "moment", "spl_affine", "ffd_affine"),
              ("interpolation_weights", "evaluate_cubic_bspline", "update")),
             (("ev1", "ev2", "ev3", "eval", "mirtk", "ffd", "sderiv", "bspline.py", "translator unit", "correspondence"),
              ("evaluate_cubic_bspline", "update", "spatial_derivatives", "interpolation_weights", "subdivide", "control_point_grid", "grid_",
               "cubic_bspline_value"))]
    for bs, ks in table:
        if any(x in b for x in bs):
            return any(x.lower() in keys for x in ks)
    return any(v.key not in known for v in found)


def replay(ctx, data):
    f = data.get("failure") or {}
    r = vlib.run_impl("c14_impl", {"fn": "oracle", "seed": data.get("seed", ctx.seed), "n": data.get("n", 45)}, timeout=1500)
    for g in r["fails"]:
        if g["key"] == f.get("key"):
            return g["what"]
    return None


MANIFEST_ENTRY = {
    "text": "Theorems (Coq, over every field of characteristic 0, closed under the global context): the weight polynomials "
            "traced from cubic_bspline_interpolation_weights for derivative orders 0..3 (and the zero weights beyond) are the "
            "analytic cubic B-spline basis B^(d)(t+1), B^(d)(t), B^(d)(t-1), B^(d)(t-2) (B given by truncated powers; C^2, symmetric); "
            "cubic_bspline_value's pieces are that B, B', B''; partition of unity, derivative weights sum to 0, linear precision; the "
            "formal derivative of the order-d weights is the order-(d+1) weights (and the real derivative, over R); affine coefficients "
            "are reproduced at every sample for all image sizes and strides in D = 1, 2, 3 with derivative modes returning the slope; "
            "every derivative order evaluates the tensor product of analytic basis derivatives; grouped-convolution + reshuffle passes "
            "equal the tensor-product closed form (1-D, 2-D and 3-D, all sizes); the transposed-"
            "convolution algorithm equals the default one (D = 1, 2, 3, all sizes / strides); the control grid covers every sample "
            "and is minimal (all m, s >= 1) and control point k lies at image index (k-1)*stride (origin / spacing traced from "
            "cubic_bspline_control_point_grid); the subdivision stencils satisfy the two-scale relation and subdivision / FFD grid "
            "refinement preserves the spline (direct subdivision: every cell, both halves, D = 1, 2, 3 along any axis; refinement: 1-D all lengths, repeated refinement by induction, D = 2, 3 along any axis). Tie: Gen/BSpline.v is regenerated "
            "from bspline.py / kernels.py by symbolic tracing on every run (weights, B pieces, stencils, size formula; the index glue of "
            "evaluate_cubic_bspline -- both algorithms, the transposed one through core.image.conv / F.conv_transpose1d with symbolic "
            "kernels -- is checked symbolically against the closed forms on small sizes), and the executable model is "
            "compared inside Coq with the implementation on generated inputs.",
    "note": "Partial: repeated refinement is 1-D; refinement / subdivision along several axes at once is the composition of the proved "
            "single-axis statements (checked symbolically by the translator and numerically); the transposed algorithm's scatter form (F.conv_transpose1d) is modelled in gather form "
            "(tied by the translator's symbolic trace + correspondence); torch.arange(0,1,1/s) float behaviour (breaks at stride 49, outside the "
            "property's range) and float32 rounding are outside the model. Repaired in /repo (98fa26a, 0a33d67, c621c1b): control point grid spacing, 1-D subdivide, bspline-mode keys -- now covered by C14_control_point_placement, the 1-D subdivision correspondence and unsorted keys in the sderiv cases.",
}
