"""Gen/FlowAlg.v -- core/flow.py: expv, compose_flows (compose_svfs / logv: see flowbch.py), traced from the source text
with torch.nn.functional.grid_sample replaced by an opaque operator that records its arguments:

* gen_expv_pre_k f scale     the value a flow sample f has before the squaring loop for steps = k, k = 0..8
                             (scale symbolic; `inverse=True` must be the same trace with scale negated)
* gen_expv_gac / gen_expv_sac / gen_expv_pad / (mode must be (bi/tri)linear)
                             which align_corners flag reaches Grid(...).coords (decided by which lattice of
                             normalised coordinates is added to the displacement), which reaches F.grid_sample, and
                             the padding mode, as functions of the caller's align_corners
* gen_expv                   skeleton over abstract operations  pmap (pointwise map) and comp gac sac pad u v
                             (= u + grid_sample(v, coords(gac) + u, linear, pad, sac)): for every steps k in 0..8 the
                             trace must consist of exactly k sampling calls, each sampling the current displacement at
                             its own coordinates displaced by itself, added to the current displacement
* gen_compose_flows          the same skeleton for compose_flows(u, v, align_corners)
Structural checks (fail closed): D = 2 and 3, both flags, a batch of two fields is processed item by item, the input
tensor is not modified, steps beyond 8 (9, 10) continue the same pattern.
Lattice sizes are chosen so that Grid.coords' float arithmetic is exact (2/(n-1), 2/n dyadic)."""
import math
import random
from fractions import Fraction

import numpy as np

import symtorch as st
import trlib
from symtorch import E, TraceError
from tr_units.bspline import patched, TorchProxy, simple_float_literals, fr_eval

KMAX = 8


def sym(shape, p):
    a = np.empty(shape, dtype=object)
    for idx in np.ndindex(shape):
        a[idx] = E.var(p + "_".join(map(str, idx)))
    return st.Tensor(a)


def _frac(v):
    return v.value() if isinstance(v, E) else E.const(v).value()


def _arange(*args, dtype=None, device=None):
    """torch.arange with rational arguments: ceil((stop - start) / step) elements start + i * step"""
    if len(args) == 1:
        return st.arange(*args, dtype=dtype)
    a = [_frac(v) for v in args]
    start, stop = a[0], a[1]
    step = a[2] if len(a) > 2 else Fraction(1)
    n = max(0, math.ceil((stop - start) / step))
    return st.Tensor(st._lift_array([start + i * step for i in range(n)]), dtype=dtype)


def _meshgrid(*ts, indexing="ij"):
    if indexing != "ij":
        raise TraceError("meshgrid indexing")
    shp = tuple(t.shape[0] for t in ts)
    outs = []
    for k, t in enumerate(ts):
        a = np.empty(shp, dtype=object)
        for idx in np.ndindex(shp):
            a[idx] = t.a[idx[k]]
        outs.append(st.Tensor(a))
    return tuple(outs)


def torch_proxy():
    return TorchProxy(st, arange=_arange, meshgrid=_meshgrid, flip=lambda t, dims: t.flip(*dims), __version__="2.0.0")


class Recorder:
    """opaque F.grid_sample"""

    def __init__(self):
        self.calls = []

    def __call__(self, inp, grid, mode="bilinear", padding_mode="zeros", align_corners=None):
        k = len(self.calls)
        self.calls.append({"input": inp, "grid": grid, "mode": mode, "pad": padding_mode, "ac": align_corners})
        if grid.shape[0] != inp.shape[0] or grid.shape[-1] != inp.ndim - 2:
            raise TraceError(f"grid_sample called with input {inp.shape} and grid {grid.shape}")
        shp = tuple(inp.shape[:2]) + tuple(grid.shape[1:-1])
        return sym(shp, f"g{k}_")


def ncoord(ac, n, i):
    if n == 1:
        return Fraction(0)
    return Fraction(2 * i, n - 1) - 1 if ac else Fraction(2 * i + 1, n) - 1


def env_for(tensors, rng, extra=()):
    env = {}
    for t in tensors:
        for e in t.a.reshape(-1):
            for v in e.free_vars():
                env.setdefault(v, Fraction(rng.randint(-40, 40), rng.choice([1, 2, 3, 5, 7])))
    for v in extra:
        env.setdefault(v, Fraction(rng.randint(1, 40), rng.choice([3, 5, 7])))
    return env


def same_values(a, b, envs):
    if a.shape != b.shape:
        return False
    for x, y in zip(a.a.reshape(-1), b.a.reshape(-1)):
        for env in envs:
            if fr_eval(x, env) != fr_eval(y, env):
                return False
    return True


def which_coords(grid, disp, envs):
    """grid (N, ..., X, D) - disp (N, D, ..., X) must be the lattice of normalised coordinates of one of the two
    conventions; returns that convention"""
    N = grid.shape[0]
    D = grid.shape[-1]
    shape = grid.shape[1:-1]
    found = None
    for gac in (True, False):
        ok = True
        for n_ in range(N):
            for idx in np.ndindex(tuple(shape)):
                for c in range(D):
                    size = shape[D - 1 - c]
                    want = ncoord(gac, size, idx[D - 1 - c])
                    d = disp.a[(n_, c) + idx] if disp is not None else E.const(0)
                    for env in envs:
                        if fr_eval(grid.a[(n_,) + idx + (c,)], env) - fr_eval(d, env) != want:
                            ok = False
                            break
                    if not ok:
                        break
                if not ok:
                    break
            if not ok:
                break
        if ok:
            if found is not None and found != gac:
                raise TraceError("lattice sizes do not distinguish the two conventions")
            found = gac
    if found is None:
        raise TraceError("sampling positions are not `own normalised coordinates + displacement`")
    return found


def check_mode(c, D):
    if c["mode"] != "bilinear":
        raise TraceError(f"grid_sample mode {c['mode']!r}: the model is multilinear interpolation")
    if c["pad"] not in ("border", "zeros"):
        raise TraceError(f"grid_sample padding_mode {c['pad']!r} is outside the sampler model")
    if not isinstance(c["ac"], bool):
        raise TraceError("align_corners not passed to grid_sample as a bool")


def shapes_for(D, ac):
    if ac:
        return (3, 2) if D == 2 else (2, 3, 2)
    return (2, 4) if D == 2 else (2, 4, 2)


def trace_expv(mods, D, ac, k, inverse, N=1, scale="sym"):
    flow_mod, img, grid_mod = mods
    rec = Recorder()
    shape = shapes_for(D, ac)
    u = sym((N, D) + shape, "f")
    u0 = [e for e in u.a.reshape(-1)]
    s = E.var("s") if scale == "sym" else scale
    Fp = TorchProxy(st.functional, grid_sample=rec)
    with patched(img, "F", Fp), patched(flow_mod, "F", Fp), patched(grid_mod, "torch", torch_proxy()):
        r = flow_mod.expv(u, scale=s, steps=k, align_corners=ac, inverse=inverse)
    if any(not a.same(b) for a, b in zip(u0, u.a.reshape(-1))):
        raise TraceError("expv modifies its input")
    if r.shape != u.shape:
        raise TraceError(f"expv changes the shape: {r.shape}")
    return u, r, rec.calls


def expv_section(mods):
    rng = random.Random(3)
    out = []
    flags = {}
    pre = {}
    for D in (2, 3):
        for ac in (True, False):
            for k in list(range(0, KMAX + 1)) + [9, 10]:
                if D == 3 and k not in (0, 1, 2, 5):
                    continue
                for inverse in (False, True):
                    N = 2 if (k == 2 and D == 2) else 1
                    u, r, calls = trace_expv(mods, D, ac, k, inverse, N=N) if k > 0 else (None, None, None)
                    if k == 0:
                        # data-dependent branch on the scale: traced with concrete scales
                        for sc in (1, Fraction(3, 2), -1, Fraction(1, 4)):
                            u, r, calls = trace_expv(mods, D, ac, 0, inverse, scale=sc)
                            if calls:
                                raise TraceError("expv(steps=0) samples")
                            se = -sc if inverse else sc
                            envs = [env_for([u], rng)]
                            want = st.Tensor(np.vectorize(lambda e: e * E.const(se), otypes=[object])(u.a))
                            if not same_values(r, want, envs):
                                raise TraceError("expv(steps=0) is not the input times the (signed) scale")
                        continue
                    if len(calls) != k:
                        raise TraceError(f"expv(steps={k}) samples {len(calls)} times")
                    envs = [env_for([u] + [c["input"] for c in calls] + [r], rng, extra=("s",)) for _ in range(2)]
                    # before the loop: pointwise function of the flow sample and the scale
                    d = calls[0]["input"]
                    e0 = d.a.reshape(-1)[0]
                    v0 = u.a.reshape(-1)[0].args[0]
                    for e, f in zip(d.a.reshape(-1), u.a.reshape(-1)):
                        if not e.same(trlib.rename(e0, {v0: f.args[0]})):
                            raise TraceError("the pre-loop scaling is not the same pointwise function at every sample")
                    ef = trlib.rename(e0, {v0: "f", "s": "scale"})
                    if set(ef.free_vars()) - {"f", "scale"}:
                        raise TraceError(f"pre-loop value depends on {ef.free_vars()}")
                    if inverse:
                        # must be the non-inverse expression at -scale
                        for _ in range(3):
                            fv, sv = Fraction(rng.randint(-9, 9), 7), Fraction(rng.randint(1, 9), 5)
                            if fr_eval(ef, {"f": fv, "scale": sv}) != fr_eval(pre[k], {"f": fv, "scale": -sv}):
                                raise TraceError("inverse=True is not the same computation with the scale negated")
                    elif k in pre:
                        if not ef.same(pre[k]):
                            raise TraceError("pre-loop scaling depends on D / align_corners")
                    else:
                        pre[k] = ef
                    cur = d
                    for j, c in enumerate(calls):
                        check_mode(c, D)
                        if not same_values(c["input"], cur, envs):
                            raise TraceError(f"squaring step {j} does not sample the current displacement")
                        gac = which_coords(c["grid"], cur, envs)
                        key = (gac, c["ac"], c["pad"])
                        if flags.setdefault(ac, key) != key:
                            raise TraceError(f"flags differ between steps / dimensions: {flags[ac]} vs {key}")
                        res = sym(cur.shape, f"g{j}_")
                        cur = st.Tensor(np.vectorize(lambda a, b: a + b, otypes=[object])(cur.a, res.a))
                    if not same_values(r, cur, envs):
                        raise TraceError("expv does not return the last displacement")
    for k in range(1, KMAX + 1):
        out.append(f"Definition gen_expv_pre_{k} (f scale : K) : K :=\n  {st.to_coq(pre[k])}.\n")
    for k in (9, 10):  # beyond the table: same shape  f * (scale / 2^k)
        for _ in range(3):
            fv, sv = Fraction(rng.randint(-9, 9), 7), Fraction(rng.randint(1, 9), 5)
            if fr_eval(pre[k], {"f": fv, "scale": sv}) != fv * sv / 2 ** k:
                raise TraceError("pre-loop scaling beyond the table is not scale / 2^steps")
    out.append("Definition gen_expv_pre_0 (f scale : K) : K :=\n  f * scale.\n")
    return out, flags


def emit_flags(name, flags):
    def b(x):
        return "true" if x else "false"
    pad = {"border": "PBorder", "zeros": "PZeros"}
    return [f"Definition {name}_gac (ac : bool) : bool := if ac then {b(flags[True][0])} else {b(flags[False][0])}.",
            f"Definition {name}_sac (ac : bool) : bool := if ac then {b(flags[True][1])} else {b(flags[False][1])}.",
            f"Definition {name}_pad (ac : bool) : padmode := if ac then {pad[flags[True][2]]} else {pad[flags[False][2]]}.", ""]


def compose_section(mods):
    flow_mod, img, grid_mod = mods
    rng = random.Random(4)
    flags = {}
    batch_ok = [True]
    for D in (2, 3):
        for ac in (True, False):
            for N in (1, 2):
                rec = Recorder()
                shape = shapes_for(D, ac)
                u = sym((N, D) + shape, "u")
                v = sym((N, D) + shape, "v")
                u0 = [e for e in u.a.reshape(-1)]
                v0 = [e for e in v.a.reshape(-1)]
                Fp = TorchProxy(st.functional, grid_sample=rec)
                try:
                    with patched(img, "F", Fp), patched(flow_mod, "F", Fp), patched(grid_mod, "torch", torch_proxy()):
                        r = flow_mod.compose_flows(u, v, align_corners=ac)
                except ValueError as exc:
                    # an in-place operation whose result does not fit the tensor written to (torch: RuntimeError)
                    if N > 1 and "broadcast" in str(exc):
                        batch_ok[0] = False
                        continue
                    raise
                if any(not a.same(b) for a, b in zip(u0 + v0, list(u.a.reshape(-1)) + list(v.a.reshape(-1)))):
                    raise TraceError("compose_flows modifies its arguments")
                if len(rec.calls) != 1:
                    raise TraceError("compose_flows does not sample exactly once")
                c = rec.calls[0]
                check_mode(c, D)
                envs = [env_for([u, v, r], rng) for _ in range(2)]
                if not same_values(c["input"], v, envs):
                    raise TraceError("compose_flows does not sample its second argument")
                gac = which_coords(c["grid"], u, envs)
                key = (gac, c["ac"], c["pad"])
                if flags.setdefault(ac, key) != key:
                    raise TraceError("compose_flows flags differ between dimensions / batch sizes")
                res = sym(u.shape, "g0_")
                want = st.Tensor(np.vectorize(lambda a, b: a + b, otypes=[object])(u.a, res.a))
                if not same_values(r, want, envs):
                    raise TraceError("compose_flows is not u + sampled v")
    return flags, batch_ok[0]


# ------------------------------------------------------------------------------------------------
# compose_svfs: coefficients and nesting of the BCH series per bch_terms, over an opaque bracket
# ------------------------------------------------------------------------------------------------
def bch_section(flow_mod):
    rng = random.Random(6)
    tables = {}
    opts = {"mode": "forward", "sigma": Fraction(7, 10), "spacing": Fraction(3, 2), "stride": 2}
    for D in (2, 3):
        for terms in range(0, 6):
            shape = (1, D) + (1,) * D
            u = sym(shape, "u")
            v = sym(shape, "v")
            known = [("TU", u), ("TV", v)]
            calls = []

            def lb(a, b, mode=None, sigma=None, spacing=None, stride=None):
                got = {"mode": mode, "sigma": sigma, "spacing": spacing, "stride": stride}
                if got != opts:
                    raise TraceError(f"compose_svfs does not forward the derivative options to lie_bracket: {got}")
                names = []
                for t in (a, b):
                    nm = [n for n, k in known if trlib.same_tensor(t.a, k.a)]
                    if len(nm) != 1:
                        raise TraceError("lie_bracket called on something that is not u, v or an earlier bracket")
                    names.append(nm[0])
                r = sym(shape, f"b{len(calls)}_")
                known.append((f"(TB {names[0]} {names[1]})", r))
                calls.append(names)
                return r
            u0 = [e for e in u.a.reshape(-1)] + [e for e in v.a.reshape(-1)]
            with patched(flow_mod, "lie_bracket", lb):
                r = flow_mod.compose_svfs(u, v, bch_terms=terms, **opts)
            if any(not a.same(b) for a, b in zip(u0, list(u.a.reshape(-1)) + list(v.a.reshape(-1)))):
                raise TraceError("compose_svfs modifies its arguments")
            if r.shape != shape:
                raise TraceError("compose_svfs changes the shape")
            table = None
            for c in range(D):
                e = r.a[(0, c) + (0,) * D]
                vars_ = [(n, k.a[(0, c) + (0,) * D].args[0]) for n, k in known]
                allv = {x: Fraction(0) for _, x in vars_}
                if set(e.free_vars()) - set(allv):
                    raise TraceError("component c of compose_svfs reads another component")
                if fr_eval(e, allv) != 0:
                    raise TraceError("compose_svfs has a constant term")
                coefs = []
                for n, x in vars_:
                    env = dict(allv)
                    env[x] = Fraction(1)
                    coefs.append((n, fr_eval(e, env)))
                env = {x: Fraction(rng.randint(-9, 9), rng.choice([1, 2, 3])) for _, x in vars_}
                if fr_eval(e, env) != sum(cf * env[x] for (_, cf), (_, x) in zip(coefs, vars_)):
                    raise TraceError("compose_svfs is not linear in u, v and the brackets")
                # order of appearance in the code: v + u, then the brackets
                row = [(n, cf) for n, cf in coefs if cf != 0]
                row = [x for x in row if x[0] == "TV"] + [x for x in row if x[0] == "TU"] + [x for x in row if x[0].startswith("(")]
                if table is None:
                    table = row
                elif table != row:
                    raise TraceError("BCH coefficients differ between components")
            if terms in tables and tables[terms] != table:
                raise TraceError("BCH table depends on the dimension")
            tables[terms] = table
    for bad, exc in ((-1, ValueError), (6, NotImplementedError)):
        try:
            flow_mod.compose_svfs(sym((1, 2, 1, 1), "u"), sym((1, 2, 1, 1), "v"), bch_terms=bad)
        except exc:
            continue
        except Exception as e:  # noqa
            raise TraceError(f"compose_svfs(bch_terms={bad}) raised {type(e).__name__}")
        raise TraceError(f"compose_svfs(bch_terms={bad}) is accepted")
    lines = ["Definition gen_bch_terms (terms : nat) : list bcoef :=", "  match terms with"]
    for t in range(0, 6):
        items = "; ".join(f"(({cf.numerator})%Z, {cf.denominator}%positive, {n})" for n, cf in tables[t])
        lines.append(f"  | {t}%nat => [{items}]")
    lines.append("  | _ => [] (* rejected by the code *)")
    lines.append("  end.")
    return "\n".join(lines) + "\n"


# ------------------------------------------------------------------------------------------------
# logv: which flags reach the sampling calls of its expv and compose_flows steps
# ------------------------------------------------------------------------------------------------
def logv_section(mods):
    flow_mod, img, grid_mod = mods
    rng = random.Random(8)
    flags = {"expv": {}, "compose": {}}
    for D in (2, 3):
        for ac in (True, False):
            for iters, N in ((1, 1), (2, 1), (1, 2)):
                rec = Recorder()
                shape = shapes_for(D, ac)
                f = sym((N, D) + shape, "f")
                Fp = TorchProxy(st.functional, grid_sample=rec)
                with patched(img, "F", Fp), patched(flow_mod, "F", Fp), patched(grid_mod, "torch", torch_proxy()):
                    r = flow_mod.logv(f, num_iters=iters, bch_terms=0, sigma=None, exp_steps=1, align_corners=ac)
                if len(rec.calls) != 2 * iters:
                    raise TraceError(f"logv(num_iters={iters}, exp_steps=1, bch_terms=0) samples {len(rec.calls)} times")
                envs = [env_for([f, r] + [c["input"] for c in rec.calls], rng) for _ in range(2)]
                for it in range(iters):
                    ce, cc = rec.calls[2 * it], rec.calls[2 * it + 1]
                    check_mode(ce, D)
                    check_mode(cc, D)
                    ke = (which_coords(ce["grid"], ce["input"], envs), ce["ac"], ce["pad"])
                    kc = (which_coords(cc["grid"], f, envs), cc["ac"], cc["pad"])
                    if flags["expv"].setdefault(ac, ke) != ke or flags["compose"].setdefault(ac, kc) != kc:
                        raise TraceError("logv flags differ between iterations / dimensions")
    return flags


# ------------------------------------------------------------------------------------------------
# lie_bracket: which of the caller's derivative options reach flow_derivatives for each of its two Jacobians
# ------------------------------------------------------------------------------------------------
def lie_opts_section(flow_mod):
    opts = {"mode": "forward", "sigma": Fraction(7, 10), "spacing": Fraction(3, 2), "stride": 2}
    names = ["mode", "sigma", "spacing", "stride"]
    result = None
    for D in (2, 3):
        shape = (1, D) + (2,) * D
        v = sym(shape, "v")
        u = sym(shape, "u")
        calls = []

        def fd(flow, which=None, order=None, mode=None, sigma=None, spacing=None, stride=None):
            who = [n for n, t in (("v", v), ("u", u)) if trlib.same_tensor(flow.a, t.a)]
            if len(who) != 1:
                raise TraceError("lie_bracket differentiates something that is not one of its arguments")
            if order is not None:
                raise TraceError("lie_bracket restricts the derivative order")
            got = {"mode": mode, "sigma": sigma, "spacing": spacing, "stride": stride}
            fw = []
            for n in names:
                if got[n] == opts[n]:
                    fw.append(True)
                elif got[n] is None:
                    fw.append(False)
                else:
                    raise TraceError(f"lie_bracket passes {n}={got[n]!r} to flow_derivatives (caller gave {opts[n]!r})")
            keys = list(which) if which is not None else [f"d{c}/d{l}" for c in "uvw"[:D] for l in "xyz"[:D]]
            want = [f"d{c}/d{l}" for c in "uvw"[:D] for l in "xyz"[:D]]
            if sorted(keys) != sorted(want):
                raise TraceError(f"lie_bracket requests derivatives {keys}, expected the Jacobian entries")
            calls.append((who[0], tuple(fw)))
            return {k: sym(shape[:1] + (1,) + shape[2:], f"j{who[0]}{'uvw'.index(k[1])}{'xyz'.index(k.split('/d')[1])}_") for k in keys}
        with patched(flow_mod, "flow_derivatives", fd):
            flow_mod.lie_bracket(v, u, **opts)
        if sorted(c[0] for c in calls) != ["u", "v"]:
            raise TraceError(f"lie_bracket computes Jacobians of {[c[0] for c in calls]}, expected one of each argument")
        table = dict(calls)
        if result is not None and result != table:
            raise TraceError("option forwarding of lie_bracket depends on the dimension")
        result = table

    def b(t):
        return "(" + ", ".join("true" if x else "false" for x in t) + ")"
    return ("(* lie_bracket(v, u, mode, sigma, spacing, stride): which of the caller's options (mode, sigma, spacing, stride) reach\n"
            "   flow_derivatives for the Jacobian of the first argument v and of the second argument u *)\n"
            f"Definition gen_lie_opts_first_arg : lopts := {b(result['v'])}.\n"
            f"Definition gen_lie_opts_second_arg : lopts := {b(result['u'])}.\n")


# ------------------------------------------------------------------------------------------------
# modules/flow.py ExpFlow: the arguments its forward / inverse hand to expv
# ------------------------------------------------------------------------------------------------
def expflow_section(loader, flow_mod):
    import types
    core = loader.load("deepali.core")
    G = loader.load("deepali.core.grid")
    T = loader.load("deepali.core.typing")
    saved = dict(core.__dict__)
    core.ALIGN_CORNERS = G.ALIGN_CORNERS
    for n in ("Array", "Scalar", "ScalarOrTuple"):
        setattr(core, n, getattr(T, n))
    calls = []
    U = types.SimpleNamespace()

    def expv(x, **kw):
        calls.append((x, kw))
        return ("expv-result", len(calls))
    U.expv = expv
    core.functional = U
    try:
        loader.mods.pop("deepali.modules.flow", None)
        M = loader.load("deepali.modules.flow")
        steps_table = {}
        for steps in [None] + list(range(0, KMAX + 1)):
            m = M.ExpFlow(steps=steps)
            calls.clear()
            x = object()
            r = m(x)
            if len(calls) != 1 or calls[0][0] is not x or r != ("expv-result", 1):
                raise TraceError("ExpFlow.forward is not one call of expv on its input")
            kw = calls[0][1]
            if set(kw) != {"scale", "steps", "align_corners"}:
                raise TraceError(f"ExpFlow.forward passes {sorted(kw)} to expv")
            if not isinstance(kw["steps"], int):
                raise TraceError("ExpFlow passes a non-integer number of steps")
            steps_table[steps] = kw["steps"]
            if kw["scale"] != 1 or kw["align_corners"] is not G.ALIGN_CORNERS:
                raise TraceError("ExpFlow defaults are not scale = 1, align_corners = ALIGN_CORNERS")
        signs = {}
        acs = {}
        for scale in (1.5, -0.5, 2.0, 0.25):
            for ac in (True, False):
                m = M.ExpFlow(scale=scale, steps=3, align_corners=ac)
                for how in ("forward", "forward_inverse", "inverse()", "inv"):
                    calls.clear()
                    if how == "forward":
                        m(0)
                    elif how == "forward_inverse":
                        m(0, inverse=True)
                    elif how == "inverse()":
                        m.inverse()(0)
                    else:
                        m.inv(0)
                    kw = calls[0][1]
                    if kw["scale"] == scale:
                        sg = 1
                    elif kw["scale"] == -scale:
                        sg = -1
                    else:
                        raise TraceError(f"ExpFlow {how}: scale {kw['scale']} for module scale {scale}")
                    if signs.setdefault(how, sg) != sg:
                        raise TraceError(f"ExpFlow {how}: sign of the scale depends on the scale / flag")
                    if kw["steps"] != 3:
                        raise TraceError(f"ExpFlow {how} changes the number of steps")
                    if acs.setdefault(ac, kw["align_corners"]) != kw["align_corners"]:
                        raise TraceError("ExpFlow align_corners differs between call paths")
                    if m.scale != scale or m.steps != 3 or m.align_corners != ac:
                        raise TraceError(f"ExpFlow {how} modifies the module")
        if signs["inv"] != signs["inverse()"]:
            raise TraceError("ExpFlow.inv differs from ExpFlow.inverse()")
    finally:
        core.__dict__.clear()
        core.__dict__.update(saved)
        loader.mods.pop("deepali.modules.flow", None)

    def b(x):
        return "true" if x else "false"
    arms = "\n".join(f"  | Some {k}%nat => {steps_table[k]}%nat" for k in range(0, KMAX + 1))
    return ("(* modules/flow.py ExpFlow(scale, steps, align_corners): what forward(x, inverse) and inverse()(x) hand to expv *)\n"
            f"Definition gen_expflow_steps (steps : option nat) : nat :=\n  match steps with\n  | None => {steps_table[None]}%nat\n{arms}\n"
            "  | Some _ => 0%nat (* outside the generated table *)\n  end.\n"
            f"Definition gen_expflow_forward_sign (inverse : bool) : Z := if inverse then ({signs['forward_inverse']})%Z else ({signs['forward']})%Z.\n"
            f"Definition gen_expflow_inverse_module_sign : Z := ({signs['inverse()']})%Z.\n"
            f"Definition gen_expflow_ac (ac : bool) : bool := if ac then {b(acs[True])} else {b(acs[False])}.\n")


def expv_defaults(mods):
    """expv(flow) with scale / steps left to their defaults"""
    flow_mod, img, grid_mod = mods
    rec = Recorder()
    u = sym((1, 2) + shapes_for(2, True), "f")
    Fp = TorchProxy(st.functional, grid_sample=rec)
    with patched(img, "F", Fp), patched(flow_mod, "F", Fp), patched(grid_mod, "torch", torch_proxy()):
        flow_mod.expv(u, align_corners=True)
    nsteps = len(rec.calls)
    e0 = rec.calls[0]["input"].a.reshape(-1)[0]
    f0 = u.a.reshape(-1)[0]
    env = {f0.args[0]: Fraction(3, 7)}
    if fr_eval(e0, env) != Fraction(3, 7) / 2 ** nsteps:
        raise TraceError("expv default scale is not 1")
    return nsteps


# ------------------------------------------------------------------------------------------------
# spatial/nonrigid.py StationaryVelocityFieldTransform: the flag its ExpFlow module gets at construction and after grid_()
# ------------------------------------------------------------------------------------------------
def svf_section(loader):
    import types

    class FakeGrid:
        def __init__(self, flag, name):
            self._flag, self.name, self.ndim = flag, name, 2

        def align_corners(self):
            return self._flag

    class Base:                                   # stands for SpatialTransform / ParametricTransform (C09 models those)
        def __init__(self, grid, groups=None, params=True, stride=None, resize=True):
            self._grid = grid
            self.params = None
            self.init_args = dict(groups=groups, params=params, stride=stride, resize=resize)

        def grid_(self, grid):
            self._grid = grid
            return self

        def grid(self, grid=None):
            if grid is None:
                return self._grid
            import copy
            return copy.copy(self).grid_(grid)

        def align_corners(self):
            return self._grid.align_corners()

    class NonRigid:
        pass

    class Exp:
        def __init__(self, scale=None, steps=None, align_corners=True):
            self.scale, self.steps, self.align_corners = scale, steps, align_corners

    stubs = {"deepali.spatial.base": types.SimpleNamespace(NonRigidTransform=NonRigid),
             "deepali.spatial.parametric": types.SimpleNamespace(ParametricTransform=Base),
             "deepali.data.flow": types.SimpleNamespace(FlowFields=object),
             "deepali.modules": types.SimpleNamespace(ExpFlow=Exp)}
    core = loader.load("deepali.core")
    had_fun = "functional" in core.__dict__
    old_fun = core.__dict__.get("functional")
    core.functional = types.SimpleNamespace()
    saved = {k: loader.mods.get(k) for k in stubs}
    loader.mods.update({k: v for k, v in stubs.items()})
    loader.mods.pop("deepali.spatial.nonrigid", None)
    stub_kernels = "kernels" not in core.__dict__
    if stub_kernels:
        core.kernels = types.SimpleNamespace()
    loader.mods.pop("deepali.spatial.bspline", None)
    try:
        N = loader.load("deepali.spatial.nonrigid")
        Bsp = loader.load("deepali.spatial.bspline")
    finally:
        loader.mods.pop("deepali.spatial.bspline", None)
        if stub_kernels:
            del core.__dict__["kernels"]
        for k, v in saved.items():
            if v is None:
                loader.mods.pop(k, None)
            else:
                loader.mods[k] = v
        loader.mods.pop("deepali.spatial.nonrigid", None)
        if had_fun:
            core.functional = old_fun
        else:
            del core.__dict__["functional"]
    SVF = N.StationaryVelocityFieldTransform
    # ---- inverse(update_buffers): the inverse's u is computed by the INVERSE exponential from the shared v ----
    inv_ok = {}
    for cname, Cls in (("svf", SVF), ("svffd", Bsp.StationaryVelocityFreeFormDeformation)):
        class Rec:
            def __init__(self, tag):
                self.tag = tag

            def inverse(self):
                return Rec(self.tag + ".inverse()")

            def __call__(self, v):
                return ("exp", self.tag, v)
        for upd in (True, False):
            obj = object.__new__(Cls)
            obj.exp = Rec("exp")
            obj.v = "V"
            obj.u = "U-of-original"
            Cls.register_buffer = lambda self, name, t, persistent=True: setattr(self, name, t)
            try:
                inv = Cls.inverse(obj, update_buffers=upd)
            finally:
                del Cls.register_buffer
            if inv is obj or obj.exp.tag != "exp" or obj.u != "U-of-original":
                raise TraceError(f"{Cls.__name__}.inverse modifies the transformation it is called on")
            if inv.exp.tag != "exp.inverse()":
                raise TraceError(f"{Cls.__name__}.inverse: exponential of the inverse is {inv.exp.tag}")
            if upd:
                inv_ok[cname] = (inv.u == ("exp", "exp.inverse()", "V"))
                if not inv_ok[cname] and inv.u != ("exp", "exp", "V"):
                    raise TraceError(f"{Cls.__name__}.inverse(update_buffers=True): u = {inv.u!r}")
            elif inv.u != "U-of-original":
                raise TraceError(f"{Cls.__name__}.inverse(update_buffers=False) recomputes u")
    init, after = {}, {}
    for old in (True, False):
        g1 = FakeGrid(old, "g1")
        tr = SVF(g1, scale=Fraction(3, 2), steps=4)
        e0 = tr.exp
        if not isinstance(e0, Exp) or e0.scale != Fraction(3, 2) or e0.steps != 4 or not isinstance(e0.align_corners, bool):
            raise TraceError("StationaryVelocityFieldTransform does not build ExpFlow(scale, steps, align_corners)")
        init[old] = e0.align_corners
        for new in (True, False):
            for how in ("grid_", "grid"):
                tr = SVF(g1, scale=Fraction(3, 2), steps=4)
                e0 = tr.exp
                g2 = FakeGrid(new, "g2")
                r = tr.grid_(g2) if how == "grid_" else tr.grid(g2)
                if r._grid is not g2:
                    raise TraceError(f"{how}(grid) does not install the grid")
                if r.exp is e0 or e0.align_corners != init[old]:
                    raise TraceError(f"{how}(grid) modifies the ExpFlow module shared with shallow copies")
                if r.exp.scale != e0.scale or r.exp.steps != e0.steps or not isinstance(r.exp.align_corners, bool):
                    raise TraceError(f"{how}(grid) changes scale / steps of the exponential")
                if how == "grid" and (tr._grid is not g1 or tr.exp is not e0):
                    raise TraceError("grid(grid) modifies the original transformation")
                if after.setdefault((old, new), r.exp.align_corners) != r.exp.align_corners:
                    raise TraceError("grid_() and grid() give the exponential different flags")

    def b(x):
        return "true" if x else "false"
    inv_defs = ("(* inverse(update_buffers=True) of the stationary velocity transforms: is the inverse's u buffer computed by the INVERSE\n"
                "   exponential (exp.inverse()) from the shared v buffer?  (SVF: spatial/nonrigid.py, SVFFD: spatial/bspline.py) *)\n"
                f"Definition gen_svf_inverse_u_by_inverse_exp : bool := {b(inv_ok['svf'])}.\n"
                f"Definition gen_svffd_inverse_u_by_inverse_exp : bool := {b(inv_ok['svffd'])}.\n")
    arms = "\n".join(f"  | {b(o)}, {b(n)} => {b(after[(o, n)])}" for o in (True, False) for n in (True, False))
    return ("(* spatial/nonrigid.py StationaryVelocityFieldTransform: align_corners of its ExpFlow module at construction on a grid with\n"
            "   flag ac, and after grid_(g) / grid(g) from a grid with flag `old` to one with flag `new` *)\n"
            f"Definition gen_svf_init_exp_ac (ac : bool) : bool := if ac then {b(init[True])} else {b(init[False])}.\n"
            f"Definition gen_svf_regrid_exp_ac (old new : bool) : bool :=\n  match old, new with\n{arms}\n  end.\n" + inv_defs)


# ------------------------------------------------------------------------------------------------
# logv: the `spacing` it hands to compose_svfs (distance of neighbouring grid points in normalised coordinates)
# ------------------------------------------------------------------------------------------------
def logv_spacing_section(flow_mod, img):
    sizes = list(range(2, 10))
    table = {True: {}, False: {}}
    for ac in (True, False):
        for n in sizes:
            for D in (2, 3):
                shape = (2, n) if D == 2 else (2, 3, n)           # x axis has n samples
                f = sym((1, D) + shape, "f")
                calls = []

                def bch(u, v, mode=None, sigma=None, spacing=None, stride=None, bch_terms=3):
                    calls.append({"mode": mode, "sigma": sigma, "spacing": spacing, "stride": stride, "bch_terms": bch_terms})
                    return v
                with patched(flow_mod, "compose_svfs", bch), patched(flow_mod, "expv", lambda v, **k: v), \
                        patched(flow_mod, "compose_flows", lambda a, b, **k: b):
                    flow_mod.logv(f, num_iters=1, bch_terms=2, sigma=Fraction(7, 10), align_corners=ac)
                    explicit = []
                    flow_mod.logv(f, num_iters=1, bch_terms=2, sigma=None, spacing=Fraction(3, 2), align_corners=ac)
                c0, c1 = calls
                if c0["bch_terms"] != 2 or c0["sigma"] != Fraction(7, 10) or c0["mode"] is not None or c0["stride"] is not None:
                    raise TraceError(f"logv does not forward bch_terms / sigma to compose_svfs: {c0}")
                if c1["spacing"] != Fraction(3, 2):
                    raise TraceError("logv does not forward an explicit spacing to compose_svfs")
                sp = c0["spacing"]
                if sp is None:
                    val = None
                else:
                    sp = [E.const(x).value() for x in sp]
                    want_len = D
                    if len(sp) != want_len:
                        raise TraceError("logv spacing has the wrong number of axes")
                    others = sp[1:]
                    ref = [Fraction(2, m) for m in reversed(shape)][1:]
                    val = sp[0]
                    # the other axes (sizes 2, 3) must follow the same rule as the x axis of the same size
                    for m, o in zip(list(reversed(shape))[1:], others):
                        if m in table[ac] and table[ac][m] is not None and table[ac][m] != o:
                            raise TraceError("logv spacing: axes of equal size get different spacings")
                if table[ac].setdefault(n, val) != val:
                    raise TraceError("logv spacing depends on D")
    # spacing None = default of flow_derivatives: verified to be 2 / (n - 1) along x for every n of the table
    for n in sizes:
        flow = sym((1, 2, 3, n), "f")
        a = flow_mod.flow_derivatives(flow, which=["du/dx"], mode="forward_central_backward")["du/dx"]
        b = flow_mod.flow_derivatives(flow, which=["du/dx"], mode="forward_central_backward",
                                      spacing=st.Tensor(st._lift_array([Fraction(2, n - 1), Fraction(1)])))["du/dx"]
        env = {v_.args[0]: Fraction(i % 7 - 3, 2) for i, v_ in enumerate(flow.a.reshape(-1))}
        for x, y in zip(a.a.reshape(-1), b.a.reshape(-1)):
            if fr_eval(x, env) != fr_eval(y, env):
                raise TraceError("default spacing of flow_derivatives is not 2 / (n - 1)")

    def q(fr):
        return f"(({fr.numerator}) # {fr.denominator})%Q"
    lines = ["From Coq Require Import QArith.",
             "(* logv(flow, spacing=None, align_corners=ac): distance of neighbouring samples (normalised coordinates) used for the derivatives of",
             "   its BCH brackets on an axis with n samples; `None` handed to compose_svfs = default of flow_derivatives = 2/(n-1), verified *)",
             "Definition gen_logv_bch_spacing (ac : bool) (n : Z) : Q :="]
    arms_t = " ".join(f"| {n}%Z => {q(table[True][n] if table[True][n] is not None else Fraction(2, n - 1))}" for n in sizes)
    arms_f = " ".join(f"| {n}%Z => {q(table[False][n] if table[False][n] is not None else Fraction(2, n - 1))}" for n in sizes)
    lines.append(f"  if ac then match n with {arms_t} | _ => 0%Q end\n  else match n with {arms_f} | _ => 0%Q end.")
    return "\n".join(lines) + "\n"


# ------------------------------------------------------------------------------------------------
# dtype of the identity coordinates: expv / compose_flows must build them in the dtype of the field
# ------------------------------------------------------------------------------------------------
def coords_dtype_section(mods):
    flow_mod, img, grid_mod = mods
    res = {}
    for fn in ("expv", "compose_flows"):
        ok = True
        for dt in (st.float64, st.float32):
            seen = []
            orig = grid_mod.Grid.coords

            def coords(self, *a, **k):
                seen.append(k.get("dtype"))
                return orig(self, *a, **k)
            rec = Recorder()
            Fp = TorchProxy(st.functional, grid_sample=rec)
            u = sym((1, 2, 2, 4), "f")
            u.dtype = dt
            v = sym((1, 2, 2, 4), "g")
            v.dtype = dt
            grid_mod.Grid.coords = coords
            try:
                with patched(img, "F", Fp), patched(flow_mod, "F", Fp), patched(grid_mod, "torch", torch_proxy()):
                    if fn == "expv":
                        flow_mod.expv(u, steps=1, align_corners=False)
                    else:
                        flow_mod.compose_flows(u, v, align_corners=False)
            finally:
                grid_mod.Grid.coords = orig
            if len(seen) != 1:
                raise TraceError(f"{fn} builds its coordinates {len(seen)} times")
            ok = ok and (seen[0] is dt)
        res[fn] = ok
    return ("(* are the identity coordinates built in the dtype of the field (Grid.coords(dtype=flow.dtype))?  Otherwise float64 fields\n"
            "   are displaced on float32 coordinates (errors of 1e-8 instead of 1e-16) *)\n"
            f"Definition gen_expv_coords_in_field_dtype : bool := {'true' if res['expv'] else 'false'}.\n"
            f"Definition gen_compose_coords_in_field_dtype : bool := {'true' if res['compose_flows'] else 'false'}.\n")


def generate(loader):
    flow_mod = loader.load("deepali.core.flow")
    img = loader.load("deepali.core.image")
    grid_mod = loader.load("deepali.core.grid")
    mods = (flow_mod, img, grid_mod)
    out = ["From DV Require Import Model.Sampler.", "Section Gen.", "Context {K : fld}.", ""]
    with simple_float_literals():
        pre, eflags = expv_section(mods)
        cflags, cbatch = compose_section(mods)
        dsteps = expv_defaults(mods)
        expflow = expflow_section(loader, flow_mod)
        svf = svf_section(loader)
        cdt = coords_dtype_section(mods)
    out += pre
    out += emit_flags("gen_expv", eflags)
    out += emit_flags("gen_compose", cflags)
    out.append("(* pmap g x: apply g to every sample; comp gac sac pad u v = u + grid_sample(v, coords(gac) + u, linear, pad, sac) *)")
    lines = ["Definition gen_expv {F : Type} (pmap : (K -> K) -> F -> F) (comp : bool -> bool -> padmode -> F -> F -> F)",
             "  (ac inverse : bool) (k : nat) (scale : K) (flow : F) : F :=",
             "  let s := if inverse then - scale else scale in",
             "  let sq := fun d => comp (gen_expv_gac ac) (gen_expv_sac ac) (gen_expv_pad ac) d d in",
             "  match k with",
             "  | 0%nat => pmap (fun f => gen_expv_pre_0 f s) flow"]
    for k in range(1, KMAX + 1):
        body = f"pmap (fun f => gen_expv_pre_{k} f s) flow"
        for _ in range(k):
            body = f"sq ({body})"
        lines.append(f"  | {k}%nat => {body}")
    lines.append("  | _ => flow (* steps > 8: outside the generated table *)")
    lines.append("  end.")
    out.append("\n".join(lines) + "\n")
    out.append("Definition gen_compose_flows {F : Type} (comp : bool -> bool -> padmode -> F -> F -> F) (ac : bool) (u v : F) : F :=\n"
               "  comp (gen_compose_gac ac) (gen_compose_sac ac) (gen_compose_pad ac) u v.\n")
    out.append("(* does compose_flows accept a batch of N > 1 fields (an in-place add into a (1, ...) tensor raises)? *)\n"
               f"Definition gen_compose_flows_batched : bool := {'true' if cbatch else 'false'}.\n")
    out.append("End Gen.\n")
    out.append(f"(* expv(flow) with steps=None: number of squaring steps (scale=None is 1: checked on the trace) *)\nDefinition gen_expv_default_steps : nat := {dsteps}%nat.\n")
    out.append(expflow)
    out.append(svf)
    out.append(cdt)
    return "\n".join(out)
