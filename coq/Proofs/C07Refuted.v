(* C07 -- witnesses on the executable instance of the transform state machine (evaluation only):
   inverse(link=True) works for Parameter-held parameters (since fix 34360e2: link_ un-shares the
   _parameters container), for fixed tensors and without link; the inverse follows in-place updates of
   the forward transform, which keeps its Parameter. *)
From Coq Require Import List Bool ZArith QArith Qcanon.
From DV Require Import Base.QcInst Model.TransformState Model.TransformStateRun Model.TransformStateEx
  Gen.TState Model.TransformCfg.
Import ListNotations.

(* after h, calling object o returns exactly `want` (componentwise) *)
Definition call_gives (h : list rop) (o : nat) (want : list Qc) : bool :=
  match snd (x_step gen_cfg (x_run gen_cfg h) (Call PV nat CV o)) with
  | Out _ _ l _ => vclose 0%Q (out_val l) want
  | _ => false
  end.

Definition h_link : list rop :=
  [New PV nat CV KLin 0%nat (PkTen PV (qv 1 2, 0%nat) false); Inverse PV nat CV 0%nat true true; Edit PV nat CV 0%nat (qv 3 (-5), 0%nat)].
Definition h_nolink : list rop :=
  [New PV nat CV KSvf 0%nat (PkBool PV true); Inverse PV nat CV 0%nat false false; Edit PV nat CV 0%nat (qv 3 (-5), 0%nat)].

Lemma inverse_follows_updates :
  call_gives h_link 0%nat (qv 3 (-5)) = true /\ call_gives h_link 1%nat (qv (-3) 5) = true /\
  call_gives h_nolink 0%nat (qv 3 (-5)) = true /\ call_gives h_nolink 1%nat (qv (-3) 5) = true.
Proof. vm_compute. repeat split; reflexivity. Qed.

(* Parameter-held parameters, linked inverse (.inv): optimiser-style steps before and after *)
Definition h_link_param : list rop :=
  [New PV nat CV KLin 0%nat (PkBool PV true); Edit PV nat CV 0%nat (qv 1 2, 0%nat);
   Inverse PV nat CV 0%nat true true; Edit PV nat CV 0%nat (qv 3 (-5), 0%nat)].
Definition h_link_param_svf : list rop :=
  [New PV nat CV KSvf 0%nat (PkTen PV (qv 1 2, 0%nat) true); Call PV nat CV 0%nat;
   Inverse PV nat CV 0%nat true true; Edit PV nat CV 0%nat (qv 3 (-5), 0%nat)].
Definition keeps_parameter (h : list rop) (o : nat) : bool :=
  let s := x_run gen_cfg h in
  match get_obj PV nat CV s o with
  | Some ob => match get_params PV nat CV s ob with Some (VTen _ true) => true | _ => false end
  | None => false
  end.

Lemma inverse_link_parameter_follows :
  call_gives h_link_param 0%nat (qv 3 (-5)) = true /\ call_gives h_link_param 1%nat (qv (-3) 5) = true /\
  keeps_parameter h_link_param 0%nat = true /\
  call_gives h_link_param_svf 0%nat (qv 3 (-5)) = true /\ call_gives h_link_param_svf 1%nat (qv (-3) 5) = true /\
  keeps_parameter h_link_param_svf 0%nat = true.
Proof. vm_compute. repeat split; reflexivity. Qed.

(* REPLACING the forward parameters with data_() (not an in-place update): an inverse made with link=False
   follows only when the parameters are an nn.Parameter (the _parameters dict is shared by shallow copies);
   with a fixed tensor the forward transform's own _buffers entry is replaced and the inverse keeps the old
   tensor -- inverse(link=True) follows in both cases.  (Documented meaning of link=False: no reference to
   the forward transform is kept.) *)
Definition h_replace (isparam link : bool) : list rop :=
  [New PV nat CV KLin 0%nat (PkTen PV (qv 1 2, 0%nat) isparam); Inverse PV nat CV 0%nat link false;
   DataSet PV nat CV 0%nat (qv 3 (-5), 0%nat) false].
Lemma replacement_followed_through_shared_container :
  call_gives (h_replace true false) 1%nat (qv (-3) 5) = true /\
  call_gives (h_replace false true) 1%nat (qv (-3) 5) = true /\
  call_gives (h_replace true true) 1%nat (qv (-3) 5) = true /\
  call_gives (h_replace false false) 1%nat (qv (-1) (-2)) = true.
Proof. vm_compute. repeat split; reflexivity. Qed.
