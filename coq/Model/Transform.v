(* C06 -- spatial transforms as world-space maps (hand-written model and specification; definitions only).
   The code-shaped definitions are compositions of GENERATED pieces (Gen/Transform.v: forward, matrix,
   affine_flow, sequential / multi-level steps; Gen/GridT.v: grid coordinate maps; Gen/Hmm.v); the
   translator unit checks structurally that the traced methods are exactly these compositions.
   A grid is given by component functions (sizes n, spacing s, centre c, direction d) as in C01. *)
From Coq Require Import ZArith List Bool.
From DV Require Import Base.Field Base.LinAlg Model.Enums Model.Homog Model.Grid Model.Sampler
  Gen.Hmm Gen.GridT Gen.Transform.
Import ListNotations.
Local Open Scope fld_scope.

Section Transform.
Context {K : fld}.
Notation vec := (list K).
Notation mat := (list (list K)).

Record gridf := mkGridf { fn_ : nat -> K; fs_ : nat -> K; fc_ : nat -> K; fd_ : nat -> nat -> K }.
Definition gN (D : nat) (g : gridf) : vec := vtab D (fn_ g).
Definition gS (D : nat) (g : gridf) : vec := vtab D (fs_ g).
Definition gC (D : nat) (g : gridf) : vec := vtab D (fc_ g).
Definition gD (D : nat) (g : gridf) : mat := tab D D (fd_ g).
Definition gwf (D : nat) (g : gridf) : Prop := wf D (fn_ g) (fs_ g) (fd_ g).

(* SpatialTransform.axes(): the cube axes selected by the grid's align_corners flag *)
Definition cubeax (ac : bool) : axes := if ac then CUBE_CORNERS else CUBE.

(* ---------------------------------------------------------------- specification *)
(* coordinates w.r.t. (grid, axes) <-> world *)
Definition g_to_world (D : nat) (A : axes) (g : gridf) (x : vec) : vec :=
  to_world D A (gN D g) (gS D g) (gC D g) (gD D g) x.
Definition g_from_world (D : nat) (B : axes) (g : gridf) (w : vec) : vec :=
  from_world D B (gN D g) (gS D g) (gC D g) (gD D g) w.

(* THE world-space map of a linear transform: tensor() = M (operand form f) is defined w.r.t. the cube
   axes of its grid g with flag ac *)
Definition world_map (D : nat) (f : form) (M : mat) (ac : bool) (g : gridf) (w : vec) : vec :=
  g_to_world D (cubeax ac) g (form_apply D f M (g_from_world D (cubeax ac) g w)).

(* the displacement field a grid h (cube axes of flag ac') has to carry at its cube point x in order to
   describe the world map T:  T expressed in h's cube coordinates, minus x *)
Definition field_of_world_map (D : nat) (T : vec -> vec) (ac' : bool) (h : gridf) (x : vec) : vec :=
  vsub (g_from_world D (cubeax ac') h (T (g_to_world D (cubeax ac') h x))) x.

(* what disp(h) of a linear transform has to compute for ANY grid h (flag ac'): the matrix re-expressed in h's cube,
   i.e. h-cube -> own cube -> M -> own cube -> h-cube, minus x (CompositeTransform.disp does exactly this for composites;
   proposed repair of SpatialTransform.disp for elementary linear transforms) *)
Definition disp_reexpressed (D : nat) (f : form) (M : mat) (ac : bool) (g : gridf) (ac' : bool) (h : gridf) (x : vec) : vec :=
  vsub (gen_pts2 D (cubeax ac) (cubeax ac') (gN D g) (gS D g) (gC D g) (gD D g) (gN D h) (gS D h) (gC D h) (gD D h)
         (gen_forward D f M
           (gen_pts2 D (cubeax ac') (cubeax ac) (gN D h) (gS D h) (gC D h) (gD D h) (gN D g) (gS D g) (gC D g) (gD D g) x))) x.

(* a fresh transform is the identity: its tensor, whatever its operand form, maps every point to itself *)
Definition fresh_identity (c : lclass) (D : nat) : Prop :=
  forall x : nat -> K, form_apply D (gen_fresh_form c) (gen_fresh c D) (vtab D x) = vtab D x.

(* ---------------------------------------------------------------- code-shaped views of a linear transform *)
(* transform(points): forward pre-hook + forward -> transform_points(tensor(), points) *)
Definition view_forward (D : nat) (f : form) (M : mat) (x : vec) : vec := gen_forward D f M x.
(* disp(grid) at a lattice point with cube coordinates x of the GIVEN grid: affine_flow(tensor(), grid) *)
Definition view_disp (D : nat) (f : form) (M : mat) (x : vec) : vec := gen_affine_flow D f M x.
(* matrix() *)
Definition view_matrix (D : nat) (f : form) (M : mat) : mat := gen_matrix D f M.
(* points(x, grid=g1, axes=A, to_grid=g2, to_axes=B) / PointSetTransformer: g1 and g2 other grids *)
Definition view_points2 (D : nat) (f : form) (M : mat) (ac : bool) (g : gridf)
    (A : axes) (g1 : gridf) (B : axes) (g2 : gridf) (x : vec) : vec :=
  gen_pts2 D (cubeax ac) B (gN D g) (gS D g) (gC D g) (gD D g) (gN D g2) (gS D g2) (gC D g2) (gD D g2)
    (gen_forward D f M
      (gen_pts2 D A (cubeax ac) (gN D g1) (gS D g1) (gC D g1) (gD D g1) (gN D g) (gS D g) (gC D g) (gD D g) x)).
(* the same with the transform's own grid on both sides (Grid.transform_points takes its same-grid branch) *)
Definition view_points (D : nat) (f : form) (M : mat) (ac : bool) (g : gridf) (A B : axes) (x : vec) : vec :=
  gen_pts D (cubeax ac) B (gN D g) (gS D g) (gC D g) (gD D g)
    (gen_forward D f M (gen_pts D A (cubeax ac) (gN D g) (gS D g) (gC D g) (gD D g) x)).

(* points(...) / PointSetTransformer of ANY transform whose forward() is a map T of its own cube coordinates
   (non-rigid models: T = x + interpolated field; composites: T = the generic loop) *)
Definition view_points2_gen (D : nat) (T : vec -> vec) (ac : bool) (g : gridf)
    (A : axes) (g1 : gridf) (B : axes) (g2 : gridf) (x : vec) : vec :=
  gen_pts2 D (cubeax ac) B (gN D g) (gS D g) (gC D g) (gD D g) (gN D g2) (gS D g2) (gC D g2) (gD D g2)
    (T (gen_pts2 D A (cubeax ac) (gN D g1) (gS D g1) (gC D g1) (gD D g1) (gN D g) (gS D g) (gC D g) (gD D g) x)).
Definition world_map_gen (D : nat) (T : vec -> vec) (ac : bool) (g : gridf) (w : vec) : vec :=
  g_to_world D (cubeax ac) g (T (g_from_world D (cubeax ac) g w)).

(* ---------------------------------------------------------------- composites *)
Definition member := (form * mat)%type.
Definition m_apply (D : nat) (m : member) (x : vec) : vec := form_apply D (fst m) (snd m) x.
Definition m_ok (D : nat) (m : member) : Prop := mshape D (fcols D (fst m)) (snd m).

(* SequentialTransform.tensor(): mat = t0; for t in rest: mat = homogeneous_matmul(t, mat) *)
Definition seq_step (D : nat) (acc m : member) : member :=
  (gen_seq_form (fst acc) (fst m), gen_seq2 D (fst acc) (fst m) (snd acc) (snd m)).
Definition seq_tensor (D : nat) (ms : list member) : member :=
  match ms with
  | [] => (FH, hid D)
  | m :: r => fold_left (seq_step D) r m
  end.
(* specification: members are applied in the listed order *)
Definition seq_spec (D : nat) (ms : list member) (x : vec) : vec :=
  fold_left (fun y m => m_apply D m y) ms x.

(* MultiLevelTransform.tensor() for linear members:
     mat = as_homogeneous_matrix(t0).clone(); mat = mat + as_homogeneous_matrix(t) for every further member;
     if there is more than one member: mat = mat - (k - 1) * eye(D, D + 1) *)
Definition msub (A B : mat) : mat := map (fun p => vsub (fst p) (snd p)) (combine A B).
Definition ml_step (D : nat) (acc : mat) (m : member) : mat := madd acc (gen_matrix D (fst m) (snd m)).
Definition ml_tensor (D : nat) (ms : list member) : mat :=
  match ms with
  | [] => hid D
  | [m] => gen_matrix D (fst m) (snd m)
  | m :: r => msub (fold_left (ml_step D) r (gen_matrix D (fst m) (snd m)))
                   (mscale (of_Z (Z.of_nat (length r))) (hid D))
  end.
(* MultiLevelTransform.forward(), generic branch: u = 0; for each member: y = member(x); u += y - x; result x + u.
   ys are the points the members map x to. *)
Definition ml_forward (x : vec) (ys : list vec) : vec :=
  vadd x (fold_left (fun u y => vadd u (vsub y x)) ys (vzero (length x))).
(* specification: y = x + sum_i u_i(x) with u_i(x) = T_i(x) - x *)
Fixpoint vsum_list (n : nat) (l : list vec) : vec :=
  match l with [] => vzero n | v :: r => vadd v (vsum_list n r) end.
Definition ml_spec (x : vec) (ys : list vec) : vec :=
  vadd x (vsum_list (length x) (map (fun y => vsub y x) ys)).
Definition ml_spec_linear (D : nat) (ms : list member) (x : vec) : vec :=
  ml_spec x (map (fun m => m_apply D m x) ms).

(* ---------------------------------------------------------------- composites, generic branch of forward() *)
(* a member as forward() sees it: told by the flag whether the points are the undeformed lattice of its domain *)
Definition fmember := bool -> vec -> vec.
(* SequentialTransform.forward: for i, transform in enumerate(members): y = transform.forward(y, grid=grid and i == 0) *)
Fixpoint seq_loop (i : nat) (ms : list fmember) (grid : bool) (y : vec) : vec :=
  match ms with
  | [] => y
  | m :: r => seq_loop (S i) r grid (m (grid && Nat.eqb i 0) y)
  end.
Definition seq_forward (ms : list fmember) (grid : bool) (x : vec) : vec := seq_loop 0 ms grid x.
(* the flags the loop hands to members 0 .. n-1 *)
Definition loop_flags (n : nat) (grid : bool) : list bool := map (fun i => grid && Nat.eqb i 0) (seq 0 n).
(* MultiLevelTransform.forward with the flag: y_i = member_i.forward(x, grid and i == 0) *)
Definition ml_forward_flag (ms : list fmember) (grid : bool) (x : vec) : vec :=
  ml_forward x (map (fun p => snd p (grid && Nat.eqb (fst p) 0) x) (combine (seq 0 (length ms)) ms)).
(* specification: composition / sum of the members' POINT maps (flag false) *)
Definition seq_point_map (ms : list fmember) (x : vec) : vec := fold_left (fun y m => m false y) ms x.
Definition ml_point_map (ms : list fmember) (x : vec) : vec := ml_spec x (map (fun m => m false x) ms).
(* observed flag table entry: (kinds of the members, flag given to the composite, flags the members received) *)
Definition flags_ok (e : list bool * bool * list bool) : bool :=
  let '(kinds, grid, seen) := e in
  (Nat.eqb (length seen) (length kinds)) && forallb (fun p => Bool.eqb (fst p) (snd p)) (combine seen (loop_flags (length kinds) grid)).

(* ---------------------------------------------------------------- non-rigid models: T := the interpolated field *)
Variable floorK : K -> Z.
(* warp_points: y = x + u(x), u sampled with grid_sample (border padding, the transform grid's flag) *)
Definition warp_points1 (ac : bool) (u : list K) (x : K) : K := x + grid_sample1 floorK PBorder ac u x.
Definition warp_points2 (ac : bool) (ux uy : list (list K)) (p : vec) : vec :=
  match p with
  | [x; y] => [x + grid_sample2 floorK PBorder ac ux x y; y + grid_sample2 floorK PBorder ac uy x y]
  | _ => []
  end.
Definition warp_points3 (ac : bool) (ux uy uz : list (list (list K))) (p : vec) : vec :=
  match p with
  | [x; y; z] => [x + grid_sample3 floorK PBorder ac ux x y z; y + grid_sample3 floorK PBorder ac uy x y z;
                  z + grid_sample3 floorK PBorder ac uz x y z]
  | _ => []
  end.
(* warp_grid (used when the caller declares the points to be the undeformed lattice of the domain):
   the field is RESIZED to the lattice size and added sample by sample *)
Definition warp_grid1 (ac : bool) (u : list K) (xs : list K) : list K :=
  vadd xs (resize1 floorK ac (zlen xs) u).
(* a dense-field member in 2-D as forward() applies it to the lattice point with index (jx, jy) of an mx x my lattice:
   grid = true: the field RESIZED to the lattice shape and added sample by sample; grid = false: interpolated at the point *)
Definition ddf_member2 (ac : bool) (ux uy : list (list K)) (mx my : Z) (jx jy : nat) : fmember :=
  fun grid p =>
    if grid then vadd p [nth jx (nth jy (resize2 floorK ac mx my ux) []) 0; nth jx (nth jy (resize2 floorK ac mx my uy) []) 0]
    else warp_points2 ac ux uy p.
(* lattice coordinates of a grid of m samples, flag ac (C01: Grid.coords) *)
Definition lattice_coord (ac : bool) (m : Z) (j : Z) : K :=
  if ac then (1 + 1) * of_Z j / (of_Z m - 1) - 1 else ((1 + 1) * of_Z j + 1) / of_Z m - 1.

(* ---------------------------------------------------------------- ImageTransformer *)
(* normalised source coordinates for a target point given in the target's cube coordinates (flag = transform's) *)
Definition warp_coords (D : nat) (f : form) (ac : bool) (M : mat) (tg g src : gridf) (xc : vec) : vec :=
  gen_pts2 D (cubeax ac) (cubeax ac) (gN D g) (gS D g) (gC D g) (gD D g) (gN D src) (gS D src) (gC D src) (gD D src)
    (gen_forward D f M
      (gen_pts2 D (cubeax ac) (cubeax ac) (gN D tg) (gS D tg) (gC D tg) (gD D tg) (gN D g) (gS D g) (gC D g) (gD D g) xc)).
(* flip_coords = True: the transform acts on coordinates in (z, y, x) order; the grid maps always act in (x, y, z) order, so the
   lattice point is pre-mapped first, then flipped, transformed, flipped back and mapped to the source cube *)
Definition warp_coords_flip (D : nat) (f : form) (ac : bool) (M : mat) (tg g src : gridf) (xc : vec) : vec :=
  gen_pts2 D (cubeax ac) (cubeax ac) (gN D g) (gS D g) (gC D g) (gD D g) (gN D src) (gS D src) (gC D src) (gD D src)
    (rev (gen_forward D f M (rev
      (gen_pts2 D (cubeax ac) (cubeax ac) (gN D tg) (gS D tg) (gC D tg) (gD D tg) (gN D g) (gS D g) (gC D g) (gD D g) xc)))).
(* output sample at target index j: target.coords(align_corners=ac)[j] -> warp_coords -> grid_sample(ac) *)
Definition target_coord (D : nat) (ac : bool) (tg : gridf) (j : vec) : vec :=
  gen_pts D GRID (cubeax ac) (gN D tg) (gS D tg) (gC D tg) (gD D tg) j.
Definition warp_out2 (pad : padmode) (f : form) (ac : bool) (M : mat) (tg g src : gridf) (img : list (list K)) (j : vec) : K :=
  match warp_coords 2 f ac M tg g src (target_coord 2 ac tg j) with
  | [x; y] => grid_sample2 floorK pad ac img x y
  | _ => 0
  end.
Definition warp_out3 (pad : padmode) (f : form) (ac : bool) (M : mat) (tg g src : gridf) (img : list (list (list K))) (j : vec) : K :=
  match warp_coords 3 f ac M tg g src (target_coord 3 ac tg j) with
  | [x; y; z] => grid_sample3 floorK pad ac img x y z
  | _ => 0
  end.
(* ImageTransformer with a composite whose forward() is the generic loop: pre-mapped target point -> members -> source cube *)
Definition warp_seq_out2 (pad : padmode) (ac : bool) (ms : list fmember) (grid : bool) (tg g src : gridf) (img : list (list K)) (j : vec) : K :=
  let x2 := gen_pts2 2 (cubeax ac) (cubeax ac) (gN 2 tg) (gS 2 tg) (gC 2 tg) (gD 2 tg) (gN 2 g) (gS 2 g) (gC 2 g) (gD 2 g)
              (target_coord 2 ac tg j) in
  match gen_pts2 2 (cubeax ac) (cubeax ac) (gN 2 g) (gS 2 g) (gC 2 g) (gD 2 g) (gN 2 src) (gS 2 src) (gC 2 src) (gD 2 src)
          (seq_forward ms grid x2) with
  | [x; y] => grid_sample2 floorK pad ac img x y
  | _ => 0
  end.
(* "the input image evaluated at T(x) in world space": the continuous source index of the world point
   T(world position of target sample j) *)
Definition pullback_index (D : nat) (f : form) (ac : bool) (M : mat) (tg g src : gridf) (j : vec) : vec :=
  to_index D WORLD (gN D src) (gS D src) (gC D src) (gD D src)
    (world_map D f M ac g (g_to_world D GRID tg j)).
End Transform.
