"""C05 -- resampling onto any oriented grid matches an independent reference resampler."""
import itertools
import math

import vlib
from vlib import Violation, qc, qc_mat, qc_vec, coq_list

ID = "C05"
GEN_UNITS = ["GridT", "SampleT"]
PROPS_FILE = "Props/C05.v"
PROPS_MOD = "Props.C05"
COQ_TARGETS = ["Props/C05.vo", "Base/QcCmp.vo", "Model/ResampleQc.vo"]
SOURCES = ["deepali/data/image.py", "deepali/core/image.py", "deepali/core/grid.py", "deepali/modules/sample.py"]
TRUSTED = [
    "Coq 8.16.1 kernel + vm_compute",
    "translator (tools/symtorch.py, tools/tr_units/grid.py, samplet.py): deepali's own code run on symbols with F.grid_sample / U.grid_sample "
    "replaced by recorders, torch.arange evaluated exactly, round_decimals recorded and skipped; ImageBatch.sample is run on a duck-typed "
    "stand-in for the tensor subclass (tensor(), align_corners(), _grid, __len__, _make_instance)",
    "modelled not verified: F.grid_sample (un-normalisation, bi/trilinear and nearest kernels, zeros/border padding: coq/Model/Sampler.v), "
    "validated against torch by this run's correspondence (explicit-coordinate cases); IEEE rounding (coordinates are float32) and the default "
    "rounding of source-cube coordinates to 12 decimals (C01's error-bound theorem) are outside the exact model",
    "the ITK resampler spec (coq/Model/Resample.v itk_resample*: physical point of the target index, continuous source index, inside-buffer "
    "test [-1/2,n-1/2), linear with clamped neighbours / nearest with round-half-up, default value outside) is validated against "
    "SimpleITK.Resample(Image.sitk(), target header, identity) by this run's correspondence",
]
ASSUMPTIONS = ["nearest neighbour: equality with ITK is claimed away from exact rounding ties only (torch rounds half to even, ITK half up)",
               "reflection padding and cubic/B-spline sampling are outside the property (linear / nearest, zeros / border / constant)",
               "SampleImage(align_centers=True) is not compared with ITK (it is not the identity transform)"]

TOL = "1 # 2500"
EPS = "1 # 1000"


# ------------------------------------------------------------------------------------------------
def _rot3(q):
    w, x, y, z = q
    n = w * w + x * x + y * y + z * z
    return [[(w * w + x * x - y * y - z * z) / n, 2 * (x * y - w * z) / n, 2 * (x * z + w * y) / n],
            [2 * (x * y + w * z) / n, (w * w - x * x + y * y - z * z) / n, 2 * (y * z - w * x) / n],
            [2 * (x * z - w * y) / n, 2 * (y * z + w * x) / n, (w * w - x * x - y * y + z * z) / n]]


def _dir(rng, D):
    k = rng.random()
    if D == 2:
        if k < .2:
            return [[1.0, 0.0], [0.0, 1.0]]
        if k < .5:
            return rng.choice([[[0.0, -1.0], [1.0, 0.0]], [[-1.0, 0.0], [0.0, -1.0]], [[0.0, 1.0], [1.0, 0.0]], [[1.0, 0.0], [0.0, -1.0]],
                               [[0.0, 1.0], [-1.0, 0.0]], [[-1.0, 0.0], [0.0, 1.0]]])
        a, b = rng.choice([(3, 4), (5, 12), (8, 15), (-4, 3)])
        h = math.hypot(a, b)
        return [[a / h, -b / h], [b / h, a / h]]
    if k < .15:
        return [[1.0, 0, 0], [0, 1.0, 0], [0, 0, 1.0]]
    if k < .45:
        perm = rng.choice(list(itertools.permutations(range(3))))
        m = [[0.0] * 3 for _ in range(3)]
        for i, p in enumerate(perm):
            m[i][p] = rng.choice([1.0, -1.0])
        return m
    q = [rng.randint(-3, 3) for _ in range(4)]
    if not any(q):
        q = [1, 0, 0, 0]
    return _rot3(q)


def _src(rng, D):
    mx = 6 if D == 2 else 4
    return dict(size=[rng.randint(2, mx) for _ in range(D)], spacing=[rng.choice([0.5, 0.75, 1.0, 1.5, 2.0]) for _ in range(D)],
                center=[rng.randint(-40, 40) / 4 for _ in range(D)], direction=_dir(rng, D), align_corners=rng.random() < .5)


def _tgt(rng, D, src):
    """target lattice around the source: partly inside, partly outside (padding is exercised)"""
    mx = 6 if D == 2 else 4
    ext = [s * n for s, n in zip(src["spacing"], src["size"])]
    size = [rng.randint(2, mx) for _ in range(D)]
    scale = rng.choice([0.5, 0.75, 1.0, 1.25])
    spacing = [max(0.125, round(scale * min(ext) / max(size) * 8) / 8) * rng.choice([1.0, 1.0, 1.5]) for _ in range(D)]
    center = [c + rng.randint(-6, 6) / 16 * min(ext) / 2 for c in src["center"]]
    center = [round(c * 16) / 16 + rng.choice([0.0, 1 / 32, 3 / 64]) for c in center]
    return dict(size=size, spacing=spacing, center=center, direction=_dir(rng, D), align_corners=rng.random() < .5)


def _data(rng, N, shape):
    def rec(dims):
        if not dims:
            return rng.randint(-32, 32) / 4
        return [rec(dims[1:]) for _ in range(dims[0])]
    return [rec(list(shape)) for _ in range(N)]


def _shape(g):
    return list(reversed(g["size"]))


def _pad(rng):
    return rng.choice(["zeros", "border", "border", rng.choice([-2.5, 0.75, 3.0, 10.0])])


def _coq_pad(p):
    if p is None or p == "zeros":
        return "(PadMode PZeros)"
    if p == "border":
        return "(PadMode PBorder)"
    return f"(PadConst (K:=QcF) {qc(float(p))})"


def _coq_mode(m):
    return "Linear" if m == "linear" else "Nearest"


def _g(st):
    return f"{qc_vec(st['n'])} {qc_vec(st['s'])} {qc_vec(st['c'])} {qc_mat(st['d'])}"


def _g_src(st):
    return f"{qc_vec(st['s'])} {qc_vec(st['c'])} {qc_mat(st['d'])}"


def _nested(v):
    if isinstance(v, list):
        return coq_list([_nested(x) for x in v])
    return qc(float(v))


def _b(x):
    return "true" if x else "false"


AXC = {"GRID": "GRID", "CUBE": "CUBE", "CUBE_CORNERS": "CUBE_CORNERS", "WORLD": "WORLD"}
APIS = ["image_sample_grid", "batch_sample_grid", "SampleImage", "AlignImage", "TransformImage", "batch_sample_grid", "image_sample_coords",
        "batch_sample_coords", "core_sample_image", "core_grid_sample", "image_sample_grid", "itk"]


def _gen_cases(ctx, n):
    rng = ctx.rng
    cases = []
    for i in range(n):
        D = 2 if (i // 3) % 3 != 2 else 3
        api = APIS[i % len(APIS)]
        mode = "nearest" if (i // len(APIS)) % 3 == 2 else "linear"
        c = {"api": api, "D": D, "mode": mode, "padding": _pad(rng)}
        s0 = _src(rng, D)
        nsrc = 1
        if api in ("batch_sample_grid", "batch_sample_coords", "core_sample_image", "core_grid_sample"):
            nsrc = rng.choice([1, 2, 3])
        N = nsrc
        per_image = api == "batch_sample_grid" and N > 1 and rng.random() < .6
        srcs = [s0]
        if per_image:
            for _ in range(N - 1):
                s = _src(rng, D)
                s["size"] = s0["size"]
                s["align_corners"] = s0["align_corners"]
                srcs.append(s)
        c["src"] = srcs
        c["data"] = _data(rng, N, _shape(s0))
        if api in ("image_sample_grid", "batch_sample_grid", "SampleImage", "AlignImage", "TransformImage", "itk"):
            t0 = _tgt(rng, D, s0)
            tg = [t0]
            if per_image and rng.random() < .5:
                # ONE shared target for images on different grids; half of the time it is the grid of image 0 (the "already
                # on the target grid" shortcut must not return the batch unsampled)
                if rng.random() < .5:
                    tg = [dict(s0)]
                    for s_ in srcs[1:]:   # keep the other images close so that the target overlaps them
                        s_["center"] = [c + rng.choice([-0.5, 0.25, 0.75]) for c in s0["center"]]
                else:
                    for s_ in srcs[1:]:
                        s_["center"] = [c + rng.choice([-0.5, 0.25, 0.75]) for c in s0["center"]]
            elif per_image:
                for k in range(1, N):
                    t = _tgt(rng, D, srcs[k])
                    t["size"] = t0["size"]
                    tg.append(t)
            elif api == "batch_sample_grid" and N > 1 and rng.random() < .5:
                tg = [t0] * N     # N references to one grid; otherwise ONE Grid for the whole batch (must come back as N grids)
            c["tgt"] = tg
            if api in ("SampleImage", "AlignImage", "TransformImage"):
                c["axes"] = rng.choice([None, "GRID", "CUBE", "CUBE_CORNERS", "WORLD"])
            if api == "itk":
                c["dflt"] = rng.choice([0.0, -7.5, 2.25])
                c["padding"] = None
        else:
            M = rng.randint(3, 8)
            nb = N if rng.random() < .5 or api == "image_sample_coords" else 1
            def pt():
                return [rng.randint(-22, 22) / 16 + rng.choice([0.0, 1 / 128]) for _ in range(D)]
            if api == "image_sample_coords":
                c["coords"] = [pt() for _ in range(M)]
            else:
                c["coords"] = [[pt() for _ in range(M)] for _ in range(nb)]
            c["ac"] = rng.random() < .5
        cases.append(c)
    return cases


def _case_terms(i, c, r):
    """Coq boolean terms for one case (one per batch item) + escape-count terms"""
    D = c["D"]
    api = c["api"]
    m = _coq_mode(c["mode"])
    terms = []
    cmp_lat = f"cmp_lat{D}"
    if api == "itk":
        st, tt = r["src"][0], r["tgt"][0]
        img = _nested(c["data"][0])
        f = f"(qitk_resample{D} {m} {qc(c['dflt'])} {_g(tt)} {_g_src(st)} {img})"
        idx = f"(itk_cindex (K:=QcF) {D} {_g(tt)} (zvec (isizes{D} (K:=QcF) {img})) {_g_src(st)} J)"
        amb = f"(fun J => near_edge ({EPS}) (isizes{D} (K:=QcF) {img}) {idx}" + (f" || near_tie ({EPS}) {idx})" if m == "Nearest" else ")")
        terms.append((f"{cmp_lat} ({TOL}) {f} {amb} {_nested(r['val'][0])}", amb, tt["n"]))
        return terms
    p = _coq_pad(c["padding"])
    ac = _b(r["ac"])
    vals = r["val"]
    for k, v in enumerate(vals):
        img = _nested(c["data"][k if len(c["data"]) > 1 else 0])
        if api in ("image_sample_grid", "batch_sample_grid"):
            st = r["src"][k if len(r["src"]) > 1 else 0]
            tt = r["tgt"][k if len(r["tgt"]) > 1 else 0]
            f = f"(qdp_sample{D} {m} {p} {ac} {_g(tt)} {_g_src(st)} {img})"
            idx = f"(dp_index (K:=QcF) {D} {ac} {_g(tt)} (isizes{D} (K:=QcF) {img}) {_g_src(st)} J)"
            amb = f"(fun J => near_tie ({EPS}) {idx})" if m == "Nearest" else "no_amb"
            terms.append((f"{cmp_lat} ({TOL}) {f} {amb} {_nested(v)}", amb, tt["n"]))
        elif api in ("SampleImage", "AlignImage", "TransformImage"):
            st, tt = r["src"][0], r["tgt"][0]
            A = AXC[c["axes"]] if c.get("axes") else ("CUBE_CORNERS" if r["ac"] else "CUBE")
            f = f"(qmod_sample{D} {m} {p} {A} {ac} {_g(tt)} {_g_src(st)} {img})"
            idx = f"(mod_index (K:=QcF) {D} {A} {ac} {_g(tt)} (isizes{D} (K:=QcF) {img}) {_g_src(st)} J)"
            amb = f"(fun J => near_tie ({EPS}) {idx})" if m == "Nearest" else "no_amb"
            terms.append((f"{cmp_lat} ({TOL}) {f} {amb} {_nested(v)}", amb, tt["n"]))
        else:
            co = c["coords"]
            pts = co if api == "image_sample_coords" else co[k if len(co) > 1 else 0]
            f = f"(qdp_grid_sample{D} {m} {p} {ac} {img})"
            amb = f"(fun X => near_tie ({EPS}) (vunnorm (K:=QcF) {ac} (isizes{D} (K:=QcF) {img}) X))" if m == "Nearest" else "no_amb"
            terms.append((f"cmp_pts ({TOL}) {f} {amb} {coq_list([qc_vec(x) for x in pts])} {qc_vec(v)}", None, None))
    return terms


def correspondence(ctx):
    n = ctx.n(180, 1500)
    cases = _gen_cases(ctx, n)
    dist = {}
    failures = []
    res = []
    dl = [c for c in cases if c["api"] != "itk"]
    il = [c for c in cases if c["api"] == "itk"]
    rd = vlib.run_impl("c05_impl", {"fn": "model_cases", "cases": dl})
    ri = vlib.run_impl("c05_impl", {"fn": "itk_cases", "cases": il})
    itd, iti = iter(rd), iter(ri)
    for c in cases:
        res.append(next(iti) if c["api"] == "itk" else next(itd))
    header = ["From Coq Require Import ZArith QArith Qcanon List String Bool.",
              "From DV Require Import Base.Field Base.LinAlg Base.QcInst Base.QcCmp Model.Enums Model.Grid Model.Sampler Model.Resample Model.ResampleQc.",
              "Import ListNotations."]
    shards, cur, names = [], list(header), []
    allnames = []
    n_eval = 0
    for i, (c, r) in enumerate(zip(cases, res)):
        tag = f"{c['api']}:D{c['D']}:{c['mode']}:{'const' if isinstance(c['padding'], float) else c['padding']}:N{len(c['data'])}" + \
              (":per-image" if len(c["src"]) > 1 else "") + (":shared-target" if len(c["src"]) > 1 and len(c.get("tgt") or []) == 1 else "")
        dist[tag] = dist.get(tag, 0) + 1
        if "error" in r:
            failures.append({"case": _brief(c), "impl": r, "why": "implementation raised where the model is defined"})
            continue
        if c["api"] != "itk":
            if r.get("input_unchanged") is False:
                failures.append({"case": _brief(c), "why": "implementation modified its input data"})
            if r.get("out_grid_is_target") is False or r.get("out_shape_ok") is False:
                failures.append({"case": _brief(c), "why": "result does not carry the target grid / shape"})
            if c["api"] == "batch_sample_grid" and r.get("n_out_grids") != r.get("n_out"):
                failures.append({"case": _brief(c), "why": f"result has {r.get('n_out')} items but {r.get('n_out_grids')} grids"})
        for k, (t, amb, tn) in enumerate(_case_terms(i, c, r)):
            nm = f"c{i}_{k}"
            cur.append(f"Definition {nm} : bool := {t}.")
            names.append((i, nm))
            n_eval += 1
        if len(names) >= 120:
            shards.append((cur, names))
            cur, names = list(header), []
    if names:
        shards.append((cur, names))
    for si, (lines, nms) in enumerate(shards):
        lines = lines + ["Definition results : list bool := " + coq_list([nm for _, nm in nms]) + ".",
                         'Eval vm_compute in ("FAIL"%string, failing results).']
        rc, out = vlib.coqc_text("\n".join(lines) + "\n", ctx.scratch, f"cases_c05_{si}", timeout=900)
        bad = vlib.parse_nat_list(out, "FAIL")
        if rc != 0 or bad is None:
            failures.append({"why": "case file did not evaluate (generated definitions missing or ill-typed)", "coq": out[-800:]})
            continue
        for j in bad:
            i = nms[j][0]
            failures.append({"case": _brief(cases[i]), "impl_first_values": _first(res[i].get("val")),
                             "why": ("ITK resampler spec differs from SimpleITK" if cases[i]["api"] == "itk"
                                     else "model value differs from implementation") + f" (item {nms[j][1]})"})
    # how many compared samples were legitimately ambiguous (nearest ties / buffer edge): measured on a subset inside Coq
    esc = _count_escapes(ctx, cases, res)
    return {"evaluations": n_eval, "distinct_nontrivial": len({str(c) for c in cases}),
            "rule": "seeded random source images (sizes <= 6 per axis in 2-D, <= 4 in 3-D, dyadic values) on oriented anisotropic grids (identity, "
                    "90-degree rotations, flips, axis permutations, rational rotations), target lattices partly outside the source; APIs cycled: "
                    "Image.sample(grid), ImageBatch.sample(grid | per-image grids | N copies), Image/ImageBatch.sample(coords), core.sample_image, "
                    "core.grid_sample, SampleImage / AlignImage / TransformImage (4 axes + default), and the ITK spec vs SimpleITK.Resample; "
                    "linear / nearest x zeros / border / constant; model fed the float32 grid attributes the implementation stores; every target "
                    "sample compared inside Coq; distinct by full input",
            "samples": [{"case": _brief(cases[i]), "impl_first_values": _first(res[i].get("val"))} for i in range(min(3, len(cases)))],
            "failures": failures, "distribution": dist,
            "tolerances": {"values": "4e-4 * (1 + |model|) (coordinates and data are float32 in the implementation)",
                           "ambiguity escapes": f"nearest within 1e-3 of a rounding tie, ITK within 1e-3 of the buffer edge: {esc}"}}


def _count_escapes(ctx, cases, res):
    lines = ["From Coq Require Import ZArith QArith Qcanon List String Bool.",
             "From DV Require Import Base.Field Base.LinAlg Base.QcInst Base.QcCmp Model.Enums Model.Grid Model.Sampler Model.Resample Model.ResampleQc.",
             "Import ListNotations."]
    tot, k = 0, 0
    names = []
    for i, (c, r) in enumerate(zip(cases, res)):
        if "error" in r or k >= 40:
            continue
        for (t, amb, tn) in _case_terms(i, c, r)[:1]:
            if amb and amb != "no_amb" and tn:
                sz = " ".join(str(int(v)) for v in tn)
                lines.append(f"Definition e{i} : nat := count_lat{c['D']} {amb} {sz}.")
                names.append(f"e{i}")
                tot += int(math.prod(int(v) for v in tn))
                k += 1
    if not names:
        return "0 of 0 sampled"
    lines.append("Definition esc : list nat := [fold_right Nat.add 0%nat " + coq_list(names) + "].")
    lines.append('Eval vm_compute in ("ESC"%string, esc).')
    rc, out = vlib.coqc_text("\n".join(lines) + "\n", ctx.scratch, "esc_c05", timeout=600)
    v = vlib.parse_nat_list(out, "ESC")
    return f"{v[0] if v else '?'} of {tot} samples in {len(names)} nearest/ITK cases"


def _brief(c):
    return {k: v for k, v in c.items() if k != "data"} | {"data_shape": [len(c["data"])] + list(reversed(c["src"][0]["size"]))}


def _first(v):
    while isinstance(v, list) and v and isinstance(v[0], list):
        v = v[0]
    return v[:4] if isinstance(v, list) else v


def search(ctx, broken, corr_failures):
    n = ctx.n(60, 600)
    r = vlib.run_impl("c05_impl", {"fn": "oracle", "seed": ctx.seed, "n": n}, timeout=1500)
    ctx.notes.append(f"implementation-side property evaluation (Image.sample vs SimpleITK.Resample inside the source field of view, own grid, "
                     f"coords vs grid, batches, constant padding vs ITK on the c-extended image, module API): {r['counts']}")
    out, seen = [], set()
    for f in r["fails"]:
        if f["key"] in seen:
            continue
        seen.add(f["key"])
        out.append(Violation(key=f["key"], what=f["what"], replay={"oracle": "c05", "seed": ctx.seed, "n": n, "failure": f}))
    return out


def explains(broken_item, found):
    keys = " ".join(v.key for v in found).lower()
    b = broken_item.lower()
    if not keys:
        return False
    if "itk resampler spec" in b:
        return False
    # any concrete violation found on the implementation is attributed to broken obligations without a more specific cause
    return True


def replay(ctx, data):
    f = data.get("failure") or {}
    r = vlib.run_impl("c05_impl", {"fn": "oracle", "seed": data.get("seed", ctx.seed), "n": data.get("n", 60)}, timeout=1500)
    for g in r["fails"]:
        if g["key"] == f.get("key"):
            return g["what"]
    return None


MANIFEST_ENTRY = {
    "text": "Theorems over every field of characteristic 0 (and over Qc with Qfloor / round-half-even for the order-dependent parts): for D in {2,3}, "
            "ALL well-formed source/target grid pairs (any rotation, anisotropy, position, size), both align_corners flags and EVERY target index, "
            "the continuous source index of deepali's pipeline (coords -> target cube -> world -> source cube -> grid_sample un-normalisation; "
            "Gen/GridT.v) equals ITK's itk_index(source, itk_phys(target, j)) -- for Image/ImageBatch.sample and for the module API "
            "(precomputed matrix = gen_T2, all 4 axes); hence inside the source field of view the linear result (zeros / border / constant "
            "padding) and, inside ITK's buffer away from rounding ties, the nearest result EQUAL the ITK identity-transform resampler's; sampling on "
            "the own grid returns the stored samples for every mode/padding; explicit coordinates = grid sampling; the subtract-c / zeros / add-c "
            "emulation (pre/post maps traced from core.image.grid_sample) is interpolation of the c-extended image (1-D/2-D/3-D, any cell). "
            "Tie: Gen/SampleT.v is traced from core/image.py, modules/sample.py, data/image.py on every run (padding/mode tables, _matrix, the "
            "coordinates ImageBatch.sample / SampleImage / AlignImage / TransformImage hand to grid_sample on a concrete lattice with symbolic "
            "grids, proved equal to the model); correspondence: Coq model (exact rationals) vs Image.sample / ImageBatch.sample(grid|coords) / "
            "sample_image / grid_sample / SampleImage / AlignImage / TransformImage, and the Coq ITK spec vs SimpleITK.Resample on Image.sitk().",
    "note": "Partial: float32 rounding of coordinates and the 12-decimal rounding of source-cube coordinates are outside the exact model (tolerance "
            "4e-4 relative; nearest ties and ITK buffer edges within 1e-3 are escaped and counted). Nearest equality excludes exact ties by "
            "hypothesis. Trusted: Coq kernel, vm_compute, translator, torch grid_sample kernel semantics (validated by correspondence), SimpleITK as "
            "second implementation.",
}
