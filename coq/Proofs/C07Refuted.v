(* C07 -- witnesses on the executable instance of the transform state machine (evaluation only):
   inverse(link=True) fails for Parameter-held parameters; it works for a fixed tensor and then follows
   in-place updates of the forward transform. *)
From Coq Require Import List Bool ZArith QArith Qcanon.
From DV Require Import Base.QcInst Model.TransformState Model.TransformStateRun Model.TransformStateEx
  Gen.TState Model.TransformCfg.
Import ListNotations.

Definition raises_type_error (h : list rop) (x : rop) : bool :=
  match snd (x_step gen_cfg (x_run gen_cfg h) x) with
  | Raised _ _ TypeErr => true
  | _ => false
  end.

(* every class shares ParametricTransform.link_: one witness per parameter container *)
Lemma inverse_link_parameter_raises :
  raises_type_error [New PV nat CV KLin 0%nat (PkBool PV true)] (Inverse PV nat CV 0%nat true true) = true /\
  raises_type_error [New PV nat CV KSvf 0%nat (PkTen PV (qv 1 2, 0%nat) true)] (Inverse PV nat CV 0%nat true false) = true.
Proof. vm_compute. split; reflexivity. Qed.

(* after h, calling object o returns exactly `want` (componentwise) *)
Definition call_gives (h : list rop) (o : nat) (want : list Qc) : bool :=
  match snd (x_step gen_cfg (x_run gen_cfg h) (Call PV nat CV o)) with
  | Out _ _ l _ => vclose 0%Q (out_val l) want
  | _ => false
  end.

Definition h_link : list rop :=
  [New PV nat CV KLin 0%nat (PkTen PV (qv 1 2, 0%nat) false); Inverse PV nat CV 0%nat true true; Edit PV nat CV 0%nat (qv 3 (-5), 0%nat)].
Definition h_nolink : list rop :=
  [New PV nat CV KSvf 0%nat (PkBool PV true); Inverse PV nat CV 0%nat false false; Edit PV nat CV 0%nat (qv 3 (-5), 0%nat)].

Lemma inverse_follows_updates :
  call_gives h_link 0%nat (qv 3 (-5)) = true /\ call_gives h_link 1%nat (qv (-3) 5) = true /\
  call_gives h_nolink 0%nat (qv 3 (-5)) = true /\ call_gives h_nolink 1%nat (qv (-3) 5) = true.
Proof. vm_compute. repeat split; reflexivity. Qed.
