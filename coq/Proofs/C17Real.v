(* C17: signs -- all regularisers are non-negative over the reals; total variation scales with |s|. *)
From Coq Require Import Reals Lra Psatz List Bool ZArith.
From DV Require Import Base.Field Base.LinAlg Base.RInst Model.Losses Model.LossesR Model.RegStencil Model.Regularisers
  Proofs.C16Lists Proofs.C17Stencil Proofs.C17Loss Proofs.C16Real.
Import ListNotations.
Open Scope R_scope.

Ltac rf := cbv [RF fadd fmul fsub fopp fdiv finv f0 f1 T Rabs'] in *.

Lemma sumf_nonneg (l : list nat) (f : nat -> RF) : (forall x, 0 <= f x) -> 0 <= sumf l f.
Proof. intro H. unfold sumf. induction l as [|x l IH]; cbn [map vsum]; rf; [lra | specialize (H x); lra]. Qed.

Lemma half_nonneg (a : R) : 0 <= a -> 0 <= a / (1 + 1).
Proof. intro H. unfold Rdiv. apply Rmult_le_pos; [exact H | left; apply Rinv_0_lt_compat; lra]. Qed.

Section NN.
Variables (m : dmode) (sh : list Z) (sp : list RF) (u : list (idx -> RF)) (i : idx).

Lemma bending_nonneg : 0 <= bending_pt m sh sp u i.
Proof.
  unfold bending_pt. apply sumf_nonneg. intro c. apply sumf_nonneg. intro d. apply sumf_nonneg. intro e.
  destruct (Nat.ltb e d); [rf; lra|]. unfold sq. pose proof (sq_nn (d2 m sh sp d e (comp u c) i)) as H.
  destruct (Nat.eqb d e); rf; lra.
Qed.

Lemma curvature_nonneg : 0 <= curvature_pt m sh sp u i.
Proof.
  unfold curvature_pt. change (@fdiv RF) with Rdiv. change (@fadd RF) with Rplus. change (@f1 RF) with 1.
  apply half_nonneg. apply sumf_nonneg. intro c. unfold sq. apply sq_nn.
Qed.

Lemma diffusion_nonneg : 0 <= diffusion_pt m sh sp u i.
Proof.
  unfold diffusion_pt. change (@fdiv RF) with Rdiv. change (@fadd RF) with Rplus. change (@f1 RF) with 1.
  apply half_nonneg. apply sumf_nonneg. intro d. apply sumf_nonneg. intro c. unfold sq. apply sq_nn.
Qed.

Lemma divergence_nonneg : 0 <= div_pt m sh sp u i.
Proof.
  unfold div_pt. change (@fdiv RF) with Rdiv. change (@fadd RF) with Rplus. change (@f1 RF) with 1.
  apply half_nonneg. unfold sq. apply sq_nn.
Qed.

Lemma tv_nonneg : 0 <= tv_pt m sh sp u i Rabs'.
Proof. unfold tv_pt. apply sumf_nonneg. intro d. apply sumf_nonneg. intro c. apply Rabs_pos. Qed.

Lemma elasticity_nonneg (lambda mu : RF) : 0 <= lambda -> 0 <= mu -> 0 <= elasticity_pt m sh sp u i lambda mu.
Proof.
  intros Hl Hm. unfold elasticity_pt.
  assert (H1 : 0 <= sq (sumf (dims sh) (fun c => d1 m sh sp c (comp u c) i)) * (lambda / (1 + 1))%F).
  { unfold sq. apply Rmult_le_pos; [apply sq_nn | apply half_nonneg; exact Hl]. }
  assert (H2 : 0 <= sumf (dims sh) (fun j => sumf (dims sh) (fun k =>
            (sq (d1 m sh sp k (comp u j) i + d1 m sh sp j (comp u k) i) * (mu / ((1 + 1) * (1 + 1))))%F))).
  { apply sumf_nonneg. intro j. apply sumf_nonneg. intro k. unfold sq.
    apply Rmult_le_pos; [apply sq_nn|]. rf. unfold Rdiv. apply Rmult_le_pos; [exact Hm | left; apply Rinv_0_lt_compat; lra]. }
  rf. lra.
Qed.
End NN.

(* total variation is absolutely homogeneous *)
Lemma tv_homogeneous m sh (sp : list RF) (u w : list (idx -> RF)) (s : RF) i :
  field_mul RF w s u -> tv_pt m sh sp w i Rabs' = Rabs s * tv_pt m sh sp u i Rabs'.
Proof.
  intro Hw. unfold tv_pt.
  change (Rabs s * sumf (dims sh) (fun d => sumf (dims sh) (fun c => Rabs' (d1 m sh sp d (comp u c) i))))
    with ((Rabs s : RF) * sumf (dims sh) (fun d => sumf (dims sh) (fun c => Rabs' (d1 m sh sp d (comp u c) i))))%F.
  rewrite <- (sumf_scale RF RF_field). apply (sumf_ext RF). intros d _.
  rewrite <- (sumf_scale RF RF_field). apply (sumf_ext RF). intros c _.
  rewrite (d1_mul RF RF_field m sh sp u w s i Hw). unfold Rabs'. rf. apply Rabs_mult.
Qed.
