(* Minimal finite-difference stencil model needed by the deformation regularisers (C17):
   core/image.py finite_differences (mode forward_central_backward) and the replicate-padded
   [1,w,1]/(w+2) cross smoothing of spatial_derivatives(mode='sobel' | 'prewitt').
   A scalar image is a function of the multi-index (x, y, ...) -- x first --, total on Z^D; the
   lattice is the box 0 <= i_d < n_d.  Definitions only. *)
From Coq Require Import ZArith List Bool.
From DV Require Import Base.Field Base.LinAlg.
Import ListNotations.
Local Open Scope fld_scope.

Definition idx := list Z.

Fixpoint upd (d : nat) (i : idx) (v : Z) : idx :=
  match d, i with
  | O, _ :: r => v :: r
  | S d', c :: r => c :: upd d' r v
  | _, [] => []
  end.
Definition get (d : nat) (i : idx) : Z := nth d i 0%Z.
Definition shift (d : nat) (i : idx) (k : Z) : idx := upd d i (get d i + k)%Z.

Fixpoint inbox (sh : list Z) (i : idx) : Prop :=
  match sh, i with
  | [], [] => True
  | n :: sh', c :: i' => (0 <= c < n)%Z /\ inbox sh' i'
  | _, _ => False
  end.

(* all lattice points, x fastest (the order of a flattened (..., Y, X) tensor) *)
Fixpoint box (sh : list Z) : list idx :=
  match sh with
  | [] => [[]]
  | n :: sh' => flat_map (fun r => map (fun c => Z.of_nat c :: r) (seq 0 (Z.to_nat n))) (box sh')
  end.

Fixpoint flatix (sh : list Z) (i : idx) : Z :=
  match sh, i with
  | n :: sh', c :: i' => (c + n * flatix sh' i')%Z
  | _, _ => 0%Z
  end.

Inductive dmode := MFcb | MSobel | MPrewitt.

Section Stencil.
Context {K : fld}.
Notation img := (idx -> K).

Definition of_flat (sh : list Z) (data : list K) : img :=
  fun i => nth (Z.to_nat (flatix sh i)) data 0.

(* forward difference at the lower boundary, backward at the upper, central in between *)
Definition fd (sh : list Z) (h : K) (d : nat) (f : img) : img :=
  fun i =>
    let c := get d i in
    let n := nth d sh 0%Z in
    if Z.eqb c 0 then (f (shift d i 1) - f i) / h
    else if Z.eqb c (n - 1) then (f i - f (shift d i (-1))) / h
    else (f (shift d i 1) - f (shift d i (-1))) / (h * (1 + 1)).

(* conv1d with kernel [1, w, 1] / (w + 2) along axis d, replicate padding (PaddingMode.REPLICATE): the neighbour of a
   boundary sample is the sample itself *)
Definition cshift (sh : list Z) (d : nat) (i : idx) (k : Z) : idx :=
  upd d i (Z.max 0 (Z.min (nth d sh 0%Z - 1) (get d i + k))).
Definition smooth (sh : list Z) (w : K) (d : nat) (f : img) : img :=
  fun i => (f (cshift sh d i (-1)) + w * f i + f (cshift sh d i 1)) / (w + (1 + 1)).

Definition smooth_others (sh : list Z) (w : K) (d : nat) (f : img) : img :=
  fold_left (fun g e => if Nat.eqb e d then g else smooth sh w e g) (seq 0 (length sh)) f.

(* one differentiation step of spatial_derivatives along axis d (spacing h) *)
Definition dstep (m : dmode) (sh : list Z) (h : K) (d : nat) (f : img) : img :=
  match m with
  | MFcb => fd sh h d f
  | MSobel => fd sh h d (smooth_others sh (1 + 1) d f)
  | MPrewitt => fd sh h d (smooth_others sh 1 d f)
  end.

Definition hs (spacing : list K) (d : nat) : K := nth d spacing 0.
(* first and (sorted-key) second derivatives: "de" with d <= e is obtained from "d" *)
Definition d1 (m : dmode) (sh : list Z) (sp : list K) (d : nat) (f : img) : img := dstep m sh (hs sp d) d f.
Definition d2 (m : dmode) (sh : list Z) (sp : list K) (d e : nat) (f : img) : img :=
  dstep m sh (hs sp (Nat.max d e)) (Nat.max d e) (dstep m sh (hs sp (Nat.min d e)) (Nat.min d e) f).

(* affine scalar function c + sum_d a_d i_d *)
Fixpoint lin (a : list K) (i : idx) : K :=
  match a, i with
  | x :: a', c :: i' => x * of_Z c + lin a' i'
  | _, _ => 0
  end.
Definition aff (c : K) (a : list K) : img := fun i => c + lin a i.

Definition fplus (f g : img) : img := fun i => f i + g i.
Definition fscale (s : K) (f : img) : img := fun i => s * f i.
End Stencil.
