(* C14 over the reals: the formal derivative of a coefficient-list polynomial is its derivative, hence the
   order-(d+1) weights are the derivatives of the order-d weights as real functions of the offset. *)
From Coq Require Import Reals Ranalysis1 Lra List ZArith.
From DV Require Import Base.Field Base.FieldFacts Base.RInst Model.BSplineBase Gen.BSpline Proofs.C14Weights.
Import ListNotations.

Lemma peval_derive (p : list (T RF)) (t : R) :
  derivable_pt_lim (fun t => peval (K:=RF) p t) t (peval (K:=RF) (pderiv p) t).
Proof.
  induction p as [|a r IH].
  - cbn. apply derivable_pt_lim_const.
  - rewrite (pderiv_cons RF RF_field a r t).
    change (fun t0 : R => peval (K:=RF) (a :: r) t0) with (plus_fct (fct_cte a) (mult_fct id (fun t0 => peval (K:=RF) r t0))).
    replace (@fadd RF (peval (K:=RF) r t) (@fmul RF t (peval (K:=RF) (pderiv r) t)))
      with (0 + (1 * peval (K:=RF) r t + id t * peval (K:=RF) (pderiv r) t))%R by (unfold id; cbn; ring).
    apply derivable_pt_lim_plus; [apply derivable_pt_lim_const|].
    apply derivable_pt_lim_mult; [apply derivable_pt_lim_id|exact IH].
Qed.

Lemma weights_real_derivative (d k : nat) (t : R) : (k < 4)%nat ->
  derivable_pt_lim (fun t => nth k (gen_w (K:=RF) d t) 0%R) t (nth k (gen_w (K:=RF) (S d) t) 0%R).
Proof.
  intro Hk.
  assert (E : forall d' u, nth k (gen_w (K:=RF) d' u) 0%R = peval (K:=RF) (wcoef d' k) u).
  { intros d' u. apply (weights_are_polynomials RF RF_field RF_char0 d' k u Hk). }
  pose proof (peval_derive (wcoef d k) t) as P. rewrite (weights_formal_derivative RF d k) in P.
  unfold derivable_pt_lim in *. intros eps He. destruct (P eps He) as [delta Hd]. exists delta.
  intros h Hh Hl. rewrite !E. apply Hd; assumption.
Qed.
