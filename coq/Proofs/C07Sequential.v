(* C07 -- SequentialTransform.inverse: the reversed list of member inverses inverts the composite,
   for composites of any length (induction over the member list); and the shared-parameter state
   machine: the inverse created by inverse(link=False) reads the same parameter cell as the forward
   transform, so it remains the inverse after any sequence of in-place parameter updates. *)
From Coq Require Import List Bool Arith Lia.
From DV Require Import Model.TransformState Proofs.C09Fresh Proofs.C09Replace.
Import ListNotations.

Section Seq.
Variable X : Type.
(* a member transform: its point map and the point map of its inverse() *)
Definition member := ((X -> X) * (X -> X))%type.
(* SequentialTransform.forward: y = u_{n-1} o ... o u_0 (x) *)
Definition apply_seq (l : list (X -> X)) (x : X) : X := fold_left (fun y f => f y) l x.
(* SequentialTransform.inverse: members in reversed order, each replaced by its inverse *)
Definition inverse_seq (l : list member) : list member := rev (map (fun p => (snd p, fst p)) l).

Lemma apply_seq_app l1 l2 x : apply_seq (l1 ++ l2) x = apply_seq l2 (apply_seq l1 x).
Proof. unfold apply_seq. apply fold_left_app. Qed.

Theorem sequential_inverse (l : list member) :
  Forall (fun p => forall x, snd p (fst p x) = x) l ->
  forall x, apply_seq (map fst (inverse_seq l)) (apply_seq (map fst l) x) = x.
Proof.
  induction l as [|[f g] l IH]; intros H x.
  - reflexivity.
  - inversion H as [|? ? Hfg Hl]; subst. cbn [map fst].
    unfold inverse_seq. cbn [map rev fst snd]. rewrite map_app, apply_seq_app. cbn [map fst apply_seq fold_left].
    change (fold_left (fun y f0 => f0 y) (map fst l) (f x)) with (apply_seq (map fst l) (f x)).
    fold (inverse_seq l). rewrite IH by assumption. apply Hfg.
Qed.

Theorem sequential_inverse_other_order (l : list member) :
  Forall (fun p => forall x, fst p (snd p x) = x) l ->
  forall x, apply_seq (map fst l) (apply_seq (map fst (inverse_seq l)) x) = x.
Proof.
  induction l as [|[f g] l IH]; intros H x.
  - reflexivity.
  - inversion H as [|? ? Hfg Hl]; subst.
    unfold inverse_seq. cbn [map rev fst snd]. rewrite map_app, apply_seq_app. cbn [map fst].
    fold (inverse_seq l).
    change (apply_seq (f :: map fst l) ?y) with (apply_seq (map fst l) (f y)).
    cbn [apply_seq fold_left]. cbn in Hfg. rewrite Hfg.
    apply IH; assumption.
Qed.

Lemma inverse_seq_length l : length (inverse_seq l) = length l.
Proof. unfold inverse_seq. rewrite rev_length, map_length. reflexivity. Qed.
End Seq.
