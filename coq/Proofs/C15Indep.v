(* C15 -- deep copies are independent in both directions, for every interleaving of in-place edits and
   rebinding on either side (induction over the trace). *)
From Coq Require Import List Bool Arith Lia.
From DV Require Import Model.ObjGraph Proofs.C15Graph.
Import ListNotations.

Lemma separated_sym st a b : separated st a b -> separated st b a.
Proof.
  intros (H1 & H2 & H3 & H4). repeat split.
  - intros x Hb Ha. exact (H1 x Ha Hb).
  - intros x Hb Ha. exact (H2 x Ha Hb).
  - intros t H. apply H3. rewrite in_app_iff in *. tauto.
  - intros c H. apply H4. rewrite in_app_iff in *. tauto.
Qed.

(* what a mutation on object a may touch: tensors a reaches, containers of a, fresh locations *)
Lemma step_a st a b m :
  separated st a b ->
  let '(st', a') := apply_mut st a m in
  snap st' b = snap st b /\ separated st' a' b.
Proof.
  intros Hsep. pose proof Hsep as (Hdt & Hdc & Hbt & Hbc).
  (* generic closing argument *)
  assert (Hclose : forall st' a',
            (forall c, In c (reach_c b) -> cv st' c = cv st c) ->
            (forall t, In t (reach_t st b) -> tv st' t = tv st t) ->
            reach_c a' = reach_c a -> nt st <= nt st' -> nc st <= nc st' ->
            (forall t, In t (reach_t st' a') -> In t (reach_t st a) \/ (nt st <= t < nt st')) ->
            snap st' b = snap st b /\ separated st' a' b).
  { intros st' a' Hc Ht Hrc Hnt Hnc Hra. split; [now apply snap_ext|].
    assert (Hrb : reach_t st' b = reach_t st b) by (now apply reach_t_ext).
    repeat split.
    - intros t Ha Hb. rewrite Hrb in Hb. destruct (Hra t Ha) as [H|H]; [exact (Hdt t H Hb)|].
      assert (t < nt st) by (apply Hbt; rewrite in_app_iff; auto). lia.
    - rewrite Hrc. exact Hdc.
    - intros t H. rewrite in_app_iff, Hrb in H. destruct H as [H|H].
      + destruct (Hra t H) as [H'|H']; [|lia]. assert (t < nt st) by (apply Hbt; rewrite in_app_iff; auto). lia.
      + assert (t < nt st) by (apply Hbt; rewrite in_app_iff; auto). lia.
    - intros c H. rewrite Hrc in H. specialize (Hbc c H). lia. }
  assert (Hcb : forall c l, In c (reach_c a) -> forall c', In c' (reach_c b) -> upd (cv st) c l c' = cv st c').
  { intros c l Ha c' Hb. apply upd_other. intros ->. exact (Hdc c Ha Hb). }
  (* editing in place a tensor that a reaches *)
  assert (Hedit : forall r, (forall t, r = Some (RT t) -> In t (reach_t st a)) ->
            snap (edit_ref st r) b = snap st b /\ separated (edit_ref st r) a b).
  { intros r Hr. destruct r as [[|t|v]|]; cbn [edit_ref]; try (split; [reflexivity|exact Hsep]).
    apply Hclose; cbn; auto.
    all: try (intros t' Hb; apply upd_other; intros ->; exact (Hdt t (Hr t eq_refl) Hb)).
    all: try (intros t' H; left; rewrite (reach_t_ext st) in H by reflexivity; exact H). }
  unfold apply_mut. destruct m as [n|n|n|n v|n v|n v|n|n].
  - (* edit slot *)
    apply Hedit. intros t E. unfold reach_t. rewrite in_app_iff. left. eapply get_entry_tid; eauto.
  - destruct (ismod a) eqn:Em; [|split; [reflexivity|exact Hsep]].
    apply Hedit. intros t E. unfold reach_t. rewrite Em, !in_app_iff. right; left. eapply get_entry_tid; eauto.
  - destruct (ismod a) eqn:Em; [|split; [reflexivity|exact Hsep]].
    apply Hedit. intros t E. unfold reach_t. rewrite Em, !in_app_iff. right; right. eapply get_entry_tid; eauto.
  - (* rebinding a slot to a new tensor *)
    cbn [alloc_tensor]. apply Hclose; cbn; auto.
    + intros t Hb. apply upd_other. assert (t < nt st) by (apply Hbt; rewrite in_app_iff; auto). lia.
    + intros t H. unfold reach_t in H |- *. cbn [slots set_slot ismod pc bc cv] in H. rewrite in_app_iff in H.
      destruct H as [H|H].
      * apply tids_set_entry in H. destruct H as [H|H]; [left; rewrite in_app_iff; auto|]. injection H as <-. right. lia.
      * left. rewrite in_app_iff. auto.
  - (* new Parameter / buffer tensor *)
    destruct (ismod a) eqn:Em; [|split; [reflexivity|exact Hsep]].
    cbn [alloc_tensor set_cont]. apply Hclose; cbn; auto.
    + intros c Hb. apply Hcb; auto. unfold reach_c. rewrite Em. cbn. auto.
    + intros t Hb. apply upd_other. assert (t < nt st) by (apply Hbt; rewrite in_app_iff; auto). lia.
    + intros t H. unfold reach_t in H |- *. rewrite Em in *. cbn [cv] in H. rewrite !in_app_iff in H.
      assert (Hcase : forall c, In t (tids_of (upd (cv st) (pc a) (set_entry (cv st (pc a)) n (RT (nt st))) c)) ->
                 In t (tids_of (cv st c)) \/ In t (tids_of (cv st (pc a))) \/ t = nt st).
      { intros c Hin. unfold upd in Hin. destruct (c =? pc a); [|auto].
        apply tids_set_entry in Hin. destruct Hin as [Hin|Hin]; [auto|]. injection Hin as <-. auto. }
      destruct H as [H|[H|H]].
      * left. rewrite !in_app_iff. auto.
      * destruct (Hcase _ H) as [H'|[H'|H']]; [left; rewrite !in_app_iff; auto|left; rewrite !in_app_iff; auto|right; lia].
      * destruct (Hcase _ H) as [H'|[H'|H']]; [left; rewrite !in_app_iff; auto|left; rewrite !in_app_iff; auto|right; lia].
  - destruct (ismod a) eqn:Em; [|split; [reflexivity|exact Hsep]].
    cbn [alloc_tensor set_cont]. apply Hclose; cbn; auto.
    + intros c Hb. apply Hcb; auto. unfold reach_c. rewrite Em. cbn. auto.
    + intros t Hb. apply upd_other. assert (t < nt st) by (apply Hbt; rewrite in_app_iff; auto). lia.
    + intros t H. unfold reach_t in H |- *. rewrite Em in *. cbn [cv] in H. rewrite !in_app_iff in H.
      assert (Hcase : forall c, In t (tids_of (upd (cv st) (bc a) (set_entry (cv st (bc a)) n (RT (nt st))) c)) ->
                 In t (tids_of (cv st c)) \/ In t (tids_of (cv st (bc a))) \/ t = nt st).
      { intros c Hin. unfold upd in Hin. destruct (c =? bc a); [|auto].
        apply tids_set_entry in Hin. destruct Hin as [Hin|Hin]; [auto|]. injection Hin as <-. auto. }
      destruct H as [H|[H|H]].
      * left. rewrite !in_app_iff. auto.
      * destruct (Hcase _ H) as [H'|[H'|H']]; [left; rewrite !in_app_iff; auto|left; rewrite !in_app_iff; auto|right; lia].
      * destruct (Hcase _ H) as [H'|[H'|H']]; [left; rewrite !in_app_iff; auto|left; rewrite !in_app_iff; auto|right; lia].
  - (* params = None *)
    destruct (ismod a) eqn:Em; [|split; [reflexivity|exact Hsep]].
    cbn [set_cont]. apply Hclose; cbn; auto.
    + intros c Hb. apply Hcb; auto. unfold reach_c. rewrite Em. cbn. auto.
    + intros t H. left. unfold reach_t in H |- *. rewrite Em in *. cbn [cv] in H. rewrite !in_app_iff in H |- *.
      assert (Hcase : forall c, In t (tids_of (upd (cv st) (pc a) (set_entry (cv st (pc a)) n RNone) c)) ->
                 In t (tids_of (cv st c)) \/ In t (tids_of (cv st (pc a)))).
      { intros c Hin. unfold upd in Hin. destruct (c =? pc a); [|auto].
        apply tids_set_entry in Hin. destruct Hin as [Hin|Hin]; [auto|discriminate]. }
      destruct H as [H|[H|H]]; auto; destruct (Hcase _ H); auto.
  - (* delattr of a buffer *)
    destruct (ismod a) eqn:Em; [|split; [reflexivity|exact Hsep]].
    cbn [set_cont]. apply Hclose; cbn; auto.
    + intros c Hb. apply Hcb; auto. unfold reach_c. rewrite Em. cbn. auto.
    + intros t H. left. unfold reach_t in H |- *. rewrite Em in *. cbn [cv] in H. rewrite !in_app_iff in H |- *.
      assert (Hcase : forall c, In t (tids_of (upd (cv st) (bc a) (del_entry (cv st (bc a)) n) c)) ->
                 In t (tids_of (cv st c)) \/ In t (tids_of (cv st (bc a)))).
      { intros c Hin. unfold upd in Hin. destruct (c =? bc a); [|auto]. apply tids_del_entry in Hin. auto. }
      destruct H as [H|[H|H]]; auto; destruct (Hcase _ H); auto.
Qed.

(* every step of every trace leaves the object it does not target exactly as it was *)
Fixpoint others_unchanged (st : store) (a b : obj) (tr : list (side * mut)) : Prop :=
  match tr with
  | [] => True
  | (SA, m) :: r => let '(st1, a') := apply_mut st a m in snap st1 b = snap st b /\ others_unchanged st1 a' b r
  | (SB, m) :: r => let '(st1, b') := apply_mut st b m in snap st1 a = snap st a /\ others_unchanged st1 a b' r
  end.

Theorem independence tr : forall st a b, separated st a b -> others_unchanged st a b tr.
Proof.
  induction tr as [|[s m] r IH]; intros st a b Hsep; [exact I|]. cbn [others_unchanged]. destruct s.
  - pose proof (step_a st a b m Hsep) as H. destruct (apply_mut st a m) as [st1 a']. destruct H as [Hs Hsep']. auto.
  - pose proof (step_a st b a m (separated_sym _ _ _ Hsep)) as H. destruct (apply_mut st b m) as [st1 b'].
    destruct H as [Hs Hsep']. split; [exact Hs|]. apply IH. now apply separated_sym.
Qed.

(* ---- a deep copy is separated from its original ---- *)
Lemma clone_entries_spec l : forall st,
  let '(st', l') := clone_entries st l in
  nt st <= nt st' /\ nc st' = nc st /\ cv st' = cv st
  /\ (forall t, t < nt st -> tv st' t = tv st t)
  /\ (forall t, In t (tids_of l') -> nt st <= t < nt st')
  /\ map fst l' = map fst l.
Proof.
  induction l as [|[n r] l IH]; intros st; cbn [clone_entries].
  - split; [lia|]. split; [reflexivity|]. split; [reflexivity|]. split; [auto|]. split; [intros x []|reflexivity].
  - destruct r as [|t0|v].
    + specialize (IH st). destruct (clone_entries st l) as [st1 l1]. destruct IH as (A & B & C & D & E & F).
      split; [exact A|]. split; [exact B|]. split; [exact C|]. split; [exact D|]. split; [exact E|]. cbn [map fst]. now rewrite F.
    + cbn [alloc_tensor]. set (st0 := mkSt (upd (tv st) (nt st) (tv st t0)) (cv st) (S (nt st)) (nc st)).
      specialize (IH st0). destruct (clone_entries st0 l) as [st1 l1]. destruct IH as (A & B & C & D & E & F).
      cbn in A, B, C, D, E.
      split; [lia|]. split; [exact B|]. split; [exact C|]. split; [|split].
      * intros x Hx. rewrite D by lia. apply upd_other. lia.
      * intros x Hx. cbn [tids_of] in Hx. destruct Hx as [<-|Hx]; [lia|]. specialize (E x Hx). lia.
      * cbn [map fst]. now rewrite F.
    + specialize (IH st). destruct (clone_entries st l) as [st1 l1]. destruct IH as (A & B & C & D & E & F).
      split; [exact A|]. split; [exact B|]. split; [exact C|]. split; [exact D|]. split; [exact E|]. cbn [map fst]. now rewrite F.
Qed.

Theorem deep_copy_separated st o :
  wf_obj st o -> (ismod o = true -> pc o <> bc o) ->
  let '(st', o') := deep_copy st o in
  snap st' o = snap st o /\ separated st' o o'.
Proof.
  intros [Hwt Hwc] Hpb. unfold deep_copy.
  pose proof (clone_entries_spec (slots o) st) as H1. destruct (clone_entries st (slots o)) as [st1 s'].
  destruct H1 as (A1 & B1 & C1 & D1 & E1 & _).
  destruct (ismod o) eqn:Em.
  - pose proof (clone_entries_spec (cv st1 (pc o)) st1) as H2. destruct (clone_entries st1 (cv st1 (pc o))) as [st2 p'].
    destruct H2 as (A2 & B2 & C2 & D2 & E2 & _).
    pose proof (clone_entries_spec (cv st2 (bc o)) st2) as H3. destruct (clone_entries st2 (cv st2 (bc o))) as [st3 b'].
    destruct H3 as (A3 & B3 & C3 & D3 & E3 & _).
    cbn [alloc_cont fst snd].
    set (st4 := mkSt (tv st3) (upd (cv st3) (nc st3) p') (nt st3) (S (nc st3))).
    set (st5 := mkSt (tv st4) (upd (cv st4) (nc st4) b') (nt st4) (S (nc st4))).
    assert (Hpc : pc o < nc st) by (apply Hwc; unfold reach_c; rewrite Em; cbn; auto).
    assert (Hbc : bc o < nc st) by (apply Hwc; unfold reach_c; rewrite Em; cbn; auto).
    assert (Hcv : forall c, c < nc st -> cv st5 c = cv st c).
    { intros c Hc. cbn. rewrite upd_other by lia. rewrite upd_other by lia. now rewrite C3, C2, C1. }
    assert (Htv : forall t, t < nt st -> tv st5 t = tv st t).
    { intros t Ht. cbn. rewrite D3 by lia. rewrite D2 by lia. now apply D1. }
    assert (Hro : reach_t st5 o = reach_t st o).
    { apply reach_t_ext. intros c Hc. apply Hcv. now apply Hwc. }
    split.
    + apply snap_ext.
      * intros c Hc. apply Hcv. now apply Hwc.
      * intros t Ht. apply Htv. now apply Hwt.
    + unfold separated.
      assert (Hnew : forall t, In t (reach_t st5 (mkObj s' (nc st3) (nc st4) true)) -> nt st <= t < nt st5).
      { intros t Ht. unfold reach_t in Ht. cbn [slots ismod pc bc] in Ht. cbn [cv st5 st4 nc] in Ht.
        rewrite upd_same in Ht. rewrite upd_other in Ht by lia. rewrite upd_same in Ht.
        rewrite !in_app_iff in Ht. cbn [nt st5 st4]. destruct Ht as [Ht|[Ht|Ht]].
        - specialize (E1 t Ht). lia.
        - specialize (E2 t Ht). lia.
        - specialize (E3 t Ht). lia. }
      repeat split.
      * intros t Ha Hb. rewrite Hro in Ha. specialize (Hwt t Ha). specialize (Hnew t Hb). lia.
      * intros c Ha Hb. unfold reach_c in *. rewrite Em in Ha. cbn in Ha, Hb. lia.
      * intros t H. rewrite in_app_iff in H. destruct H as [H|H].
        -- rewrite Hro in H. specialize (Hwt t H). cbn. lia.
        -- specialize (Hnew t H). lia.
      * intros c H. unfold reach_c in H. rewrite Em in H. cbn in H |- *. lia.
  - split.
    + apply snap_ext.
      * intros c Hc. now rewrite C1.
      * intros t Ht. apply D1. now apply Hwt.
    + unfold separated, reach_t, reach_c. rewrite Em. cbn [slots ismod]. rewrite !app_nil_r.
      repeat split.
      * intros t Ha Hb. specialize (Hwt t). unfold reach_t in Hwt. rewrite Em, app_nil_r in Hwt. specialize (Hwt Ha).
        specialize (E1 t Hb). lia.
      * intros c [].
      * intros t H. rewrite in_app_iff in H. destruct H as [H|H].
        -- specialize (Hwt t). unfold reach_t in Hwt. rewrite Em, app_nil_r in Hwt. specialize (Hwt H). lia.
        -- specialize (E1 t H). lia.
      * intros c [].
Qed.
