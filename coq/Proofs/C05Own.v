(* C05: own-grid identity through the precomputed module matrix: with the source grid omitted, target index J is sampled at
   the continuous index J itself, for all four axes and both align_corners settings. *)
From Coq Require Import ZArith List Field Ring Lia Bool.
From DV Require Import Base.Field Base.FieldFacts Base.LinAlg Base.Tactics Model.Enums Model.Homog Model.Grid Model.ItkSpec
  Model.Sampler Gen.GridT Gen.SampleT Model.Resample Model.ResampleOwn Proofs.C01Grid Proofs.C01Laws Proofs.C01TwoA Proofs.C01TwoB Proofs.C01TwoGrids Proofs.C05Index.
Import ListNotations.
Local Open Scope fld_scope.

Section C05Own.
Variable K : fld.
Hypothesis Kf : is_field K.
Hypothesis Kc : char0 K.
Add Field KF_C05Own : Kf.
Let K1 := K1nz K Kf.
Let K2 := K2nz K Kf Kc.
Hint Resolve K1 K2 : core.
Ltac side := repeat split; auto.
(* local copies of C01Grid's section-local helpers *)
Lemma rule2 (a b r : K) : a + (b + 0) = r -> a = r - b.
Proof. intros <-. ring. Qed.
Lemma rule3 (a b c r : K) : a + (b + (c + 0)) = r -> a = r - b - c.
Proof. intros <-. ring. Qed.


(* component facts of a well-formed grid; orthonormality turned into rewrite rules
   (R* from R^T R = I, Q* from R R^T = I) *)
Ltac wf2 H :=
  let Hs := fresh "Hs" in let Hn := fresh "Hn" in let Hn1 := fresh "Hn1" in
  let Ho1 := fresh "Ho" in let Ho2 := fresh "Ho'" in
  destruct H as (Hs & Hn & Hn1 & Ho1 & Ho2);
  pose proof (Hs 0%nat ltac:(lia)); pose proof (Hs 1%nat ltac:(lia));
  pose proof (Hn 0%nat ltac:(lia)); pose proof (Hn 1%nat ltac:(lia));
  pose proof (Hn1 0%nat ltac:(lia)); pose proof (Hn1 1%nat ltac:(lia));
  fcbv_in Ho1; fcbv_in Ho2;
  let R00 := fresh "R00" in let R01 := fresh "R01" in let R10 := fresh "R10" in let R11 := fresh "R11" in let Q00 := fresh "Q00" in let Q01 := fresh "Q01" in let Q10 := fresh "Q10" in let Q11 := fresh "Q11" in 
  injection Ho1 as R00 R01 R10 R11; injection Ho2 as Q00 Q01 Q10 Q11;
  apply rule2 in R00; apply rule2 in R01; apply rule2 in R11;
  apply rule2 in Q00; apply rule2 in Q01; apply rule2 in Q11;
  clear R10 Q10 Hs Hn Hn1.
Ltac wf3 H :=
  let Hs := fresh "Hs" in let Hn := fresh "Hn" in let Hn1 := fresh "Hn1" in
  let Ho1 := fresh "Ho" in let Ho2 := fresh "Ho'" in
  destruct H as (Hs & Hn & Hn1 & Ho1 & Ho2);
  pose proof (Hs 0%nat ltac:(lia)); pose proof (Hs 1%nat ltac:(lia)); pose proof (Hs 2%nat ltac:(lia));
  pose proof (Hn 0%nat ltac:(lia)); pose proof (Hn 1%nat ltac:(lia)); pose proof (Hn 2%nat ltac:(lia));
  pose proof (Hn1 0%nat ltac:(lia)); pose proof (Hn1 1%nat ltac:(lia)); pose proof (Hn1 2%nat ltac:(lia));
  fcbv_in Ho1; fcbv_in Ho2;
  let R00 := fresh "R00" in let R01 := fresh "R01" in let R02 := fresh "R02" in let R10 := fresh "R10" in let R11 := fresh "R11" in let R12 := fresh "R12" in let R20 := fresh "R20" in let R21 := fresh "R21" in let R22 := fresh "R22" in let Q00 := fresh "Q00" in let Q01 := fresh "Q01" in let Q02 := fresh "Q02" in let Q10 := fresh "Q10" in let Q11 := fresh "Q11" in let Q12 := fresh "Q12" in let Q20 := fresh "Q20" in let Q21 := fresh "Q21" in let Q22 := fresh "Q22" in 
  injection Ho1 as R00 R01 R02 R10 R11 R12 R20 R21 R22;
  injection Ho2 as Q00 Q01 Q02 Q10 Q11 Q12 Q20 Q21 Q22;
  apply rule3 in R00; apply rule3 in R01; apply rule3 in R02; apply rule3 in R11; apply rule3 in R12; apply rule3 in R22;
  apply rule3 in Q00; apply rule3 in Q01; apply rule3 in Q02; apply rule3 in Q11; apply rule3 in Q12; apply rule3 in Q22;
  clear R10 R20 R21 Q10 Q20 Q21 Hs Hn Hn1.

Ltac len2 X H := destruct X as [|?x0 [|?x1 [|? ?]]]; try discriminate H; clear H.
Ltac len3 X H := destruct X as [|?x0 [|?x1 [|?x2 [|? ?]]]]; try discriminate H; clear H.

(* the precomputed own-grid matrix acts as the single-grid point map axes -> cube axes of the target's flag *)
Lemma smat_own_is_pts (D : nat) (A : axes) (ac : bool) (n s c : nat -> K) (d : nat -> nat -> K) (P : list K) :
  D = 2%nat \/ D = 3%nat -> wf D n s d -> length P = D ->
  happly D (gen_smat_own D A ac (vtab D n) (vtab D s) (vtab D c) (tab D D d)) P
  = gen_pts D A (cube_axes ac) (vtab D n) (vtab D s) (vtab D c) (tab D D d) P.
Proof.
  intros [-> | ->] H HP.
  - len2 P HP. wf2 H. destruct A, ac; fcbv; list_eq; field; side.
  - len3 P HP. wf3 H. destruct A, ac; fcbv; list_eq; field; side.
Qed.

Lemma cube_not_WW (A : axes) ac : not_WW A (cube_axes ac).
Proof. intros [_ E]. destruct ac; discriminate E. Qed.

Theorem module_own_index_id (D : nat) (A : axes) (ac : bool) (nz : nat -> Z) (s c : nat -> K) (d : nat -> nat -> K) (J : list K) :
  D = 2%nat \/ D = 3%nat -> wf D (zsz nz) s d -> length J = D ->
  mod_own_index D A ac (map nz (seq 0 D)) (vtab D s) (vtab D c) (tab D D d) J = J.
Proof.
  intros HD H HJ. unfold mod_own_index.
  rewrite (zvec_vtab K D nz).
  pose proof (dp_points_length K Kf Kc D HD A (zsz nz) s c d J H HJ) as HP.
  rewrite (smat_own_is_pts D A ac (zsz nz) s c d _ HD H HP).
  rewrite (pts_is_T_map K Kf Kc D A (cube_axes ac) (zsz nz) s c d _ HD H (cube_not_WW A ac) HP).
  unfold T_map.
  assert (E : to_index D A (vtab D (zsz nz)) (vtab D s) (vtab D c) (tab D D d)
                (dp_points D A (vtab D (zsz nz)) (vtab D s) (vtab D c) (tab D D d) J) = J).
  { destruct A; cbn [dp_points].
    - reflexivity.
    - rewrite (pts_is_T_map K Kf Kc D GRID CUBE) by (auto; intros [? ?]; discriminate). unfold T_map.
      change (to_index D GRID (vtab D (zsz nz)) (vtab D s) (vtab D c) (tab D D d) J) with J.
      apply (to_from_index K Kf Kc); auto.
    - rewrite (pts_is_T_map K Kf Kc D GRID CUBE_CORNERS) by (auto; intros [? ?]; discriminate). unfold T_map.
      change (to_index D GRID (vtab D (zsz nz)) (vtab D s) (vtab D c) (tab D D d) J) with J.
      apply (to_from_index K Kf Kc); auto.
    - rewrite (pts_is_T_map K Kf Kc D GRID WORLD) by (auto; intros [? ?]; discriminate). unfold T_map.
      change (to_index D GRID (vtab D (zsz nz)) (vtab D s) (vtab D c) (tab D D d) J) with J.
      apply (to_from_index K Kf Kc); auto. }
  rewrite E.
  assert (HL : length (from_index D (cube_axes ac) (vtab D (zsz nz)) (vtab D s) (vtab D c) (tab D D d) J) = D).
  { destruct HD as [-> | ->]; [len2 J HJ | len3 J HJ]; destruct ac; reflexivity. }
  rewrite (vunnorm_is_to_index K Kf Kc D HD ac nz s c d _ HL).
  apply (to_from_index K Kf Kc); auto.
Qed.
End C05Own.
