(* C15 -- functions whose extracted effect skeleton is NOT proved free of argument mutation (their checked summary lists a
   possibly written parameter): either the may-alias abstraction is too coarse for the function itself (conv: `tensor = data.type(dtype)` is
   data itself only for floating point data, and round_() is applied only for non floating point data; round_decimals:
   `if out is tensor: tensor *= scale` writes the argument only when the caller passes it as `out`; containers rebuilt with
   list(...), item assignment into dictionaries of fresh tensors; the data_ptr test of grid_sample IS understood by the translator) or it calls such a function with one of its arguments (summaries are
   interprocedural: a possibly-writing callee makes its callers possibly-writing).  They are covered
   by the runtime sweep of tools/impl/c15_impl.py only.  Everything else in Gen/MutSkeleton.v is proved clean by
   Props/C15.v; a function may only be added here with a reason. *)
From Coq Require Import List String.
Import ListNotations.
Local Open Scope string_scope.
Definition heap_unproven : list string := [
  "deepali/core/bspline.py:evaluate_cubic_bspline";
  "deepali/core/flow.py:compose_svfs";
  "deepali/core/flow.py:curl";
  "deepali/core/flow.py:divergence";
  "deepali/core/flow.py:divergence_free_flow";
  "deepali/core/flow.py:flow_derivatives";
  "deepali/core/flow.py:jacobian_det";
  "deepali/core/flow.py:jacobian_dict";
  "deepali/core/flow.py:jacobian_matrix";
  "deepali/core/flow.py:lie_bracket";
  "deepali/core/flow.py:logv";
  "deepali/core/functional.py:compose_svfs";
  "deepali/core/functional.py:conv";
  "deepali/core/functional.py:curl";
  "deepali/core/functional.py:divergence";
  "deepali/core/functional.py:divergence_free_flow";
  "deepali/core/functional.py:downsample";
  "deepali/core/functional.py:evaluate_cubic_bspline";
  "deepali/core/functional.py:flow_derivatives";
  "deepali/core/functional.py:gaussian_pyramid";
  "deepali/core/functional.py:homogeneous_matrix";
  "deepali/core/functional.py:jacobian_det";
  "deepali/core/functional.py:jacobian_dict";
  "deepali/core/functional.py:jacobian_matrix";
  "deepali/core/functional.py:lie_bracket";
  "deepali/core/functional.py:logv";
  "deepali/core/functional.py:round_decimals";
  "deepali/core/functional.py:spatial_derivatives";
  "deepali/core/functional.py:tensordot";
  "deepali/core/functional.py:upsample";
  "deepali/core/image.py:conv";
  "deepali/core/image.py:downsample";
  "deepali/core/image.py:gaussian_pyramid";
  "deepali/core/image.py:spatial_derivatives";
  "deepali/core/image.py:upsample";
  "deepali/core/linalg.py:homogeneous_matrix";
  "deepali/core/linalg.py:tensordot";
  "deepali/core/math.py:round_decimals";
  "deepali/losses/functional.py:be_loss";
  "deepali/losses/functional.py:bending_energy";
  "deepali/losses/functional.py:bending_loss";
  "deepali/losses/functional.py:bspline_be_loss";
  "deepali/losses/functional.py:bspline_bending_energy";
  "deepali/losses/functional.py:bspline_bending_loss";
  "deepali/losses/functional.py:curvature_loss";
  "deepali/losses/functional.py:diffusion_loss";
  "deepali/losses/functional.py:divergence_loss";
  "deepali/losses/functional.py:elasticity_loss";
  "deepali/losses/functional.py:grad_loss";
  "deepali/losses/functional.py:total_variation_loss";
  "deepali/losses/functional.py:tv_loss"].

(* ---- what Model/ObjGraph.v transcribes ----
   pin_copied_containers -> shallow_copy: _buffers (and _modules) dicts copied, _parameters dict SHARED
   pin_copy_accessors    -> acc_simple / acc_flag / acc_condition (shallow copy + setter on the copy), acc_grid / acc_unlink / acc_data
                            ("own _parameters": the copy also gets its own _parameters dict, shallow_copy_own)
   pin_copy_fingerprints -> the bodies of those methods and of clone / __deepcopy__ / data *)
(* SpatialTransform.__copy__: the __dict__ entries that are copied (every other container is shared) *)
Definition pin_copied_containers : list string := ["_buffers"%string; "_non_persistent_buffers_set"%string; "_modules"%string].

(* with-argument accessors implemented as shallow_copy(self).<setter>(...) *)
Definition pin_copy_accessors : list (string * string) := [
  ("Grid.align_corners"%string, "align_corners_"%string);
  ("Grid.center"%string, "center_"%string);
  ("Grid.direction"%string, "direction_"%string);
  ("Grid.origin"%string, "origin_"%string);
  ("Grid.spacing"%string, "spacing_"%string);
  ("Cube.center"%string, "center_"%string);
  ("Cube.direction"%string, "direction_"%string);
  ("Cube.extent"%string, "extent_"%string);
  ("Cube.origin"%string, "origin_"%string);
  ("SpatialTransform.condition"%string, "condition_"%string);
  ("SpatialTransform.grid"%string, "own _parameters; grid_"%string);
  ("ParametricTransform.link"%string, "link_"%string);
  ("ParametricTransform.unlink"%string, "own _parameters; unlink_"%string)].

Definition pin_copy_fingerprints : list (string * string) := [
  ("Grid.clone"%string, "ee3bc09c68b2fd05e9e1"%string);
  ("Grid.__deepcopy__"%string, "1c943863dd6def97b189"%string);
  ("Grid.align_corners"%string, "45689c78a6f8ec3384a9"%string);
  ("Grid.align_corners_"%string, "e411ffc05b041e9ba9f5"%string);
  ("Grid.center"%string, "84024dedf6a1af962df3"%string);
  ("Grid.center_"%string, "a8c71d93e44991d4b03d"%string);
  ("Grid.origin"%string, "89b77f693c0bcb0936a1"%string);
  ("Grid.origin_"%string, "49ec91f3616e558728a7"%string);
  ("Grid.spacing"%string, "c5c60689b634037c296d"%string);
  ("Grid.spacing_"%string, "be33aa27f563ff8466a2"%string);
  ("Grid.direction"%string, "b009c76e18738618fc7e"%string);
  ("Grid.direction_"%string, "5ac47892cb478952e748"%string);
  ("Cube.clone"%string, "61c34191d839d9f08045"%string);
  ("Cube.__deepcopy__"%string, "1c943863dd6def97b189"%string);
  ("Cube.center"%string, "d8dff164e0a08b1c1bea"%string);
  ("Cube.center_"%string, "a8c71d93e44991d4b03d"%string);
  ("Cube.origin"%string, "0e78950179a36fa1a7b9"%string);
  ("Cube.origin_"%string, "cccb5ad7185c782cd166"%string);
  ("Cube.direction"%string, "4741f34ec4cfea756807"%string);
  ("Cube.direction_"%string, "f6cc475cb84203f3eaa2"%string);
  ("Cube.extent"%string, "5a5e64b66550256a018a"%string);
  ("Cube.extent_"%string, "1ab5e58c5a2d41cd14a2"%string);
  ("SpatialTransform.__copy__"%string, "64ba524560ce22a1e37b"%string);
  ("SpatialTransform.condition"%string, "836265ae7504cb7fdf35"%string);
  ("SpatialTransform.condition_"%string, "97668fc9fda1a64a748c"%string);
  ("SpatialTransform.grid"%string, "ec8057ec25614060024b"%string);
  ("ParametricTransform.data"%string, "0e375c85908eb63bc598"%string);
  ("ParametricTransform.data_"%string, "48d3f3a1126f605dd3d3"%string);
  ("ParametricTransform.link"%string, "17b30309959fae7e117f"%string);
  ("ParametricTransform.unlink"%string, "27d5611907997f568aeb"%string);
  ("ParametricTransform.unlink_"%string, "859e2bf9a489ecad3671"%string);
  ("DataTensor.__copy__"%string, "fe0de03ac176f1f8c5e2"%string);
  ("DataTensor.__deepcopy__"%string, "6468ea5ba8a4230464dc"%string)].
