"""Implementation-side runner for C18 (write/read round trip; runs against /repo's working tree).

Every case really writes a file under the scratch directory and reads it back.  Three independent views of
the written file are returned next to deepali's own read-back, so that the Coq model's prediction of the
header/layout can be compared to what is on disk:
  raw   -- .mha only: header lines and payload parsed by the ~30-line parser below (zlib/np.frombuffer)
  sitk  -- SimpleITK.ReadImage's view (size, origin, spacing, direction, components, pixel type, buffer)
  nib   -- nibabel's view of NIfTI files (dim, pixdim, affine, intent, unscaled buffer)
"""
import json
import math
import os
import sys
import traceback
import zlib

import numpy as np
import torch

from vlib import emit_json

import SimpleITK as sitk
import nibabel as nib

from deepali.core.grid import Axes, Grid
from deepali.data import FlowField, Image
from deepali.utils.imageio import read_image, write_image

TORCH_DT = {"uint8": torch.uint8, "int8": torch.int8, "int16": torch.int16, "int32": torch.int32, "int64": torch.int64,
            "float32": torch.float32, "float64": torch.float64}
NP_DT = {"uint8": np.uint8, "int8": np.int8, "int16": np.int16, "uint16": np.uint16, "int32": np.int32, "uint32": np.uint32,
         "int64": np.int64, "float32": np.float32, "float64": np.float64}
MET = {"MET_CHAR": np.int8, "MET_UCHAR": np.uint8, "MET_SHORT": np.int16, "MET_USHORT": np.uint16, "MET_INT": np.int32,
       "MET_UINT": np.uint32, "MET_LONG": np.int64, "MET_ULONG": np.uint64, "MET_FLOAT": np.float32, "MET_DOUBLE": np.float64,
       "MET_LONG_LONG": np.int64, "MET_ULONG_LONG": np.uint64}
AXES = {"grid": Axes.GRID, "cube": Axes.CUBE, "cube_corners": Axes.CUBE_CORNERS, "world": Axes.WORLD}


def err(e):
    return {"error": type(e).__name__, "msg": str(e)[:160]}


def num(x):
    """JSON-safe exact number: ints stay ints, floats as float64 (float32 values are exact in float64)"""
    if isinstance(x, (np.integer, int)):
        return int(x)
    return float(x)


def flat(a):
    return [num(v) for v in np.asarray(a).reshape(-1)]


def mk_grid(g):
    return Grid(size=tuple(g["size"]), origin=tuple(g["origin"]), spacing=tuple(g["spacing"]), direction=g["direction"],
                align_corners=bool(g.get("align_corners", True)))


def relayout(t, layout):
    """same logical tensor in another memory layout (the file must not depend on it)"""
    if not layout or layout == "contiguous":
        return t
    if layout == "fortran":
        rev = tuple(reversed(range(t.ndim)))
        return t.permute(*rev).contiguous().permute(*rev)
    if layout == "strided":
        big = torch.zeros(t.shape[:-1] + (2 * t.shape[-1],), dtype=t.dtype)
        big[..., ::2] = t
        return big[..., ::2]
    if layout == "expanded":      # all channels share the memory of the first (values are generated accordingly)
        return t[:1].expand(*t.shape)
    raise KeyError(layout)


def grid_out(g):
    return {"align_corners": bool(g.align_corners()), "size": [int(n) for n in g.size()], "origin": flat(g.origin()), "spacing": flat(g.spacing()),
            "direction": [flat(r) for r in g.direction()]}


def mk_data(c, chan=True):
    D = len(c["grid"]["size"])
    shape = ((c["C"],) if chan else ()) + tuple(reversed(c["grid"]["size"]))
    a = np.array(c["values"], dtype=NP_DT[c["dtype"]]).reshape(shape)
    return relayout(torch.from_numpy(a), c.get("layout"))


def tensor_out(t):
    a = t.detach().cpu().numpy()
    return {"shape": list(a.shape), "dtype": str(a.dtype), "values": flat(a)}


# ---- independent views of a file ---------------------------------------------------------------
def raw_mha(path):
    blob = open(path, "rb").read()
    hdr = {}
    order = []
    pos = 0
    while True:
        j = blob.index(b"\n", pos)
        line = blob[pos:j].decode("ascii")
        pos = j + 1
        k, v = [s.strip() for s in line.split("=", 1)]
        hdr[k] = v
        order.append(k)
        if k == "ElementDataFile":
            break
    if hdr["ElementDataFile"] != "LOCAL":
        return {"header": hdr, "order": order, "payload": None}
    body = blob[pos:]
    if hdr.get("CompressedData", "False").upper() == "TRUE":
        n = int(hdr["CompressedDataSize"])
        trailing = len(body) - n
        body = zlib.decompress(body[:n])
    else:
        trailing = None
    dt = np.dtype(MET[hdr["ElementType"]])
    if hdr.get("BinaryDataByteOrderMSB", "False").upper() == "TRUE" or hdr.get("ElementByteOrderMSB", "False").upper() == "TRUE":
        dt = dt.newbyteorder(">")
    payload = np.frombuffer(body, dtype=dt)
    fl = lambda s: [float(x) for x in s.split()]
    out = {"order": order, "ndims": int(hdr["NDims"]), "dimsize": [int(x) for x in hdr["DimSize"].split()],
           "nchan": int(hdr.get("ElementNumberOfChannels", "1")), "elemtype": hdr["ElementType"],
           "compressed": hdr.get("CompressedData", "False").upper() == "TRUE",
           "offset": fl(hdr.get("Offset", hdr.get("Position", hdr.get("Origin", "")))),
           "spacing": fl(hdr.get("ElementSpacing", "")),
           "tm": fl(hdr.get("TransformMatrix", hdr.get("Orientation", hdr.get("Rotation", "")))),
           "payload": flat(payload), "trailing_bytes": trailing}
    return out


def sitk_view(path):
    im = sitk.ReadImage(str(path))
    a = sitk.GetArrayFromImage(im)
    return {"size": list(im.GetSize()), "origin": list(im.GetOrigin()), "spacing": list(im.GetSpacing()),
            "direction": list(im.GetDirection()), "ncomp": im.GetNumberOfComponentsPerPixel(),
            "pixel": im.GetPixelIDTypeAsString(), "dtype": str(a.dtype), "shape": list(a.shape), "payload": flat(a)}


def nib_view(path):
    im = nib.load(str(path))
    a = np.asarray(im.dataobj.get_unscaled())
    slope, inter = im.dataobj.slope, im.dataobj.inter
    return {"dim": [int(x) for x in im.header["dim"]], "pixdim": [float(x) for x in im.header["pixdim"]],
            "affine": [[float(x) for x in r] for r in np.asarray(im.affine)], "intent": int(im.header["intent_code"]),
            "dtype": str(a.dtype), "shape": list(a.shape), "payload": flat(a.transpose()),   # FILE order (first index fastest)
            "slope": None if slope is None or (isinstance(slope, float) and math.isnan(slope)) else float(slope),
            "inter": None if inter is None or (isinstance(inter, float) and math.isnan(inter)) else float(inter)}


def views(path, fmt):
    v = {}
    if fmt == ".mha":
        try:
            v["raw"] = raw_mha(path)
        except Exception as e:  # noqa
            v["raw"] = err(e)
    if fmt in (".nii", ".nii.gz"):
        try:
            v["nib"] = nib_view(path)
        except Exception as e:  # noqa
            v["nib"] = err(e)
    try:
        v["sitk"] = sitk_view(path)
    except Exception as e:  # noqa
        v["sitk"] = err(e)
    return v


def independent_sitk_image(c):
    """SimpleITK image built WITHOUT deepali: array laid out (..., Y, X[, C]) by index arithmetic"""
    size = c["grid"]["size"]
    D, C = len(size), c["C"]
    shape = (C,) + tuple(reversed(size))
    a = np.array(c["values"], dtype=NP_DT[c["dtype"]]).reshape(shape)
    if C == 1:
        b = a[0]
    else:
        b = np.empty(tuple(reversed(size)) + (C,), dtype=a.dtype)
        for idx in np.ndindex(*shape):
            b[idx[1:] + (idx[0],)] = a[idx]
    im = sitk.GetImageFromArray(b, isVector=C > 1)
    im.SetOrigin([float(x) for x in c["grid"]["origin"]])
    im.SetSpacing([float(x) for x in c["grid"]["spacing"]])
    im.SetDirection([float(x) for r in c["grid"]["direction"] for x in r])
    return im


# ---- case kinds ---------------------------------------------------------------------------------
def case_roundtrip(c, path):
    """deepali write_image -> independent views -> deepali read_image"""
    out = {}
    try:
        data = mk_data(c, chan=not c.get("no_channel_dim", False))
        grid = mk_grid(c["grid"])
        out["grid_in"] = grid_out(grid)
    except Exception as e:  # noqa
        return {"setup": err(e)}
    try:
        if c.get("entry") == "Image":
            Image(data, grid).write(path, compress=c["compress"])
        else:
            write_image(data, grid, path, compress=c["compress"])
        out["write"] = "ok"
    except Exception as e:  # noqa
        out["write"] = err(e)
        return out
    out.update(views(path, c["fmt"]))
    try:
        if c.get("entry") == "Image":
            im = Image.read(path, align_corners=bool(c["grid"].get("align_corners", True)))
            d2, g2 = im.tensor(), im.grid()
        else:
            d2, g2 = read_image(path)
        out["read"] = {"data": tensor_out(d2), "grid": grid_out(g2)}
    except Exception as e:  # noqa
        out["read"] = err(e)
    try:
        g3 = Grid.from_file(path, align_corners=bool(c["grid"].get("align_corners", True)))
        out["from_file"] = grid_out(g3)
    except Exception as e:  # noqa
        out["from_file"] = err(e)
    return out


def case_from_sitk(c, path):
    """SimpleITK writes (image built independently), deepali reads"""
    out = {}
    try:
        im = independent_sitk_image(c)
        sitk.WriteImage(im, path, bool(c["compress"]))
        out["write"] = "ok"
    except Exception as e:  # noqa
        out["write"] = err(e)
        return out
    out.update(views(path, c["fmt"]))
    try:
        d2, g2 = read_image(path)
        out["read"] = {"data": tensor_out(d2), "grid": grid_out(g2)}
    except Exception as e:  # noqa
        out["read"] = err(e)
    return out


def case_convert(c, path):
    """in-memory conversion Image.sitk / Image.from_sitk (no file)"""
    out = {}
    try:
        data = mk_data(c)
        grid = mk_grid(c["grid"])
        im = Image(data, grid).sitk()
        a = sitk.GetArrayFromImage(im)
        out["sitk"] = {"size": list(im.GetSize()), "origin": list(im.GetOrigin()), "spacing": list(im.GetSpacing()),
                       "direction": list(im.GetDirection()), "ncomp": im.GetNumberOfComponentsPerPixel(),
                       "dtype": str(a.dtype), "shape": list(a.shape), "payload": flat(a)}
        back = Image.from_sitk(independent_sitk_image(c))
        out["read"] = {"data": tensor_out(back.tensor()), "grid": grid_out(back.grid())}
        out["grid_in"] = grid_out(grid)
    except Exception as e:  # noqa
        out["convert"] = err(e)
    return out


def case_flow(c, path):
    """FlowField.write -> views -> FlowField.read -> back to the original axes"""
    out = {}
    try:
        grid = mk_grid(c["grid"])
        D = grid.ndim
        shape = (D,) + tuple(grid.shape)
        a = np.array(c["values"], dtype=NP_DT[c["dtype"]]).reshape(shape)
        axes0 = Axes.from_grid(grid) if c["axes"] == "from_grid" else AXES[c["axes"]]
        flow = FlowField(relayout(torch.from_numpy(a), c.get("layout")), grid, axes0)
        out["grid_in"] = grid_out(grid)
        out["axes_in"] = axes0.value
        out["world"] = tensor_out(flow.axes(Axes.WORLD).tensor())
    except Exception as e:  # noqa
        return {"setup": err(e)}
    try:
        flow.write(path, compress=c["compress"])
        out["write"] = "ok"
    except Exception as e:  # noqa
        out["write"] = err(e)
        return out
    out.update(views(path, c["fmt"]))
    try:
        f2 = FlowField.read(path, align_corners=bool(c["grid"].get("align_corners", True)))
        out["read_axes"] = f2.axes().value
        out["read"] = {"data": tensor_out(f2.tensor()), "grid": grid_out(f2.grid())}
        # back to the ORIGINAL representation: for "from_grid" that is whatever the grid read back says
        f3 = f2.axes(Axes.from_grid(f2.grid()) if c["axes"] == "from_grid" else AXES[c["axes"]])
        out["back_axes"] = f3.axes().value
        out["back"] = tensor_out(f3.tensor())
    except Exception as e:  # noqa
        out["read"] = err(e)
    return out


def case_flow_sitk(c, path):
    """FlowField.sitk / FlowField.from_sitk in memory"""
    out = {}
    try:
        grid = mk_grid(c["grid"])
        D = grid.ndim
        a = np.array(c["values"], dtype=NP_DT[c["dtype"]]).reshape((D,) + tuple(grid.shape))
        axes0 = Axes.from_grid(grid) if c["axes"] == "from_grid" else AXES[c["axes"]]
        flow = FlowField(relayout(torch.from_numpy(a), c.get("layout")), grid, axes0)
        out["axes_in"] = axes0.value
        out["world"] = tensor_out(flow.axes(Axes.WORLD).tensor())
        im = flow.sitk()
        arr = sitk.GetArrayFromImage(im)
        out["sitk"] = {"size": list(im.GetSize()), "ncomp": im.GetNumberOfComponentsPerPixel(), "shape": list(arr.shape),
                       "payload": flat(arr), "direction": list(im.GetDirection()), "origin": list(im.GetOrigin()),
                       "spacing": list(im.GetSpacing())}
        f2 = FlowField.from_sitk(im, align_corners=bool(c["grid"].get("align_corners", True)))
        out["read_axes"] = f2.axes().value
        out["back"] = tensor_out(f2.axes(Axes.from_grid(f2.grid()) if c["axes"] == "from_grid" else AXES[c["axes"]]).tensor())
        out["grid_in"] = grid_out(grid)
        out["read"] = {"grid": grid_out(f2.grid())}
    except Exception as e:  # noqa
        out["convert"] = err(e)
    return out


def case_msb_mha(c, path):
    """big-endian MetaImage written by the harness (header + payload, optionally zlib), read by deepali and by SimpleITK"""
    out = {}
    size, C = c["grid"]["size"], c["C"]
    D = len(size)
    shape = tuple(reversed(size)) + ((C,) if C > 1 else ())
    a = np.array(c["values"], dtype=NP_DT[c["dtype"]]).reshape((C,) + tuple(reversed(size)))
    b = np.moveaxis(a, 0, -1).reshape(shape) if C > 1 else a[0]
    payload = b.astype(b.dtype.newbyteorder(">")).tobytes()
    met = [k for k, v in MET.items() if np.dtype(v) == np.dtype(NP_DT[c["dtype"]])][0]
    g = c["grid"]
    tm = [g["direction"][i][j] for j in range(D) for i in range(D)]
    lines = ["ObjectType = Image", f"NDims = {D}", "BinaryData = True", f"{c['msb_key']} = True", f"CompressedData = {bool(c['compress'])}"]
    if c["compress"]:
        payload = zlib.compress(payload)
        lines.append(f"CompressedDataSize = {len(payload)}")
    lines += ["TransformMatrix = " + " ".join(repr(float(x)) for x in tm), "Offset = " + " ".join(repr(float(x)) for x in g["origin"]),
              "ElementSpacing = " + " ".join(repr(float(x)) for x in g["spacing"]), "DimSize = " + " ".join(str(n) for n in size)]
    if C > 1:
        lines.append(f"ElementNumberOfChannels = {C}")
    lines += [f"ElementType = {met}", "ElementDataFile = LOCAL"]
    with open(path, "wb") as f:
        f.write(("\n".join(lines) + "\n").encode("ascii") + payload)
    out["write"] = "ok"
    try:
        out["sitk"] = sitk_view(path)
    except Exception as e:  # noqa
        out["sitk"] = err(e)
    try:
        d2, g2 = read_image(path)
        out["read"] = {"data": tensor_out(d2), "grid": grid_out(g2)}
    except Exception as e:  # noqa
        out["read"] = err(e)
    return out


KINDS = {"msb_mha": case_msb_mha, "roundtrip": case_roundtrip, "from_sitk": case_from_sitk, "convert": case_convert, "flow": case_flow,
         "flow_sitk": case_flow_sitk}


def run_cases(p):
    d = p["scratch"]
    os.makedirs(d, exist_ok=True)
    res = []
    for i, c in enumerate(p["cases"]):
        path = os.path.join(d, f"c{i}{c.get('fmt', '')}")
        try:
            r = KINDS[c["kind"]](c, path)
        except Exception as e:  # noqa
            r = {"harness": err(e), "tb": traceback.format_exc()[-600:]}
        res.append(r)
        for f in os.listdir(d):   # keep the scratch directory small (.mhd has a companion file)
            if f.startswith(f"c{i}."):
                try:
                    os.remove(os.path.join(d, f))
                except OSError:
                    pass
    return res


def tables(p):
    """small finite facts about the runtime that the generated dtype tables are checked against"""
    from deepali.utils.imageio import meta as M
    out = {"met_types": {k: np.dtype(v).name for k, v in M.META_IMAGE_TYPES.items()}}
    w = {}
    for name, dt in TORCH_DT.items():
        a = torch.zeros(1, dtype=dt).numpy()
        hits = [k for k, v in M.META_IMAGE_TYPES.items() if np.issubdtype(a.dtype, v)]
        w[name] = hits[0] if hits else None
    out["write_type"] = w
    return out


if __name__ == "__main__":
    payload = json.load(sys.stdin)
    fn = payload["fn"]
    if fn == "cases":
        emit_json(run_cases(payload))
    elif fn == "tables":
        emit_json(tables(payload))
    else:
        emit_json({"error": "unknown fn"})
