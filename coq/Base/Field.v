(* Abstract field (Leibniz equality) over which the algebraic part of the model is written.
   Theorems proved here hold for every field of characteristic 0; instances: Qc (executable,
   used by the correspondence check) and R (the semantics the properties talk about). *)
From Coq Require Import ZArith List Field Ring.
Import ListNotations.

Record fld := mkFld {
  T :> Type;
  f0 : T; f1 : T;
  fadd : T -> T -> T; fmul : T -> T -> T; fsub : T -> T -> T; fopp : T -> T;
  fdiv : T -> T -> T; finv : T -> T }.

Arguments f0 {K} : rename.
Arguments f1 {K} : rename.
Arguments fadd {K} : rename.
Arguments fmul {K} : rename.
Arguments fsub {K} : rename.
Arguments fopp {K} : rename.
Arguments fdiv {K} : rename.
Arguments finv {K} : rename.

Declare Scope fld_scope.
Delimit Scope fld_scope with F.
Notation "0" := f0 : fld_scope.
Notation "1" := f1 : fld_scope.
Infix "+" := fadd : fld_scope.
Infix "*" := fmul : fld_scope.
Infix "-" := fsub : fld_scope.
Infix "/" := fdiv : fld_scope.
Notation "- x" := (fopp x) : fld_scope.

Notation is_field K :=
  (field_theory (@f0 K) (@f1 K) (@fadd K) (@fmul K) (@fsub K) (@fopp K) (@fdiv K) (@finv K) (@eq (T K))).

Local Open Scope fld_scope.

Fixpoint of_pos {K : fld} (p : positive) : K :=
  match p with
  | xH => 1
  | xO q => (1 + 1) * of_pos q
  | xI q => 1 + (1 + 1) * of_pos q
  end.

Definition of_Z {K : fld} (z : Z) : K :=
  match z with Z0 => 0 | Zpos p => of_pos p | Zneg p => - of_pos p end.

(* rational literal p/q *)
Definition of_Q {K : fld} (n : Z) (d : positive) : K := of_Z n / of_pos d.

Definition two {K : fld} : K := 1 + 1.

(* characteristic 0: no positive integer is zero in K *)
Definition char0 (K : fld) : Prop := forall p : positive, @of_pos K p <> 0.
