"""Implementation-side runner for C08 (runs against /repo's working tree)."""
import json
import math
import random
import sys
import traceback

import torch

from vlib import emit_json

from deepali.core import affine as A
from deepali.core import linalg as L

torch.set_default_dtype(torch.float64)
FC = {"T": lambda D: 1, "A": lambda D: D, "H": lambda D: D + 1}


def err(e):
    return {"error": type(e).__name__, "msg": str(e)[:200]}


def model_cases(p):
    """evaluate the functions the translator traced, on given numeric inputs"""
    out = []
    for c in p["cases"]:
        try:
            k = c["kind"]
            if k == "hmm":
                a = torch.tensor(c["a"]); b = torch.tensor(c["b"])
                r = L.homogeneous_matmul(a, b)
                out.append({"shape": list(r.shape), "val": r.tolist()})
            elif k == "ashom":
                r = L.as_homogeneous_matrix(torch.tensor(c["a"]))
                out.append({"shape": list(r.shape), "val": r.tolist()})
            elif k == "apply":
                r = L.homogeneous_transform(torch.tensor(c["a"]), torch.tensor(c["x"]), vectors=c["vectors"])
                out.append({"shape": list(r.shape), "val": r.tolist()})
            elif k == "euler":
                ang = torch.tensor(c["angles"])
                r = A.euler_rotation_matrix(ang, c["order"]) if len(c["angles"]) == 3 else A.euler_rotation_matrix(ang)
                out.append({"shape": list(r.shape), "val": r.tolist(),
                            "cos": torch.cos(ang).tolist(), "sin": torch.sin(ang).tolist()})
            elif k == "quat":
                qq = torch.tensor(c["q"])
                r = L.quaternion_to_rotation_matrix(qq)
                out.append({"shape": list(r.shape), "val": r.tolist(), "norm": float(qq.norm())})
            else:
                out.append({"error": "unknown kind"})
        except Exception as e:  # noqa
            out.append(err(e))
    return out


# ------------------------------------------------------------------------------------------------
# the property itself, evaluated on the implementation
# ------------------------------------------------------------------------------------------------
def rnd(rng, *shape):
    n = 1
    for s in shape:
        n *= s
    return torch.tensor([rng.uniform(-2, 2) for _ in range(n)]).reshape(*shape) if shape else torch.tensor(rng.uniform(-2, 2))


def operand(rng, f, D, batch):
    shape = ((batch,) if batch else ()) + (D, FC[f](D))
    return rnd(rng, *shape)


def as_full(t, D):
    """independent reference: (.., D, D+1) matrix of an operand of any form"""
    c = t.shape[-1]
    lead = t.shape[:-2]
    if c == 1:
        return torch.cat([torch.eye(D).expand(*lead, D, D), t], -1)
    if c == D:
        return torch.cat([t, torch.zeros(*lead, D, 1)], -1)
    return t


def ref_apply(h, x, vectors=False):
    y = torch.einsum("...ij,...j->...i", h[..., :, :-1], x)
    return y if vectors else y + h[..., :, -1]


def close(a, b, tol=1e-9):
    return a.shape == b.shape and bool(torch.all(torch.abs(a - b) <= tol * (1 + torch.abs(b))))


def oracle_hmm(rng, n, fails):
    count = 0
    for _ in range(n):
        D = rng.choice([2, 3])
        fa, fb = rng.choice("TAH"), rng.choice("TAH")
        na, nb = rng.choice([0, 1, 3]), rng.choice([0, 1, 3])
        a, b = operand(rng, fa, D, na), operand(rng, fb, D, nb)
        one_d = rng.random() < 0.15
        desc = {"D": D, "fa": fa, "fb": fb, "na": na, "nb": nb}
        count += 1
        try:
            aa = a[..., 0] if (one_d and fa == "T" and na == 0) else a
            c = L.homogeneous_matmul(aa, b)
            N = max(na, nb, 1)
            x = rnd(rng, N, D)
            ha, hb, hc = as_full(a, D), as_full(b, D), as_full(c, D)
            ha = ha.expand(N, D, D + 1) if ha.ndim == 3 else ha.unsqueeze(0).expand(N, D, D + 1)
            hb = hb.expand(N, D, D + 1) if hb.ndim == 3 else hb.unsqueeze(0).expand(N, D, D + 1)
            hc = hc.expand(N, D, D + 1) if hc.ndim == 3 else hc.unsqueeze(0).expand(N, D, D + 1)
            lhs = ref_apply(hc, x)
            rhs = ref_apply(ha, ref_apply(hb, x))
            if not close(lhs, rhs):
                fails.append({"key": f"C08:homogeneous_matmul:{fa}{fb}", "what": "composite differs from sequential application",
                              "case": desc, "a": a.tolist(), "b": b.tolist(), "x": x.tolist(),
                              "got": lhs.tolist(), "want": rhs.tolist()})
            h = L.hmm(aa, b)
            if not close(as_full(h, D).expand_as(hc) if h.ndim == 3 else as_full(h, D).unsqueeze(0).expand_as(hc), hc):
                fails.append({"key": f"C08:hmm:{fa}{fb}", "what": "hmm differs from homogeneous_matmul", "case": desc,
                              "a": a.tolist(), "b": b.tolist()})
        except Exception as e:  # noqa
            fails.append({"key": f"C08:homogeneous_matmul:{fa}{fb}:raises", "what": f"raises {type(e).__name__}: {str(e)[:120]}",
                          "case": desc, "a": a.tolist(), "b": b.tolist()})
        # as_homogeneous_matrix / homogeneous_transform
        f = rng.choice("TAH")
        nb_ = rng.choice([0, 1, 3])
        t = operand(rng, f, D, nb_)
        desc = {"D": D, "f": f, "batch": nb_}
        count += 1
        try:
            m = L.as_homogeneous_matrix(t)
            if tuple(m.shape) != tuple(t.shape[:-1]) + (D + 1,) or not close(m, as_full(t, D)):
                fails.append({"key": f"C08:as_homogeneous_matrix:{f}", "what": "matrix differs from the operand's map",
                              "case": desc, "t": t.tolist(), "got": m.tolist()})
            m2 = L.homogeneous_matrix(t)
            if not close(m2, as_full(t, D)):
                fails.append({"key": f"C08:homogeneous_matrix:{f}", "what": "differs", "case": desc, "t": t.tolist()})
            # offset= ADDS a translation to the map of the operand, for every operand form (vector and scalar offsets)
            for off in (torch.tensor([rng.uniform(-2, 2) for _ in range(D)], dtype=t.dtype), torch.tensor(rng.uniform(-2, 2), dtype=t.dtype)):
                m3 = L.homogeneous_matrix(t, offset=off)
                want = as_full(t, D).clone()
                want[..., :D, D] = want[..., :D, D] + off
                if not close(m3, want):
                    fails.append({"key": f"C08:homogeneous_matrix:{f}:offset", "what": "homogeneous_matrix(t, offset=o) is not the map of t followed by the translation o",
                                  "case": desc, "t": t.tolist(), "offset": off.tolist(), "got": m3.tolist(), "want": want.tolist()})
        except Exception as e:  # noqa
            fails.append({"key": f"C08:as_homogeneous_matrix:{f}:raises", "what": f"raises {type(e).__name__}: {str(e)[:120]}",
                          "case": desc, "t": t.tolist()})
        count += 1
        try:
            N = max(nb_, 1)
            M = rng.choice([1, 4])
            x = rnd(rng, N, M, D)
            full = as_full(t, D)
            full = full if full.ndim == 3 else full.unsqueeze(0)
            for vec in (False, True):
                y = L.homogeneous_transform(t, x, vectors=vec)
                want = ref_apply(full.unsqueeze(1), x, vectors=vec)
                if not close(y, want):
                    fails.append({"key": f"C08:homogeneous_transform:{f}:{'vectors' if vec else 'points'}",
                                  "what": "result differs from the affine map / its linear part",
                                  "case": desc, "t": t.tolist(), "x": x.tolist(), "got": y.tolist(), "want": want.tolist()})
            if nb_ == 0:
                x1 = rnd(rng, D)
                y = L.homogeneous_transform(t if f != "T" or rng.random() < .5 else t[:, 0], x1)
                if not close(y, ref_apply(as_full(t, D), x1)):
                    fails.append({"key": f"C08:homogeneous_transform:{f}:single", "what": "single point differs",
                                  "case": desc, "t": t.tolist(), "x": x1.tolist()})
        except Exception as e:  # noqa
            fails.append({"key": f"C08:homogeneous_transform:{f}:raises", "what": f"raises {type(e).__name__}: {str(e)[:120]}",
                          "case": desc, "t": t.tolist()})
    return count


def elem(ch, a):
    c, s = math.cos(a), math.sin(a)
    return {"X": torch.tensor([[1, 0, 0], [0, c, -s], [0, s, c]]),
            "Y": torch.tensor([[c, 0, s], [0, 1, 0], [-s, 0, c]]),
            "Z": torch.tensor([[c, -s, 0], [s, c, 0], [0, 0, 1.0]])}[ch]


def notations(o):
    return [o, o.lower(), " o ".join("R" + c.lower() for c in o), " o ".join(o)]


def oracle_euler(rng, n, fails):
    import itertools
    count = 0
    orders = ["".join(p) for p in itertools.product("XYZ", repeat=3)]
    for o in orders:
        for note in notations(o):
            count += 1
            try:
                got = A.euler_rotation_order(note)
                if got != o:
                    fails.append({"key": "C08:euler_rotation_order:wrong", "what": f"{note!r} -> {got!r}, expected {o!r}", "arg": note})
            except Exception as e:  # noqa
                fails.append({"key": "C08:euler_rotation_order:raises", "what": f"{note!r} raises {type(e).__name__}: {str(e)[:100]}", "arg": note})
    for i in range(n):
        o = orders[i % 27] if i < 54 else rng.choice(orders)
        ang = [rng.uniform(-math.pi, math.pi) for _ in range(3)]
        batched = (i // 27) % 2 == 1 if i < 54 else rng.random() < 0.5
        hom = rng.random() < 0.3
        note = rng.choice(notations(o)) if rng.random() < 0.3 else o
        want = elem(o[0], ang[0]) @ elem(o[1], ang[1]) @ elem(o[2], ang[2])
        count += 1
        try:
            t = torch.tensor([ang, ang]) if batched else torch.tensor(ang)
            m = A.euler_rotation_matrix(t, note, homogeneous=hom)
            mm = m[0] if batched else m
            if hom:
                if mm.shape != (3, 4) or float(mm[:, 3].abs().max()) != 0:
                    fails.append({"key": f"C08:euler_rotation_matrix:{o}:homogeneous", "what": "homogeneous result is not [R|0]",
                                  "order": note, "angles": ang, "batched": batched})
                mm = mm[:, :3]
            if not close(mm, want):
                fails.append({"key": f"C08:euler_rotation_matrix:{o}:product", "what": "matrix differs from the product of elementary rotations",
                              "order": note, "angles": ang, "batched": batched, "got": mm.tolist(), "want": want.tolist()})
            if not close(mm @ mm.T, torch.eye(3)) or abs(float(torch.det(mm)) - 1) > 1e-9:
                fails.append({"key": f"C08:euler_rotation_matrix:{o}:rotation", "what": "not a proper rotation",
                              "order": note, "angles": ang})
        except Exception as e:  # noqa
            fails.append({"key": f"C08:euler_rotation_matrix:{'fallback' if o not in ('XYZ','ZYX','ZXY','XZX','ZXZ') else o}:raises"
                                 + (":homogeneous" if hom else "") + ("" if batched else ":unbatched"),
                          "what": f"raises {type(e).__name__}: {str(e)[:100]}", "order": note, "angles": ang,
                          "batched": batched, "homogeneous": hom})
    # angles round trip (supported orders) and 2-D
    for i in range(max(n // 2, 20)):
        o = rng.choice(["ZXZ", "XZX"])
        ang = [rng.uniform(-math.pi, math.pi), rng.uniform(0.05, math.pi - 0.05), rng.uniform(-math.pi, math.pi)]
        count += 1
        try:
            m = A.euler_rotation_matrix(torch.tensor(ang), o)
            back = A.euler_rotation_angles(m, o)
            m2 = A.euler_rotation_matrix(back, o)
            if not close(m2, m, 1e-7):
                fails.append({"key": f"C08:euler_rotation_angles:{o}", "what": "angles -> matrix -> angles -> matrix changes the rotation",
                              "order": o, "angles": ang, "back": back.tolist()})
        except Exception as e:  # noqa
            fails.append({"key": f"C08:euler_rotation_angles:{o}:raises", "what": f"raises {type(e).__name__}: {str(e)[:100]}", "order": o, "angles": ang})
        a2 = rng.uniform(-math.pi, math.pi)
        count += 1
        try:
            m = A.euler_rotation_matrix(torch.tensor([a2]))
            back = A.euler_rotation_angles(m)
            m2 = A.euler_rotation_matrix(back.reshape(1))
            if not close(m2, m, 1e-7):
                fails.append({"key": "C08:euler_rotation_angles:2d", "what": "2-D angle round trip changes the rotation",
                              "angle": a2, "back": back.tolist()})
        except Exception as e:  # noqa
            fails.append({"key": "C08:euler_rotation_angles:2d:raises", "what": f"raises {type(e).__name__}: {str(e)[:100]}", "angle": a2})
    return count


def ref_quat_matrix(q):
    w, x, y, z = [float(v) for v in q]
    n = math.sqrt(w * w + x * x + y * y + z * z)
    w, x, y, z = w / n, x / n, y / n, z / n
    return torch.tensor([[1 - 2 * (y * y + z * z), 2 * (x * y - z * w), 2 * (x * z + y * w)],
                         [2 * (x * y + z * w), 1 - 2 * (x * x + z * z), 2 * (y * z - x * w)],
                         [2 * (x * z - y * w), 2 * (y * z + x * w), 1 - 2 * (x * x + y * y)]])


def ref_rodrigues(v):
    th = float(torch.tensor(v).norm())
    if th < 1e-12:
        return torch.eye(3)
    k = [c / th for c in v]
    Kx = torch.tensor([[0, -k[2], k[1]], [k[2], 0, -k[0]], [-k[1], k[0], 0.0]])
    return torch.eye(3) + math.sin(th) * Kx + (1 - math.cos(th)) * (Kx @ Kx)


def oracle_quat(rng, n, fails):
    count = 0
    for i in range(n):
        q = [rng.gauss(0, 1) for _ in range(4)]
        if i % 7 == 0:
            q = [abs(q[0]) * 0.01, q[1], q[2], q[3]]  # small w: exercises the non-trace branches
        qt = torch.tensor(q)
        qn = qt / qt.norm()
        count += 1
        try:
            m = L.quaternion_to_rotation_matrix(qt)
            if not close(m, ref_quat_matrix(q)):
                fails.append({"key": "C08:quaternion_to_rotation_matrix", "what": "differs from the (w,x,y,z) rotation formula", "q": q})
            if not close(L.quaternion_to_rotation_matrix(-qt), m):
                fails.append({"key": "C08:quaternion_to_rotation_matrix:sign", "what": "R(-q) != R(q)", "q": q})
            qb = L.rotation_matrix_to_quaternion(m.unsqueeze(0))[0]
            if not close(L.quaternion_to_rotation_matrix(qb), m, 1e-6):
                fails.append({"key": "C08:rotation_matrix_to_quaternion", "what": "matrix -> quaternion -> matrix changes the rotation",
                              "q": q, "back": qb.tolist()})
            aa = L.quaternion_to_angle_axis(qn)
            if not close(ref_rodrigues(aa.tolist()), m, 1e-6):
                fails.append({"key": "C08:quaternion_to_angle_axis", "what": "angle-axis of q is a different rotation", "q": q, "aa": aa.tolist()})
            qa = L.angle_axis_to_quaternion(aa)
            if not close(L.quaternion_to_rotation_matrix(qa), m, 1e-6):
                fails.append({"key": "C08:angle_axis_to_quaternion", "what": "angle-axis -> quaternion changes the rotation", "q": q})
        except Exception as e:  # noqa
            fails.append({"key": "C08:quaternion:raises", "what": f"raises {type(e).__name__}: {str(e)[:100]}", "q": q})
        # rotation vectors up to angle pi
        ax = [rng.gauss(0, 1) for _ in range(3)]
        nn = math.sqrt(sum(c * c for c in ax))
        th = rng.uniform(0.01, math.pi - 0.01) if i % 5 else rng.choice([1e-4, math.pi - 1e-3, 0.5])
        v = [c / nn * th for c in ax]
        count += 1
        try:
            m = L.angle_axis_to_rotation_matrix(torch.tensor([v]))[0]
            if not close(m, ref_rodrigues(v), 1e-6):
                fails.append({"key": "C08:angle_axis_to_rotation_matrix", "what": "differs from Rodrigues' formula", "v": v})
            vb = L.rotation_matrix_to_angle_axis(m.unsqueeze(0))[0]
            if not close(ref_rodrigues(vb.tolist()), m, 1e-5):
                fails.append({"key": "C08:rotation_matrix_to_angle_axis", "what": "matrix -> angle-axis -> matrix changes the rotation",
                              "v": v, "back": vb.tolist()})
        except Exception as e:  # noqa
            fails.append({"key": "C08:angle_axis:raises", "what": f"raises {type(e).__name__}: {str(e)[:100]}", "v": v})
    return count


def oracle_params(rng, n, fails):
    """getters/setters of the linear transforms round-trip to the same matrix"""
    from deepali.core.grid import Grid
    import deepali.spatial as S
    count = 0
    for i in range(n):
        D = rng.choice([2, 3])
        g = Grid(size=(8,) * D)
        # EulerRotation: every order string (both notations), Parameter- and buffer-held angles; the matrix must be
        # the product in the stated order, and matrix_(R) / matrix(R) must reproduce R where angle extraction exists
        orders = [None] if D == 2 else [None] + [rng.choice(notations(o)) for o in rng.sample(['XYZ', 'XZY', 'YXZ', 'YZX', 'ZXY', 'ZYX', 'XYX', 'YXY', 'YZY', 'ZYZ'], 3)] + [rng.choice(notations(o)) for o in ("XZX", "ZXZ")]
        for order in orders:
            for params in (True, False):
                okey = "default" if order is None else A.euler_rotation_order(order, ndim=D)
                try:
                    count += 1
                    t = S.EulerRotation(g, params=params, order=order)
                    na = 1 if D == 2 else 3
                    ang = torch.tensor([[rng.uniform(-3.0, 3.0) for _ in range(na)]])
                    if D == 3:
                        ang[0, 1] = rng.uniform(0.1, 3.0)
                    t.angles_(ang)
                    if not close(t.angles(), ang, 1e-5):
                        fails.append({"key": "C08:EulerRotation.angles", "what": "angles_(a); angles() != a", "angles": ang.tolist(), "got": t.angles().tolist(), "order": order})
                    m = t.tensor()
                    if D == 3:
                        want = torch.eye(3, dtype=torch.float64)
                        for ch, a in zip(okey if order is not None else "ZXZ", ang[0].double().tolist()):
                            want = want @ elem(ch, a)
                        if not close(m[0, :3, :3].double(), want, 1e-5):
                            fails.append({"key": f"C08:EulerRotation.tensor:{okey}", "what": "tensor() is not the product of the elementary rotations in the order the transform was constructed with",
                                          "order": order, "angles": ang.tolist()})
                    for how in ("matrix_", "matrix"):
                        t2 = S.EulerRotation(g, params=params, order=order)
                        try:
                            if how == "matrix_":
                                t2.matrix_(m[..., :D, :D])
                            else:
                                t2 = t2.matrix(m[..., :D, :D])
                        except NotImplementedError:
                            continue
                        if not close(t2.tensor()[..., :D, :D], m[..., :D, :D], 1e-5):
                            fails.append({"key": f"C08:EulerRotation.{how}:{okey}", "what": f"{how}(R); tensor() != R for a transform constructed with order={order!r}",
                                          "angles": ang.tolist(), "D": D, "order": order, "params": params})
                except NotImplementedError:
                    pass
                except Exception as e:  # noqa
                    fails.append({"key": f"C08:EulerRotation:{D}d:raises", "what": f"order={order!r} params={params}: raises {type(e).__name__}: {str(e)[:100]}", "D": D})
        if D == 3:
            count += 1
            try:
                t = S.QuaternionRotation(g)
                q = torch.tensor([[rng.gauss(0, 1) for _ in range(4)]])
                t.quaternion_(q)
                m = t.tensor()
                if not close(m[0, :3, :3], ref_quat_matrix(q[0].tolist()), 1e-6):
                    fails.append({"key": "C08:QuaternionRotation.quaternion_", "what": "tensor() is not R(q)", "q": q.tolist()})
                t2 = S.QuaternionRotation(g)
                t2.matrix_(m)
                if not close(t2.tensor()[..., :3, :3], m[..., :3, :3], 1e-6):
                    fails.append({"key": "C08:QuaternionRotation.matrix_", "what": "matrix_(m); tensor() != m", "q": q.tolist()})
            except Exception as e:  # noqa
                fails.append({"key": "C08:QuaternionRotation:raises", "what": f"raises {type(e).__name__}: {str(e)[:100]}"})
        for cls, getter, setter, gen in (
            (S.IsotropicScaling, "scales", "scales_", lambda: torch.tensor([[rng.uniform(0.4, 2.6)]])),
            (S.AnisotropicScaling, "scales", "scales_", lambda: torch.tensor([[rng.uniform(0.4, 2.6) for _ in range(D)]])),
            (S.Shearing, "angles", "angles_", lambda: torch.tensor([[rng.uniform(-0.7, 0.7) for _ in range(D * (D - 1) // 2)]])),
            (S.Translation, "offset", "offset_", lambda: torch.tensor([[rng.uniform(-1, 1) for _ in range(D)]])),
        ):
            for params in (True, False, "tensor"):
                count += 1
                try:
                    t = cls(g, params=torch.zeros((1,) + tuple(cls(g).data_shape)) if params == "tensor" else params)
                    v = gen()
                    getattr(t, setter)(v)
                    got = getattr(t, getter)()
                    if not close(got.reshape(v.shape), v, 1e-5):
                        fails.append({"key": f"C08:{cls.__name__}.{getter}", "what": f"{setter}(v); {getter}() != v (params={params})", "v": v.tolist(),
                                      "got": got.tolist(), "params": str(params)})
                    # the matrix is the one the values denote, whatever holds the parameters
                    t_ref = cls(g, params=True)
                    getattr(t_ref, setter)(v)
                    if params is not True and not close(t.tensor(), t_ref.tensor(), 1e-5):
                        fails.append({"key": f"C08:{cls.__name__}.tensor:params-holder", "what": f"tensor() after {setter}(v) depends on how the parameters are held (params={params})",
                                      "v": v.tolist(), "params": str(params)})
                except AttributeError:
                    pass
                except Exception as e:  # noqa
                    fails.append({"key": f"C08:{cls.__name__}:raises", "what": f"params={params}: raises {type(e).__name__}: {str(e)[:100]}"})
    return count


def oracle(p):
    rng = random.Random(p["seed"])
    fails = []
    counts = {}
    n = p["n"]
    for name, fn_ in (("hmm", oracle_hmm), ("euler", oracle_euler), ("quat", oracle_quat), ("params", oracle_params)):
        if p.get("only") and name not in p["only"]:
            continue
        try:
            counts[name] = fn_(rng, n if name != "params" else max(n // 5, 10), fails)
        except Exception as e:  # noqa
            traceback.print_exc()
            fails.append({"key": f"C08:oracle:{name}:harness", "what": f"oracle crashed {type(e).__name__}: {str(e)[:200]}"})
    return {"fails": fails, "counts": counts}


if __name__ == "__main__":
    payload = json.load(sys.stdin)
    fn_ = {"model_cases": model_cases, "oracle": oracle}[payload["fn"]]
    emit_json(fn_(payload))
