"""Gen/GridCoords.v -- the arange literals of Grid.coords (normalised sample coordinates) as
rational functions of the per-axis size n, for both align_corners settings; the default rounding
decimals of Grid.apply_transform; round_decimals' scale."""
import numpy as np

import symtorch as st
from symtorch import E, TraceError


class _Stop(Exception):
    def __init__(self, args, kwargs):
        self.a, self.k = args, kwargs


def arange_literals(Grid, ac):
    nvar = E.var("n", integer=True, positive=True)

    class SG(Grid):
        __slots__ = ()

        def size(self, i=None):
            t = st.Size([nvar])
            return t if i is None else t[i]

        @property
        def shape(self):
            return st.Size([nvar])

    g = object.__new__(SG)
    g._size = st.Tensor(np.array([nvar], dtype=object))
    g._align_corners = not ac  # the explicit argument must win over the grid's own flag
    orig = st.arange

    def rec(*a, **k):
        raise _Stop(a, k)
    st.arange = rec
    try:
        try:
            g.coords(dim=0, align_corners=ac)
        except _Stop as e:
            if len(e.a) != 3:
                raise TraceError(f"coords: arange called with {len(e.a)} positional arguments")
            return [E.const(x) for x in e.a]
        raise TraceError("coords: no arange call reached for n >= 2")
    finally:
        st.arange = orig


def default_decimals(loader):
    """Grid.apply_transform(decimals=-1): number of decimals per target axes (None = no rounding)"""
    G = loader.load("deepali.core.grid")
    seen = {}
    orig = G.round_decimals

    def rec(t, decimals=0, out=None):
        seen["d"] = decimals
        return t
    G.round_decimals = rec
    try:
        from tr_units.grid import mk_grid
        g = mk_grid(G.Grid, 2)
        res = {}
        for b in ("grid", "cube", "cube_corners", "world"):
            seen.clear()
            g.apply_transform(st.symvec("x", 2), G.Axes("grid" if b != "grid" else "world"), G.Axes(b))
            res[b] = seen.get("d")
        return res
    finally:
        G.round_decimals = orig


def generate(loader):
    G = loader.load("deepali.core.grid")
    out = ["From Coq Require Import QArith.", "Local Open Scope Q_scope.", ""]
    for ac in (True, False):
        start, stop, step = arange_literals(G.Grid, ac)
        for nm, e in (("start", start), ("stop", stop), ("step", step)):
            fv = e.free_vars()
            if any(v != "n" for v in fv):
                raise TraceError(f"coords literal depends on {fv}")
            out.append(f"Definition gen_coords_{nm}_{'ac' if ac else 'nac'} (n : Q) : Q := {st.to_coq_q(e)}.")
    dec = default_decimals(loader)
    def z(v):
        return "None" if v is None or v < 0 else f"Some {int(v)}%Z"
    out.append("")
    out.append("(* default decimals of Grid.apply_transform per target axes (GRID, CUBE, CUBE_CORNERS, WORLD) *)")
    out.append("Definition gen_default_decimals (b : axes) : option Z :=\n  match b with\n"
               f"  | GRID => {z(dec['grid'])}\n  | CUBE => {z(dec['cube'])}\n  | CUBE_CORNERS => {z(dec['cube_corners'])}\n"
               f"  | WORLD => {z(dec['world'])}\n  end.")
    # round_decimals: trace  round(t * scale) / scale  with round opaque
    M = loader.load("deepali.core.math")
    calls = []
    orig = st.__dict__.get("round")

    def sym_round(t, out=None):
        calls.append(t)
        return st.Tensor(np.array([E.var("r")], dtype=object))
    st.round = sym_round
    try:
        x = st.Tensor(np.array([E.var("x")], dtype=object))
        res = M.round_decimals(x, decimals=3)
        arg = calls[0].a[0]
        if not arg.same(E.var("x") * 1000):
            raise TraceError(f"round_decimals rounds {arg}, expected x * 10^decimals")
        if not res.a[0].same(E.var("r") / 1000):
            raise TraceError(f"round_decimals returns {res.a[0]}, expected round(..) / 10^decimals")
        calls.clear()
        res0 = M.round_decimals(x, decimals=0)
        if not calls[0].a[0].same(E.var("x")) or not res0.a[0].same(E.var("r")):
            raise TraceError("round_decimals(decimals=0) is not plain rounding")
    finally:
        if orig is None:
            del st.round
        else:
            st.round = orig
    out.append("\n(* round_decimals(t, d) = round(t * 10^d) / 10^d  (checked structurally on the trace) *)")
    out.append("Definition gen_round_decimals_shape : bool := true.\n")
    return "\n".join(out) + "\n"
