"""Gen/Codec.v -- the convention layer of image I/O, traced from utils/imageio/meta.py, nifti.py, sitk.py,
utils/simpleitk/torch.py, core/grid.py (Grid.affine, Grid.from_sitk, Grid.transform_vectors) and data/flow.py.

The tracing itself needs the real torch / numpy / SimpleITK next to deepali's source text, so it runs in a
subprocess (tr_units/codec_trace.py) whose PYTHONPATH points at the working tree under translation; see
that file for how header values (symbols), parsed numbers (position codes) and voxel data (position codes)
are followed through deepali's own functions.  Fail-closed: any failure of the tracer aborts the unit."""
import os
import subprocess

import symload
from symtorch import TraceError

HERE = os.path.dirname(os.path.abspath(__file__))
PY = "/venv/bin/python"


def generate(loader):
    env = dict(os.environ)
    env["PYTHONPATH"] = loader.root + os.pathsep + os.path.dirname(HERE)
    env["DEEPALI_SRC"] = loader.root
    env["PYTHONHASHSEED"] = "0"
    env["PYTHONWARNINGS"] = "ignore"
    env["DEEPALI_VERIF"] = "1"
    p = subprocess.run([PY, os.path.join(HERE, "codec_trace.py")], capture_output=True, text=True, env=env, cwd="/",
                       timeout=600)
    out = p.stdout
    i = out.rfind("\n##COQ##\n")
    if p.returncode != 0 or i < 0:
        j = out.rfind("\n##FAILED##\n")
        msg = out[j + 12:] if j >= 0 else (p.stderr[-1500:] or out[-1500:])
        raise TraceError("codec tracer failed: " + msg.strip()[:1500])
    return out[i + len("\n##COQ##\n"):]
