From Coq Require Import ZArith List Field Ring Lia Bool.
From DV Require Import Base.Field Base.FieldFacts Base.LinAlg Base.Tactics Model.Enums Model.Homog Model.Grid
  Gen.GridT Gen.GridCtor Gen.GridDerive Model.GridDerive Proofs.C01Grid Proofs.C03Resize.
Import ListNotations.
Local Open Scope fld_scope.

Section Ops.
Variable K : fld.
Hypothesis Kf : is_field K.
Hypothesis Kc : char0 K.
Add Field KF7 : Kf.
Variable ceilK floorK : K -> Z.
Variable leK : K -> K -> bool.
(* the only facts about <= that are used: it decides equality when applied both ways *)
Hypothesis leK_refl : forall x, leK x x = true.
Hypothesis leK_antisym : forall x y, leK x y = true -> leK y x = true -> x = y.

Ltac len2 X H := destruct X as [|?x0 [|?x1 [|? ?]]]; try discriminate H; clear H.
Ltac len3 X H := destruct X as [|?x0 [|?x1 [|?x2 [|? ?]]]]; try discriminate H; clear H.

Lemma veqK_true_iff (a b : list K) : veqK leK a b = true <-> a = b.
Proof.
  revert b; induction a as [|x a IH]; intros [|y b]; cbn; split; intro H; try discriminate; try reflexivity.
  - apply andb_prop in H as [H1 H3]. apply andb_prop in H1 as [H1 H2].
    f_equal; [apply leK_antisym; assumption | now apply IH].
  - injection H as -> ->. rewrite !leK_refl. cbn. now apply IH.
Qed.

Variable D : nat.
Hypothesis HD : D = 2%nat \/ D = 3%nat.
Variables (f s c : nat -> K) (d : nat -> nat -> K) (a0 : bool).
Notation g := (mkG (vtab D f) (vtab D s) (vtab D c) (tab D D d) a0).
Definition cz (x : K) : K := of_Z (ceilK x).

Lemma nK_g : nK ceilK g = vtab D (fun i => cz (f i)).
Proof. destruct HD as [-> | ->]; reflexivity. Qed.

(* ---- resize family ------------------------------------------------------------------------ *)
Lemma resize_keeps_world (m : nat -> K) (a : bool) :
  let g' := d_resize ceilK leK D (vtab D m) a g in
  ce g' = ce g /\ di g' = di g /\ acf g' = acf g /\
  (a = true -> (forall i, (i < D)%nat -> cz (m i) - 1 <> 0) ->
     d_origin ceilK D g' = d_origin ceilK D g /\
     d_itw ceilK D g' (vsub (nK ceilK g') (vones D)) = d_itw ceilK D g (vsub (nK ceilK g) (vones D)) /\
     gen_cube_extent_ac D (nK ceilK g') (sp g') (ce g') (di g') = gen_cube_extent_ac D (nK ceilK g) (sp g) (ce g) (di g)) /\
  (a = false -> (forall i, (i < D)%nat -> cz (m i) <> 0) ->
     d_extent ceilK D g' = d_extent ceilK D g /\
     gen_cube_extent_nac D (nK ceilK g') (sp g') (ce g') (di g') = gen_cube_extent_nac D (nK ceilK g) (sp g) (ce g) (di g)).
Proof.
  intro g'. unfold g', d_resize. destruct (veqK leK (vtab D m) (fs g)) eqn:E.
  - split; [|split; [|split; [|split]]]; auto.
  - cbn [ce di acf sp fs]. split; [|split; [|split; [|split]]]; auto.
    + intros -> Hm. unfold d_origin, d_itw, nK, nZ. cbn [fs sp ce di].
      assert (EN : map of_Z (map ceilK (vtab D m)) = vtab D (fun i => cz (m i)))
        by (destruct HD as [-> | ->]; reflexivity).
      assert (EF : map of_Z (map ceilK (vtab D f)) = vtab D (fun i => cz (f i)))
        by (destruct HD as [-> | ->]; reflexivity).
      rewrite EN, EF.
      pose proof (resize_ac_keeps_corners K Kf Kc D HD (fun i => cz (f i)) s c (fun i => cz (m i)) d Hm) as (P1 & P2 & P3).
      split; [|split]; assumption.
    + intros -> Hm. unfold d_extent, nK, nZ. cbn [fs sp ce di].
      assert (EN : map of_Z (map ceilK (vtab D m)) = vtab D (fun i => cz (m i)))
        by (destruct HD as [-> | ->]; reflexivity).
      assert (EF : map of_Z (map ceilK (vtab D f)) = vtab D (fun i => cz (f i)))
        by (destruct HD as [-> | ->]; reflexivity).
      rewrite EN, EF.
      pose proof (resize_nac_keeps_extent K Kf D HD (fun i => cz (f i)) s c (fun i => cz (m i)) d Hm) as (P1 & P2 & _).
      split; assumption.
Qed.

(* resize without the early return: same result whenever the spacing formula is defined *)
Definition d_resize_formula (m : list K) (a : bool) (h : dgrid) : dgrid :=
  mkG m ((if a then gen_resize_spacing_ac else gen_resize_spacing_nac)
           D (nK ceilK h) (sp h) (ce h) (di h) (map of_Z (map ceilK m))) (ce h) (di h) (acf h).

Lemma d_resize_is_formula (fz : nat -> K) (S0 : list K) (m : nat -> K) (a : bool) :
  length S0 = D ->
  (forall i, (i < D)%nat -> cz (fz i) - 1 <> 0) -> (forall i, (i < D)%nat -> cz (fz i) <> 0) ->
  let h0 := mkG (vtab D fz) S0 (vtab D c) (tab D D d) a0 in
  d_resize ceilK leK D (vtab D m) a h0 = d_resize_formula (vtab D m) a h0.
Proof.
  intros HS H1 H0 h0. unfold d_resize, d_resize_formula.
  destruct (veqK leK (vtab D m) (fs h0)) eqn:E; [|reflexivity].
  apply veqK_true_iff in E. unfold h0 in *. cbn [fs] in E. rewrite E. cbn [fs sp ce di acf]. f_equal.
  unfold nK, nZ. cbn [fs].
  assert (EF : map of_Z (map ceilK (vtab D fz)) = vtab D (fun i => cz (fz i)))
    by (destruct HD as [-> | ->]; reflexivity).
  rewrite EF. symmetry.
  destruct a; destruct HD as [-> | ->]; [len2 S0 HS | len3 S0 HS | len2 S0 HS | len3 S0 HS];
    pose proof (H1 0%nat ltac:(lia)); pose proof (H1 1%nat ltac:(lia)); try pose proof (H1 2%nat ltac:(lia));
    pose proof (H0 0%nat ltac:(lia)); pose proof (H0 1%nat ltac:(lia)); try pose proof (H0 2%nat ltac:(lia));
    fcbv; list_eq; field; auto.
Qed.

(* downsample followed by upsample (all axes, same flag) returns the original grid when no axis is clamped *)
Lemma down_up_identity (L : nat) (min_size : Z) (a : bool) :
  (forall i, (i < D)%nat -> leK (zK min_size) (f i / pow2 L) = true) ->     (* no axis clamped *)
  (forall i, (i < D)%nat -> cz (f i) - 1 <> 0) -> (forall i, (i < D)%nat -> cz (f i) <> 0) ->
  (forall i, (i < D)%nat -> cz (f i / pow2 L) - 1 <> 0) -> (forall i, (i < D)%nat -> cz (f i / pow2 L) <> 0) ->
  g_upsample ceilK leK D L None (Some a) (g_downsample ceilK leK D L None min_size (Some a) g) = g.
Proof.
  intros Hc H1 H0 H1' H0'.
  assert (P2 : pow2 L <> (0 : K)).
  { unfold pow2. apply (of_Z_nz K Kf Kc). apply Z.pow_nonzero; lia. }
  unfold g_downsample, g_upsample, opt_flag. cbn [fs].
  set (f' := fun i => f i / pow2 L).
  assert (E1 : map (fun p => if leK (zK min_size) (fst p) then fst p else snd p)
                   (combine (mapi_from (fun i x => if in_dims None i then x / pow2 L else x) 0 (vtab D f)) (vtab D f))
               = vtab D f').
  { destruct HD as [-> | ->]; cbn; unfold f';
      rewrite ?(Hc 0%nat ltac:(lia)), ?(Hc 1%nat ltac:(lia)), ?(Hc 2%nat ltac:(lia)); reflexivity. }
  rewrite E1.
  assert (LS : length (vtab D s) = D) by (destruct HD as [-> | ->]; reflexivity).
  rewrite (d_resize_is_formula f (vtab D s) f' a LS H1 H0).
  unfold d_resize_formula at 1. cbn [fs sp ce di acf].
  assert (E2 : mapi_from (fun i x => if in_dims None i then x * pow2 L else x) 0 (vtab D f') = vtab D f).
  { destruct HD as [-> | ->]; cbn; unfold f'; list_eq; field; exact P2. }
  rewrite E2. unfold d_resize_formula at 1. cbn [fs sp ce di acf].
  set (S1 := (if a then @gen_resize_spacing_ac K else @gen_resize_spacing_nac K) D _ _ _ _ _).
  assert (LS1 : length S1 = D) by (unfold S1; destruct a; destruct HD as [-> | ->]; reflexivity).
  rewrite (d_resize_is_formula f' S1 f a LS1 H1' H0').
  unfold d_resize_formula. cbn [fs sp ce di acf]. f_equal.
  unfold S1, nK, nZ. cbn [fs].
  assert (EF : map of_Z (map ceilK (vtab D f)) = vtab D (fun i => cz (f i))) by (destruct HD as [-> | ->]; reflexivity).
  assert (EF' : map of_Z (map ceilK (vtab D f')) = vtab D (fun i => cz (f' i))) by (destruct HD as [-> | ->]; reflexivity).
  rewrite EF, EF'.
  destruct a.
  - apply (resize_back_ac K Kf D HD (fun i => cz (f i)) s c (fun i => cz (f' i)) d); assumption.
  - apply (resize_back_nac K Kf D HD (fun i => cz (f i)) s c (fun i => cz (f' i)) d); assumption.
Qed.

(* every pyramid level is a resize of the original grid: same center, direction, cube extent *)
Lemma pyramid_same_domain (L : nat) (dims : option (list nat)) (min_size : Z) (level : nat) :
  let g' := g_pyramid_level ceilK leK D L dims min_size level g in
  (forall i, (i < D)%nat -> cz (nth i (fs g') 0) - 1 <> 0) -> (forall i, (i < D)%nat -> cz (nth i (fs g') 0) <> 0) ->
  ce g' = ce g /\ di g' = di g /\ d_cube_extent ceilK D g' = d_cube_extent ceilK D g.
Proof.
  intros g' H1 H0. unfold g', g_pyramid_level, g_resize, opt_flag in *. cbn [acf] in *.
  set (sizes := map zK _) in *.
  assert (ES : exists m, sizes = vtab D m).
  { exists (fun i => nth i sizes 0). unfold sizes. destruct HD as [-> | ->]; reflexivity. }
  destruct ES as (m & Em). rewrite Em in *.
  pose proof (resize_keeps_world m a0) as (Pc & Pd & Pa & Pac & Pnac).
  split; [exact Pc | split; [exact Pd|]].
  unfold d_cube_extent. rewrite Pa. cbn [acf].
  assert (Hm1 : forall i, (i < D)%nat -> cz (m i) - 1 <> 0 /\ cz (m i) <> 0).
  { intros i Hi. unfold d_resize in H1, H0.
    destruct (veqK leK (vtab D m) (fs g)) eqn:E.
    - apply veqK_true_iff in E. cbn [fs] in *.
      specialize (H1 i Hi). specialize (H0 i Hi).
      assert (Ei : m i = nth i (vtab D m) 0) by (destruct HD as [-> | ->]; destruct i as [|[|[|i]]]; try lia; reflexivity).
      rewrite Ei, E. split; assumption.
    - cbn [fs] in *. specialize (H1 i Hi). specialize (H0 i Hi).
      assert (Ei : m i = nth i (vtab D m) 0) by (destruct HD as [-> | ->]; destruct i as [|[|[|i]]]; try lia; reflexivity).
      rewrite Ei. split; assumption. }
  destruct a0.
  - destruct (Pac eq_refl (fun i Hi => proj1 (Hm1 i Hi))) as (_ & _ & P). exact P.
  - destruct (Pnac eq_refl (fun i Hi => proj2 (Hm1 i Hi))) as (_ & P). exact P.
Qed.

(* resample(spacing): center and orientation kept; internal size * new spacing = the old physical extent *)
Lemma resample_keeps_extent (sp' : nat -> K) (min_size : Z) :
  (forall i, (i < D)%nat -> sp' i <> 0) ->
  let g' := g_resample ceilK leK D (vtab D sp') min_size g in
  ce g' = ce g /\ di g' = di g /\ acf g' = acf g /\
  (veqK leK (vtab D sp') (sp g) = false ->
   (forall i, (i < D)%nat -> leK (zK min_size) (cz (f i) * s i / sp' i) = true) ->     (* no axis clamped *)
   sp g' = vtab D sp' /\ vmul (fs g') (sp g') = d_extent ceilK D g).
Proof.
  intros Hs g'. unfold g', g_resample. destruct (veqK leK (vtab D sp') (sp g)) eqn:E.
  - split; [|split; [|split]]; auto. discriminate.
  - cbn [ce di acf sp fs]. split; [|split; [|split]]; auto. intros _ Hc. split; [reflexivity|].
    unfold d_extent, nK, nZ. cbn [fs sp ce di].
    assert (EF : map of_Z (map ceilK (vtab D f)) = vtab D (fun i => cz (f i))) by (destruct HD as [-> | ->]; reflexivity).
    rewrite EF.
    destruct HD as [-> | ->];
      pose proof (Hs 0%nat ltac:(lia)); pose proof (Hs 1%nat ltac:(lia)); try pose proof (Hs 2%nat ltac:(lia));
      pose proof (Hc 0%nat ltac:(lia)) as C0; pose proof (Hc 1%nat ltac:(lia)) as C1; try pose proof (Hc 2%nat ltac:(lia)) as C2;
      cbn; unfold cz in *;
      repeat match goal with
             | |- context [leK (zK min_size) ?e] =>
               let Hx := fresh in
               assert (Hx : leK (zK min_size) e = true) by
                 (first [ (rewrite <- C0; f_equal; field; auto) | (rewrite <- C1; f_equal; field; auto) | (rewrite <- C2; f_equal; field; auto) ]);
               rewrite Hx; clear Hx
             end;
      list_eq; field; auto.
Qed.

(* ---- crop family: grids built through the origin= route --------------------------------------- *)
Lemma mk_origin_keeps_samples (size' X : list K) : length size' = D -> length X = D ->
  let g' := mk_origin ceilK D size' (d_itw ceilK D g X) (sp g) (di g) (acf g) in
  sp g' = sp g /\ di g' = di g /\ acf g' = acf g /\ fs g' = size' /\
  forall J, length J = D -> d_itw ceilK D g' J = d_itw ceilK D g (vadd J X).
Proof.
  intros Hs HX g'. unfold g', mk_origin. cbn [sp di acf fs ce]. repeat split; auto.
  intros J HJ. unfold d_itw, nK, nZ. cbn [fs sp ce di].
  assert (EF : map of_Z (map ceilK (vtab D f)) = vtab D (fun i => cz (f i))) by (destruct HD as [-> | ->]; reflexivity).
  assert (ES : map of_Z (map ceilK size') = vtab D (fun i => cz (nth i size' 0))).
  { destruct HD as [-> | ->]; [len2 size' Hs | len3 size' Hs]; reflexivity. }
  rewrite EF, ES.
  apply (origin_route_keeps_samples K Kf Kc D HD (fun i => cz (f i)) s c d); assumption.
Qed.

Lemma pool_keeps_window_centroids (ks : nat -> Z) (ceil_mode : bool) :
  let kz := map ks (seq 0 D) in
  let g' := g_pool ceilK floorK D kz ceil_mode g in
  sp g' = vmul (sp g) (map zK kz) /\ di g' = di g /\ acf g' = acf g /\
  forall J, length J = D ->
    d_itw ceilK D g' J = d_itw ceilK D g (vadd (vmul (map zK kz) J) (vscale (1 / (1 + 1)) (vsub (map zK kz) (vones D)))).
Proof.
  intros kz g'. unfold g', g_pool, mk_origin. cbn [sp di acf fs ce]. repeat split; auto.
  intros J HJ. unfold d_itw, nK, nZ. cbn [fs sp ce di].
  assert (EF : map of_Z (map ceilK (vtab D f)) = vtab D (fun i => cz (f i))) by (destruct HD as [-> | ->]; reflexivity).
  assert (EK : map (@zK K) kz = vtab D (fun i => zK (ks i))) by (unfold kz; destruct HD as [-> | ->]; reflexivity).
  rewrite EF, EK.
  set (sz := map _ (vdiv _ _)).
  assert (ES : map of_Z (map ceilK sz) = vtab D (fun i => cz (nth i sz 0))).
  { unfold sz. destruct HD as [-> | ->]; reflexivity. }
  rewrite ES.
  apply (pool_keeps_centroids K Kf Kc D HD (fun i => cz (f i)) s c d (fun i => cz (nth i sz 0)) (fun i => zK (ks i)) J HJ).
Qed.
End Ops.
