"""Implementation-side runner for C17 (deformation regularisers), against /repo's working tree."""
import json
import math
import random
import sys

import torch

from vlib import emit_json

from deepali.core.grid import Grid
from deepali.losses import functional as L
from deepali.losses import flow as MF
from deepali.losses import bspline as MB

torch.set_default_dtype(torch.float64)
torch.set_num_threads(1)

MODES = {"fcb": "forward_central_backward", "sobel": "sobel", "prewitt": "prewitt"}
LOSSES = {"bending": L.bending_loss, "curvature": L.curvature_loss, "diffusion": L.diffusion_loss,
          "divergence": L.divergence_loss, "tv": L.total_variation_loss, "elasticity": L.elasticity_loss}
PAIRS = {"first": "first_parameter", "second": "second_parameter", "shear": "shear_modulus", "poisson": "poissons_ratio",
         "young": "youngs_modulus"}


def err(e):
    return {"error": type(e).__name__, "msg": str(e)[:200]}


def flat(t):
    return [float(v) for v in t.reshape(-1).tolist()]


def field(c):
    """{"size": [nx, ny(, nz)], "data": [[..component x..], ...]} -> (1, D, ..., Y, X) tensor"""
    size = c["size"]
    D = len(size)
    return torch.tensor(c["data"], dtype=torch.float64).reshape([1, D] + list(reversed(size)))


def run_case(c):
    k = c["kind"]
    if k == "loss":
        u = field(c["u"])
        kw = {"mode": MODES[c["mode"]], "spacing": c.get("spacing"), "reduction": c["reduction"]}
        if c["fn"] == "elasticity":
            kw.update(first_parameter=c["lam"], second_parameter=c["mu"])
        r = LOSSES[c["fn"]](u, **kw)
        return {"val": flat(r), "shape": list(r.shape)}
    if k == "bsloss":
        u = field(c["u"])
        r = L.bending_loss(u, mode="bspline", stride=tuple(c["stride"]), spacing=c["spacing"], reduction=c["reduction"])
        return {"val": flat(r), "shape": list(r.shape)}
    if k == "lame":
        lam, mu = L.lame_parameters(**{PAIRS[n]: v for n, v in c["args"].items()})
        return {"val": [float(lam), float(mu)]}
    if k == "ic":
        D = len(c["size"])
        g = Grid(size=tuple(c["size"]), spacing=tuple(c["spacing"]), align_corners=c["ac"])
        t = torch.tensor(c["t"], dtype=torch.float64)
        fwd = torch.cat([torch.eye(D), t.reshape(D, 1)], 1).unsqueeze(0)
        inv = torch.cat([torch.eye(D), torch.zeros(D, 1)], 1).unsqueeze(0)
        r = L.inverse_consistency_loss(fwd, inv, grid=g, units=c["units"], reduction="none")
        v = flat(r)
        return {"val": [v[0]], "spread": max(v) - min(v)}
    raise KeyError(k)


def model_cases(p):
    out = []
    for c in p["cases"]:
        try:
            out.append(run_case(c))
        except Exception as e:  # noqa
            out.append(err(e))
    return out


def lame_table():
    out = {}
    import itertools
    vals = {"first": 2.0, "second": 3.0, "shear": 3.0, "poisson": 0.2, "young": 7.2}   # all of (lambda, mu) = (2, 3)
    names = list(PAIRS)
    for a, b in itertools.combinations(names, 2):
        try:
            L.lame_parameters(**{PAIRS[a]: vals[a], PAIRS[b]: vals[b]})
            out[f"{a}_{b}"] = "Ok"
        except Exception as e:  # noqa
            out[f"{a}_{b}"] = type(e).__name__
    for bad in ("steel", ""):
        try:
            L.lame_parameters(material_name=bad) if bad else L.lame_parameters()
            out[f"material_{bad or 'none'}"] = "Ok"
        except Exception as e:  # noqa
            out[f"material_{bad or 'none'}"] = type(e).__name__
    return out


# ------------------------------------------------------------------------------------------------
# the property itself on the implementation
# ------------------------------------------------------------------------------------------------
class Rec:
    def __init__(self):
        self.fails = []
        self.counts = {}

    def tick(self, g):
        self.counts[g] = self.counts.get(g, 0) + 1

    def fail(self, key, what, **data):
        self.fails.append({"key": key, "what": what, **data})


def close(a, b, tol=1e-8):
    a = torch.as_tensor(a, dtype=torch.float64)
    b = torch.as_tensor(b, dtype=torch.float64)
    if a.shape != b.shape and a.numel() != b.numel():
        return False
    a, b = a.reshape(-1), b.reshape(-1)
    if not (torch.isfinite(a).all() and torch.isfinite(b).all()):
        return False
    return bool((a - b).abs().max() <= tol * (1 + b.abs().max())) if a.numel() else True


def coords(size):
    """index coordinates (1, D, ..., Y, X): channel d holds the index along spatial dim d (x first)"""
    D = len(size)
    axes = [torch.arange(n, dtype=torch.float64) for n in reversed(size)]
    mesh = torch.meshgrid(*axes, indexing="ij")            # ordered (.., y, x)
    return torch.stack(list(reversed(mesh)), 0).unsqueeze(0)


def affine_field(size, t, A):
    x = coords(size)
    D = len(size)
    u = torch.zeros_like(x)
    for c in range(D):
        u[0, c] = t[c] + sum(A[c][d] * x[0, d] for d in range(D))
    return u


def interior(t, k):
    sl = (slice(None), slice(None)) + tuple(slice(k, -k) for _ in range(t.ndim - 2))
    return t[sl]


def rnd_field(rng, size):
    D = len(size)
    n = 1
    for s in size:
        n *= s
    return torch.tensor([rng.uniform(-1, 1) for _ in range(D * n)]).reshape([1, D] + list(reversed(size)))


def call(fn, u, mode, spacing, reduction, lam=None, mu=None):
    kw = {"mode": MODES[mode] if mode in MODES else mode, "spacing": spacing, "reduction": reduction}
    if fn == "elasticity":
        kw.update(first_parameter=lam, second_parameter=mu)
    return LOSSES[fn](u, **kw)


def oracle_regs(rng, n, R):
    for it in range(n):
        D = rng.choice([2, 3])
        size = [rng.choice([5, 6, 7, 9]) for _ in range(D)]
        spacing = [rng.choice([0.5, 1.0, 2.0, 0.75]) for _ in range(D)]
        t = [rng.uniform(-2, 2) for _ in range(D)]
        A = [[rng.uniform(-1, 1) for _ in range(D)] for _ in range(D)]
        aff = affine_field(size, t, A)
        u = rnd_field(rng, size)
        lam, mu = rng.choice([(1.0, 0.5), (0.0, 2.0), (3.0, 0.0), (0.25, 1.5)])
        base = {"size": size, "spacing": spacing, "t": t, "A": A, "lam": lam, "mu": mu, "u": u.reshape(-1).tolist()}
        J = [[A[c][d] / spacing[d] for d in range(D)] for c in range(D)]
        want = {
            "diffusion": 0.5 * sum(J[c][d] ** 2 for c in range(D) for d in range(D)),
            "tv": sum(abs(J[c][d]) for c in range(D) for d in range(D)),
            "divergence": 0.5 * sum(J[c][c] for c in range(D)) ** 2,
            "elasticity": lam / 2 * sum(J[c][c] for c in range(D)) ** 2
                          + mu / 4 * sum((J[j][k] + J[k][j]) ** 2 for j in range(D) for k in range(D)),
        }
        # 'bspline': the field is read as cubic B-spline coefficients; affine coefficients give the affine function
        # itself (linear precision), so every analytic value holds at every evaluated point
        for mode in ("fcb", "sobel", "prewitt", "central", "forward", "backward", "bspline", None):
            # sobel / prewitt average across the other axes with replicated boundary values: exact everywhere too
            exact_everywhere = mode in ("fcb", "sobel", "prewitt", "bspline", None)
            mname = mode or "default"
            for fn in LOSSES:
                R.tick("null-space/values")
                key0 = f"C17:{fn}_loss:{mname}"
                try:
                    kw = dict(lam=lam, mu=mu)
                    v = call(fn, aff, mode, spacing, "none", **kw)
                    second = fn in ("bending", "curvature")
                    default_sobel = second and mode is None
                    k = 0 if exact_everywhere else 2
                    vi = interior(v, k) if k else v
                    if second:
                        if float(vi.abs().max()) > 1e-9:
                            where = "everywhere" if k == 0 else "two samples from the boundary"
                            R.fail(key0 + ":affine-nonzero", f"{fn} of an affine field is {float(vi.abs().max()):.3g} ({where})", **base)
                        if exact_everywhere and default_sobel and float(v.abs().max()) > 1e-9:
                            R.fail(f"C17:{fn}_loss:default-sobel:affine-nonzero-at-boundary",
                                   f"default mode: {fn} of an affine field is {float(v.abs().max()):.3g} at the boundary", **base)
                        w = call(fn, u + aff, mode, spacing, "none", **kw)
                        w0 = call(fn, u, mode, spacing, "none", **kw)
                        a, b = (interior(w, k), interior(w0, k)) if k else (w, w0)
                        if not close(a, b, 1e-8):
                            R.fail(key0 + ":not-affine-invariant", f"adding an affine field changes {fn}", **base)
                    else:
                        if not close(vi, torch.full_like(vi, want[fn]), 1e-9):
                            R.fail(key0 + ":affine-value", f"{fn} of an affine field is {float(vi.reshape(-1)[0]):.6g}, analytic value {want[fn]:.6g}", **base)
                        tr = call(fn, affine_field(size, t, [[0.0] * D for _ in range(D)]), mode, spacing, "none", **kw)
                        if float(tr.abs().max()) > 1e-12:
                            R.fail(key0 + ":translation-nonzero", f"{fn} of a translation is {float(tr.abs().max()):.3g}", **base)
                    # sign, homogeneity, spacing, reductions on a random field
                    none = call(fn, u, mode, spacing, "none", **kw)
                    if float(none.min()) < -1e-12:
                        R.fail(key0 + ":negative", f"{fn} takes the value {float(none.min()):.3g}", **base)
                    s = rng.choice([-2.0, 0.5, 3.0])
                    sc = call(fn, s * u, mode, spacing, "none", **kw)
                    factor = abs(s) if fn == "tv" else s * s
                    if not close(sc, factor * none, 1e-9):
                        R.fail(key0 + ":homogeneity", f"{fn}(s u) != {'|s|' if fn == 'tv' else 's^2'} {fn}(u) for s = {s}", **base)
                    kk = rng.choice([0.5, 2.0, 4.0])
                    sp2 = call(fn, u, mode, [h * kk for h in spacing], "none", **kw)
                    power = {"bending": 4, "curvature": 4, "tv": 1}.get(fn, 2)
                    if not close(sp2, none / kk ** power, 1e-9):
                        R.fail(key0 + ":spacing-power", f"scaling the spacing by {kk} does not scale {fn} by {kk}^-{power}", **base)
                    if not close(call(fn, u, mode, spacing, "sum", **kw), none.sum(), 1e-9) or \
                            not close(call(fn, u, mode, spacing, "mean", **kw), none.mean(), 1e-9):
                        R.fail(key0 + ":reduction", "'mean'/'sum' are not the mean/sum of 'none'", **base)
                except Exception as e:  # noqa
                    R.fail(key0 + ":raises", f"raises {type(e).__name__}: {str(e)[:140]}", **base)
        # quadratic fields: nested central differences reproduce the (constant) second derivatives two samples inside
        R.tick("quadratic")
        try:
            x = coords(size)
            H = [[[0.0] * D for _ in range(D)] for _ in range(D)]
            uq = torch.zeros_like(x)
            for c in range(D):
                for d in range(D):
                    for e in range(d, D):
                        hde = rng.choice([-1.0, 0.5, 0.0, 2.0])
                        H[c][d][e] = H[c][e][d] = hde
                        uq[0, c] += (0.5 if d == e else 1.0) * hde * x[0, d] * x[0, e]
            Hs = [[[H[c][d][e] / (spacing[d] * spacing[e]) for e in range(D)] for d in range(D)] for c in range(D)]
            wb = sum(Hs[c][d][e] ** 2 for c in range(D) for d in range(D) for e in range(D))
            wc = 0.5 * sum(sum(Hs[c][d][d] for d in range(D)) ** 2 for c in range(D))
            for mode in ("fcb", "sobel"):
                vb = interior(call("bending", uq, mode, spacing, "none"), 2)
                vc = interior(call("curvature", uq, mode, spacing, "none"), 2)
                if vb.numel() and not close(vb, torch.full_like(vb, wb), 1e-8):
                    R.fail(f"C17:bending_loss:{mode}:quadratic-value", f"bending of a quadratic field is {float(vb.reshape(-1)[0]):.6g}, analytic value {wb:.6g}", H=H, **base)
                if vc.numel() and not close(vc, torch.full_like(vc, wc), 1e-8):
                    R.fail(f"C17:curvature_loss:{mode}:quadratic-value", f"curvature of a quadratic field is {float(vc.reshape(-1)[0]):.6g}, analytic value {wc:.6g}", H=H, **base)
        except Exception as e:  # noqa
            R.fail("C17:bending_loss:quadratic:raises", f"raises {type(e).__name__}: {str(e)[:140]}", **base)
        # linear transformations yield zero
        R.tick("linear")
        lin = torch.tensor([[1.0, 0.2, 3.0], [0.1, 0.9, -2.0]]) if D == 2 else torch.eye(3, 4)
        for fn in LOSSES:
            try:
                kw = dict(first_parameter=1.0, second_parameter=1.0) if fn == "elasticity" else {}
                z = LOSSES[fn](lin.unsqueeze(0), **kw)
                if float(z) != 0.0:
                    R.fail(f"C17:{fn}_loss:linear-nonzero", f"{fn} of a linear transformation is {float(z)}")
            except Exception as e:  # noqa
                R.fail(f"C17:{fn}_loss:linear-raises", f"raises {type(e).__name__}: {str(e)[:140]}")


def oracle_bspline(rng, n, R):
    """cubic B-spline coefficients sampled from a quadratic polynomial: the spline's second derivatives are the
    polynomial's, so the bending energy is known in closed form"""
    for it in range(n):
        D = rng.choice([2, 3])
        size = [rng.choice([6, 7, 8]) for _ in range(D)]
        stride = rng.choice([1, 2, 3])
        x = coords(size)
        Q = [[[rng.choice([-1.0, 0.5, 0.0, 2.0]) for _ in range(D)] for _ in range(D)] for _ in range(D)]
        u = torch.zeros_like(x)
        for c in range(D):
            for d in range(D):
                for e in range(D):
                    u[0, c] += 0.5 * (Q[c][d][e] + Q[c][e][d]) / 2 * x[0, d] * x[0, e] * (1 if d == e else 1)
            u[0, c] += rng.uniform(-1, 1) * x[0, 0] + rng.uniform(-1, 1)
        base = {"size": size, "stride": stride, "Q": Q}
        R.tick("bspline")
        try:
            sp = [1.0] * D
            v = L.bending_loss(u, mode="bspline", stride=stride, spacing=sp, reduction="none")
            # Hessian of component c: H_de = (Q_de + Q_ed) / 2 (for d != e counted once in each order), diag: Q_dd / 1 * ... evaluate numerically
            H = [[[0.0] * D for _ in range(D)] for _ in range(D)]
            for c in range(D):
                for d in range(D):
                    for e in range(D):
                        coef = 0.5 * (Q[c][d][e] + Q[c][e][d]) / 2
                        # term coef * x_d * x_e contributes: d == e: 2 coef to H_dd; else coef to H_de and H_ed
                        if d == e:
                            H[c][d][d] += 2 * coef
                        else:
                            H[c][d][e] += coef
                            H[c][e][d] += coef
            want = sum(H[c][d][e] ** 2 for c in range(D) for d in range(D) for e in range(D))
            if not close(v, torch.full_like(v, want), 1e-8):
                R.fail("C17:bending_loss:bspline:analytic", f"B-spline bending energy {float(v.reshape(-1)[0]):.6g} differs from the energy of the analytic second derivatives {want:.6g}", **base)
            a = L.bspline_bending_loss(u, stride=stride, reduction="mean")
            spm = L.bending_loss(u, mode="bspline", stride=stride, reduction="mean")
            if not close(a, spm, 1e-12):
                R.fail("C17:bspline_bending_loss:alias", "deprecated alias differs from bending_loss(mode='bspline')", **base)
            mod = MB.BSplineBending(stride=stride)(u)
            if not close(mod, spm, 1e-12):
                R.fail("C17:BSplineBending.forward:option-not-passed", "module differs from the functional form", **base)
        except Exception as e:  # noqa
            R.fail("C17:bending_loss:bspline:raises", f"raises {type(e).__name__}: {str(e)[:140]}", **base)


ALL_MODES = ["forward", "backward", "central", "forward_central_backward", "prewitt", "sobel", "gaussian", "bspline", None]


def oracle_spacing(rng, n, R):
    """anisotropic per-axis spacing in EVERY derivative mode: d/dx_a is divided by spacing[a] (and nothing else)"""
    from deepali.core.flow import flow_derivatives
    from deepali.core.enum import FlowDerivativeKeys
    for it in range(n):
        D = rng.choice([2, 3])
        size = [[7, 9, 8][(it + d) % 3] for d in range(D)]            # never square / cubic
        spacing = [[0.5, 2.0, 1.25][(it + d) % 3] for d in range(D)]   # pairwise different
        u = rnd_field(rng, size)
        ones = [1.0] * D
        for mode in ALL_MODES:
            mname = mode or "default"
            base = {"size": size, "spacing": spacing, "mode": mname, "u": u.reshape(-1).tolist()}
            R.tick("spacing")
            try:
                for order in (1, 2):
                    keys = FlowDerivativeKeys.all(spatial_dims=D, order=order)
                    a = flow_derivatives(u, which=keys, mode=mode, spacing=spacing)
                    b = flow_derivatives(u, which=keys, mode=mode, spacing=ones)
                    for k in keys:
                        div = 1.0
                        for ch in k.split("/d")[1]:
                            div *= spacing["xyz".index(ch)]
                        if not close(a[k], b[k] / div, 1e-9):
                            R.fail(f"C17:flow_derivatives:{mname}:spacing-divisor",
                                   f"{k} with spacing {spacing} is not {k} with unit spacing divided by {div:g}", deriv=k, **base)
                # fields varying along a single axis a: loss(spacing = s) = loss(spacing = 1) / s[a]^k
                for ax in range(D):
                    x = coords(size)
                    ua = torch.zeros_like(u)
                    for c in range(D):
                        ua[0, c] = torch.sin(0.7 * x[0, ax] + c) + 0.1 * x[0, ax] ** 2
                    for fn in LOSSES:
                        kw = dict(lam=1.0, mu=0.5)
                        va = call(fn, ua, mode, spacing, "none", **kw)
                        v1 = call(fn, ua, mode, ones, "none", **kw)
                        power = {"bending": 4, "curvature": 4, "tv": 1}.get(fn, 2)
                        if not close(va, v1 / spacing[ax] ** power, 1e-8):
                            R.fail(f"C17:{fn}_loss:{mname}:axis-spacing",
                                   f"field varying along axis {ax} only: {fn}(spacing={spacing}) != {fn}(spacing=1) / {spacing[ax]}^{power}",
                                   axis=ax, **base)
                # a separate spacing for each image of the batch: (N, D) and (N, 1) tensors with different rows
                u2 = torch.cat([u, rnd_field(rng, size)], 0)
                rows = [spacing, [h * 1.5 for h in reversed(spacing)]]
                for sp2, label in ((torch.tensor(rows), "(N, D)"), (torch.tensor([[rows[0][0]], [rows[1][0]]]), "(N, 1)")):
                    for fn in LOSSES:
                        kw = dict(lam=1.0, mu=0.5)
                        both = call(fn, u2, mode, sp2, "none", **kw)
                        for n_ in range(2):
                            sp_n = sp2[n_].tolist() if sp2.shape[1] > 1 else [float(sp2[n_, 0])] * D
                            one = call(fn, u2[n_:n_ + 1], mode, sp_n, "none", **kw)
                            if not close(both[n_:n_ + 1], one, 1e-9):
                                R.fail(f"C17:{fn}_loss:{mname}:per-image-spacing",
                                       f"spacing of shape {label}: image {n_} of the batch is not evaluated with its own spacing {sp_n}",
                                       spacing_rows=sp2.tolist(), image=n_, **base)
                # the default spacing is 2 / (n - 1) per axis
                dflt = [2 / (n_ - 1) for n_ in size]
                for fn in LOSSES:
                    kw = dict(lam=1.0, mu=0.5)
                    a = call(fn, u, mode, None, "mean", **kw)
                    b = call(fn, u, mode, dflt, "mean", **kw)
                    if not close(a, b, 1e-5):
                        R.fail(f"C17:{fn}_loss:{mname}:default-spacing", f"spacing=None gives {float(a):.6g}, spacing=2/(n-1) per axis {float(b):.6g}", **base)
            except Exception as e:  # noqa
                R.fail(f"C17:flow_derivatives:{mname}:raises", f"raises {type(e).__name__}: {str(e)[:140]}", **base)


def oracle_bspline_modes(rng, n, R):
    """every regulariser accepts mode='bspline' (output: one value per evaluated spline point, size (X - 3) * stride ...)"""
    for it in range(n):
        D = rng.choice([2, 3])
        size = [rng.choice([6, 7, 8]) for _ in range(D)]
        stride = rng.choice([1, 2])
        u = rnd_field(rng, size)
        for fn in LOSSES:
            R.tick("bspline-modes")
            kw = dict(first_parameter=1.0, second_parameter=0.5) if fn == "elasticity" else {}
            try:
                v = LOSSES[fn](u, mode="bspline", stride=stride, reduction="none", **kw)
                ref = L.bending_loss(u, mode="bspline", stride=stride, reduction="none")
                if v.shape != ref.shape:
                    R.fail(f"C17:{fn}_loss:bspline:shape", f"output shape {list(v.shape)} differs from that of bending_loss {list(ref.shape)}",
                           size=size, stride=stride)
                if float(v.min()) < -1e-12:
                    R.fail(f"C17:{fn}_loss:bspline:negative", "negative value", size=size, stride=stride)
            except Exception as e:  # noqa
                R.fail(f"C17:{fn}_loss:bspline:raises", f"mode='bspline' raises {type(e).__name__}: {str(e)[:140]}",
                       size=size, stride=stride, u=u.reshape(-1).tolist())


def oracle_lame(rng, n, R):
    def consts(lam, mu):
        return {"first": lam, "second": mu, "shear": mu, "poisson": lam / (2 * (lam + mu)), "young": mu * (3 * lam + 2 * mu) / (lam + mu)}
    import itertools
    for it in range(n):
        lam, mu = rng.choice([0.5, 1.0, 2.0, 4.0]), rng.choice([0.25, 1.0, 2.0, 3.0])
        truth = consts(lam, mu)
        for a, b in itertools.combinations(list(PAIRS), 2):
            if {a, b} == {"second", "shear"}:
                continue
            R.tick("lame")
            args = {PAIRS[a]: truth[a], PAIRS[b]: truth[b]}
            try:
                l2, m2 = L.lame_parameters(**args)
                if abs(l2 - lam) > 1e-9 * (1 + lam) or abs(m2 - mu) > 1e-9 * (1 + mu):
                    R.fail(f"C17:lame_parameters:{a}_{b}:wrong",
                           f"({a}, {b}) of (lambda={lam}, mu={mu}) gives ({l2:.6g}, {m2:.6g})", args=args, lam=lam, mu=mu)
            except Exception as e:  # noqa
                R.fail(f"C17:lame_parameters:{a}_{b}:raises", f"raises {type(e).__name__}: {str(e)[:120]}", args=args)
    for lam, mu in ((-0.25, 1.0), (-0.5, 2.0)):
        truth = consts(lam, mu)         # nu = lam / (2 (lam + mu)) in (-1, 0): a valid (auxetic) material
        for a, b in (("shear", "poisson"), ("poisson", "young"), ("first", "second")):
            R.tick("lame")
            args = {PAIRS[a]: truth[a], PAIRS[b]: truth[b]}
            try:
                l2, m2 = L.lame_parameters(**args)
                if abs(l2 - lam) > 1e-9 or abs(m2 - mu) > 1e-9:
                    R.fail("C17:lame_parameters:negative-poisson-wrong", f"nu = {truth['poisson']:.4g}: gives ({l2:.6g}, {m2:.6g}), expected ({lam}, {mu})", args=args)
            except Exception as e:  # noqa
                R.fail("C17:lame_parameters:negative-poisson-raises",
                       f"({a}, {b}): valid constants with Poisson's ratio {truth['poisson']:.4g} in (-1, 0): raises {type(e).__name__}: {str(e)[:100]}", args=args)
    R.tick("lame")
    try:
        L.lame_parameters(second_parameter=1.0, shear_modulus=1.0)
        R.fail("C17:lame_parameters:second_shear:accepted", "mutually exclusive arguments accepted")
    except ValueError:
        pass


def oracle_ic(rng, n, R):
    for it in range(n):
        D = rng.choice([2, 3])
        size = [[5, 6, 9][(it + d) % 3] for d in range(D)]          # never square
        spacing = [rng.choice([0.5, 1.0, 2.0]) for _ in range(D)]
        ac = bool(it % 2)
        g = Grid(size=tuple(size), spacing=tuple(spacing), align_corners=ac)
        base = {"size": size, "spacing": spacing, "align_corners": ac}
        # exact inverse pair (affine)
        R.tick("inverse-consistency")
        try:
            M = torch.eye(D) + 0.2 * torch.tensor([[rng.uniform(-1, 1) for _ in range(D)] for _ in range(D)])
            b = torch.tensor([rng.uniform(-0.2, 0.2) for _ in range(D)])
            fwd = torch.cat([M, b.reshape(D, 1)], 1).unsqueeze(0)
            Mi = torch.linalg.inv(M)
            inv = torch.cat([Mi, (-Mi @ b).reshape(D, 1)], 1).unsqueeze(0)
            for un in ("cube", "voxel", "world"):
                v = L.inverse_consistency_loss(fwd, inv, grid=g, units=un, reduction="none")
                if float(v.abs().max()) > 1e-9:
                    R.fail(f"C17:inverse_consistency_loss:{un}:exact-inverse-nonzero", f"error of an exact inverse pair is {float(v.abs().max()):.3g}", **base)
            # known error: forward = translation by t (cube units), inverse = identity
            t = torch.tensor([rng.choice([0.25, -0.125, 0.5]) for _ in range(D)])
            fwd = torch.cat([torch.eye(D), t.reshape(D, 1)], 1).unsqueeze(0)
            inv = torch.cat([torch.eye(D), torch.zeros(D, 1)], 1).unsqueeze(0)
            vox = torch.tensor([float(t[d]) * ((size[d] - 1) if ac else size[d]) / 2 for d in range(D)])
            want = {"cube": float(t.norm()), "voxel": float(vox.norm()), "world": float((vox * torch.tensor(spacing)).norm())}
            for un in ("cube", "voxel", "world"):
                v = L.inverse_consistency_loss(fwd, inv, grid=g, units=un, reduction="none")
                if not close(v, torch.full_like(v, want[un]), 1e-6):
                    kind = "align-corners-false" if not ac else "align-corners-true"
                    R.fail(f"C17:inverse_consistency_loss:{un}-units-{kind}",
                           f"a {want['cube']:.4g} cube-unit error is reported as {float(v.reshape(-1)[0]):.6g} {un} units, expected {want[un]:.6g}",
                           t=t.tolist(), **base)
                none = v
                s = L.inverse_consistency_loss(fwd, inv, grid=g, units=un, reduction="sum")
                m_ = L.inverse_consistency_loss(fwd, inv, grid=g, units=un, reduction="mean")
                if not close(m_, none.mean(), 1e-9):
                    R.fail("C17:inverse_consistency_loss:mean-not-mean-of-none", "reduction='mean' is not the mean of 'none'", **base)
                if not close(s, none.sum(), 1e-9):
                    R.fail("C17:inverse_consistency_loss:sum-not-sum-of-none",
                           f"reduction='sum' gives {float(s):.6g}, the sum of 'none' is {float(none.sum()):.6g}", **base)
            # margin and mask
            mg = rng.choice([1, 2])
            v = L.inverse_consistency_loss(fwd, inv, grid=g, margin=mg, reduction="none")
            if list(v.shape[1:]) != [n_ - 2 * mg for n_ in reversed(size)]:
                R.fail("C17:inverse_consistency_loss:margin-shape", f"margin={mg} gives shape {list(v.shape)}", **base)
            fm = rng.choice([0.2, 0.3, 0.35])
            v = L.inverse_consistency_loss(fwd, inv, grid=g, margin=fm, reduction="none")
            wantf = [n_ - 2 * int(fm * n_) for n_ in reversed(size)]
            if list(v.shape[1:]) != wantf:
                R.fail("C17:inverse_consistency_loss:float-margin-shape",
                       f"margin={fm} on a grid of size {size} gives shape {list(v.shape[1:])}, expected {wantf} (int(margin * n) points per border of each axis)", **base)
            # mean over the mask: with a margin and with a batch of transformations
            fwd2, inv2 = fwd.repeat(2, 1, 1), inv.repeat(2, 1, 1)
            ones = torch.ones([1, 1] + list(reversed(size)))
            for mgn, bt in ((0, 2), (1, 1), (1, 2)):
                f_, i_ = (fwd2, inv2) if bt == 2 else (fwd, inv)
                mm = L.inverse_consistency_loss(f_, i_, grid=g, mask=ones, margin=mgn, reduction="mean")
                if not close(mm, want["cube"], 1e-6):
                    R.fail("C17:inverse_consistency_loss:mask-mean-count",
                           f"mean error with an all-ones mask, margin={mgn}, batch={bt}: {float(mm):.6g}, every point has error {want['cube']:.6g}",
                           margin=mgn, batch=bt, **base)
            mask = torch.zeros([1, 1] + list(reversed(size)))
            mask[(0, 0) + tuple(slice(1, 3) for _ in range(D))] = 1
            mm = L.inverse_consistency_loss(fwd, inv, grid=g, mask=mask, reduction="mean")
            if not close(mm, want["cube"], 1e-6):
                R.fail("C17:inverse_consistency_loss:mask-mean", f"masked mean {float(mm):.6g} is not the mean error over the mask {want['cube']:.6g}", **base)
        except Exception as e:  # noqa
            R.fail("C17:inverse_consistency_loss:raises", f"raises {type(e).__name__}: {str(e)[:140]}", **base)


def oracle_modules(rng, n, R):
    for it in range(n):
        D = rng.choice([2, 3])
        size = [[5, 6, 7][(it + d) % 3] for d in range(D)]          # never square
        u = rnd_field(rng, size)
        spacing = [rng.choice([0.5, 2.0]) for _ in range(D)]
        mode = rng.choice(["forward_central_backward", "sobel", "central"])
        red = rng.choice(["mean", "sum"])
        pairs = [
            ("Bending", lambda: MF.Bending(mode=mode, spacing=spacing, reduction=red)(u), lambda: L.bending_loss(u, mode=mode, spacing=spacing, reduction=red)),
            ("Curvature", lambda: MF.Curvature(mode=mode, spacing=spacing, reduction=red)(u), lambda: L.curvature_loss(u, mode=mode, spacing=spacing, reduction=red)),
            ("Diffusion", lambda: MF.Diffusion(mode=mode, spacing=spacing, reduction=red)(u), lambda: L.diffusion_loss(u, mode=mode, spacing=spacing, reduction=red)),
            ("Divergence", lambda: MF.Divergence(mode=mode, spacing=spacing, reduction=red)(u), lambda: L.divergence_loss(u, mode=mode, spacing=spacing, reduction=red)),
            ("TotalVariation", lambda: MF.TotalVariation(mode=mode, spacing=spacing, reduction=red)(u), lambda: L.total_variation_loss(u, mode=mode, spacing=spacing, reduction=red)),
            ("Elasticity", lambda: MF.Elasticity(first_parameter=0.5, second_parameter=2.0, mode=mode, spacing=spacing, reduction=red)(u),
             lambda: L.elasticity_loss(u, first_parameter=0.5, second_parameter=2.0, mode=mode, spacing=spacing, reduction=red)),
            ("GradLoss", lambda: MF.GradLoss(p=2, q=1, mode=mode, spacing=spacing, reduction=red)(u), lambda: L.grad_loss(u, p=2, q=1, mode=mode, spacing=spacing, reduction=red)),
        ]
        for p_, q_ in ((2, 0), (2, None), (3, None), (1, 1), (4, 2), (3, 0)):
            pairs.append((f"GradLoss", (lambda p_=p_, q_=q_: MF.GradLoss(p=p_, q=q_, mode=mode, spacing=spacing, reduction=red)(u)),
                          (lambda p_=p_, q_=q_: L.grad_loss(u, p=p_, q=q_, mode=mode, spacing=spacing, reduction=red))))
        # defaults (spacing=None on a non-square grid) and the spline mode with a stride
        st_ = rng.choice([2, 3])
        pairs += [
            ("Diffusion", lambda: MF.Diffusion(reduction=red)(u), lambda: L.diffusion_loss(u, reduction=red)),
            ("TotalVariation", lambda: MF.TotalVariation(reduction=red)(u), lambda: L.total_variation_loss(u, reduction=red)),
            ("Bending", lambda: MF.Bending(mode="bspline", stride=st_, reduction=red)(u), lambda: L.bending_loss(u, mode="bspline", stride=st_, reduction=red)),
            ("Elasticity", lambda: MF.Elasticity(first_parameter=0.5, second_parameter=2.0, mode="bspline", stride=st_, reduction=red)(u),
             lambda: L.elasticity_loss(u, first_parameter=0.5, second_parameter=2.0, mode="bspline", stride=st_, reduction=red)),
        ]
        for name, mod, fun in pairs:
            R.tick("modules")
            try:
                a, b = mod(), fun()
                if not close(a, b, 1e-12):
                    R.fail(f"C17:{name}.forward:option-not-passed", f"module gives {float(a):.6g}, functional form with the same options {float(b):.6g}",
                           mode=mode, spacing=spacing, reduction=red)
            except Exception as e:  # noqa
                R.fail(f"C17:{name}.forward:raises", f"raises {type(e).__name__}: {str(e)[:140]}", mode=mode)


def oracle(p):
    rng = random.Random(p["seed"])
    n = p["n"]
    R = Rec()
    oracle_regs(rng, n, R)
    oracle_bspline(rng, max(n // 2, 4), R)
    oracle_bspline_modes(rng, max(n // 4, 3), R)
    oracle_spacing(rng, max(n // 4, 3), R)
    oracle_lame(rng, max(n // 2, 4), R)
    oracle_ic(rng, max(n, 8), R)
    oracle_modules(rng, max(n // 2, 4), R)
    best = {}
    for f in R.fails:
        k = f["key"]
        size = len(json.dumps(f))
        if k not in best or size < best[k][0]:
            best[k] = (size, f)
    return {"fails": [v[1] for v in best.values()], "counts": R.counts, "total_fails": len(R.fails)}


def main():
    p = json.load(sys.stdin)
    fn = p["fn"]
    if fn == "model_cases":
        emit_json(model_cases(p))
    elif fn == "oracle":
        emit_json(oracle(p))
    elif fn == "lame_table":
        emit_json(lame_table())
    else:
        raise SystemExit("unknown fn " + fn)


if __name__ == "__main__":
    main()
