(* C04 over the executable field: the ceiling used for grid sizes satisfies what the abstract shape lemmas assume;
   witnesses of the two places where the unchanged code does NOT keep data and grid in lock-step. *)
From Coq Require Import ZArith QArith Qround Qabs Qcanon List Lia Lqa Bool.
From DV Require Import Base.Field Base.FieldFacts Base.LinAlg Base.QcInst Model.Enums Model.Homog Model.Grid Model.Sampler Model.SamplerQc
  Gen.GridT Model.GridDerive Model.GridDeriveQc Model.ImageOps Model.ImageOpsQc Proofs.QcFacts Proofs.C01Lattice.
Import ListNotations.

Lemma ceilQc_int (z : Z) : ceilQc (of_Z (K:=QcF) z) = z.
Proof. unfold ceilQc. rewrite this_of_Z. apply Qceiling_Z. Qed.

Lemma ceilQc_shift (x : Qc) (z : Z) : ceilQc (fsub (K:=QcF) x (of_Z z)) = (ceilQc x - z)%Z.
Proof.
  unfold ceilQc. rewrite this_sub, this_of_Z.
  pose proof (Qle_ceiling (this x)) as A. pose proof (Qceiling_lt (this x)) as B.
  apply Qceiling_unique.
  - unfold Z.sub in *. rewrite !inject_Z_plus, !inject_Z_opp in *. change (inject_Z 1) with 1%Q in B. lra.
  - unfold Z.sub. rewrite inject_Z_plus, inject_Z_opp. lra.
Qed.

(* a ramp image 2 x + 3 y + 1 on a 4 x 3 unit grid centred at the origin *)
Definition ex_grid : dgrid (K:=QcF) := mkG (K:=QcF) [q 4 1; q 3 1] [q 1 1; q 1 1] [q 0 1; q 0 1] [[q 1 1; q 0 1]; [q 0 1; q 1 1]] true.
Definition ex_ramp (g : dgrid (K:=QcF)) (J : list Z) : Qc :=
  fadd (K:=QcF) (dot (K:=QcF) [q 2 1; q 3 1] (d_itw (K:=QcF) ceilQc 2 g (map (of_Z (K:=QcF)) J))) (q 1 1).
Definition ex_img : qimg := mkI (K:=QcF) [4; 3]%Z (ex_ramp ex_grid).

(* resample to spacing (6/5, 1): the rounded new shape equals the old one and the spacing changes.  On the repaired code
   (core.image.grid_resample returns its input only when the resampled GRID equals the input grid) the data is resampled:
   the returned values are the ramp on the returned grid at every index inside the original field of view, and they are
   NOT the input values (before the repair this case returned the input unchanged: -5 instead of -28/5 at index (0,0)) *)
Definition in_hull (g g' : dgrid (K:=QcF)) (J : list Z) : bool :=
  forallb (fun p => Qle_bool 0 (this (fst p)) && Qle_bool (this (fst p)) (inject_Z (snd p - 1)))
          (combine (gen_pts (K:=QcF) 2 WORLD GRID (nK (K:=QcF) ceilQc g) (sp g) (ce g) (di g) (d_itw (K:=QcF) ceilQc 2 g' (map (of_Z (K:=QcF)) J)))
                   (nZ (K:=QcF) ceilQc g)).
Lemma resample_same_shape_lockstep :
  let op := OResample (K:=QcF) [q 6 5; q 1 1] 1 in
  let g' := apply_op (K:=QcF) ceilQc floorQc leQc 2 op ex_grid in
  let out := apply_data 2 (IGrid op (q 0 1) []) ex_grid g' ex_img in
  ishape out = nZ (K:=QcF) ceilQc g' /\ ishape out = ishape ex_img /\
  forallb (fun J => negb (in_hull ex_grid g' J) || qeqb (ival out J) (ex_ramp g' J)) (indices (ishape out)) = true /\
  existsb (fun J => in_hull ex_grid g' J && negb (qeqb (ival out J) (ival ex_img J))) (indices (ishape out)) = true.
Proof. intros op g' out. repeat split; vm_compute; reflexivity. Qed.

(* downsample a 5 x 4 image once: the grid keeps the fractional size 5/2 (3 samples), the data has 3 samples; upsample:
   the grid returns to 5 samples, the data path doubles the tensor shape to 6 -- shapes disagree *)
Lemma upsample_fractional_size_refuted :
  let g := mkG (K:=QcF) [q 5 2; q 2 1] [q 2 1; q 2 1] [q 0 1; q 0 1] [[q 1 1; q 0 1]; [q 0 1; q 1 1]] true in
  let op := OUp (K:=QcF) 1 None None in
  let g' := apply_op (K:=QcF) ceilQc floorQc leQc 2 op g in
  nZ (K:=QcF) ceilQc g = [3; 2]%Z /\
  nZ (K:=QcF) ceilQc g' = [5; 4]%Z /\
  up_size 1 None [3; 2]%Z = [6; 4]%Z.
Proof. intros. repeat split; vm_compute; reflexivity. Qed.
