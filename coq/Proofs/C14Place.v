(* C14: placement of the control point grid: control point k sits at image index (k - 1) * stride. *)
From Coq Require Import ZArith List Field Ring Lia.
From DV Require Import Base.Field Base.FieldFacts Model.BSplineBase Gen.BSpline Model.BSpline Proofs.C14Ctrl.
Local Open Scope fld_scope.

Section Proofs.
Variable K : fld.
Hypothesis Kf : is_field K.
Add Field KF : Kf.

(* along an axis with origin o and spacing h (world position of image index x: o + h x), control point k of the grid
   built by cubic_bspline_control_point_grid lies at the world position of image index (k - 1) s *)
Lemma ctrl_point_position (o h s k : K) :
  gen_ctrl_origin o h s + gen_ctrl_spacing h s * k = o + h * ((k - 1) * s).
Proof. unfold gen_ctrl_origin, gen_ctrl_spacing. ring. Qed.
End Proofs.

Ltac Zify.zify_post_hook ::= Z.to_euclidean_division_equations.
(* every sample x lies between control points q+1 and q+2 (image indices q s and (q+1) s, q = x / s); one more control
   point exists before (q, at (q-1) s) and one more after (q+3, at (q+2) s) *)
Lemma ctrl_one_before_two_after (m s x : Z) : (1 <= s)%Z -> (0 <= x < m)%Z ->
  let q := (x / s)%Z in
  ((q + 1 - 1) * s <= x < (q + 2 - 1) * s)%Z /\ (0 <= q)%Z /\ (q + 3 <= gen_ctrl_size m s - 1)%Z.
Proof.
  intros Hs Hx q. pose proof (ctrl_indices_in_range m s x Hs Hx) as [A B]. unfold q. repeat split; nia.
Qed.
