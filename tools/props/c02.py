"""C02 -- grid <-> world convention agrees with ITK."""
import vlib
from vlib import Violation, qc, qc_mat, qc_vec, coq_list

ID = "C02"
GEN_UNITS = ["GridT", "GridCtor", "SitkGrid"]
PROPS_FILE = "Props/C02.v"
PROPS_MOD = "Props.C02"
COQ_TARGETS = ["Props/C02.vo", "Base/QcCmp.vo"]
SOURCES = ["deepali/core/grid.py", "deepali/utils/simpleitk/grid.py", "deepali/utils/simpleitk/torch.py", "deepali/data/image.py"]
TRUSTED = [
    "Coq 8.16.1 kernel + vm_compute", "translator (tools/tr_units/gridctor.py, grid.py): the |det| = 1 check of Grid.direction_ is taken to pass",
    "the ITK convention spec (coq/Model/ItkSpec.v) is validated against SimpleITK 2.x TransformContinuousIndexToPhysicalPoint / "
    "TransformPhysicalPointToContinuousIndex on every run, not verified",
    "modelled not verified: SimpleITK header accessors, tensor<->sitk conversion (utils/simpleitk/torch.py) -- implementation-side evaluation only",
]
ASSUMPTIONS = ["float32 storage of grid attributes is outside the exact model (the model is fed the stored values)"]


def _rand_header(rng, D):
    import math
    if D == 2:
        a, b = rng.choice([(1, 0), (0, 1), (0, -1), (3, 4), (5, 12), (-8, 15)])
        h = math.hypot(a, b)
        d = [[a / h, -b / h], [b / h, a / h]]
        if rng.random() < .2:
            d = [[d[0][0], -d[0][1]], [d[1][0], -d[1][1]]]  # flip
    else:
        q = [rng.randint(-3, 3) for _ in range(4)]
        if not any(q):
            q = [1, 0, 0, 0]
        w, x, y, z = q
        n = w * w + x * x + y * y + z * z
        d = [[(w * w + x * x - y * y - z * z) / n, 2 * (x * y - w * z) / n, 2 * (x * z + w * y) / n],
             [2 * (x * y + w * z) / n, (w * w - x * x + y * y - z * z) / n, 2 * (y * z - w * x) / n],
             [2 * (x * z - w * y) / n, 2 * (y * z + w * x) / n, (w * w - x * x - y * y + z * z) / n]]
        if rng.random() < .2:
            d = [[-v for v in d[0]], d[1], d[2]]
            d = [[r[0], r[1], -r[2]] for r in d]  # keep det +1 with two flips
    return {"size": [rng.randint(1, 20) for _ in range(D)], "origin": [rng.randint(-400, 400) / 8 for _ in range(D)],
            "spacing": [rng.choice([0.25, 0.5, 0.75, 1.0, 1.25, 2.0, 3.5]) for _ in range(D)], "direction": d}


def correspondence(ctx):
    rng = ctx.rng
    n = ctx.n(120, 3600)
    cases, dist = [], {}
    for i in range(n):
        D = 2 + (i % 2)
        h = _rand_header(rng, D)
        inside = rng.random() < .6
        idx = [rng.randint(0, (s - 1) * 8) / 8 if inside else rng.randint(-20 * 8, 40 * 8) / 8 for s in h["size"]]
        cases.append({"header": h, "index": idx})
        k = f"D{D}:{'inside' if inside else 'outside'}"
        dist[k] = dist.get(k, 0) + 1
    res = vlib.run_impl("c02_impl", {"fn": "model_cases", "cases": cases})
    lines = ["From Coq Require Import ZArith QArith List String.",
             "From DV Require Import Base.Field Base.LinAlg Base.QcInst Base.QcCmp Model.Enums Model.ItkSpec Gen.GridT Gen.GridCtor Gen.SitkGrid.",
             "Import ListNotations.", "Definition tol : Q := 1 # 20000.", "Definition tol64 : Q := 1 # 1000000000."]
    names, failures = [], []
    for i, (c, r) in enumerate(zip(cases, res)):
        if "error" in r:
            failures.append({"case": c, "impl": r, "why": "implementation raised where the model is defined"})
            continue
        D = len(c["header"]["size"])
        st = r["stored"]
        n_, s_, d_, o_ = qc_vec(st["n"]), qc_vec(st["s"]), qc_mat(st["d"]), qc_vec(st["o"])
        x = qc_vec(c["index"])
        h = c["header"]
        # (a) deepali == generated model on the stored attributes (center as computed by the origin route)
        t1 = (f"vcloser tol (gen_pts (K:=QcF) {D} GRID WORLD {n_} {s_} (gen_center_of_origin (K:=QcF) {D} {n_} {s_} {d_} {qc_vec(h["origin"])}) {d_} {x}) "
              f"{qc_vec(r['world'])}")
        # (b) the ITK spec == SimpleITK on the header itself (float64)
        t2 = (f"vcloser tol64 (itk_phys (K:=QcF) {qc_vec(h['origin'])} {qc_vec(h['spacing'])} {qc_mat(h['direction'])} {x}) "
              f"{qc_vec(r['itk_world'])}")
        # (c) the stored center is the one the generated constructor route computes
        t3 = f"vcloser tol (gen_center_of_origin (K:=QcF) {D} {n_} {s_} {d_} {qc_vec(h['origin'])}) {qc_vec(st['c'])}"
        # (d) both routes agree in the implementation; world_to_index returns the index
        t4 = f"vcloser tol {qc_vec(r['world'])} {qc_vec(r['world_center_route'])}"
        t5 = f"vcloser (1 # 2000) {x} {qc_vec(r['back'])}"
        # (e) the SimpleITK-side GridAttrs maps (float64) == generated model on the header
        hs, ho, hd = qc_vec(h["spacing"]), qc_vec(h["origin"]), qc_mat(h["direction"])
        t6 = f"vcloser tol64 (gen_attrs_i2p (K:=QcF) {D} {hs} {ho} {hd} {x}) {qc_vec(r['attrs_world'])}"
        t7 = f"vcloser (1 # 100000000) (gen_attrs_p2i (K:=QcF) {D} {hs} {ho} {hd} {qc_vec(r['attrs_world'])}) {qc_vec(r['attrs_back'])}"
        names.append((i, f"({t1}) && ({t2}) && ({t3}) && ({t4}) && ({t5}) && ({t6}) && ({t7})"))
    bad, errs = vlib.run_cases(ctx.scratch, lines, names, name="cases_c02")
    for e in errs:
        failures.append({"why": "case file did not evaluate", "coq": e[-800:]})
    if True:
        for i in bad:
            failures.append({"case": cases[i], "impl": {k: v for k, v in res[i].items() if k != "stored"}, "why": "model / ITK spec / implementation disagree"})
    return {"evaluations": len(cases), "distinct_nontrivial": len({str(c) for c in cases}),
            "rule": "seeded random headers (sizes 1..20, dyadic origin, anisotropic spacing, rational rotations incl. 90-degree turns and double flips), "
                    "continuous indices inside and outside the image; per case five comparisons inside Coq: generated model vs deepali, ITK spec vs "
                    "SimpleITK, constructor route, center route, world_to_index inverse; non-trivial = every case",
            "samples": [{"case": cases[i], "impl_world": res[i].get("world"), "itk_world": res[i].get("itk_world")} for i in range(2)],
            "failures": failures, "distribution": dist,
            "tolerances": {"deepali (float32 attributes)": "5e-5*(1+|x|)", "ITK spec vs SimpleITK (float64)": "1e-9*(1+|x|)"}}


def search(ctx, broken, corr_failures):
    n = ctx.n(60, 3000)
    r = vlib.run_impl("c02_impl", {"fn": "oracle", "seed": ctx.seed, "n": n, "scratch": ctx.scratch}, timeout=1500)
    ctx.notes.append(f"implementation-side property evaluation: {r['counts']}")
    out, seen = [], set()
    for f in r["fails"]:
        if f["key"] in seen:
            continue
        seen.add(f["key"])
        out.append(Violation(key=f["key"], what=f["what"], replay={"oracle": "c02", "seed": ctx.seed, "n": n, "failure": f}))
    return out


def replay(ctx, data):
    f = data.get("failure") or {}
    r = vlib.run_impl("c02_impl", {"fn": "oracle", "seed": data.get("seed", ctx.seed), "n": data.get("n", 60), "scratch": ctx.scratch}, timeout=1500)
    for g in r["fails"]:
        if g["key"] == f.get("key"):
            return g["what"]
    return None


MANIFEST_ENTRY = {
    "text": "Theorems over every field of characteristic 0: a grid built from (size, origin, spacing, direction) maps every continuous index "
            "(inside or outside) to origin + Direction (spacing .* index) -- ITK's convention -- and maps it back (orthonormal direction); "
            "origin() reproduces the origin, center= and origin= routes agree, direction columns are the unit steps, flattened direction "
            "round-trips. The constructor routes are regenerated from Grid.__init__ by tracing; the ITK spec is itself compared with SimpleITK "
            "on every run (independent oracle), all comparisons inside Coq on exact rationals.",
    "note": "Partial: SimpleITK header accessors and the tensor<->sitk conversion are runtime (covered by implementation-side round trips "
            "Grid.from_sitk / Image.sitk / Image.from_sitk incl. voxel order, Grid.from_file / from_reader of .mha and .nii.gz files written by "
            "SimpleITK, both align_corners flags, GridAttrs with every documented form of the direction argument). Trusted: Coq kernel, vm_compute, translator, SimpleITK as oracle.",
}
