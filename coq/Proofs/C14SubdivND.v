(* C14: subdivision / grid refinement along any axis of a 2-D or 3-D coefficient tensor keeps the tensor-product spline. *)
From Coq Require Import ZArith List Field Ring Lia Bool.
From DV Require Import Base.Field Base.FieldFacts Base.LinAlg Base.Tactics Model.BSplineBase Gen.BSpline Model.BSpline
  Proofs.C14Tac Proofs.C14Weights Proofs.C14Ctrl Proofs.C14Eval Proofs.C14Subdiv.
Import ListNotations.
Local Open Scope fld_scope.

Section Proofs.
Variable K : fld.
Hypothesis Kf : is_field K.
Hypothesis Kc : char0 K.
Add Field KF : Kf.

Lemma nth_map_in' {A B} (f : A -> B) (l : list A) (i : nat) (da : A) (db : B) : (i < length l)%nat ->
  nth i (map f l) db = f (nth i l da).
Proof. intro H. rewrite (nth_indep _ db (f da)) by (rewrite map_length; exact H). apply map_nth. Qed.

(* exchanging the order of two tensor-product factors *)
Lemma spl_f_swap (w1 w2 : list K) (A : nat -> nat -> K) (q1 q2 : nat) :
  spl_f w1 (fun j => spl_f w2 (fun i => A j i) q2) q1 = spl_f w2 (fun i => spl_f w1 (fun j => A j i) q1) q2.
Proof. unfold spl_f. ring. Qed.

Lemma spl_f_scale (k : K) (w : list K) (f : nat -> K) (q : nat) : k * spl_f w f q = spl_f w (fun i => k * f i) q.
Proof. unfold spl_f. ring. Qed.

(* the 1-D refinement step for a line given by an accessor g (g i = coefficient i, i < n) *)
Lemma refine_line (d sg n2 n : nat) (g : nat -> K) (x : nat) : (1 <= sg)%nat ->
  (x / sg + 3 < n2)%nat -> (x / (2 * sg) + 3 < n)%nat ->
  pow2 d * spl_f (wrow d sg (x mod sg)) (fun i => nth i (drop_keep K n2 (map g (seq 0 n))) 0) (x / sg)
  = spl_f (wrow d (2 * sg) (x mod (2 * sg))) g (x / (2 * sg)).
Proof.
  intros Hs R2 R1.
  pose proof (refine_step_at K Kf Kc d sg n2 (map g (seq 0 n)) x Hs R2) as E.
  rewrite map_length, seq_length in E. specialize (E R1). unfold spl in E. rewrite E.
  apply (spl_f_ext K). intros k Hk. apply (nth_map_seq g). lia.
Qed.

(* ---- D = 2 ---- *)
Definition rect (ny nx : nat) (c : list (list K)) : Prop :=
  length c = ny /\ forall y, (y < ny)%nat -> length (nth y c []) = nx.

(* refinement along x: every row is refined *)
Theorem refine2_x (dx dy sx sy n2 : nat) (c : list (list K)) (ny nx x y : nat) : rect ny nx c -> (1 <= sx)%nat ->
  (x / sx + 3 < n2)%nat -> (x / (2 * sx) + 3 < nx)%nat -> (y / sy + 3 < ny)%nat ->
  pow2 dx * ev2_at dx dy sx sy (along_x2 (drop_keep K n2) c) y x = ev2_at dx dy (2 * sx) sy c y x.
Proof.
  intros [Hy Hr] Hs R2 R1 Ry. unfold ev2_at. rewrite spl_f_scale. apply (spl_f_ext K). intros k Hk.
  assert (Lj : (y / sy + k < ny)%nat) by lia.
  transitivity (pow2 dx * spl_f (wrow dx sx (x mod sx))
                  (fun i => nth i (drop_keep K n2 (map (fun i' => at2 c (y / sy + k) i') (seq 0 nx))) 0) (x / sx)).
  - f_equal. apply (spl_f_ext K). intros k' Hk'. unfold at2, along_x2.
    rewrite (nth_map_in' (drop_keep K n2) c _ [] []) by lia. f_equal. f_equal.
    apply (nth_ext _ _ 0 0).
    + rewrite map_length, seq_length. apply Hr. exact Lj.
    + intros i Hi. rewrite Hr in Hi by exact Lj.
      rewrite (nth_map_seq (fun i' => nth i' (nth (y / sy + k) c []) 0)) by exact Hi. reflexivity.
  - apply refine_line; assumption.
Qed.

(* value of along_y2 f at (j, i) for an f whose output length depends only on the input length *)
Lemma nth_along_y2_gen (f : list K -> list K) (c : list (list K)) (ny nx n2 i j : nat) : rect ny nx c ->
  (forall l, length l = ny -> length (f l) = n2) -> (1 <= ny)%nat -> (i < nx)%nat -> (j < n2)%nat ->
  at2 (along_y2 f c) j i = nth j (f (map (fun j' => at2 c j' i) (seq 0 ny))) 0.
Proof.
  intros [Hy Hr] Hf H1 Hi Hj. unfold at2, along_y2. rewrite (Hr 0%nat) by lia.
  set (cols := map (fun i0 => f (map (fun r => nth i0 r 0) c)) (seq 0 nx)).
  assert (L0 : length (nth 0 cols []) = n2).
  { unfold cols. rewrite (nth_map_seq (fun i0 => f (map (fun r => nth i0 r 0) c))) by lia.
    apply Hf. rewrite map_length. exact Hy. }
  rewrite L0. rewrite (nth_map_seq (fun j0 => map (fun cl => nth j0 cl 0) cols)) by exact Hj.
  rewrite (nth_map_in' (fun cl => nth j cl 0) cols i [] 0) by (unfold cols; rewrite map_length, seq_length; exact Hi).
  unfold cols. rewrite (nth_map_seq (fun i0 => f (map (fun r => nth i0 r 0) c))) by exact Hi.
  f_equal. f_equal. apply (nth_ext _ _ 0 0).
  - rewrite !map_length, seq_length. exact Hy.
  - intros k Hk. rewrite map_length, Hy in Hk. rewrite (nth_map_in' (fun r => nth i r 0) c k [] 0) by lia.
    rewrite (nth_map_seq (fun j' => nth i (nth j' c []) 0)) by exact Hk. reflexivity.
Qed.

Lemma length_drop_keep (n2 n : nat) (l : list K) : length l = n -> (1 <= n)%nat -> (n2 <= 2 * n - 2)%nat ->
  length (drop_keep K n2 l) = n2.
Proof.
  intros Hl H1 H2. unfold drop_keep. rewrite firstn_length, skipn_length. unfold subdiv1.
  rewrite (length_subdiv_from K) by (intro X; rewrite X in Hl; cbn in Hl; lia). lia.
Qed.

(* refinement along y: every column is refined *)
Theorem refine2_y (dx dy sx sy n2 : nat) (c : list (list K)) (ny nx x y : nat) : rect ny nx c -> (1 <= sy)%nat ->
  (1 <= ny)%nat -> (n2 <= 2 * ny - 2)%nat ->
  (y / sy + 3 < n2)%nat -> (y / (2 * sy) + 3 < ny)%nat -> (x / sx + 3 < nx)%nat ->
  pow2 dy * ev2_at dx dy sx sy (along_y2 (drop_keep K n2) c) y x = ev2_at dx dy sx (2 * sy) c y x.
Proof.
  intros Hc Hs H1 Hn R2 R1 Rx. unfold ev2_at.
  rewrite (spl_f_swap (wrow dy sy (y mod sy)) (wrow dx sx (x mod sx))).
  rewrite (spl_f_swap (wrow dy (2 * sy) (y mod (2 * sy))) (wrow dx sx (x mod sx))). rewrite spl_f_scale.
  apply (spl_f_ext K). intros k Hk.
  transitivity (pow2 dy * spl_f (wrow dy sy (y mod sy))
                  (fun j => nth j (drop_keep K n2 (map (fun j' => at2 c j' (x / sx + k)) (seq 0 ny))) 0) (y / sy)).
  - f_equal. apply (spl_f_ext K). intros k' Hk'.
    apply (nth_along_y2_gen (drop_keep K n2) c ny nx n2); try assumption; try lia.
    intros l Hl. apply (length_drop_keep n2 ny); assumption.
  - apply refine_line; assumption.
Qed.

(* ---- D = 3: refinement along x, y or z of a box-shaped tensor ---- *)
Definition box (nz ny nx : nat) (c : list (list (list K))) : Prop :=
  length c = nz /\ forall z, (z < nz)%nat -> rect ny nx (nth z c []).

Theorem refine3_x (dx dy dz sx sy sz n2 : nat) (c : list (list (list K))) (nz ny nx x y z : nat) : box nz ny nx c ->
  (1 <= sx)%nat -> (x / sx + 3 < n2)%nat -> (x / (2 * sx) + 3 < nx)%nat -> (y / sy + 3 < ny)%nat -> (z / sz + 3 < nz)%nat ->
  pow2 dx * ev3_at dx dy dz sx sy sz (along_x3 (drop_keep K n2) c) z y x = ev3_at dx dy dz (2 * sx) sy sz c z y x.
Proof.
  intros [Hz Hb] Hs R2 R1 Ry Rz. unfold ev3_at. rewrite spl_f_scale. apply (spl_f_ext K). intros kz Hkz.
  assert (Lz : (z / sz + kz < nz)%nat) by lia.
  pose proof (refine2_x dx dy sx sy n2 (nth (z / sz + kz) c []) ny nx x y (Hb _ Lz) Hs R2 R1 Ry) as E.
  unfold ev2_at in E. unfold at3.
  replace (fun j => spl_f (wrow dx sx (x mod sx)) (fun i => nth i (nth j (nth (z / sz + kz) (along_x3 (drop_keep K n2) c) []) []) 0) (x / sx))
    with (fun j => spl_f (wrow dx sx (x mod sx)) (fun i => at2 (along_x2 (drop_keep K n2) (nth (z / sz + kz) c [])) j i) (x / sx)).
  - exact E.
  - unfold along_x3, along_x2, at2. rewrite (nth_map_in' (map (drop_keep K n2)) c _ [] []) by lia. reflexivity.
Qed.

Theorem refine3_y (dx dy dz sx sy sz n2 : nat) (c : list (list (list K))) (nz ny nx x y z : nat) : box nz ny nx c ->
  (1 <= sy)%nat -> (1 <= ny)%nat -> (n2 <= 2 * ny - 2)%nat ->
  (y / sy + 3 < n2)%nat -> (y / (2 * sy) + 3 < ny)%nat -> (x / sx + 3 < nx)%nat -> (z / sz + 3 < nz)%nat ->
  pow2 dy * ev3_at dx dy dz sx sy sz (along_y3 (drop_keep K n2) c) z y x = ev3_at dx dy dz sx (2 * sy) sz c z y x.
Proof.
  intros [Hz Hb] Hs H1 Hn R2 R1 Rx Rz. unfold ev3_at. rewrite spl_f_scale. apply (spl_f_ext K). intros kz Hkz.
  assert (Lz : (z / sz + kz < nz)%nat) by lia.
  pose proof (refine2_y dx dy sx sy n2 (nth (z / sz + kz) c []) ny nx x y (Hb _ Lz) Hs H1 Hn R2 R1 Rx) as E.
  unfold ev2_at in E. unfold at3.
  replace (fun j => spl_f (wrow dx sx (x mod sx)) (fun i => nth i (nth j (nth (z / sz + kz) (along_y3 (drop_keep K n2) c) []) []) 0) (x / sx))
    with (fun j => spl_f (wrow dx sx (x mod sx)) (fun i => at2 (along_y2 (drop_keep K n2) (nth (z / sz + kz) c [])) j i) (x / sx)).
  - exact E.
  - unfold along_y3, at2. rewrite (nth_map_in' (along_y2 (drop_keep K n2)) c _ [] []) by lia. reflexivity.
Qed.

Lemma at3_along_z3_gen (f : list K -> list K) (c : list (list (list K))) (nz ny nx n2 i j k : nat) : box nz ny nx c ->
  (forall l, length l = nz -> length (f l) = n2) -> (1 <= nz)%nat -> (1 <= ny)%nat -> (1 <= nx)%nat ->
  (i < nx)%nat -> (j < ny)%nat -> (k < n2)%nat ->
  at3 (along_z3 f c) k j i = nth k (f (map (fun k' => at3 c k' j i) (seq 0 nz))) 0.
Proof.
  intros [Hz Hb] Hf H1z H1y H1x Hi Hj Hk. unfold at3, along_z3.
  destruct (Hb 0%nat ltac:(lia)) as [Hy0 Hr0]. rewrite Hy0, (Hr0 0%nat ltac:(lia)).
  set (cols := map (fun j0 => map (fun i0 => f (map (fun pl => at2 pl j0 i0) c)) (seq 0 nx)) (seq 0 ny)).
  assert (Col : forall y x, (y < ny)%nat -> (x < nx)%nat ->
            nth x (nth y cols []) [] = f (map (fun z' => at3 c z' y x) (seq 0 nz))).
  { intros y x Ly' Lx'. unfold cols.
    rewrite (nth_map_seq (fun j0 => map (fun i0 => f (map (fun pl => at2 pl j0 i0) c)) (seq 0 nx))) by exact Ly'.
    rewrite (nth_map_seq (fun i0 => f (map (fun pl => at2 pl y i0) c))) by exact Lx'. f_equal.
    apply (nth_ext _ _ 0 0).
    - rewrite !map_length, seq_length. exact Hz.
    - intros t Ht. rewrite map_length, Hz in Ht. rewrite (nth_map_in' (fun pl => at2 pl y x) c t [] 0) by lia.
      rewrite (nth_map_seq (fun z' => at3 c z' y x)) by exact Ht. reflexivity. }
  assert (C00 : length (nth 0 (nth 0 cols []) []) = n2).
  { rewrite Col by lia. apply Hf. rewrite map_length, seq_length. reflexivity. }
  rewrite C00.
  rewrite (nth_map_seq (fun k0 => map (fun row => map (fun cl => nth k0 cl 0) row) cols)) by exact Hk.
  rewrite (nth_map_in' (fun row => map (fun cl => nth k cl 0) row) cols j [] [])
    by (unfold cols; rewrite map_length, seq_length; exact Hj).
  rewrite (nth_map_in' (fun cl => nth k cl 0) _ i [] 0).
  - rewrite Col by assumption. reflexivity.
  - unfold cols. rewrite (nth_map_seq (fun j0 => map (fun i0 => f (map (fun pl => at2 pl j0 i0) c)) (seq 0 nx))) by exact Hj.
    rewrite map_length, seq_length. exact Hi.
Qed.

Theorem refine3_z (dx dy dz sx sy sz n2 : nat) (c : list (list (list K))) (nz ny nx x y z : nat) : box nz ny nx c ->
  (1 <= sz)%nat -> (1 <= nz)%nat -> (n2 <= 2 * nz - 2)%nat ->
  (z / sz + 3 < n2)%nat -> (z / (2 * sz) + 3 < nz)%nat -> (x / sx + 3 < nx)%nat -> (y / sy + 3 < ny)%nat ->
  pow2 dz * ev3_at dx dy dz sx sy sz (along_z3 (drop_keep K n2) c) z y x = ev3_at dx dy dz sx sy (2 * sz) c z y x.
Proof.
  intros Hc Hs H1 Hn R2 R1 Rx Ry. unfold ev3_at.
  (* bring the z factor innermost: swap z with y, then z with x *)
  rewrite (spl_f_swap (wrow dz sz (z mod sz)) (wrow dy sy (y mod sy))).
  rewrite (spl_f_swap (wrow dz (2 * sz) (z mod (2 * sz))) (wrow dy sy (y mod sy))).
  rewrite spl_f_scale. apply (spl_f_ext K). intros ky Hky.
  rewrite (spl_f_swap (wrow dz sz (z mod sz)) (wrow dx sx (x mod sx))).
  rewrite (spl_f_swap (wrow dz (2 * sz) (z mod (2 * sz))) (wrow dx sx (x mod sx))).
  rewrite spl_f_scale. apply (spl_f_ext K). intros kx Hkx.
  transitivity (pow2 dz * spl_f (wrow dz sz (z mod sz))
                  (fun k => nth k (drop_keep K n2 (map (fun k' => at3 c k' (y / sy + ky) (x / sx + kx)) (seq 0 nz))) 0) (z / sz)).
  - f_equal. apply (spl_f_ext K). intros k' Hk'.
    apply (at3_along_z3_gen (drop_keep K n2) c nz ny nx n2); try assumption; try lia.
    intros l Hl. apply (length_drop_keep n2 nz); assumption.
  - apply refine_line; assumption.
Qed.

(* ---- in terms of BSplineTransform.grid_ (refine1) and the control grid sizes ---- *)
Ltac Zify.zify_post_hook ::= Z.to_euclidean_division_equations.

Lemma ctrl_refine_fits_nat (s m : nat) : (1 <= s)%nat -> (1 <= m)%nat ->
  (ctrl_size (2 * m - 1) s <= 2 * ctrl_size m s - 2)%nat /\ (1 <= ctrl_size m s)%nat.
Proof.
  intros Hs Hm.
  pose proof (ctrl_size_ge4 (Z.of_nat m) (Z.of_nat s) ltac:(lia) ltac:(lia)) as G.
  pose proof (ctrl_size_nat m s Hm Hs) as Em. pose proof (ctrl_size_nat (2 * m - 1) s ltac:(lia) Hs) as E2.
  pose proof (refine_size_fits (Z.of_nat m) (Z.of_nat s) ltac:(lia) ltac:(lia)) as F.
  replace (Z.of_nat (2 * m - 1)) with (2 * Z.of_nat m - 1)%Z in E2 by lia. lia.
Qed.

Lemma refine1_fun (s m : nat) : (1 <= s)%nat -> (1 <= m)%nat ->
  forall l, refine1 s m l = drop_keep K (ctrl_size (2 * m - 1) s) l.
Proof. intros Hs Hm l. apply refine1_is_drop_keep; assumption. Qed.

Lemma along_x2_ext (f g : list K -> list K) c : (forall l, f l = g l) -> along_x2 f c = along_x2 g c.
Proof. intro H. unfold along_x2. apply map_ext. exact H. Qed.
Lemma along_y2_ext (f g : list K -> list K) c : (forall l, f l = g l) -> along_y2 f c = along_y2 g c.
Proof.
  intro H. unfold along_y2.
  assert (E : map (fun i => f (map (fun r => nth i r 0) c)) (seq 0 (length (nth 0 c []))) =
              map (fun i => g (map (fun r => nth i r 0) c)) (seq 0 (length (nth 0 c [])))) by (apply map_ext; intro; apply H).
  rewrite E. reflexivity.
Qed.
Lemma along_x3_ext (f g : list K -> list K) c : (forall l, f l = g l) -> along_x3 f c = along_x3 g c.
Proof. intro H. unfold along_x3. apply map_ext. intro. apply map_ext. exact H. Qed.
Lemma along_y3_ext (f g : list K -> list K) c : (forall l, f l = g l) -> along_y3 f c = along_y3 g c.
Proof. intro H. unfold along_y3. apply map_ext. intro. apply along_y2_ext. exact H. Qed.
Lemma along_z3_ext (f g : list K -> list K) c : (forall l, f l = g l) -> along_z3 f c = along_z3 g c.
Proof.
  intro H. unfold along_z3.
  set (ny := length (nth 0 c [])). set (nx := length (nth 0 (nth 0 c []) [])).
  assert (E : map (fun j => map (fun i => f (map (fun pl => at2 pl j i) c)) (seq 0 nx)) (seq 0 ny) =
              map (fun j => map (fun i => g (map (fun pl => at2 pl j i) c)) (seq 0 nx)) (seq 0 ny)).
  { apply map_ext. intro. apply map_ext. intro. apply H. }
  rewrite E. reflexivity.
Qed.

(* D = 2: image grid (mx, my), strides (sx, sy), coefficients of shape ctrl_size my sy x ctrl_size mx sx *)
Theorem ffd_refine_2d (dx dy sx sy mx my : nat) (c : list (list K)) (x y : nat) :
  (1 <= sx)%nat -> (1 <= sy)%nat -> (1 <= mx)%nat -> (1 <= my)%nat -> rect (ctrl_size my sy) (ctrl_size mx sx) c ->
  ((x < 2 * mx - 1)%nat -> (y < my)%nat ->
     pow2 dx * ev2_at dx dy sx sy (along_x2 (refine1 sx mx) c) y x = ev2_at dx dy (2 * sx) sy c y x) /\
  ((x < mx)%nat -> (y < 2 * my - 1)%nat ->
     pow2 dy * ev2_at dx dy sx sy (along_y2 (refine1 sy my) c) y x = ev2_at dx dy sx (2 * sy) c y x).
Proof.
  intros Hsx Hsy Hmx Hmy Hc. split; intros Hx Hy.
  - rewrite (along_x2_ext _ _ c (refine1_fun sx mx Hsx Hmx)).
    pose proof (refine_ranges sx mx 1 x Hsx Hmx ltac:(lia) ltac:(lia)) as [R2 R1]. rewrite !Nat.mul_1_l in *.
    apply (refine2_x dx dy sx sy _ c (ctrl_size my sy) (ctrl_size mx sx)); try assumption.
    apply ctrl_nat_in_range; assumption.
  - rewrite (along_y2_ext _ _ c (refine1_fun sy my Hsy Hmy)).
    pose proof (refine_ranges sy my 1 y Hsy Hmy ltac:(lia) ltac:(lia)) as [R2 R1]. rewrite !Nat.mul_1_l in *.
    destruct (ctrl_refine_fits_nat sy my Hsy Hmy) as [F1 F2].
    apply (refine2_y dx dy sx sy _ c (ctrl_size my sy) (ctrl_size mx sx)); try assumption.
    apply ctrl_nat_in_range; assumption.
Qed.

Theorem ffd_refine_3d (dx dy dz sx sy sz mx my mz : nat) (c : list (list (list K))) (x y z : nat) :
  (1 <= sx)%nat -> (1 <= sy)%nat -> (1 <= sz)%nat -> (1 <= mx)%nat -> (1 <= my)%nat -> (1 <= mz)%nat ->
  box (ctrl_size mz sz) (ctrl_size my sy) (ctrl_size mx sx) c ->
  ((x < 2 * mx - 1)%nat -> (y < my)%nat -> (z < mz)%nat ->
     pow2 dx * ev3_at dx dy dz sx sy sz (along_x3 (refine1 sx mx) c) z y x = ev3_at dx dy dz (2 * sx) sy sz c z y x) /\
  ((x < mx)%nat -> (y < 2 * my - 1)%nat -> (z < mz)%nat ->
     pow2 dy * ev3_at dx dy dz sx sy sz (along_y3 (refine1 sy my) c) z y x = ev3_at dx dy dz sx (2 * sy) sz c z y x) /\
  ((x < mx)%nat -> (y < my)%nat -> (z < 2 * mz - 1)%nat ->
     pow2 dz * ev3_at dx dy dz sx sy sz (along_z3 (refine1 sz mz) c) z y x = ev3_at dx dy dz sx sy (2 * sz) c z y x).
Proof.
  intros Hsx Hsy Hsz Hmx Hmy Hmz Hc. split; [|split]; intros Hx Hy Hz.
  - rewrite (along_x3_ext _ _ c (refine1_fun sx mx Hsx Hmx)).
    pose proof (refine_ranges sx mx 1 x Hsx Hmx ltac:(lia) ltac:(lia)) as [R2 R1]. rewrite !Nat.mul_1_l in *.
    apply (refine3_x dx dy dz sx sy sz _ c (ctrl_size mz sz) (ctrl_size my sy) (ctrl_size mx sx)); try assumption;
    apply ctrl_nat_in_range; assumption.
  - rewrite (along_y3_ext _ _ c (refine1_fun sy my Hsy Hmy)).
    pose proof (refine_ranges sy my 1 y Hsy Hmy ltac:(lia) ltac:(lia)) as [R2 R1]. rewrite !Nat.mul_1_l in *.
    destruct (ctrl_refine_fits_nat sy my Hsy Hmy) as [F1 F2].
    apply (refine3_y dx dy dz sx sy sz _ c (ctrl_size mz sz) (ctrl_size my sy) (ctrl_size mx sx)); try assumption;
    apply ctrl_nat_in_range; assumption.
  - rewrite (along_z3_ext _ _ c (refine1_fun sz mz Hsz Hmz)).
    pose proof (refine_ranges sz mz 1 z Hsz Hmz ltac:(lia) ltac:(lia)) as [R2 R1]. rewrite !Nat.mul_1_l in *.
    destruct (ctrl_refine_fits_nat sz mz Hsz Hmz) as [F1 F2].
    apply (refine3_z dx dy dz sx sy sz _ c (ctrl_size mz sz) (ctrl_size my sy) (ctrl_size mx sx)); try assumption;
    apply ctrl_nat_in_range; assumption.
Qed.
End Proofs.
