(* C19 -- specification predicates over the model of Model/Batch.v (definitions only). *)
From Coq Require Import List ZArith Bool Arith Lia.
From DV Require Import Model.Enums Model.Batch.
Import ListNotations.

Section Spec.
Variable gshape : gid -> shape.

(* one grid per entry, every grid of the data's spatial shape *)
Definition wf_val (v : tval) : Prop :=
  match t_kind v with
  | TPlain => True
  | TBatch _ gs => length gs = nent (t_shape v) /\ 4 <= ndim (t_shape v)
                   /\ Forall (fun g => gshape g = skipn 2 (t_shape v)) gs
  | TSingle _ g => 3 <= ndim (t_shape v) /\ gshape g = skipn 1 (t_shape v)
  end.

(* the grid carried by a dim-0 entry of an operand *)
Definition entry_grid (args : list tval) (s : src) : option gid :=
  match nth_error args (fst s) with
  | Some a => match t_kind a with
              | TBatch _ gs => nth_error gs (snd s)
              | TSingle _ g => Some g
              | TPlain => None
              end
  | None => None
  end.
Definition arg_axes (args : list tval) (s : src) : option axes :=
  match nth_error args (fst s) with Some a => kind_axes (t_kind a) | None => None end.
Definition arg_is_batch (args : list tval) (j : nat) : Prop :=
  match nth_error args j with Some a => is_batch (t_kind a) = true | None => False end.

(* an entry does not combine two different entries of one input batch *)
Definition coherent (args : list tval) (l : list src) : Prop :=
  forall a b, In a l -> In b l -> fst a = fst b -> arg_is_batch args (fst a) -> snd a = snd b.

(* the property, for one output of one operation applied to args *)
Definition out_sound (args : list tval) (o : oval) : Prop :=
  match v_kind o with
  | TPlain => True
  | TBatch fl gs =>
      wf_val (val_of o)
      /\ (forall i, i < length gs ->
            coherent args (nth i (v_src o) [])
            /\ (exists s, In s (nth i (v_src o) []) /\ entry_grid args s = Some (nth i gs 0))
            /\ (forall ax, fl = Some ax -> exists s, In s (nth i (v_src o) []) /\ arg_axes args s = Some ax))
  | TSingle fl g =>
      wf_val (val_of o)
      /\ (0 < nent (v_shape o) -> exists i s, In s (nth i (v_src o) []) /\ entry_grid args s = Some g)
      /\ (forall ax, fl = Some ax -> 0 < nent (v_shape o) ->
          exists i s, In s (nth i (v_src o) []) /\ arg_axes args s = Some ax)
  end.
Definition res_sound (args : list tval) (r : ores) : Prop :=
  match r with
  | OErr _ => True
  | OOne o => out_sound args o
  | OTuple os => Forall (out_sound args) os
  end.
(* "never an exception where the operation on the plain data succeeds" *)
Definition no_raise (o : op) (args : list tval) (r : ores) : Prop :=
  match data_sem o (map t_shape args), r with
  | DErr _, _ => True
  | _, OErr _ => False
  | _, _ => True
  end.

(* ---- global provenance: items of the program's inputs ---- *)
Variable grid_of : nat -> gid.          (* the grid the input item was created with *)
Definition pval := (tval * list (list nat))%type.     (* value, items held by each dim-0 entry *)
Definition prov_of (args : list pval) (srcs : list (list src)) : list (list nat) :=
  map (fun l => flat_map (fun s => nth (snd s) (snd (nth (fst s) args (mkT [] TPlain, []))) []) l) srcs.
(* every entry of a typed batch carries the grid of an input item whose data it holds *)
Definition ginv (p : pval) : Prop :=
  match t_kind (fst p) with
  | TBatch _ gs => forall i, i < length gs -> exists k, In k (nth i (snd p) []) /\ grid_of k = nth i gs 0
  | TSingle _ g => exists i k, In k (nth i (snd p) []) /\ grid_of k = g
  | TPlain => True
  end.
End Spec.

(* ---- programs with ghost item provenance ---- *)
Section ProgSpec.
Variable gshape : gid -> shape.
Variable gaxes : gid -> axes.

Definition presolve (cur : pval) (inputs : list pval) (r : oref) : pval :=
  match r with RCur => cur | RIn k => nth k inputs (mkT [] TPlain, []) end.
Definition pstep (cur : pval) (inputs : list pval) (st : step) : option pval :=
  let args := map (presolve cur inputs) (s_args st) in
  match pick_out (run_op gshape gaxes (s_op st) (map fst args)) (s_pick st) with
  | Some o => Some (val_of o, prov_of args (v_src o))
  | None => None
  end.
Fixpoint prun (cur : pval) (inputs : list pval) (steps : list step) : option pval :=
  match steps with
  | [] => Some cur
  | st :: r => match pstep cur inputs st with
               | Some v => prun v inputs r
               | None => None
               end
  end.
End ProgSpec.
