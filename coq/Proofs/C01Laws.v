From Coq Require Import ZArith List Field Ring Lia.
From DV Require Import Base.Field Base.FieldFacts Base.LinAlg Base.Tactics Model.Enums Model.Homog Model.Grid
  Gen.GridT Proofs.C01Grid.
Import ListNotations.
Local Open Scope fld_scope.

Section Laws.
Variable K : fld.
Hypothesis Kf : is_field K.
Hypothesis Kc : char0 K.
Add Field KF2 : Kf.

Let K1 := K1nz K Kf.
Let K2 := K2nz K Kf Kc.
Hint Resolve K1 K2 : core.
Ltac side := repeat split; auto.
Ltac len2 X H := destruct X as [|?x0 [|?x1 [|? ?]]]; try discriminate H; clear H.
Ltac len3 X H := destruct X as [|?x0 [|?x1 [|?x2 [|? ?]]]]; try discriminate H; clear H.
Ltac comps H :=
  let Hs := fresh "Hs" in let Hn := fresh "Hn" in let Hn1 := fresh "Hn1" in let Ho := fresh "Ho" in
  destruct H as (Hs & Hn & Hn1 & Ho);
  pose proof (Hs 0%nat ltac:(lia)); pose proof (Hs 1%nat ltac:(lia)); try pose proof (Hs 2%nat ltac:(lia));
  pose proof (Hn 0%nat ltac:(lia)); pose proof (Hn 1%nat ltac:(lia)); try pose proof (Hn 2%nat ltac:(lia));
  pose proof (Hn1 0%nat ltac:(lia)); pose proof (Hn1 1%nat ltac:(lia)); try pose proof (Hn1 2%nat ltac:(lia)).

Section OneGrid.
Variables (D : nat) (n s c : nat -> K) (d : nat -> nat -> K).
Hypothesis HD : D = 2%nat \/ D = 3%nat.
Hypothesis Hwf : wf D n s d.
Notation N := (vtab D n). Notation S := (vtab D s). Notation C := (vtab D c). Notation Dm := (tab D D d).
Notation pts A B X := (gen_pts D A B N S C Dm X).

Lemma T_map_length A B X : length X = D -> length (T_map D A B N S C Dm X) = D.
Proof. intro H. unfold T_map. apply from_index_length; auto. apply to_index_length; auto. Qed.

Lemma pts_length A B X : length X = D -> length (pts A B X) = D.
Proof.
  intro H. destruct (axes_eqb A WORLD && axes_eqb B WORLD)%bool eqn:E.
  - destruct A, B; try discriminate. rewrite pts_WW; auto.
  - assert (NW : not_WW A B) by (intros [-> ->]; discriminate).
    rewrite (pts_is_T_map K Kf Kc D A B) by auto. apply T_map_length; auto.
Qed.

(* A -> B followed by B -> A is the identity, for all 16 ordered pairs *)
Lemma pts_inverse A B X : length X = D -> pts B A (pts A B X) = X.
Proof.
  intro HX. destruct (axes_eqb A WORLD && axes_eqb B WORLD)%bool eqn:E.
  - destruct A, B; try discriminate. rewrite pts_WW with (X := X) by auto. apply pts_WW; auto.
  - assert (NW : not_WW A B) by (intros [-> ->]; discriminate).
    assert (NW' : not_WW B A) by (intros [-> ->]; discriminate).
    rewrite (pts_is_T_map K Kf Kc D A B) by auto.
    rewrite (pts_is_T_map K Kf Kc D B A) by (auto using T_map_length).
    unfold T_map. rewrite to_from_index by (auto using to_index_length).
    apply from_to_index; auto.
Qed.

(* A -> C equals A -> B -> C, for all 64 triples *)
Lemma pts_compose A B C' X : length X = D -> pts B C' (pts A B X) = pts A C' X.
Proof.
  intro HX.
  destruct (axes_eqb A WORLD && axes_eqb B WORLD)%bool eqn:E1.
  { destruct A, B; try discriminate. rewrite pts_WW; auto. }
  destruct (axes_eqb B WORLD && axes_eqb C' WORLD)%bool eqn:E2.
  { destruct B, C'; try discriminate. rewrite pts_WW; auto using pts_length. }
  assert (N1 : not_WW A B) by (intros [-> ->]; discriminate).
  assert (N2 : not_WW B C') by (intros [-> ->]; discriminate).
  rewrite (pts_is_T_map K Kf Kc D A B) by auto.
  rewrite (pts_is_T_map K Kf Kc D B C') by (auto using T_map_length).
  unfold T_map at 1 2. rewrite to_from_index by (auto using to_index_length).
  destruct (axes_eqb A WORLD && axes_eqb C' WORLD)%bool eqn:E3.
  - destruct A, C'; try discriminate. rewrite pts_WW by auto. apply from_to_index; auto.
  - rewrite (pts_is_T_map K Kf Kc D A C') by (auto; intros [-> ->]; discriminate). reflexivity.
Qed.

(* the matrix Grid.transform returns is the map the point API applies *)
Lemma T_matrix_is_pts A B X : length X = D ->
  tapply D (gen_T_form A B) (gen_T D A B N S C Dm) X = pts A B X.
Proof.
  intro HX. destruct HD as [-> | ->]; [len2 X HX | len3 X HX]; comps Hwf;
    destruct A, B; fcbv; list_eq; field; side.
Qed.

(* displacement vectors transform by exactly the linear part of the point map; the separate
   closed-form vectors path and the vectors=True matrix both are that linear part *)
Lemma vecs_linear_part A B X V : length X = D -> length V = D ->
  vsub (pts A B (vadd X V)) (pts A B X) = gen_vecs D A B N S C Dm V.
Proof.
  intros HX HV. destruct HD as [-> | ->]; [len2 X HX; len2 V HV | len3 X HX; len3 V HV]; comps Hwf;
    destruct A, B; fcbv; list_eq; field; side.
Qed.

Lemma Tv_matrix_is_vecs A B V : length V = D ->
  form_vec D (gen_Tv_form A B) (gen_Tv D A B N S C Dm) V = gen_vecs D A B N S C Dm V
  /\ form_vec D (gen_T_form A B) (gen_T D A B N S C Dm) V = gen_vecs D A B N S C Dm V.
Proof.
  intro HV. destruct HD as [-> | ->]; [len2 V HV | len3 V HV]; comps Hwf;
    destruct A, B; split; fcbv; list_eq; field; side.
Qed.

(* anchors *)
Lemma anchor_origin : pts GRID WORLD (vzero D) = gen_origin D N S C Dm.
Proof. destruct HD as [-> | ->]; comps Hwf; fcbv; list_eq; field; side. Qed.

Lemma anchor_center :
  pts GRID WORLD (vscale half (vsub N (vones D))) = C.
Proof. destruct HD as [-> | ->]; comps Hwf; fcbv; list_eq; field; side. Qed.

Lemma anchor_corners :
  pts CUBE_CORNERS GRID (vopp (vones D)) = vzero D /\
  pts CUBE_CORNERS GRID (vones D) = vsub N (vones D) /\
  pts GRID CUBE_CORNERS (vzero D) = vopp (vones D) /\
  pts GRID CUBE_CORNERS (vsub N (vones D)) = vones D.
Proof. destruct HD as [-> | ->]; comps Hwf; repeat split; fcbv; list_eq; field; side. Qed.

Lemma anchor_cube :
  pts CUBE GRID (vopp (vones D)) = vopp (vscale half (vones D)) /\
  pts CUBE GRID (vones D) = vsub N (vscale half (vones D)) /\
  pts GRID CUBE (vopp (vscale half (vones D))) = vopp (vones D) /\
  pts GRID CUBE (vsub N (vscale half (vones D))) = vones D.
Proof. destruct HD as [-> | ->]; comps Hwf; repeat split; fcbv; list_eq; field; side. Qed.
End OneGrid.
End Laws.
