(* Executable instance of the resampling model over canonical rationals, and the order-level
   hypotheses of C05 stated with Q's order (definitions only). *)
From Coq Require Import ZArith QArith Qround Qabs Qcanon List Bool.
From DV Require Import Base.Field Base.LinAlg Base.QcInst Model.Enums Model.Grid Model.Sampler Model.Lattice Model.SamplerQc
  Model.Resample.
Import ListNotations.

Definition qdp_sample2 := dp_sample2 (K:=QcF) floorQ nearQ.
Definition qdp_sample3 := dp_sample3 (K:=QcF) floorQ nearQ.
Definition qmod_sample2 := mod_sample2 (K:=QcF) floorQ nearQ.
Definition qmod_sample3 := mod_sample3 (K:=QcF) floorQ nearQ.
Definition qdp_grid_sample2 := dp_grid_sample2 (K:=QcF) floorQ nearQ.
Definition qdp_grid_sample3 := dp_grid_sample3 (K:=QcF) floorQ nearQ.
Definition qitk_resample2 := itk_resample2 (K:=QcF) floorQ.
Definition qitk_resample3 := itk_resample3 (K:=QcF) floorQ.

(* source field of view: continuous index within [0, n-1] on every axis *)
Definition fovQ (sizes : list Z) (X : list Qc) : Prop :=
  Forall2 (fun n x => (0 <= this x /\ this x <= inject_Z (n - 1))%Q) sizes X.
(* nearest neighbour: inside ITK's buffer [-1/2, n-1/2) and not exactly half way between two samples *)
Definition no_tieQ (sizes : list Z) (X : list Qc) : Prop :=
  Forall2 (fun n x => (-(1 # 2) <= this x /\ this x < inject_Z n - (1 # 2) /\
                       ~ this x - inject_Z (Qfloor (this x)) == 1 # 2)%Q) sizes X.
Definition okQ (m : smode) (sizes : list Z) (X : list Qc) : Prop :=
  match m with Linear => fovQ sizes X | Nearest => no_tieQ sizes X end.
(* ITK's whole buffer: continuous index within [-1/2, n-1/2) on every axis *)
Definition bufQ (sizes : list Z) (X : list Qc) : Prop :=
  Forall2 (fun n x => (-(1 # 2) <= this x /\ this x < inject_Z n - (1 # 2))%Q) sizes X.

(* in-Coq comparison helpers for the correspondence: distance of a continuous index to the nearest
   rounding tie / buffer boundary (where float rounding may legitimately flip the result) *)
Definition frac_dist_half (x : Qc) : Q := Qabs (this x - inject_Z (Qfloor (this x)) - (1 # 2)).
Definition near_tie (eps : Q) (X : list Qc) : bool := existsb (fun x => Qle_bool (frac_dist_half x) eps) X.
Fixpoint in_fovb (sizes : list Z) (X : list Qc) : bool :=
  match sizes, X with
  | n :: s', x :: X' => Qle_bool 0 (this x) && Qle_bool (this x) (inject_Z (n - 1)) && in_fovb s' X'
  | [], [] => true
  | _, _ => false
  end.

(* ---- helpers of the correspondence check (comparison inside Coq) ---- *)
From DV Require Import Base.QcCmp.
Definition zJ2 (jx jy : Z) : list Qc := [of_Z (K:=QcF) jx; of_Z (K:=QcF) jy].
Definition zJ3 (jx jy jz : Z) : list Qc := [of_Z (K:=QcF) jx; of_Z (K:=QcF) jy; of_Z (K:=QcF) jz].
Definition enum {A} (l : list A) : list (Z * A) := combine (zseq (zlen l)) l.
(* model value function valf vs. implementation values in tensor order; amb J = the comparison at J is
   legitimately ambiguous under float rounding (nearest-neighbour tie, buffer boundary) *)
Definition cmp_lat2 (tol : Q) (valf : list Qc -> Qc) (amb : list Qc -> bool) (impl : list (list Qc)) : bool :=
  forallb (fun r => forallb (fun e => let J := zJ2 (fst e) (fst r) in qcloser tol (valf J) (snd e) || amb J) (enum (snd r))) (enum impl).
Definition cmp_lat3 (tol : Q) (valf : list Qc -> Qc) (amb : list Qc -> bool) (impl : list (list (list Qc))) : bool :=
  forallb (fun s => forallb (fun r => forallb (fun e => let J := zJ3 (fst e) (fst r) (fst s) in qcloser tol (valf J) (snd e) || amb J)
                                               (enum (snd r))) (enum (snd s))) (enum impl).
Definition cmp_pts (tol : Q) (valf : list Qc -> Qc) (amb : list Qc -> bool) (pts : list (list Qc)) (impl : list Qc) : bool :=
  Nat.eqb (length pts) (length impl) && forallb (fun e => qcloser tol (valf (fst e)) (snd e) || amb (fst e)) (combine pts impl).
Definition count_lat2 (f : list Qc -> bool) (nx ny : Z) : nat :=
  length (filter (fun x => x) (flat_map (fun jy => map (fun jx => f (zJ2 jx jy)) (zseq nx)) (zseq ny))).
Definition count_lat3 (f : list Qc -> bool) (nx ny nz : Z) : nat :=
  length (filter (fun x => x) (flat_map (fun jz => flat_map (fun jy => map (fun jx => f (zJ3 jx jy jz)) (zseq nx)) (zseq ny)) (zseq nz))).
(* within eps of ITK's buffer boundary -1/2 or n-1/2 on some axis *)
Fixpoint near_edge (eps : Q) (sizes : list Z) (X : list Qc) : bool :=
  match sizes, X with
  | n :: s', x :: X' => Qle_bool (Qabs (this x + (1 # 2))) eps || Qle_bool (Qabs (this x - inject_Z n + (1 # 2))) eps || near_edge eps s' X'
  | _, _ => false
  end.
Definition no_amb (X : list Qc) : bool := false.
