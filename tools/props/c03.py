"""C03 -- derived grids keep their place in the world."""
import vlib
from vlib import Violation, qc, qc_mat, qc_vec, coq_list

ID = "C03"
GEN_UNITS = ["GridT", "GridCtor", "GridDerive"]
PROPS_FILE = "Props/C03.v"
PROPS_MOD = "Props.C03"
COQ_TARGETS = ["Props/C03.vo", "Base/QcCmp.vo", "Model/GridDeriveQc.vo"]
SOURCES = ["deepali/core/grid.py"]
TRUSTED = [
    "Coq 8.16.1 kernel + vm_compute",
    "translator (tools/tr_units/gridderive.py, gridctor.py, grid.py); the internal allclose assertions of Grid._resize are logged by the "
    "tracer and proved as equalities in exact arithmetic",
    "hand-written model of which sizes/offsets/flags each derivation method uses (coq/Model/GridDerive.v), validated by this run's "
    "correspondence on operation chains",
    "modelled not verified: Tensor.ceil/floor/clamp/<= on the float size (Section variables, Qc instance for execution); float32 rounding",
]
ASSUMPTIONS = ["chains whose intermediate float size lies within 1e-3 of an integer without being one are skipped in the correspondence "
               "(float rounding could flip the ceil); sizes >= 2 per axis as the property states"]


def zl(v):
    return coq_list([f"({int(x)})%Z" for x in v])


def ob(a):
    return "None" if a is None else ("(Some true)" if a else "(Some false)")


def dims(d):
    return "None" if d is None else "(Some " + coq_list([f"{int(i)}%nat" for i in d]) + ")"


def coq_op(op):
    k = op["op"]
    if k == "resize":
        return f"(OResize {zl(op['size'])} {ob(op.get('ac'))})"
    if k == "reshape":
        return f"(OReshape {zl(op['shape'])} {ob(op.get('ac'))})"
    if k == "down":
        return f"(ODown {op['levels']}%nat {dims(op.get('dims'))} ({op.get('min_size', 1)})%Z {ob(op.get('ac'))})"
    if k == "up":
        return f"(OUp {op['levels']}%nat {dims(op.get('dims'))} {ob(op.get('ac'))})"
    if k == "pyr":
        return f"(OPyr {op['levels']}%nat {dims(op.get('dims'))} ({op.get('min_size', 0)})%Z {op['level']}%nat)"
    if k == "resample":
        return f"(OResample (K:=QcF) {qc_vec(op['spacing'])} ({op.get('min_size', 1)})%Z)"
    if k == "crop":
        return f"(OCrop {zl(op['num'])})"
    if k == "pad":
        return f"(OPad {zl(op['num'])})"
    if k == "center_crop":
        return f"(OCenterCrop {zl(op['size'])})"
    if k == "center_pad":
        return f"(OCenterPad {zl(op['size'])})"
    if k == "narrow":
        return f"(ONarrow {op['dim']}%nat ({op['start']})%Z ({op['length']})%Z)"
    if k == "roi":
        return f"(ORoi {zl(op['start'])} {zl(op['size'])})"
    if k == "pool":
        return f"(OPool {zl(op['ks'])} {'true' if op.get('ceil_mode') else 'false'})"
    raise KeyError(k)


def coq_state(s):
    return (f"({qc_vec(s['fs'])}, {zl(s['n'])}, {qc_vec(s['s'])}, {qc_vec(s['c'])}, {qc_vec(s['o'])}, {qc_vec(s['cube'])}, "
            f"{'true' if s['ac'] else 'false'})")


def near_integer(x):
    r = abs(x - round(x))
    return 0 < r < 1e-3


def correspondence(ctx):
    n = ctx.n(150, 4000)
    maxlen = ctx.n(3, 6)
    cases = vlib.run_impl("c03_impl", {"fn": "gen_chains", "seed": ctx.seed, "n": n, "maxlen": maxlen})
    res = vlib.run_impl("c03_impl", {"fn": "run_chains", "cases": cases})
    lines = ["From Coq Require Import ZArith QArith List String.",
             "From DV Require Import Base.Field Base.LinAlg Base.QcInst Base.QcCmp Model.Enums Model.GridDerive Model.GridDeriveQc.",
             "Import ListNotations.", "Definition tol : Q := 1 # 5000."]
    names, failures, dist, skipped = [], [], {}, 0
    used = []
    for i, (c, r) in enumerate(zip(cases, res)):
        if "error" in r:
            failures.append({"case": c, "impl": r, "why": "valid grid rejected"})
            continue
        ops, states = c["ops"], r["states"]
        if states and "error" in states[-1]:
            failures.append({"case": c, "impl": states[-1], "why": "implementation raised on an operation the model defines",
                             "key": f"C03:{ops[len(states) - 1]['op']}:raises:{states[-1]['error']}"})
            ops, states = ops[:len(states) - 1], states[:-1]
        if any(near_integer(x) for s in states for x in s["fs"]) or any(min(s["n"]) < 2 for s in states):
            skipped += 1
            continue
        if not ops:
            continue
        D = len(c["grid"]["size"])
        st0 = r["init"]
        g0 = f"(mkG (K:=QcF) {qc_vec(st0['fs'])} {qc_vec(st0['s'])} {qc_vec(st0['c'])} {qc_mat(st0['d'])} {'true' if st0['ac'] else 'false'})"
        names.append((i, f"states_ok tol {D} (run_qc {D} {coq_list([coq_op(o) for o in ops])} {g0}) "
                         f"{coq_list([coq_state(s) for s in states])}"))
        used.append(i)
        for o in ops:
            dist[o["op"]] = dist.get(o["op"], 0) + 1
        dist[f"len{len(ops)}"] = dist.get(f"len{len(ops)}", 0) + 1
    bad, errs = vlib.run_cases(ctx.scratch, lines, names, name="cases_c03")
    for e in errs:
        failures.append({"why": "case file did not evaluate", "coq": e[-800:]})
    if True:
        for i in bad:
            failures.append({"case": cases[i], "impl_states": res[i]["states"], "why": "model state differs from the implementation's grid"})
    dist["skipped(near-integer float size or size<2)"] = skipped
    return {"evaluations": len(used), "distinct_nontrivial": len({str(cases[i]) for i in used}),
            "rule": "chains of 1..%d derivation methods generated against the implementation (arguments valid for the current sizes), over random "
                    "oriented anisotropic grids; the model starts from the stored attributes and every intermediate state (float size, rounded "
                    "size, spacing, center, origin, cube extent, flag) is compared inside Coq; non-trivial = chain with at least one op" % maxlen,
            "samples": [{"case": cases[i], "final_state": res[i]["states"][-1] if res[i].get("states") else None} for i in used[:2]],
            "failures": failures, "distribution": dist,
            "tolerances": {"all attributes": "2e-4*(1+|x|) (float32 implementation)", "rounded sizes, flags": "exact"}}


def search(ctx, broken, corr_failures):
    n = ctx.n(250, 12000)
    r = vlib.run_impl("c03_impl", {"fn": "oracle", "seed": ctx.seed, "n": n, "maxlen": ctx.n(3, 6)}, timeout=1500)
    ctx.notes.append(f"implementation-side property evaluation, ops exercised: {r['counts']} (20% of grids in the cancellation stream: "
                     "centers ~1e4, spacings ~1e-2)")
    rs = vlib.run_impl("c03_impl", {"fn": "rounding_stress", "seed": ctx.seed, "n": ctx.n(4000, 60000)}, timeout=2400)
    ctx.notes.append(f"rounding stress: {rs['ops']} derivations on cancellation-prone grids, {len(rs['fails'])} raised")
    out, seen = [], set()
    for f in r["fails"] + rs["fails"]:
        if f["key"] in seen:
            continue
        seen.add(f["key"])
        out.append(Violation(key=f["key"], what=f["what"], replay={"oracle": "c03", "seed": ctx.seed, "n": n, "failure": f}))
    for f in corr_failures:
        if f.get("key") and f["key"] not in seen:
            seen.add(f["key"])
            out.append(Violation(key=f["key"], what=f["why"] + ": " + str(f.get("impl")), replay={"oracle": "c03-chain", "case": f.get("case")}))
    return out


def replay(ctx, data):
    if data.get("oracle") == "c03-chain":
        res = vlib.run_impl("c03_impl", {"fn": "run_chains", "cases": [data["case"]]})
        st = res[0].get("states", [])
        return str(st[-1]) if st and "error" in st[-1] else None
    f = data.get("failure") or {}
    r = vlib.run_impl("c03_impl", {"fn": "oracle", "seed": data.get("seed", ctx.seed), "n": data.get("n", 250), "maxlen": 3}, timeout=1500)
    for g in r["fails"]:
        if g["key"] == f.get("key"):
            return g["what"]
    return None


MANIFEST_ENTRY = {
    "text": "Theorems over every field of characteristic 0, for an ARBITRARY grid state (any fractional internal size, hence after any chain of "
            "operations of any length): Grid._resize keeps center/orientation and, per align_corners, the corner samples or the extent, and the "
            "cube extent; its internal allclose assertions are equalities in exact arithmetic; resize-to-m-and-back restores the spacing, so "
            "downsample-then-upsample is the identity when no axis is clamped; every pyramid level (any number of levels) has the grid's center, "
            "direction and cube extent and the sizes obey n_l = 2 n_{l+1} - 1 down to the rounded coarsest size; crop/pad/narrow/ROI/center "
            "crop/pad keep spacing and orientation and place index j where index j+start was; pooling places sample j at its window centroid. "
            "Formulas regenerated from grid.py by tracing; the size/offset bookkeeping is a hand model compared state by state with the "
            "implementation on generated chains.",
    "note": "Partial: 'never an internal consistency error caused only by rounding' is float behaviour outside the exact model -- covered by "
            "the rule 'model defines the result => implementation must not raise' and a cancellation stream in the implementation-side search. "
            "ceil/floor/<= on sizes are parameters (Qc instance executed). Trusted: Coq kernel, vm_compute, translator, hand model tie.",
}
