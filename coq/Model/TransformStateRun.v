(* Executable instance of Model/TransformState.v used by the correspondence check of C09/C07:
   parameter contents are constant vector fields (the D components as exact rationals) tagged with
   the grid whose data shape they were allocated for; grids are indices into tables supplied by the
   generated case file.  Definitions only. *)
From Coq Require Import List Bool Arith ZArith QArith Qcanon.
From DV Require Import Base.Field Base.QcInst Model.TransformState.
Import ListNotations.

Definition PV := (list Qc * nat)%type.      (* value per component, grid the shape was made for *)
Definition CV := (nat * nat)%type.          (* condition: (k, grid whose shape the callable returns) *)

Fixpoint list_nat_eqb (a b : list nat) : bool :=
  match a, b with
  | [], [] => true
  | x :: a', y :: b' => Nat.eqb x y && list_nat_eqb a' b'
  | _, _ => false
  end.

Section Run.
Variable ext : nat -> list Qc.                       (* extent of the normalised cube per axis, world units *)
Variable dshape : kind -> nat -> option (list nat).  (* data_shape of a transform of that kind on grid g *)
Variable gshape : nat -> list nat.                   (* grid.shape *)
Variable geqt same_domt : nat -> nat -> bool.
Variable alignt : nat -> bool.
Variable ffdsubt : nat -> nat -> option bool.

Definition r_p0 : PV := ([], 0%nat).
Definition r_empty (k : kind) (g : nat) : PV := ([Q2Qc 0; Q2Qc 0], g).
Definition r_zero (p : PV) : PV := (map (fun _ => Q2Qc 0) (fst p), snd p).
Definition r_fill (p q : PV) : PV := (fst q, snd p).
Fixpoint vrescale (v a b : list Qc) : list Qc :=
  match v, a, b with
  | x :: v', ea :: a', eb :: b' => (x * ea / eb)%Qc :: vrescale v' a' b'
  | _, _, _ => []
  end.
Definition r_regrid (k : kind) (p : PV) (g g' : nat) : PV :=
  if is_dense k then (vrescale (fst p) (ext g) (ext g'), g') else (fst p, g').
Definition r_fval (f k : nat) : list Qc :=
  let a := Q2Qc (Z.of_nat ((f + 1) * 8 + k) # 32) in
  [a; (- a / Q2Qc 2 - Q2Qc (1 # 64))%Qc].
Definition r_call (f : nat) (c : option CV) : PV :=      (* f = 16 * id + default grid *)
  match c with
  | None => (r_fval (f / 16) 0, f mod 16)
  | Some (k, g) => (r_fval (f / 16) k, g)
  end.
Definition r_fits (k : kind) (p : PV) (g : nat) : bool :=
  match dshape k (snd p), dshape k g with
  | Some a, Some b => list_nat_eqb a b
  | _, _ => false
  end.

Definition rstate := state PV nat CV.
Definition rop := op PV nat CV.
Definition rstep (cf : cfg) : rstate -> rop -> rstate * outcome PV nat :=
  step PV nat CV r_p0 r_empty r_zero r_fill r_regrid r_call r_fits geqt same_domt alignt ffdsubt cf.

(* what the implementation reported *)
Inductive iout := IDone | IErr (e : err) | IObs (val : list Qc) (shape : option (list nat))
| ISkip.   (* the observed field is not constant: the history left the domain in which constants identify versions *)

Fixpoint vaddq (a b : list Qc) : list Qc :=
  match a, b with
  | x :: a', y :: b' => (x + y)%Qc :: vaddq a' b'
  | [], b => b
  | a, [] => a
  end.
Definition tag_val (t : tag PV nat) : list Qc :=
  let '(p, _, sg) := t in if sg then map Qcopp (fst p) else fst p.
Definition out_val (l : list (tag PV nat)) : list Qc := fold_left (fun acc t => vaddq acc (tag_val t)) l [].

Definition kind_at (s : rstate) (o : nat) : option kind :=
  match get_obj PV nat CV s o with Some ob => Some (o_kind PV nat CV ob) | None => None end.
Definition op_target (x : rop) : option nat :=
  match x with
  | Call _ _ _ o | Disp _ _ _ o | TensorOf _ _ _ o => Some o
  | _ => None
  end.

(* expected shape of the observed tensor; None = not compared (point outputs, composites) *)
Definition want_shape (s : rstate) (x : rop) (l : list (tag PV nat)) (g : option nat) : option (list nat) :=
  match op_target x with
  | None => None
  | Some o =>
    match kind_at s o, x with
    | Some KSeq, _ => None
    | Some _, Call _ _ _ _ => None
    | Some _, Disp _ _ _ _ => match g with Some g' => Some (gshape g') | None => None end
    | Some KLin, _ => Some []
    | Some _, _ => match l with [(_, g', _)] => Some (gshape g') | _ => None end
    | None, _ => None
    end
  end.

Definition shape_agrees (w i : option (list nat)) : bool :=
  match w, i with
  | Some a, Some b => list_nat_eqb a b
  | _, _ => true
  end.

Definition agrees (tol : Q) (s : rstate) (x : rop) (m : outcome PV nat) (i : iout) : bool :=
  match m, i with
  | Done _ _, IDone => true
  | Raised _ _ e, IErr e' => err_eqb e e'
  | Out _ _ l g, IObs v sh => vclose tol (out_val l) v && shape_agrees (want_shape s x l g) sh
  | _, _ => false
  end.

(* 0 = the whole history agrees; k+1 = first disagreement at operation k *)
Fixpoint check_from (cf : cfg) (tol : Q) (k : nat) (s : rstate) (h : list rop) (r : list iout) : nat :=
  match h, r with
  | x :: h', ISkip :: r' => 0
  | x :: h', i :: r' =>
      let (s', m) := rstep cf s x in
      match m with
      | Raised _ _ OtherErr => 0    (* the history left the modelled domain (see ASSUMPTIONS): stop comparing *)
      | _ => if agrees tol s x m i then check_from cf tol (S k) s' h' r' else S k
      end
  | [], [] => 0
  | _, _ => S k
  end.
Definition check_hist (cf : cfg) (tol : Q) (h : list rop) (r : list iout) : nat :=
  check_from cf tol 0 (empty_state PV nat CV) h r.

(* number of histories that left the modelled domain *)
Fixpoint leaves_domain (cf : cfg) (s : rstate) (h : list rop) : bool :=
  match h with
  | [] => false
  | x :: h' => let (s', m) := rstep cf s x in
               match m with Raised _ _ OtherErr => true | _ => leaves_domain cf s' h' end
  end.

(* for diagnostics: what the model says, in the same canonical form *)
Inductive mview := MDone | MErr (e : err) | MObs (val : list Qc) (tags : list (list Qc * nat * nat * bool)) (g : option nat).
Definition view (m : outcome PV nat) : mview :=
  match m with
  | Done _ _ => MDone
  | Raised _ _ e => MErr e
  | Out _ _ l g => MObs (out_val l) (map (fun t => let '(p, g', sg) := t in (fst p, snd p, g', sg)) l) g
  end.
Fixpoint model_trace (cf : cfg) (s : rstate) (h : list rop) : list mview :=
  match h with
  | [] => []
  | x :: h' => let (s', m) := rstep cf s x in view m :: model_trace cf s' h'
  end.
End Run.
