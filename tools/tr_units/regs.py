"""Gen/Regs.v -- closed forms of the deformation regularisers in losses/functional.py:
  * lame_parameters: one definition per accepted pair of elastic constants (values are symbols; the
    sign / snap-to-zero guards of the source are taken on their "valid value" side and recorded),
    plus the table of which keyword pairs the source cannot execute;
  * coefficient structure of bending / curvature / diffusion / total variation / divergence /
    elasticity losses in terms of the partial derivatives returned by flow_derivatives /
    spatial_derivatives (those are replaced by symbols: the stencils are modelled in
    Model/RegStencil.v and tied by correspondence);
  * denormalize_flow factors for both align_corners conventions on a concrete (5, 7, 9) grid.
"""
import itertools
from fractions import Fraction

import numpy as np

import symtorch as st
import trlib
from symtorch import E, TraceError

PAIR_ARGS = ["first_parameter", "second_parameter", "shear_modulus", "poissons_ratio", "youngs_modulus"]
SHORT = {"first_parameter": "first", "second_parameter": "second", "shear_modulus": "shear",
         "poissons_ratio": "poisson", "youngs_modulus": "young"}
SYM = {"first_parameter": "lam", "second_parameter": "mu", "shear_modulus": "g", "poissons_ratio": "nu", "youngs_modulus": "ym"}


class S:
    """symbolic real for plain-Python arithmetic (lame_parameters): comparisons against constants are
    answered on the side of a valid elastic constant (not negative, not below the snap threshold) and recorded"""
    guards = []

    def __init__(self, e):
        self.e = E.const(e.e if isinstance(e, S) else e)

    @staticmethod
    def _e(o):
        return o.e if isinstance(o, S) else E.const(o)

    def __add__(self, o): return S(self.e + S._e(o))
    def __radd__(self, o): return S(S._e(o) + self.e)
    def __sub__(self, o): return S(self.e - S._e(o))
    def __rsub__(self, o): return S(S._e(o) - self.e)
    def __mul__(self, o): return S(self.e * S._e(o))
    def __rmul__(self, o): return S(S._e(o) * self.e)
    def __truediv__(self, o): return S(self.e / S._e(o))
    def __rtruediv__(self, o): return S(S._e(o) / self.e)
    def __neg__(self): return S(-self.e)
    def __pow__(self, n): return S(self.e ** n)

    def __lt__(self, o):
        if isinstance(o, S):
            raise TraceError("comparison between symbolic values")
        S.guards.append(f"not ({st.to_text(self.e)} < {o!r})")
        return False

    def __bool__(self):
        raise TraceError("truth value of symbolic value")


class _Math:
    pi = 3.141592653589793

    @staticmethod
    def sqrt(x):
        if isinstance(x, S):
            return S(st.fn("sqrt", x.e))
        import math
        return math.sqrt(x)


def trace_lame(L, names):
    S.guards = []
    kw = {n: S(E.var(SYM[n])) for n in names}
    old = L.math
    L.math = _Math
    try:
        lam, mu = L.lame_parameters(**kw)
    finally:
        L.math = old
    return S._e(lam), S._e(mu), list(S.guards)


def emit_lame(name, params, lam, mu, comment):
    rad = []

    def scan(e):
        if e.op == "fn":
            if e.args[0] != "sqrt":
                raise TraceError(f"unexpected function {e.args[0]}")
            rad.append(e.args[1])
        elif e.op not in ("const", "var"):
            for a in e.args:
                scan(a)
    scan(lam)
    scan(mu)
    fnmap = {("sqrt", st.to_text(r)): "r" for r in rad}
    if len({st.to_text(r) for r in rad}) > 1:
        raise TraceError("more than one square root")
    ps = (["r"] if rad else []) + params
    args = "".join(f" ({p} : K)" for p in ps)
    txt = f"(* {comment} *)\nDefinition {name}{args} : K * K :=\n  ({st.to_coq(lam, fnmap)}, {st.to_coq(mu, fnmap)}).\n"
    if rad:
        args2 = "".join(f" ({p} : K)" for p in params)
        txt += f"Definition {name}_radicand{args2} : K :=\n  {st.to_coq(rad[0])}.\n"
    return txt


def stub_tensor(name, spatial, channels=1):
    """the same symbol at every grid point (the traced formula is pointwise)"""
    a = np.empty((1, channels) + tuple(spatial), dtype=object)
    for c in range(channels):
        for idx in np.ndindex(*spatial):
            a[(0, c) + idx] = E.var(f"{name}{c}" if channels > 1 else name)
    return st.Tensor(a)


def key_var(key):
    # "du/dxy" -> d_u_xy
    comp, spatial = key.split("/")
    return f"d_{comp[1:]}_{spatial[1:]}"


def generate(loader):
    L = loader.load("deepali.losses.functional")
    F = loader.load("deepali.core.flow")
    out = ["Section Gen.", "Context {K : fld}.", ""]
    # ---- lame_parameters ------------------------------------------------------------------------
    table = []
    for a, b in itertools.combinations(PAIR_ARGS, 2):
        tag = f"{SHORT[a]}_{SHORT[b]}"
        try:
            lam, mu, guards = trace_lame(L, [a, b])
        except TraceError:
            raise
        except Exception as exc:  # the source cannot execute this pair
            table.append((tag, type(exc).__name__))
            continue
        table.append((tag, "Ok"))
        out.append(emit_lame(f"gen_lame_{tag}", [SYM[a], SYM[b]], lam, mu,
                             f"lame_parameters({a}=., {b}=.); path condition: " + "; ".join(guards)))
    # material preset
    S.guards = []
    lam, mu = L.lame_parameters(material_name="rubber")
    out.append("(* lame_parameters(material_name='rubber') *)\nDefinition gen_lame_rubber : K * K :=\n  "
               f"({st.to_coq(E.const(lam))}, {st.to_coq(E.const(mu))}).\n")
    for bad in ("steel", ""):
        try:
            L.lame_parameters(material_name=bad) if bad else L.lame_parameters()
            table.append((f"material_{bad or 'none'}", "Ok"))
        except Exception as exc:  # noqa
            table.append((f"material_{bad or 'none'}", type(exc).__name__))

    # ---- coefficient structure of the losses (derivatives replaced by symbols) ---------------------
    def with_stubs(D, thunk):
        recorded = []

        def flow_derivatives(flow, which=None, order=None, **kw):
            keys = list(which)
            recorded.append(("flow", tuple(keys), {k: v for k, v in kw.items() if v is not None}))
            return {k: stub_tensor(key_var(k), flow.shape[2:]) for k in keys}

        def spatial_derivatives(data, which=None, order=None, **kw):
            keys = list(which)
            recorded.append(("spatial", tuple(keys), {k: v for k, v in kw.items() if v is not None and k != "spacing"}))
            return {k: stub_tensor(f"g_{k}_", data.shape[2:], channels=D) for k in keys}
        olds = (L.flow_derivatives, L.spatial_derivatives, F.flow_derivatives, L.lame_parameters)
        L.flow_derivatives, L.spatial_derivatives, F.flow_derivatives = flow_derivatives, spatial_derivatives, flow_derivatives
        L.lame_parameters = lambda **kw: (E.var("lam", positive=True), E.var("mu", positive=True))
        try:
            return thunk(), recorded
        finally:
            L.flow_derivatives, L.spatial_derivatives, F.flow_derivatives, L.lame_parameters = olds

    comps = "uvw"
    dimsn = "xyz"
    for D in (2, 3):
        ua = np.empty((1, D) + (2,) * D, dtype=object)
        for c in range(D):
            for idx in np.ndindex(*((2,) * D)):
                ua[(0, c) + idx] = E.var(f"u{c}")
        u = st.Tensor(ua)
        second = [f"d_{comps[c]}_{dimsn[d]}{dimsn[e]}" for c in range(D) for d in range(D) for e in range(d, D)]
        first = [f"d_{comps[c]}_{dimsn[d]}" for c in range(D) for d in range(D)]
        grads = [f"g_{dimsn[d]}_{c}" for d in range(D) for c in range(D)]

        def scalar_def(name, params, t, comment):
            e = t.a.reshape(-1)
            if t.a.shape[:2] != (1, 1) or not all(v.same(e[0]) for v in e):
                raise TraceError(f"{name}: expected one pointwise formula, got shape {t.a.shape}")
            args = "".join(f" ({p} : K)" for p in params)
            body = to_coq_abs(e[0])
            fa = " (fabs : K -> K)" if "fabs" in body else ""
            return f"(* {comment} *)\nDefinition {name}{fa}{args} : K :=\n  {body}.\n"

        r, rec = with_stubs(D, lambda: L.bending_loss(u, reduction="none"))
        if rec[0][2].get("mode") != "sobel":
            raise TraceError("bending_loss default mode is not 'sobel'")
        out.append(scalar_def(f"gen_bending{D}", second, r, f"bending_loss, D = {D}, in terms of the second derivatives"))
        r, rec = with_stubs(D, lambda: L.curvature_loss(u, reduction="none"))
        if rec[0][2].get("mode") != "sobel":
            raise TraceError("curvature_loss default mode is not 'sobel'")
        used = [p for p in second if p[-1] == p[-2]]
        out.append(scalar_def(f"gen_curvature{D}", used, r, f"curvature_loss, D = {D}"))
        r, rec = with_stubs(D, lambda: L.diffusion_loss(u, reduction="none"))
        if "mode" in rec[0][2]:
            raise TraceError("diffusion_loss passes a derivative mode by default")
        out.append(scalar_def(f"gen_diffusion{D}", grads, r, f"diffusion_loss, D = {D}; g_<dim>_<component>"))
        r, _ = with_stubs(D, lambda: L.total_variation_loss(u, reduction="none"))
        out.append(scalar_def(f"gen_tv{D}", grads, r, f"total_variation_loss, D = {D}"))
        r, _ = with_stubs(D, lambda: L.divergence_loss(u, reduction="none"))
        out.append(scalar_def(f"gen_divergence{D}", [f"d_{comps[c]}_{dimsn[c]}" for c in range(D)], r, f"divergence_loss, D = {D}"))
        r, _ = with_stubs(D, lambda: L.elasticity_loss(u, first_parameter=1.0, second_parameter=1.0, reduction="none"))
        out.append(scalar_def(f"gen_elasticity{D}", ["lam", "mu"] + first, r, f"elasticity_loss, D = {D}"))
        # linear transformations (fewer than four tensor dimensions) yield zero
        lin = st.Tensor(np.array([[E.var("a"), E.var("b"), E.var("c")], [E.var("d"), E.var("e"), E.var("f")]], dtype=object))
        for fn_ in ("bending_loss", "curvature_loss", "diffusion_loss", "divergence_loss", "total_variation_loss", "grad_loss"):
            z = getattr(L, fn_)(lin)
            v = z.a.reshape(-1)[0]
            if not (v.is_const() and v.value() == 0):
                raise TraceError(f"{fn_} of a linear transformation is not the constant 0")

    # ---- denormalize_flow ----------------------------------------------------------------------------
    e3 = st.symvec("e", 3)
    for ac in (True, False):
        r = F.denormalize_flow(e3, size=(5, 7, 9), align_corners=ac, channels_last=True)
        out.append(trlib.emit_match_def(f"gen_denormalize_{'ac' if ac else 'nac'}", [("e", e3)], [], r, None,
                                        f"denormalize_flow(e, size=(5, 7, 9), align_corners={ac}, channels_last=True)"))
    rd = F.denormalize_flow(e3, size=(5, 7, 9), channels_last=True)
    rt = F.denormalize_flow(e3, size=(5, 7, 9), align_corners=True, channels_last=True)
    out.append(f"Definition gen_denormalize_default_is_ac : bool := {'true' if trlib.same_tensor(rd.a, rt.a) else 'false'}.\n")
    # ---- spacing divisor of every partial derivative in every derivative mode -----------------------------
    # spatial_derivatives is executed with every linear operator on the data (finite_differences, conv, conv1d,
    # F.pad, evaluate_cubic_bspline) replaced by the identity / "divide by the step it is given", and a symbolic
    # per-axis spacing (h0, h1, h2): what remains is x / (product of the spacings the code divides by).
    I = loader.load("deepali.core.image")
    B = loader.load("deepali.core.bspline")
    KEYS3 = ["x", "y", "z", "xx", "xy", "xz", "yy", "yz", "zz"]
    SD_MODES = ["forward", "backward", "central", "forward_central_backward", "prewitt", "sobel", "gaussian", "bspline"]

    def fd_stub(data, sdim, mode="forward_central_backward", order=1, dilation=1, spacing=1):
        sp_ = spacing if isinstance(spacing, st.Tensor) else st.tensor(spacing)
        v = sp_.a.reshape(-1)
        if v.shape[0] == 1:
            return data / v[0]
        if v.shape[0] != data.shape[0]:
            raise TraceError("finite_differences stub: one step size per image expected")
        return data / st.Tensor(v.reshape((data.shape[0],) + (1,) * (data.a.ndim - 1)))

    class _F:
        @staticmethod
        def pad(data, pad, mode="constant", value=None):
            return data.clone()

    olds = {"fd": I.finite_differences, "conv": I.conv, "conv1d": I.conv1d, "F": I.F, "g0": I.gaussian1d, "g1": I.gaussian1d_I,
            "ev": B.evaluate_cubic_bspline, "w": B.cubic_bspline_interpolation_weights}
    I.finite_differences = fd_stub
    I.conv = lambda data, kernel, **kw: data.clone()
    I.conv1d = lambda data, kernel, **kw: data.clone()
    I.F = _F
    I.gaussian1d = lambda *a, **k: [1.0]
    I.gaussian1d_I = lambda *a, **k: [1.0]
    B.evaluate_cubic_bspline = lambda data, kernel=None, **kw: data.clone()
    B.cubic_bspline_interpolation_weights = lambda **kw: [1.0]
    try:
        xs = np.empty((1, 1, 1, 1, 1), dtype=object)
        xs[0, 0, 0, 0, 0] = E.var("x")
        hs = st.Tensor(np.array([[E.var("h0"), E.var("h1"), E.var("h2")]], dtype=object))
        for mode in SD_MODES:
            d = I.spatial_derivatives(st.Tensor(xs.copy()), which=KEYS3, mode=mode, spacing=hs)
            if list(d) != KEYS3:
                raise TraceError(f"spatial_derivatives({mode}): keys {list(d)}")
            vals = []
            for k in KEYS3:
                v = d[k].a.reshape(-1)
                if v.shape[0] != 1:
                    raise TraceError(f"spatial_derivatives({mode})[{k}]: shape {d[k].a.shape}")
                vals.append(st.to_coq(v[0]))
            out.append(f"(* spatial_derivatives(mode={mode!r}, spacing=(h0, h1, h2)): spacing divisors of x, y, z, xx, xy, xz, yy, yz, zz *)\n"
                       f"Definition gen_sd_{mode} (h0 h1 h2 x : K) : list K :=\n  [" + ";\n   ".join(vals) + "].\n")
        # a separate spacing per image of the batch: image 1 must be divided by ITS row (k0, k1, k2), in every mode
        xs2 = np.empty((2, 1, 1, 1, 1), dtype=object)
        xs2[0, 0, 0, 0, 0], xs2[1, 0, 0, 0, 0] = E.var("x"), E.var("x")
        hs2 = st.Tensor(np.array([[E.var("h0"), E.var("h1"), E.var("h2")], [E.var("k0"), E.var("k1"), E.var("k2")]], dtype=object))
        ren = {"h0": "k0", "h1": "k1", "h2": "k2"}
        for mode in SD_MODES:
            d2_ = I.spatial_derivatives(st.Tensor(xs2.copy()), which=KEYS3, mode=mode, spacing=hs2)
            for k in KEYS3:
                v = d2_[k].a.reshape(-1)
                if v.shape[0] != 2:
                    raise TraceError(f"spatial_derivatives({mode})[{k}] on a batch of two: shape {d2_[k].a.shape}")
                if not trlib.rename(v[0], ren).same(v[1]):
                    raise TraceError(f"spatial_derivatives({mode})[{k}]: image 1 of the batch is not divided by its own spacing: "
                                     f"{st.to_text(v[1])}")
        # the default mode is forward_central_backward
        d0 = I.spatial_derivatives(st.Tensor(xs.copy()), which=["x"], spacing=hs)
        d1 = I.spatial_derivatives(st.Tensor(xs.copy()), which=["x"], mode="forward_central_backward", spacing=hs)
        if not trlib.same_tensor(d0["x"].a, d1["x"].a):
            raise TraceError("spatial_derivatives: default mode is not forward_central_backward")
    finally:
        I.finite_differences, I.conv, I.conv1d, I.F, I.gaussian1d, I.gaussian1d_I = (olds[k] for k in ("fd", "conv", "conv1d", "F", "g0", "g1"))
        B.evaluate_cubic_bspline, B.cubic_bspline_interpolation_weights = olds["ev"], olds["w"]
    # the default spacing of flow_derivatives / grad_loss is the cube spacing 2 / (n - 1) per axis, x first
    seen_sp = []

    def sd_rec(data, which=None, order=None, mode=None, sigma=None, spacing=None, stride=None):
        seen_sp.append(spacing)
        return {k: stub_tensor(f"g_{k}_", data.shape[2:], channels=data.shape[1]) for k in which}
    o1, o2 = F.spatial_derivatives, L.spatial_derivatives
    F.spatial_derivatives = L.spatial_derivatives = sd_rec
    try:
        ua = np.empty((1, 3, 4, 3, 5), dtype=object)     # (N, D, Z, Y, X) = sizes x: 5, y: 3, z: 4
        for idx in np.ndindex(*ua.shape):
            ua[idx] = E.var("u")
        F.flow_derivatives(st.Tensor(ua), which=["du/dx"])
        L.grad_loss(st.Tensor(ua))
        from fractions import Fraction
        want = [Fraction(2, 4), Fraction(2, 2), Fraction(2, 3)]
        for sp_ in seen_sp:
            got = [Fraction(v).limit_denominator(1000) for v in sp_]
            if got != want:
                raise TraceError(f"default spacing is {got}, expected 2/(n-1) per axis in the order (x, y, z): {want}")
        if len(seen_sp) < 2:
            raise TraceError("default spacing: call sites not reached")
    finally:
        F.spatial_derivatives, L.spatial_derivatives = o1, o2

    # ---- inverse_consistency_loss: unit conversion of the error, for either align_corners ----------------
    # the grid is a stand-in object (sizes (5, 7, 9), symbolic spacing); transform_grid adds a symbolic error
    # vector e to the grid coordinates and transform_points is the identity, so error = e at every point.
    class _Grid:
        ndim = 3

        def __init__(self, ac):
            self._ac = ac

        shape = st.Size((9, 7, 5))       # (Z, Y, X) of size (x, y, z) = (5, 7, 9)

        def coords(self, dtype=None, device=None):
            return st.zeros(9, 7, 5, 3)

        def align_corners(self):
            return self._ac

        def size(self):
            return st.Size((5, 7, 9))

        def spacing(self):
            return st.symvec("s", 3)

    seen_flags = []

    def transform_grid(t, x, align_corners=None, **kw):
        seen_flags.append(align_corners)
        return x + st.symvec("e", 3)

    def transform_points(t, y, align_corners=None, **kw):
        seen_flags.append(align_corners)
        return y
    olds = (L.transform_grid, L.transform_points)
    L.transform_grid, L.transform_points = transform_grid, transform_points
    try:
        fwd = st.symmat("f", 3, 4).unsqueeze(0)
        for ac in (True, False):
            for un in ("cube", "voxel", "world"):
                r = L.inverse_consistency_loss(fwd, fwd, grid=_Grid(ac), units=un, reduction="none")
                vals = r.a.reshape(-1)
                if not all(v.same(vals[0]) for v in vals):
                    raise TraceError("inverse_consistency_loss: error not uniform over the grid")
                v = vals[0]
                if v.op != "fn" or v.args[0] != "sqrt":
                    raise TraceError(f"inverse_consistency_loss: result is not a Euclidean norm: {v}")
                out.append(f"(* inverse_consistency_loss(units={un!r}) on a grid with align_corners={ac}: squared reported error *)\n"
                           f"Definition gen_ic_sq_{un}_{'ac' if ac else 'nac'} (s0 s1 s2 e0 e1 e2 : K) : K :=\n  {st.to_coq(v.args[1])}.\n")
                if any(f is not ac for f in seen_flags):
                    raise TraceError("inverse_consistency_loss does not pass the grid's align_corners to transform_grid/transform_points")
                del seen_flags[:]
            # margin: an int drops that many points at each border of every axis, a float fraction f drops
            # int(f * n) points of the axis with n points (sizes are (x, y, z) = (5, 7, 9), tensors (Z, Y, X))
            for mg, want_shape in ((1, (1, 7, 5, 3)), (2, (1, 5, 3, 1)), (0.3, (1, 5, 3, 3))):
                rm = L.inverse_consistency_loss(fwd, fwd, grid=_Grid(ac), margin=mg, units="cube", reduction="none")
                if tuple(rm.a.shape) != want_shape:
                    raise TraceError(f"inverse_consistency_loss(margin={mg}) has shape {tuple(rm.a.shape)}, expected {want_shape}")
            del seen_flags[:]
            # reductions: 'sum' is the sum and 'mean' the mean of 'none' (all grid points carry the same error)
            n_ = L.inverse_consistency_loss(fwd, fwd, grid=_Grid(ac), units="cube", reduction="none").a.reshape(-1)
            s_ = L.inverse_consistency_loss(fwd, fwd, grid=_Grid(ac), units="cube", reduction="sum").a.reshape(-1)[0]
            m_ = L.inverse_consistency_loss(fwd, fwd, grid=_Grid(ac), units="cube", reduction="mean").a.reshape(-1)[0]
            tot = E.const(0)
            for v in n_:
                tot = tot + v
            if not s_.same(tot) or not m_.same(tot / len(n_)):
                raise TraceError("inverse_consistency_loss: 'sum'/'mean' are not the sum/mean of 'none'")
            del seen_flags[:]
    finally:
        L.transform_grid, L.transform_points = olds
    # ---- module wrappers (losses/flow.py, losses/bspline.py): every constructor option reaches the functional form ---
    MFm = loader.load("deepali.losses.flow")
    MBm = loader.load("deepali.losses.bspline")
    fnames = ("grad_loss", "bending_loss", "curvature_loss", "diffusion_loss", "divergence_loss", "elasticity_loss",
              "total_variation_loss")
    saved_fns = {n: getattr(L, n) for n in fnames}
    calls = []
    for n in fnames:
        setattr(L, n, (lambda name: (lambda u, **kw: calls.append((name, kw)) or u))(n))
    mod_rows = []
    try:
        common = dict(mode="sobel", sigma=0.5, spacing=(1.5, 2.5), stride=3, reduction="sum")
        u0 = st.zeros(1, 2, 2, 2)

        def probe(tag, cls, ctor, want_fn, want):
            del calls[:]
            cls(**ctor).forward(u0)
            if len(calls) != 1 or calls[0][0] != want_fn:
                mod_rows.append((tag, f"calls {[c[0] for c in calls]}"))
                return
            got = calls[0][1]
            bad = sorted(k for k in want if k not in got or got[k] != want[k])
            mod_rows.append((tag, "ok" if not bad else "not passed: " + ", ".join(bad)))
        for q_in, q_out in ((0, 0), (None, Fraction(1, 4)), (2, 2), (1, 1)):
            def _q(v):
                return Fraction(v).limit_denominator(1000) if v is not None else None
            del calls[:]
            MFm.GradLoss(p=4, q=q_in, **common).forward(u0)
            got = calls[0][1] if len(calls) == 1 and calls[0][0] == "grad_loss" else {}
            bad = sorted(k for k, v in dict(common, p=4).items() if got.get(k) != v)
            if _q(got.get("q")) != _q(q_out):
                bad.append(f"q (got {got.get('q')!r}, expected {q_out})")
            mod_rows.append((f"GradLoss(p=4, q={q_in})", "ok" if not bad else "not passed: " + ", ".join(bad)))
        for cname, fn_ in (("Bending", "bending_loss"), ("Curvature", "curvature_loss"), ("Diffusion", "diffusion_loss"),
                           ("Divergence", "divergence_loss"), ("TotalVariation", "total_variation_loss")):
            probe(cname, getattr(MFm, cname), common, fn_, common)
        mats = dict(material_name=None, first_parameter=1.5, second_parameter=2.5, shear_modulus=None, poissons_ratio=None, youngs_modulus=None)
        probe("Elasticity(first, second)", MFm.Elasticity, dict(common, first_parameter=1.5, second_parameter=2.5), "elasticity_loss",
              dict(common, **mats))
        mats2 = dict(material_name=None, first_parameter=None, second_parameter=None, shear_modulus=0.75, poissons_ratio=0.25, youngs_modulus=None)
        probe("Elasticity(shear, poisson)", MFm.Elasticity, dict(common, shear_modulus=0.75, poissons_ratio=0.25), "elasticity_loss",
              dict(common, **mats2))
        probe("Elasticity(material_name)", MFm.Elasticity, dict(common, material_name="rubber"), "elasticity_loss",
              dict(common, material_name="rubber"))
        probe("BSplineBending", MBm.BSplineBending, dict(stride=3, reduction="sum"), "bending_loss",
              dict(mode="bspline", stride=3, reduction="sum"))
    finally:
        for n, f_ in saved_fns.items():
            setattr(L, n, f_)
    out.append("End Gen.\n")
    rows = ";\n".join(f'  ("{t}"%string, "{k}"%string)' for t, k in mod_rows)
    out.append(f"(* module wrappers: does forward() hand every constructor option to the functional form? *)\n"
               f"Definition gen_flow_module_options : list (string * string) := [\n{rows}].\n")
    rows = ";\n".join(f'  ("{t}"%string, "{k}"%string)' for t, k in table)
    out.append(f"Definition gen_lame_table : list (string * string) := [\n{rows}].\n")
    return "\n".join(out)


def to_coq_abs(e):
    if e.op == "fn":
        if e.args[0] != "abs":
            raise TraceError(f"unexpected function node {e.args[0]}")
        return f"(fabs {to_coq_abs(e.args[1])})"
    if e.op in ("const", "var"):
        return st.to_coq(e)
    if e.op == "fn2":
        raise TraceError("two-argument function node")
    if e.op == "neg":
        return f"(- {to_coq_abs(e.args[0])})"
    s = {"add": "+", "sub": "-", "mul": "*", "div": "/"}[e.op]
    return f"({to_coq_abs(e.args[0])} {s} {to_coq_abs(e.args[1])})"
