(* C09 -- a call evaluates the state the transform holds at that moment (single transforms). *)
From Coq Require Import List Bool Arith Lia.
From DV Require Import Model.TransformState.
Import ListNotations.

Lemma cfg_all_fields c : cfg_all c = true ->
  c_data_clears c = true /\ c_reset_clears c = true /\ c_cond_clears c = true /\ c_grid_clears c = true /\
  c_clear_u c = true /\ c_clear_v c = true /\ c_tensor_updates c = true /\ c_update_p c = true /\
  c_hook c = true /\ c_upd_u c = true /\ c_inv_flip c = true /\ c_inv_link c = true /\
  c_seq_update c = true /\ c_seq_clear c = true /\ c_seq_cond c = true /\ c_dense_grid_data c = true /\
  c_spline_grid_clears c = true /\ c_inv_exp_first c = true /\ c_link_unshares c = true.
Proof.
  destruct c; unfold cfg_all; cbn. intro H.
  repeat (apply andb_prop in H; destruct H as [H ?]). subst. repeat split; reflexivity.
Qed.

Lemma nth_error_replace_same {A} (l : list A) n x y :
  nth_error l n = Some y -> nth_error (replace n x l) n = Some x.
Proof.
  revert n. induction l as [|a l IH]; intros [|n] H; cbn in *; try discriminate; auto.
Qed.
Lemma nth_error_replace_other {A} (l : list A) n m x :
  n <> m -> nth_error (replace n x l) m = nth_error l m.
Proof.
  revert n m. induction l as [|a l IH]; intros [|n] [|m] H; cbn; auto; try congruence.
Qed.
Lemma nth_app_new {A} (l : list A) x d : nth (length l) (l ++ [x]) d = x.
Proof. induction l; cbn; auto. Qed.
Lemma nth_app_old {A} (l : list A) x d n : n < length l -> nth n (l ++ [x]) d = nth n l d.
Proof. intro H. apply app_nth1; exact H. Qed.

Section Fresh.
Context {P G C : Type}.
Variable p0 : P.
Variable callP : nat -> option C -> P.
Variable fits : kind -> P -> G -> bool.
Variable spline_ok : G -> bool.
Variable cf : cfg.
Hypothesis Hcf : cfg_all cf = true.

Notation state := (state P G C).
Notation obj := (obj P G C).
Notation tval := (tval P G C p0).
Notation get_obj := (get_obj P G C).
Notation set_obj := (set_obj P G C).
Notation get_params := (get_params P G C).
Notation data_ref := (data_ref P G C).
Notation fresh_data := (fresh_data P G C callP fits).
Notation update1 := (update1 P G C p0 callP fits spline_ok cf).
Notation tensor1 := (tensor1 P G C p0 callP fits spline_ok cf).
Notation forward := (forward P G C p0 callP fits spline_ok cf).
Notation update := (update P G C p0 callP fits spline_ok cf).
Notation call := (call P G C p0 callP fits spline_ok cf).
Notation held := (held P G C p0 callP).
Notation tag_of := (tag_of P G C p0).
Notation bind := (bind P G C).
Notation with_obj := (with_obj P G C).

Lemma get_set_same s o ob x : get_obj s o = Some ob -> get_obj (set_obj s o x) o = Some x.
Proof. unfold get_obj, set_obj; cbn. apply nth_error_replace_same. Qed.
Lemma get_set_other s o o' x : o <> o' -> get_obj (set_obj s o x) o' = get_obj s o'.
Proof. unfold get_obj, set_obj; cbn. apply nth_error_replace_other. Qed.

(* the parameters an object resolves to do not depend on its buffers *)
Lemma get_params_set_p s s' ob r :
  pds P G C s' = pds P G C s -> get_params s' (set_p P G C ob r) = get_params s ob.
Proof. intro E. unfold get_params, get_pd. rewrite E. destruct ob; reflexivity. Qed.
Lemma get_params_pds s s' ob : pds P G C s' = pds P G C s -> get_params s' ob = get_params s ob.
Proof. intro E. unfold get_params, get_pd. rewrite E. reflexivity. Qed.

(* what the p-refresh of update() leaves behind: the reference update() will read, and its content *)
Definition src_ok (s : state) (o : nat) (s1 : state) (ob1 : obj) : Prop :=
  forall r s2, data_ref s1 ob1 = Ok r s2 ->
    s2 = s1 /\ match held s o with Some (p, _, _) => tval s1 r = p | None => False end.

Lemma refresh_ok s o ob ob1 s1 :
  get_obj s o = Some ob ->
  match o_p P G C ob with
  | Some _ => bind (fresh_data s ob) (fun r s1 => Ok (set_p P G C ob (Some r)) (set_obj s1 o (set_p P G C ob (Some r))))
  | None => Ok ob s
  end = Ok ob1 s1 ->
  get_obj s1 o = Some ob1 /\ o_kind P G C ob1 = o_kind P G C ob /\ o_grid P G C ob1 = o_grid P G C ob
  /\ o_inv P G C ob1 = o_inv P G C ob /\ src_ok s o s1 ob1.
Proof.
  intros Hg H. unfold src_ok, held. rewrite Hg.
  destruct (o_p P G C ob) as [pr|] eqn:Ep.
  - unfold fresh_data, bind in H.
    destruct (get_params s ob) as [[| r ip | f | o']|] eqn:Egp; try discriminate.
    + (* tensor *) inversion H; subst; clear H.
      rewrite (get_set_same _ _ _ _ Hg). repeat split; try (destruct ob; reflexivity).
      unfold data_ref in H. rewrite (get_params_set_p s) in H by reflexivity. rewrite Egp in H.
      inversion H; reflexivity.
      unfold data_ref in H. rewrite (get_params_set_p s) in H by reflexivity. rewrite Egp in H.
      inversion H; subst. reflexivity.
    + (* callable *)
      destruct (fits (o_kind P G C ob) (callP f (o_cond P G C ob)) (o_grid P G C ob)); try discriminate.
      cbn in H. inversion H; subst; clear H.
      split. { unfold get_obj, set_obj; cbn. apply nth_error_replace_same with (y := ob). exact Hg. }
      repeat split; try (destruct ob; reflexivity).
      * unfold data_ref in H. rewrite (get_params_set_p s) in H by reflexivity. rewrite Egp in H.
        destruct ob; cbn in *. inversion H; reflexivity.
      * unfold data_ref in H. rewrite (get_params_set_p s) in H by reflexivity. rewrite Egp in H.
        assert (E : r = length (tens P G C s)) by (destruct ob; cbn in *; inversion H; reflexivity).
        subst r. unfold TransformState.tval. cbn. apply nth_app_new.
    + (* link *)
      unfold with_obj in H. fold (get_obj s o') in H. destruct (get_obj s o') as [ob'|] eqn:Eo'; try discriminate.
      destruct (data_ref s ob') as [r s'|] eqn:Ed; try discriminate.
      assert (s' = s).
      { unfold data_ref in Ed. destruct (get_params s ob') as [[| ? ? | ? | ?]|]; try discriminate;
        try (inversion Ed; reflexivity); destruct (o_p P G C ob'); try discriminate; inversion Ed; reflexivity. }
      subst s'. cbn in H. inversion H; subst; clear H.
      rewrite (get_set_same _ _ _ _ Hg). repeat split; try (destruct ob; reflexivity).
      * unfold data_ref in H. rewrite (get_params_set_p s) in H by reflexivity. rewrite Egp in H.
        destruct ob; cbn in *. inversion H; reflexivity.
      * unfold data_ref in H. rewrite (get_params_set_p s) in H by reflexivity. rewrite Egp in H.
        assert (E : r0 = r) by (destruct ob; cbn in *; inversion H; reflexivity). subst r0. reflexivity.
  - inversion H; subst; clear H. rewrite Hg. repeat split.
    + unfold data_ref in H. destruct (get_params s1 ob1) as [[| r' ip | f | o']|]; try discriminate;
        try (inversion H; reflexivity); rewrite Ep in H; discriminate.
    + unfold data_ref in H. destruct (get_params s1 ob1) as [[| r' ip | f | o']|]; try discriminate;
        try (rewrite Ep in H; discriminate). inversion H; subst. reflexivity.
Qed.

Definition single (s : state) (o : nat) : Prop :=
  match get_obj s o with Some ob => o_kind P G C ob <> KSeq | None => False end.

Lemma kind_set_uv (ob : obj) u v : o_kind P G C (set_uv P G C ob u v) = o_kind P G C ob.
Proof. destruct ob; reflexivity. Qed.
Lemma u_set_uv (ob : obj) u v : o_u P G C (set_uv P G C ob u v) = u.
Proof. destruct ob; reflexivity. Qed.

Lemma held_shape s o ob p g sg :
  get_obj s o = Some ob -> held s o = Some (p, g, sg) -> g = o_grid P G C ob /\ sg = sign_of P G C ob.
Proof.
  intros Hg H. unfold TransformState.held in H. fold (get_obj s o) in H. rewrite Hg in H.
  destruct (get_params s ob) as [[| r' ip | f | o']|]; try discriminate.
  1, 2: inversion H; auto.
  destruct (TransformState.get_obj _ _ _ s o') as [ob'|]; try discriminate.
  destruct (TransformState.data_ref _ _ _ s ob'); try discriminate. inversion H; auto.
Qed.

Lemma tag_view s' s2 k r g sg :
  tens P G C s' = tens P G C s2 -> tag_of s' (mk_view P G C p0 fits s2 k r g sg) = (tval s2 r, g, sg).
Proof.
  intro E. unfold mk_view. destruct (fits k (tval s2 r) g); unfold TransformState.tag_of; cbn; auto.
  unfold TransformState.tval. rewrite E. reflexivity.
Qed.

(* after update() the value tensor() returns is the state held before the call *)
Lemma update1_then_tensor s o s1 :
  single s o -> update1 s o = Ok tt s1 ->
  forall t s2, tensor1 s1 o = Ok t s2 -> held s o = Some t.
Proof.
  destruct (cfg_all_fields _ Hcf) as (_ & _ & _ & _ & _ & _ & Htu & Hup & _ & Huu & _).
  unfold single. intros Hs Hu t s2 Ht.
  destruct (get_obj s o) as [ob|] eqn:Hg; [|contradiction].
  unfold TransformState.update1, TransformState.with_obj in Hu. fold (get_obj s o) in Hu. rewrite Hg, Hup, Huu in Hu.
  unfold TransformState.bind at 1 in Hu.
  match type of Hu with context [match ?m with Ok a s => _ | Er e s => Er e s end] => destruct m as [ob1 s1'|] eqn:Er end;
    try discriminate.
  assert (Er' : match o_p P G C ob with
                | Some _ => bind (fresh_data s ob) (fun r s1 => Ok (set_p P G C ob (Some r)) (set_obj s1 o (set_p P G C ob (Some r))))
                | None => Ok ob s end = Ok ob1 s1').
  { destruct (o_p P G C ob); exact Er. }
  destruct (refresh_ok s o ob ob1 s1' Hg Er') as (Hg1 & Hk & Hgr & Hiv & Hsrc). clear Er Er'.
  unfold src_ok in Hsrc.
  assert (Hfin : forall r, data_ref s1' ob1 = Ok r s1' ->
                 forall sg, sg = sign_of P G C ob -> held s o = Some (tval s1' r, o_grid P G C ob1, sg)).
  { intros r Ed sg ->. destruct (Hsrc _ _ Ed) as [_ Hv].
    destruct (held s o) as [[[p g] sg]|] eqn:Eh; [|contradiction].
    destruct (held_shape _ _ _ _ _ _ Hg Eh) as [-> ->]. subst p. rewrite Hgr. reflexivity. }
  unfold TransformState.tensor1, TransformState.with_obj in Ht. fold (get_obj s1 o) in Ht.
  assert (Hsg : sign_of P G C ob = if invertible (o_kind P G C ob) then o_inv P G C ob1 else false).
  { unfold sign_of. rewrite Hiv. reflexivity. }
  destruct (o_kind P G C ob) eqn:Ek; try congruence; rewrite Hk in Hu; cbn in Hsg.
  all: try (unfold TransformState.bind in Hu; destruct (data_ref s1' ob1) as [r s2'|] eqn:Ed; try discriminate;
            destruct (Hsrc _ _ eq_refl) as [-> _]; cbn [is_spline andb] in Hu;
            repeat match type of Hu with context [if ?c then _ else _] => destruct c; try discriminate end;
            injection Hu as <-;
            rewrite (get_set_same _ _ _ _ Hg1) in Ht;
            rewrite kind_set_uv, Hk, u_set_uv in Ht;
            injection Ht as <- _).
  - (* KDisp *) rewrite tag_view by reflexivity. apply Hfin; auto.
  - (* KSvf *) unfold TransformState.tag_of; cbn. rewrite <- Hsg. apply Hfin; auto.
  - (* KFfd *) unfold TransformState.tag_of; cbn. apply Hfin; auto.
  - (* KSvffd *) unfold TransformState.tag_of; cbn. rewrite <- Hsg. apply Hfin; auto.
  - (* KLin *)
    injection Hu as <-. rewrite Hg1, Hk in Ht. unfold TransformState.bind in Ht.
    destruct (data_ref s1' ob1) as [r s2'|] eqn:Ed; try discriminate.
    destruct (Hsrc _ _ eq_refl) as [-> _]. injection Ht as <- _. rewrite <- Hsg. apply Hfin; auto.
Qed.

Lemma update1_keeps s o s1 ob :
  get_obj s o = Some ob -> update1 s o = Ok tt s1 ->
  exists ob1, get_obj s1 o = Some ob1 /\ o_kind P G C ob1 = o_kind P G C ob.
Proof.
  destruct (cfg_all_fields _ Hcf) as (_ & _ & _ & _ & _ & _ & Htu & Hup & _ & Huu & _).
  intros Hg Hu.
  unfold TransformState.update1, TransformState.with_obj in Hu. fold (get_obj s o) in Hu. rewrite Hg, Hup, Huu in Hu.
  unfold TransformState.bind at 1 in Hu.
  match type of Hu with context [match ?m with Ok a s => _ | Er e s => Er e s end] => destruct m as [ob1 s1'|] eqn:Er end;
    try discriminate.
  assert (Er' : match o_p P G C ob with
                | Some _ => bind (fresh_data s ob) (fun r s1 => Ok (set_p P G C ob (Some r)) (set_obj s1 o (set_p P G C ob (Some r))))
                | None => Ok ob s end = Ok ob1 s1').
  { destruct (o_p P G C ob); exact Er. }
  destruct (refresh_ok s o ob ob1 s1' Hg Er') as (Hg1 & Hk & Hgr & Hiv & Hsrc). clear Er Er'.
  unfold src_ok in Hsrc.
  destruct (o_kind P G C ob1) eqn:Ek1.
  all: try (unfold TransformState.bind in Hu; destruct (data_ref s1' ob1) as [r s2'|] eqn:Ed; try discriminate;
            destruct (Hsrc _ _ eq_refl) as [-> _]; cbn [is_spline andb] in Hu;
            repeat match type of Hu with context [if ?c then _ else _] => destruct c; try discriminate end;
            injection Hu as <-; eexists; split; [apply (get_set_same _ _ _ _ Hg1)|];
            rewrite kind_set_uv; congruence).
  all: injection Hu as <-; exists ob1; split; congruence.
Qed.

Theorem call_is_fresh s o l s' :
  single s o -> call s o = Ok l s' -> exists t, l = [t] /\ held s o = Some t.
Proof.
  destruct (cfg_all_fields _ Hcf) as (_ & _ & _ & _ & _ & _ & _ & _ & Hh & _).
  intros Hs Hc. unfold TransformState.call in Hc. rewrite Hh in Hc.
  pose proof Hs as Hs'. unfold single in Hs'.
  destruct (get_obj s o) as [ob|] eqn:Hg; [|contradiction].
  unfold TransformState.update, TransformState.with_obj in Hc. fold (get_obj s o) in Hc. rewrite Hg in Hc.
  assert (Hu : exists s1, update1 s o = Ok tt s1 /\ forward s1 o = Ok l s').
  { destruct (o_kind P G C ob) eqn:Ek; try congruence;
    unfold TransformState.bind in Hc; destruct (update1 s o) as [[] s1|] eqn:Eu; try discriminate; eauto. }
  destruct Hu as (s1 & Hu & Hf).
  destruct (update1_keeps _ _ _ _ Hg Hu) as (ob1 & Hg1 & Hk1).
  unfold TransformState.forward, TransformState.with_obj in Hf. fold (get_obj s1 o) in Hf. rewrite Hg1, Hk1 in Hf.
  destruct (o_kind P G C ob) eqn:Ek; try congruence.
  all: unfold TransformState.bind in Hf; destruct (tensor1 s1 o) as [t s2|] eqn:Et; try discriminate;
    injection Hf as <- _; exists t; split; auto;
    eapply update1_then_tensor; eauto.
Qed.

End Fresh.
