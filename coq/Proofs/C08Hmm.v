From Coq Require Import ZArith List Field Ring Lia.
From DV Require Import Base.Field Base.FieldFacts Base.LinAlg Base.Tactics Model.Enums Model.Homog Gen.Hmm.
Import ListNotations.
Local Open Scope fld_scope.

Section Proofs.
Variable K : fld.
Hypothesis Kf : is_field K.
Add Field KF : Kf.

Lemma map_seq_nth_id {A} (l : list A) d : map (fun i => nth i l d) (seq 0 (length l)) = l.
Proof.
  apply nth_ext with (d := d) (d' := d); [now rewrite map_length, seq_length|].
  intros i Hi. rewrite map_length, seq_length in Hi.
  rewrite (nth_indep _ d (nth 0%nat l d)) by now rewrite map_length, seq_length.
  rewrite (map_nth (fun i => nth i l d) (seq 0 (length l)) 0%nat i), seq_nth by assumption.
  reflexivity.
Qed.

Lemma tab_all (r c : nat) (m : list (list K)) :
  mshape r c m -> m = tab r c (fun i j => nth j (nth i m []) 0).
Proof.
  intros [Hr Hc]. unfold tab. subst r.
  rewrite <- (map_seq_nth_id m []) at 1.
  apply map_ext_in. intros i Hi. apply in_seq in Hi.
  assert (Hl : length (nth i m []) = c).
  { rewrite Forall_forall in Hc. apply Hc. apply nth_In. lia. }
  rewrite <- Hl. symmetry. apply map_seq_nth_id.
Qed.

Lemma hmm_compose (D : nat) (fa fb : form) (a b : nat -> nat -> K) (x : nat -> K) :
  D = 2%nat \/ D = 3%nat ->
  let A := tab D (fcols D fa) a in
  let B := tab D (fcols D fb) b in
  let X := vtab D x in
  form_apply D (gen_hmm_form fa fb) (gen_hmm D fa fb A B) X
  = form_apply D fa A (form_apply D fb B X).
Proof. intros [-> | ->]; destruct fa, fb; fcbv; list_eq; ring. Qed.

Lemma ashom_same_map (D : nat) (f : form) (a : nat -> nat -> K) (x : nat -> K) :
  D = 2%nat \/ D = 3%nat ->
  let A := tab D (fcols D f) a in
  let X := vtab D x in
  happly D (gen_ashom D f A) X = form_apply D f A X
  /\ hvec D (gen_ashom D f A) X = form_vec D f A X
  /\ mshape D (S D) (gen_ashom D f A).
Proof.
  intros [-> | ->]; destruct f; (split; [|split]); try (fcbv; list_eq; ring);
    (split; [reflexivity | repeat constructor]).
Qed.

Lemma apply_is_map (D : nat) (f : form) (a : nat -> nat -> K) (x : nat -> K) :
  D = 2%nat \/ D = 3%nat ->
  let A := tab D (fcols D f) a in
  let X := vtab D x in
  gen_apply D f false A X = form_apply D f A X /\ gen_apply D f true A X = form_vec D f A X.
Proof. intros [-> | ->]; destruct f; split; fcbv; list_eq; ring. Qed.

(* vectors = the linear part: translation is dropped, nothing else *)
Lemma vec_is_linear_part (D : nat) (f : form) (a : nat -> nat -> K) (x v : nat -> K) :
  D = 2%nat \/ D = 3%nat ->
  let A := tab D (fcols D f) a in
  vsub (form_apply D f A (vadd (vtab D x) (vtab D v))) (form_apply D f A (vtab D x))
  = form_vec D f A (vtab D v).
Proof. intros [-> | ->]; destruct f; fcbv; list_eq; ring. Qed.
End Proofs.
