(* C10 -- Flow fields mean the same displacement in every vector representation.  Statements only.
   gvecs / gpts = Grid.transform_vectors / transform_points of a grid given by component functions (generated from
   core/grid.py: Gen/GridT.v, theorems of C01); axes_batch = FlowFields.axes on a batch whose items carry their own grids;
   repr A f = the field whose displacement in samples is f, expressed with respect to axes A; exp_spec2 / exp_code2 /
   warp2 = FlowFields.exp as specified / as coded / FlowFields.warp_image (Model/FlowRepr.v on Model/Flow.v, Model/Sampler.v). *)
From Coq Require Import ZArith QArith Qcanon List Lia.
From DV Require Import Base.Field Base.FieldFacts Base.LinAlg Base.QcInst Model.Enums Model.Homog Model.Grid Model.Sampler
  Model.SamplerQc Model.Flow Model.FlowQc Model.FlowRepr Gen.GridT Gen.FlowFields Gen.PointsetNorm Proofs.C11Interp Proofs.C11Compose Proofs.C11Expv
  Proofs.C13Compose Proofs.C10Axes Proofs.C10Conv Proofs.C10Repr Proofs.C10Conv3 Proofs.C10Sample Proofs.C10SampleLin Proofs.C10SampleLin3 Proofs.C10Spec Proofs.C10Norm.
Import ListNotations.

Section Statements.
Local Open Scope fld_scope.
Variable K : fld.
Hypothesis Kf : is_field K.
Hypothesis Kc : char0 K.
Variable floorK : K -> Z.

(* 1. axes conversion: invertible, path independent, identity on the same axes -- all 4 x 4 (x 4) representations, D in
      {2,3}, every oriented anisotropic grid (wf), batches of ANY size with one grid per item (induction over the batch) *)
Theorem C10_axes_roundtrip :
  forall (D : nat), D = 2%nat \/ D = 3%nat -> forall (A B : axes) (items : list (@item K)),
  Forall (wf_item D) items -> axes_batch D B A (axes_batch D A B items) = items.
Proof. exact (axes_roundtrip K Kf Kc). Qed.
Theorem C10_axes_path_independent :
  forall (D : nat), D = 2%nat \/ D = 3%nat -> forall (A B C' : axes) (items : list (@item K)),
  Forall (wf_item D) items -> axes_batch D B C' (axes_batch D A B items) = axes_batch D A C' items.
Proof. exact (axes_path_independent K Kf Kc). Qed.
Theorem C10_axes_same :
  forall (D : nat), D = 2%nat \/ D = 3%nat -> forall (A : axes) (items : list (@item K)),
  Forall (wf_item D) items -> axes_batch D A A items = items.
Proof. exact (axes_same K Kf Kc). Qed.
(* 2. ... and equal to the grid's own vector map: every converted vector is the difference of the item's grid's point map
      at x + v and at x, for every base point x *)
Theorem C10_axes_is_grid_vector_map :
  forall (D : nat), D = 2%nat \/ D = 3%nat -> forall (A B : axes) (items : list (@item K)),
  Forall (wf_item D) items ->
  Forall2 (fun it it' => fst it' = fst it /\
             Forall2 (fun v v' => forall X, length X = D ->
                        v' = vsub (gpts D A B (fst it) (vadd X v)) (gpts D A B (fst it) X)) (snd it) (snd it'))
          items (axes_batch D A B items).
Proof. exact (axes_is_grid_vector_map K Kf Kc). Qed.

(* 3. operating on cube vectors of either align_corners convention is the same index-space operation
      (compose_flows and expv on to_cube ac f give to_cube ac of a result that does not depend on ac) *)
Theorem C10_compose_convention_independent :
  forall ac pad nx ny f g, (2 <= nx)%Z -> (2 <= ny)%Z ->
  compose2g floorK ac ac pad (cube2 K ac nx ny f) (cube2 K ac nx ny g) = cube2 K ac nx ny (idx_comp K floorK pad nx ny f g).
Proof. exact (compose2_is_index_space K Kf Kc floorK). Qed.
Theorem C10_expv_convention_independent :
  forall ac nx ny scale inverse k f, (2 <= nx)%Z -> (2 <= ny)%Z ->
  expv2 floorK ac scale inverse k (cube2 K ac nx ny f)
  = cube2 K ac nx ny (idx_expv K floorK nx ny (expv_pre k (expv_scale scale inverse)) k f).
Proof. exact (expv2_is_index_space K Kf Kc floorK). Qed.

(* 4. warp_image and exp (as specified) are independent of the representation, on every wf grid whose sizes are the
      lattice's: same result for all 4 axes / converting commutes with exp *)
Theorem C10_warp_repr_independent :
  forall (nx ny : Z) (g : @gridf K), (2 <= nx)%Z -> (2 <= ny)%Z -> gwf 2 g ->
  fst (fst (fst g)) 0%nat = of_Z nx -> fst (fst (fst g)) 1%nat = of_Z ny ->
  forall pad A B img f, zlen img = ny -> zlen (hd [] img) = nx ->
  warp2 floorK pad A g img (repr K nx ny g A f) = warp2 floorK pad B g img (repr K nx ny g B f) /\
  field_map2 (gvecs 2 A B g) (repr K nx ny g A f) = repr K nx ny g B f.
Proof.
  intros nx ny g Hx Hy Hw H0 H1 pad A B img f Hi Hj. split.
  - now apply (warp2_repr_independent K Kf Kc floorK nx ny Hx Hy g Hw H0 H1).
  - now apply (repr_convert K Kf Kc nx ny Hx Hy g Hw).
Qed.
Theorem C10_exp_spec_repr_independent :
  forall (nx ny : Z) (g : @gridf K), (2 <= nx)%Z -> (2 <= ny)%Z -> gwf 2 g ->
  fst (fst (fst g)) 0%nat = of_Z nx -> fst (fst (fst g)) 1%nat = of_Z ny ->
  forall A B scale k f,
  field_map2 (gvecs 2 A B g) (exp_spec2 floorK A g scale k (repr K nx ny g A f)) = exp_spec2 floorK B g scale k (repr K nx ny g B f).
Proof. intros nx ny g Hx Hy Hw H0 H1. exact (exp_spec2_repr_independent K Kf Kc floorK nx ny Hx Hy g Hw H0 H1). Qed.

(* 5. FlowFields.exp AS CODED (flow = self.axes(cube); data = flow.tensor(); expv; back to the original axes) is the
      specification for ALL FOUR axes and every field, hence independent of the representation *)
Theorem C10_exp_code_is_spec :
  forall (g : @gridf K) A scale k u2 u3,
  exp_code2 floorK A g scale k u2 = exp_spec2 floorK A g scale k u2 /\
  exp_code3 floorK A g scale k u3 = exp_spec3 floorK A g scale k u3.
Proof. intros. split; reflexivity. Qed.
Theorem C10_exp_repr_independent :
  forall (nx ny : Z) (g : @gridf K), (2 <= nx)%Z -> (2 <= ny)%Z -> gwf 2 g ->
  fst (fst (fst g)) 0%nat = of_Z nx -> fst (fst (fst g)) 1%nat = of_Z ny ->
  forall A B scale k f,
  field_map2 (gvecs 2 A B g) (exp_code2 floorK A g scale k (repr K nx ny g A f)) = exp_code2 floorK B g scale k (repr K nx ny g B f).
Proof. intros nx ny g Hx Hy Hw H0 H1. exact (exp_code2_repr_independent K Kf Kc floorK nx ny Hx Hy g Hw H0 H1). Qed.

(* 6. the same in three dimensions (compose / expv convention independence, exp as specified representation independent,
      exp as coded = specification for cube axes) *)
Theorem C10_compose_convention_independent_3d :
  forall ac pad nx ny nz f g, (2 <= nx)%Z -> (2 <= ny)%Z -> (2 <= nz)%Z ->
  compose3g floorK ac ac pad (to_cube3 K ac nx ny nz f) (to_cube3 K ac nx ny nz g)
  = to_cube3 K ac nx ny nz (idx_comp3 K floorK pad nx ny nz f g).
Proof. exact (compose3_is_index_space K Kf Kc floorK). Qed.
Theorem C10_expv_convention_independent_3d :
  forall ac nx ny nz scale inverse k f, (2 <= nx)%Z -> (2 <= ny)%Z -> (2 <= nz)%Z ->
  expv3 floorK ac scale inverse k (to_cube3 K ac nx ny nz f)
  = to_cube3 K ac nx ny nz (idx_expv3 K floorK nx ny nz (expv_pre k (expv_scale scale inverse)) k f).
Proof. exact (expv3_is_index_space K Kf Kc floorK). Qed.
Theorem C10_exp_spec_repr_independent_3d :
  forall (nx ny nz : Z), (2 <= nx)%Z -> (2 <= ny)%Z -> (2 <= nz)%Z -> forall (g : @gridf K), gwf 3 g ->
  fst (fst (fst g)) 0%nat = of_Z nx -> fst (fst (fst g)) 1%nat = of_Z ny -> fst (fst (fst g)) 2%nat = of_Z nz ->
  forall A B scale k f,
  field_map3 (gvecs 3 A B g) (exp_spec3 floorK A g scale k (repr3 K nx ny nz g A f)) = exp_spec3 floorK B g scale k (repr3 K nx ny nz g B f).
Proof. exact (exp_spec3_repr_independent K Kf Kc floorK). Qed.
Theorem C10_warp_repr_independent_3d :
  forall (nx ny nz : Z), (2 <= nx)%Z -> (2 <= ny)%Z -> (2 <= nz)%Z -> forall (g : @gridf K), gwf 3 g ->
  fst (fst (fst g)) 0%nat = of_Z nx -> fst (fst (fst g)) 1%nat = of_Z ny -> fst (fst (fst g)) 2%nat = of_Z nz ->
  forall pad A B img f, zlen img = nz -> zlen (hd [] img) = ny -> zlen (hd [] (hd [] img)) = nx ->
  warp3 floorK pad A g img (repr3 K nx ny nz g A f) = warp3 floorK pad B g img (repr3 K nx ny nz g B f).
Proof. exact (warp3_repr_independent K Kf Kc floorK). Qed.
Theorem C10_exp_repr_independent_3d :
  forall (nx ny nz : Z), (2 <= nx)%Z -> (2 <= ny)%Z -> (2 <= nz)%Z -> forall (g : @gridf K), gwf 3 g ->
  fst (fst (fst g)) 0%nat = of_Z nx -> fst (fst (fst g)) 1%nat = of_Z ny -> fst (fst (fst g)) 2%nat = of_Z nz ->
  forall A B scale k f,
  field_map3 (gvecs 3 A B g) (exp_code3 floorK A g scale k (repr3 K nx ny nz g A f)) = exp_code3 floorK B g scale k (repr3 K nx ny nz g B f).
Proof. exact (exp_code3_repr_independent K Kf Kc floorK). Qed.

(* 7. resampling on another grid: the vector re-scaling of FlowFields.sample (axes A of g -> axes A of g') commutes with
      changing the representation (both are the two-grid vector map A@g -> B@g'), and is the identity on the same grid;
      D in {2,3}, every pair of well-formed grids, all axes pairs *)
Theorem C10_sample_vectors_repr_independent :
  forall (D : nat), D = 2%nat \/ D = 3%nat -> forall (g g' : @gridf K) (A B : axes) (V : list K),
  gwf D g -> gwf D g' -> length V = D ->
  gvecs D A B g' (gvecs2 D A A g g' V) = gvecs2 D B B g g' (gvecs D A B g V) /\
  gvecs D A B g' (gvecs2 D A A g g' V) = gvecs2 D A B g g' V /\
  gvecs2 D A A g g V = V.
Proof.
  intros D HD g g' A B V Hw Hw' HV. split; [|split].
  - now apply (regrid_commutes_with_axes K Kf Kc D HD).
  - now apply (regrid_then_convert K Kf Kc D HD).
  - now apply (regrid_same K Kf Kc D HD).
Qed.

(* 8. FlowFields.sample AS A WHOLE (resample every channel at the target grid's points mapped into the source cube, zeros
      or border padding, then re-scale the vectors to the new grid) commutes with changing the representation:
      sample o axes = axes o sample, all 16 axes pairs, both conventions, any source / target lattice sizes, any two
      well-formed grids -- Grid.transform_vectors is a constant matrix per item and multilinear sampling is linear per channel *)
Theorem C10_sample_commutes_with_axes_2d :
  forall pad ac (A B : axes) (g g' : @gridf K) nx ny nx' ny' f0 f1,
  (1 <= nx)%Z -> (1 <= ny)%Z -> (1 <= nx')%Z -> (1 <= ny')%Z -> gwf 2 g -> gwf 2 g' ->
  sample_item2 floorK pad ac B g g' nx' ny' (field_map2 (gvecs 2 A B g) (field2 K nx ny f0 f1))
  = field_map2 (gvecs 2 A B g') (sample_item2 floorK pad ac A g g' nx' ny' (field2 K nx ny f0 f1)).
Proof. exact (sample_item2_commutes_with_axes K Kf Kc floorK). Qed.
Theorem C10_sample_commutes_with_axes_3d :
  forall pad ac (A B : axes) (g g' : @gridf K) nx ny nz nx' ny' nz' f0 f1 f2,
  (1 <= nx)%Z -> (1 <= ny)%Z -> (1 <= nz)%Z -> (1 <= nx')%Z -> (1 <= ny')%Z -> (1 <= nz')%Z -> gwf 3 g -> gwf 3 g' ->
  sample_item3 floorK pad ac B g g' nx' ny' nz' (field_map3 (gvecs 3 A B g) (field3 K nx ny nz f0 f1 f2))
  = field_map3 (gvecs 3 A B g') (sample_item3 floorK pad ac A g g' nx' ny' nz' (field3 K nx ny nz f0 f1 f2)).
Proof. exact (sample_item3_commutes_with_axes K Kf Kc floorK). Qed.

(* 9. the closed forms of Grid.transform_vectors traced from core/grid.py ARE the specified vector maps through index space
      (Model/Grid.v Tv_map = from_index_vec B o to_index_vec A; e.g. WORLD -> CUBE: v -> diag(2/n) diag(1/s) R^T v), for all
      axes pairs other than WORLD -> WORLD (which is the identity by C10_axes_same) *)
Theorem C10_transform_vectors_closed_forms :
  forall (A B : axes) (n s c : nat -> K) (d : nat -> nat -> K), not_both_world A B ->
  (wf 2 n s d -> forall v0 v1, gvecs 2 A B (n, s, c, d) [v0; v1] = Tv_map 2 A B (vtab 2 n) (vtab 2 s) (tab 2 2 d) [v0; v1]) /\
  (wf 3 n s d -> forall v0 v1 v2, gvecs 3 A B (n, s, c, d) [v0; v1; v2] = Tv_map 3 A B (vtab 3 n) (vtab 3 s) (tab 3 3 d) [v0; v1; v2]).
Proof.
  intros A B n s c d HW. split; intros Hw **; [now apply (gvecs_spec2 K Kf Kc) | now apply (gvecs_spec3 K Kf Kc)].
Qed.

(* 10. the glue of data/flow.py traced from the source (Gen/FlowFields.v: FlowFields methods run on symbolic tensors and grids,
       expv / warp_image / ImageBatch.sample recorded) makes the choices the model makes: which cube representation and flag
       exp and warp_image work in, that the tensor handed to expv IS the converted one and the result is converted back, that
       sample re-scales the vectors of every representation to the new grids (axes itself is checked structurally against
       Grid.transform_vectors item by item for all 16 pairs) *)
Theorem C10_flowfields_glue_is_model :
  forall A : axes,
  gen_ff_exp_ac A = axes_ac A /\ gen_ff_exp_cube A = cube_of (axes_ac A) /\ gen_ff_exp_restores A = true /\
  gen_ff_warp_ac A = axes_ac A /\ gen_ff_warp_coords_ac A = axes_ac A /\ gen_ff_warp_cube A = cube_of (axes_ac A) /\
  gen_ff_sample_rescales A = true.
Proof. intros []; repeat split; reflexivity. Qed.

(* 11. the normalise / denormalise helpers (core/pointset.py normalize_grid, denormalize_grid; core/flow.py normalize_flow,
       denormalize_flow; traced per axis, Gen/PointsetNorm.v) are the grid's own GRID <-> CUBE / CUBE_CORNERS point and vector
       maps for both flags, D in {2,3}, every well-formed grid; they are mutually inverse; sample index i is normalised to the
       coordinate Grid.coords reports for it *)
Theorem C10_normalize_helpers_are_grid_maps :
  forall ac (n s c : nat -> K) (d : nat -> nat -> K) (x0 x1 x2 : K),
  (wf 2 n s d ->
   gpts 2 GRID (cube_of ac) (n, s, c, d) [x0; x1] = [gen_normalize_grid ac (n 0%nat) x0; gen_normalize_grid ac (n 1%nat) x1] /\
   gpts 2 (cube_of ac) GRID (n, s, c, d) [x0; x1] = [gen_denormalize_grid ac (n 0%nat) x0; gen_denormalize_grid ac (n 1%nat) x1] /\
   gvecs 2 GRID (cube_of ac) (n, s, c, d) [x0; x1] = [gen_normalize_flow ac (n 0%nat) x0; gen_normalize_flow ac (n 1%nat) x1] /\
   gvecs 2 (cube_of ac) GRID (n, s, c, d) [x0; x1] = [gen_denormalize_flow ac (n 0%nat) x0; gen_denormalize_flow ac (n 1%nat) x1]) /\
  (wf 3 n s d ->
   gpts 3 GRID (cube_of ac) (n, s, c, d) [x0; x1; x2]
     = [gen_normalize_grid ac (n 0%nat) x0; gen_normalize_grid ac (n 1%nat) x1; gen_normalize_grid ac (n 2%nat) x2] /\
   gpts 3 (cube_of ac) GRID (n, s, c, d) [x0; x1; x2]
     = [gen_denormalize_grid ac (n 0%nat) x0; gen_denormalize_grid ac (n 1%nat) x1; gen_denormalize_grid ac (n 2%nat) x2] /\
   gvecs 3 GRID (cube_of ac) (n, s, c, d) [x0; x1; x2]
     = [gen_normalize_flow ac (n 0%nat) x0; gen_normalize_flow ac (n 1%nat) x1; gen_normalize_flow ac (n 2%nat) x2] /\
   gvecs 3 (cube_of ac) GRID (n, s, c, d) [x0; x1; x2]
     = [gen_denormalize_flow ac (n 0%nat) x0; gen_denormalize_flow ac (n 1%nat) x1; gen_denormalize_flow ac (n 2%nat) x2]).
Proof.
  intros. split; intro Hw; [now apply (normalize_is_grid_map2 K Kf Kc) | now apply (normalize_is_grid_map3 K Kf Kc)].
Qed.
Theorem C10_normalize_helpers_inverse :
  forall ac (n x : K), n <> 0 -> n - 1 <> 0 ->
  gen_denormalize_grid ac n (gen_normalize_grid ac n x) = x /\ gen_normalize_grid ac n (gen_denormalize_grid ac n x) = x /\
  gen_denormalize_flow ac n (gen_normalize_flow ac n x) = x /\ gen_normalize_flow ac n (gen_denormalize_flow ac n x) = x.
Proof. exact (norm_denorm K Kf Kc). Qed.
Theorem C10_normalize_grid_is_coords :
  forall ac (n : Z) (p : K), (2 <= n)%Z -> gen_normalize_grid ac (of_Z n) p = ncoordK ac n p.
Proof. exact (normalize_grid_is_coords K Kf Kc). Qed.

(* 12. a.append(b) (traced): the appended batch is first converted from ITS axes to a's axes with its own grids, for all 16
       axes pairs -- so the concatenated batch means the same world-space vectors item by item (by the C10_axes theorems) *)
Theorem C10_append_converts_axes : forall A B : axes, gen_ff_append_converts A B = true.
Proof. intros [] []; reflexivity. Qed.
End Statements.

Print Assumptions C10_axes_roundtrip.
Print Assumptions C10_axes_path_independent.
Print Assumptions C10_axes_same.
Print Assumptions C10_axes_is_grid_vector_map.
Print Assumptions C10_compose_convention_independent.
Print Assumptions C10_expv_convention_independent.
Print Assumptions C10_warp_repr_independent.
Print Assumptions C10_exp_spec_repr_independent.
Print Assumptions C10_exp_code_is_spec.
Print Assumptions C10_exp_repr_independent.
Print Assumptions C10_compose_convention_independent_3d.
Print Assumptions C10_expv_convention_independent_3d.
Print Assumptions C10_exp_spec_repr_independent_3d.
Print Assumptions C10_exp_repr_independent_3d.
Print Assumptions C10_warp_repr_independent_3d.
Print Assumptions C10_sample_vectors_repr_independent.
Print Assumptions C10_sample_commutes_with_axes_2d.
Print Assumptions C10_sample_commutes_with_axes_3d.
Print Assumptions C10_transform_vectors_closed_forms.
Print Assumptions C10_flowfields_glue_is_model.
Print Assumptions C10_append_converts_axes.
Print Assumptions C10_normalize_helpers_are_grid_maps.
Print Assumptions C10_normalize_helpers_inverse.
Print Assumptions C10_normalize_grid_is_coords.

(* regression witness: the variant that exponentiates the UNCONVERTED tensor (the defect repaired in /repo 245f8d5) is
   told apart from the specification -- WORLD axes on a 3 x 2 anisotropic rotated grid *)
Definition wg : @gridf QcF :=
  (fun i => nth i [q 3 1; q 2 1] (q 1 1), fun i => nth i [q 1 2; q 2 1] (q 1 1), fun i => nth i [q 10 1; q (-3) 1] (q 0 1),
   fun i j => nth j (nth i [[q 3 5; q (-4) 5]; [q 4 5; q 3 5]] []) (q 0 1)).
Definition wu : list (list (list Qc)) :=
  [[[q 1 8; q (-1) 8; q 1 16]; [q 0 1; q 1 8; q 1 4]]; [[q 1 4; q 0 1; q (-1) 8]; [q 1 16; q 1 8; q 0 1]]].
Theorem C10_exp_unconverted_differs :
  feqb2 (exp_unconverted2 (K:=QcF) floorQ WORLD wg (q 1 1) 2 wu) (exp_code2 (K:=QcF) floorQ WORLD wg (q 1 1) 2 wu) = false.
Proof. vm_compute. reflexivity. Qed.
Print Assumptions C10_exp_unconverted_differs.

(* non-vacuity: the witness grid is well-formed (rotated, anisotropic), the conversions are not trivial, and a round trip
   through WORLD on it computes to the identity *)
Example C10_nonvacuous :
  gwf 2 wg /\
  (let it : @item QcF := (wg, [[q 1 2; q (-1) 4]; [q 3 1; q 1 8]]) in
   all2 veqb (snd (axes_item 2 WORLD CUBE (axes_item 2 CUBE WORLD it))) (snd it) = true /\
   all2 veqb (snd (axes_item 2 CUBE WORLD it)) (snd it) = false).
Proof.
  split.
  - unfold gwf, wg, wf. repeat split.
    + intros [|[|i]] Hi; try lia; apply qeqb_neq; vm_compute; reflexivity.
    + intros [|[|i]] Hi; try lia; apply qeqb_neq; vm_compute; reflexivity.
    + intros [|[|i]] Hi; try lia; apply qeqb_neq; vm_compute; reflexivity.
    + apply meqb_eq. vm_compute. reflexivity.
    + apply meqb_eq. vm_compute. reflexivity.
  - vm_compute. split; reflexivity.
Qed.

(* non-vacuity of the sample theorems: a second well-formed grid (other size / spacing), on which resampling the witness
   field is not trivial and the two sides of the commutation theorem (WORLD -> CUBE) compute to the same field *)
Definition wg' : @gridf QcF :=
  (fun i => nth i [q 2 1; q 3 1] (q 1 1), fun i => nth i [q 1 1; q 1 1] (q 1 1), fun i => nth i [q 10 1; q (-3) 1] (q 0 1),
   fun i j => nth j (nth i [[q 3 5; q (-4) 5]; [q 4 5; q 3 5]] []) (q 0 1)).
Example C10_sample_nonvacuous :
  feqb2 (sample_item2 (K:=QcF) floorQ PZeros false WORLD wg wg' 2 3 wu) [[[q 0 1; q 0 1]; [q 0 1; q 0 1]; [q 0 1; q 0 1]]; [[q 0 1; q 0 1]; [q 0 1; q 0 1]; [q 0 1; q 0 1]]] = false /\
  feqb2 (sample_item2 (K:=QcF) floorQ PZeros false CUBE wg wg' 2 3 (field_map2 (gvecs 2 WORLD CUBE wg) wu))
        (field_map2 (gvecs 2 WORLD CUBE wg') (sample_item2 (K:=QcF) floorQ PZeros false WORLD wg wg' 2 3 wu)) = true.
Proof. vm_compute. split; reflexivity. Qed.
