(* C19 -- the FlowFields(batch) constructor: the flow fields carry the grids of the batch, entry by entry and in order,
   and the axes of the vectors (those of the operand if it is a FlowFields, the default of its first grid otherwise). *)
From Coq Require Import List ZArith Bool Arith Lia.
From DV Require Import Model.Enums Model.Batch Model.BatchSpec Proofs.C19Base.
Import ListNotations.
Local Arguments ndim : simpl never.

Section Ctor.
Variable gshape : gid -> shape.
Variable gaxes : gid -> axes.

Lemma forallb_shape_ok sh gs :
  Forall (fun g => gshape g = skipn 2 sh) gs -> forallb (fun g => shape_eqb (gshape g) (skipn 2 sh)) gs = true.
Proof.
  intros H. apply forallb_forall. intros g Hg. rewrite Forall_forall in H. rewrite (H g Hg).
  unfold shape_eqb. destruct (list_eq_dec Nat.eq_dec (skipn 2 sh) (skipn 2 sh)); [reflexivity|congruence].
Qed.

Theorem as_flows_sound sh fl gs :
  wf_val gshape (mkT sh (TBatch fl gs)) ->
  match run_op gshape gaxes OAsFlows [mkT sh (TBatch fl gs)] with
  | OOne o => v_shape o = sh /\ v_src o = ident_src 0 (nent sh) /\ wf_val gshape (val_of o)
              /\ exists ax, v_kind o = TBatch (Some ax) gs
                 /\ (forall a, fl = Some a -> ax = a)
                 /\ (fl = None -> exists g0, hd_error gs = Some g0 /\ ax = gaxes g0)
  | OErr _ => nth 1 sh 0 <> ndim sh - 2 \/ (fl = None /\ gs = [])
  | OTuple _ => False
  end.
Proof.
  intros Hwf. pose proof Hwf as (HL & H4 & HF). cbn [t_kind t_shape] in HL, H4, HF.
  unfold run_op. cbn [nth t_shape t_kind].
  assert (E4 : (ndim sh <? 4) = false) by (apply Nat.ltb_ge; exact H4).
  rewrite E4, (forallb_shape_ok sh gs HF). cbn [orb negb].
  destruct (nth 1 sh 0 =? ndim sh - 2) eqn:Ec; cbn [negb].
  - destruct fl as [ax|].
    + cbn [v_shape v_src v_kind val_of]. repeat split; auto.
      exists ax. repeat split; auto. intros a Ha. now injection Ha. discriminate.
    + destruct gs as [|g0 r].
      * right. auto.
      * cbn [v_shape v_src v_kind val_of]. repeat split; auto.
        exists (gaxes g0). repeat split; auto. discriminate. intros _. exists g0. auto.
  - left. apply Nat.eqb_neq. exact Ec.
Qed.
End Ctor.
