"""Implementation-side runner for C12 (runs against /repo's working tree)."""
import itertools
import json
import math
import random
import sys

import torch

from vlib import emit_json

from deepali.core import flow as FL
from deepali.core.image import finite_differences, spatial_derivatives

FD_MODES = ["forward", "backward", "central", "forward_central_backward", "prewitt", "sobel"]


def err(e):
    return {"error": type(e).__name__, "msg": str(e)[:200]}


def model_cases(p):
    out = []
    for c in p["cases"]:
        try:
            k = c["kind"]
            if k == "fd":
                data = torch.tensor(c["data"], dtype=torch.float64)
                r = finite_differences(data, c["sdim"], mode=c["mode"], spacing=c["spacing"])
                out.append({"val": r.tolist(), "shape": list(r.shape)})
            elif k == "sderiv":
                data = torch.tensor(c["data"], dtype=torch.float64)
                r = spatial_derivatives(data, which=c["which"], mode=c["mode"], spacing=c["spacing"])
                out.append({"keys": list(r.keys()), "val": {kk: v.tolist() for kk, v in r.items()},
                            "shape": {kk: list(v.shape) for kk, v in r.items()}})
            elif k == "flowderiv":
                data = torch.tensor(c["data"], dtype=torch.float64)
                r = FL.flow_derivatives(data, which=c["which"], mode=c["mode"], spacing=c["spacing"])
                out.append({"keys": list(r.keys()), "val": {kk: v.tolist() for kk, v in r.items()},
                            "shape": {kk: list(v.shape) for kk, v in r.items()}})
            elif k == "flowop":
                u = torch.tensor(c["u"], dtype=torch.float64)
                v = torch.tensor(c["v"], dtype=torch.float64)
                kw = dict(mode=c["mode"], spacing=c["spacing"])
                perm = lambda t: t[0].permute(*range(1, t.ndim - 1), 0).tolist()  # (C, .., X) -> (.., X, C)
                out.append({"det": FL.jacobian_det(u, add_identity=False, **kw)[0, 0].tolist(),
                            "det_id": FL.jacobian_det(u, add_identity=True, **kw)[0, 0].tolist(),
                            "div": FL.divergence(u, **kw)[0, 0].tolist(),
                            "curl": perm(FL.curl(u, **kw)), "lie": perm(FL.lie_bracket(v, u, **kw))})
            elif k == "formula":
                u = torch.tensor(c["u"], dtype=torch.float64)
                v = torch.tensor(c["v"], dtype=torch.float64)
                D = u.shape[1]
                kw = dict(mode=c["mode"], spacing=c["spacing"])
                ju = FL.jacobian_matrix(u, **kw)  # (N, ..., X, D, D)
                jv = FL.jacobian_matrix(v, **kw)
                res = {"ju": ju.tolist(), "jv": jv.tolist(),
                       "det": FL.jacobian_det(u, add_identity=False, **kw).tolist(),
                       "det_id": FL.jacobian_det(u, add_identity=True, **kw).tolist(),
                       "div": FL.divergence(u, **kw).tolist(), "curl": FL.curl(u, **kw).tolist(),
                       "lie": FL.lie_bracket(v, u, **kw).tolist()}
                out.append(res)
            else:
                out.append({"error": "unknown kind"})
        except Exception as e:  # noqa
            out.append(err(e))
    return out


# ------------------------------------------------------------------------------------------------
# the property itself on the implementation
# ------------------------------------------------------------------------------------------------
def dy(rng, bits=2, lo=-3, hi=3):
    return rng.randint(lo * 2 ** bits, hi * 2 ** bits) / 2 ** bits


def coords(shape_t, sp):
    """physical coordinates per spatial dim (x first) as tensors of shape shape_t; sp in (x, y, z) order"""
    D = len(shape_t)
    idx = torch.meshgrid(*[torch.arange(n, dtype=torch.float64) for n in shape_t], indexing="ij")
    return [idx[D - 1 - d] * sp[d] for d in range(D)]


def affine_field(A, t, X):
    D = len(X)
    return torch.stack([sum(A[i][k] * X[k] for k in range(D)) + t[i] for i in range(D)], 0)


def mask_1d(mode, n, smoothing_axis=False):
    m = torch.ones(n, dtype=torch.bool)
    if smoothing_axis:
        m[0] = False
        m[-1] = False
        return m
    if mode == "forward":
        m[-1] = False
    elif mode == "backward":
        m[0] = False
    elif mode == "central":
        m[0] = False
        m[-1] = False
    return m


def exact_mask(mode, shape_t, deriv_dims, interior_only_smoothing=True, second=None):
    """points at which the derivative along each spatial dim in deriv_dims is exact for affine data
    (second: dict dim -> True marks dims along which a *second* difference is taken: two points from each padded end)"""
    D = len(shape_t)
    m = torch.ones(shape_t, dtype=torch.bool)
    for sd in set(deriv_dims):
        for d in range(D):
            n = shape_t[D - 1 - d]
            if d == sd:
                v = mask_1d(mode if mode not in ("prewitt", "sobel") else "forward_central_backward", n)
            elif mode in ("prewitt", "sobel") and interior_only_smoothing:
                v = mask_1d(mode, n, smoothing_axis=True)
            else:
                continue
            shp = [1] * D
            shp[D - 1 - d] = n
            m = m & v.reshape(shp)
    return m


def ref_fd(t, ax, mode, h):
    """independent reference of the documented schemes along tensor axis ax (replicate padding; one-sided ends)"""
    n = t.shape[ax]
    i = torch.arange(n)
    nx, pv = (i + 1).clamp(max=n - 1), (i - 1).clamp(min=0)
    T = lambda idx: t.index_select(ax, idx)
    if mode == "forward":
        return (T(nx) - t) / h
    if mode == "backward":
        return (t - T(pv)) / h
    if mode == "central":
        return (T(nx) - T(pv)) / (2 * h)
    den = torch.full((n,), 2.0 * h, dtype=t.dtype)
    den[0] = h
    den[-1] = h
    shp = [1] * t.ndim
    shp[ax] = n
    return (T(nx) - T(pv)) / den.reshape(shp)


def ref_avg(t, ax, k):
    """3-tap smoothing with replicated boundary values"""
    n = t.shape[ax]
    p = torch.cat([t.narrow(ax, 0, 1), t, t.narrow(ax, n - 1, 1)], ax)
    return k[0] * p.narrow(ax, 0, n) + k[1] * p.narrow(ax, 1, n) + k[2] * p.narrow(ax, 2, n)


def ref_deriv(t, code, mode, sp):
    """t: tensor of spatial shape (.., Y, X); documented operator: prewitt = [1,1,1]/3, sobel = [1,2,1]/4 smoothing of the
    other axes (replicate padded), then forward_central_backward differences"""
    D = t.ndim
    cur = t
    for letter in sorted(code):
        sd = "xyz".index(letter)
        if mode in ("prewitt", "sobel"):
            k = [1 / 3, 1 / 3, 1 / 3] if mode == "prewitt" else [0.25, 0.5, 0.25]
            for d in range(D):
                if d != sd:
                    cur = ref_avg(cur, D - 1 - d, k)
            cur = ref_fd(cur, D - 1 - sd, "forward_central_backward", sp[sd])
        else:
            cur = ref_fd(cur, D - 1 - sd, mode, sp[sd])
    return cur


def ref_corr(t, ax, k):
    """correlation with a 1-D kernel along tensor axis ax, replicate padding"""
    n = t.shape[ax]
    r = len(k) // 2
    i = torch.arange(n)
    out = torch.zeros_like(t)
    for j in range(len(k)):
        out = out + float(k[j]) * t.index_select(ax, (i + j - r).clamp(0, n - 1))
    return out


def ref_gaussian(t, code, sp, k0, k1):
    D = t.ndim
    cur = t
    for letter in sorted(code):
        sd = "xyz".index(letter)
        for d in range(D):
            cur = ref_corr(cur, D - 1 - d, k1 if d == sd else k0)
        cur = cur / sp[sd]
    return cur


def interior2_mask(shape_t, margin=2):
    m = torch.zeros(shape_t, dtype=torch.bool)
    sl = tuple(slice(margin, n - margin) for n in shape_t)
    m[sl] = True
    return m


def oracle(p):
    rng = random.Random(p["seed"])
    n = p["n"]
    fails = []
    counts = {}

    def bump(k, by=1):
        counts[k] = counts.get(k, 0) + by

    def fail(key, what, **kw):
        fails.append(dict(key=key, what=what, **kw))

    def spacing_forms(rng, N, D, form):
        spv = [[rng.choice([0.5, 1.0, 2.0, 0.25, 1.5]) for _ in range(D)] for _ in range(N)]
        if form == "scalar":
            return spv[0][0], [[spv[0][0]] * D] * N
        if form == "axis":
            return list(spv[0]), [spv[0]] * N
        if form == "batch-iso":
            return [[r[0]] for r in spv], [[r[0]] * D for r in spv]
        return [list(r) for r in spv], spv  # batch

    # --- FlowFields.curl / FlowField.curl: vectors given in GRID / CUBE / CUBE_CORNERS / WORLD axes that are an affine function of
    #     the grid point coordinates in those axes; default spacing = distance of neighbouring grid points in those axes
    if p.get("stage", "all") in ("all", "edge"):
        from deepali.core.grid import Axes, Grid
        from deepali.data.flow import FlowField, FlowFields
        for D in (2, 3):
            for ax in Axes:
                for ac in (True, False):
                    for mode in (None, "central", "sobel"):
                        size = tuple(rng.randint(5, 7) for _ in range(D))
                        grids = [Grid(size=size, spacing=tuple(rng.choice([0.5, 1.0, 2.0, 0.25]) for _ in range(D)), align_corners=ac) for _ in range(2)]
                        A = torch.tensor([[dy(rng) for _ in range(D)] for _ in range(D)], dtype=torch.float64)
                        pts = torch.stack([g.points(ax).double() for g in grids], 0)          # (N, ..., X, D)
                        u = (torch.einsum("ik,n...k->n...i", A, pts) + 0.5).movedim(-1, 1)
                        want = [float(A[1, 0] - A[0, 1])] if D == 2 else [float(A[2, 1] - A[1, 2]), float(A[0, 2] - A[2, 0]), float(A[1, 0] - A[0, 1])]
                        desc = {"D": D, "axes": ax.name, "align_corners": ac, "mode": mode, "size": list(size), "spacing": [g.spacing().tolist() for g in grids]}
                        bump(f"FlowFields.curl:{ax.name}:D{D}")
                        try:
                            ff = FlowFields(u, grids, ax)
                            rot = ff.curl(mode=mode)
                            t = rot.tensor()
                            M = exact_mask(mode or "forward_central_backward", tuple(reversed(size)), list(range(D)), False)
                            if tuple(t.shape) != (2, len(want)) + tuple(reversed(size)):
                                fail(f"C12:FlowFields.curl:{ax.name}:D{D}:shape", f"{desc}: result shape {tuple(t.shape)}", case=desc)
                            elif any(float((t[:, j] - wv).abs()[:, M].max()) > 1e-5 * (1 + abs(wv)) for j, wv in enumerate(want)):
                                fail(f"C12:FlowFields.curl:{ax.name}:D{D}", f"{desc}: curl of an affine field (in its own axes) differs from the analytic rotation {want}",
                                     case=desc, A=A.tolist())
                            one = FlowField(u[0], grids[0], ax).curl(mode=mode).tensor()
                            if tuple(one.shape) != tuple(t.shape[1:]) or float((one - t[0]).abs().max()) > 1e-9:
                                fail(f"C12:FlowField.curl:{ax.name}:D{D}", f"{desc}: FlowField.curl differs from item 0 of FlowFields.curl", case=desc)
                        except Exception as e:  # noqa
                            fail(f"C12:FlowFields.curl:{ax.name}:D{D}:raises", f"{desc}: {type(e).__name__}: {str(e)[:140]}", case=desc)

    # --- integer data: the spacing keeps its fractional value (the data are cast to float, not the spacing to int)
    if p.get("stage", "all") in ("all", "edge"):
        for dt in (torch.int64, torch.int32, torch.uint8, torch.int16):
            for D in (2, 3):
                shape_t = (4, 5) if D == 2 else (3, 4, 5)
                idata = torch.tensor([rng.randint(0, 9) for _ in range(2 * math.prod(shape_t))], dtype=dt).reshape((2, 1) + shape_t)
                for spacing in (0.5, 2.5, [0.25, 1.5]):
                    for mode in FD_MODES[:4]:
                        bump("integer-data")
                        sd = rng.randrange(D)
                        try:
                            got = finite_differences(idata, sd, mode=mode, spacing=spacing)
                            want = finite_differences(idata.double(), sd, mode=mode, spacing=spacing)
                            if not got.is_floating_point() or not bool(torch.isfinite(got).all()) or float((got.double() - want).abs().max()) > 1e-5:
                                fail("C12:finite_differences:integer-data-spacing",
                                     f"{dt} data of shape {tuple(idata.shape)}, mode {mode}, spacing {spacing}: result differs from the result on the same data "
                                     f"as float (max {float(got.double().abs().max())} vs {float(want.abs().max())}): spacing converted to the integer dtype",
                                     dtype=str(dt), spacing=spacing, mode=mode)
                        except Exception as e:  # noqa
                            fail("C12:finite_differences:integer-data:raises", f"{dt} {mode} spacing {spacing}: {type(e).__name__}: {str(e)[:120]}", dtype=str(dt))
                    for mode in FD_MODES:
                        bump("integer-data")
                        try:
                            sp = spacing if not isinstance(spacing, list) else [[v] * D for v in spacing]
                            got = spatial_derivatives(idata, which=["x", "y"], mode=mode, spacing=sp)
                            want = spatial_derivatives(idata.double(), which=["x", "y"], mode=mode, spacing=sp)
                            if any(float((got[k_].double() - want[k_]).abs().max()) > 1e-5 or not bool(torch.isfinite(got[k_]).all()) for k_ in want):
                                fail("C12:spatial_derivatives:integer-data-spacing", f"{dt} data, mode {mode}, spacing {spacing}: differs from the float result",
                                     dtype=str(dt), spacing=spacing, mode=mode)
                        except Exception as e:  # noqa
                            fail("C12:spatial_derivatives:integer-data:raises", f"{dt} {mode} spacing {spacing}: {type(e).__name__}: {str(e)[:120]}", dtype=str(dt))

    # --- lie_bracket(mode='bspline') on affine coefficient fields: B u - A v with u, v evaluated on the output grid
    if p.get("stage", "all") in ("all", "edge"):
        from deepali.core.bspline import evaluate_cubic_bspline
        for i_ in range(6):
            D = [2, 3][i_ % 2]
            nn = tuple(rng.randint(4, 7) for _ in range(D))          # coefficient grid, tensor order
            stride = tuple(rng.randint(1, 3) for _ in range(D)) if i_ % 3 else None
            hs = [rng.choice([0.5, 1.0, 2.0]) for _ in range(D)]
            A = [[dy(rng) for _ in range(D)] for _ in range(D)]
            Bm = [[dy(rng) for _ in range(D)] for _ in range(D)]
            idx = torch.meshgrid(*[torch.arange(k, dtype=torch.float64) - 1 for k in nn], indexing="ij")
            P = [idx[D - 1 - d] * hs[d] for d in range(D)]           # physical control point positions (x, y, z)
            u = affine_field(A, [0.5] * D, P).unsqueeze(0)
            v = affine_field(Bm, [-0.25] * D, P).unsqueeze(0)
            desc = {"D": D, "coefficients": list(nn), "stride": stride, "spacing": hs}
            bump(f"lie-bracket-bspline:D{D}")
            try:
                w = FL.lie_bracket(v, u, mode="bspline", spacing=hs, **({} if stride is None else {"stride": stride}))
                ue = evaluate_cubic_bspline(u, stride=stride or 1)
                ve = evaluate_cubic_bspline(v, stride=stride or 1)
                want = torch.einsum("ik,nk...->ni...", torch.tensor(Bm, dtype=torch.float64), ue) - \
                    torch.einsum("ik,nk...->ni...", torch.tensor(A, dtype=torch.float64), ve)
                if tuple(w.shape) != tuple(want.shape) or float((w - want).abs().max()) > 1e-9 * (1 + float(want.abs().max())):
                    fail(f"C12:lie_bracket:bspline:D{D}", f"{desc}: Lie bracket of affine coefficient fields differs from B u - A v on the evaluated grid", case=desc)
            except Exception as e:  # noqa
                fail(f"C12:lie_bracket:bspline:D{D}:raises", f"{desc}: {type(e).__name__}: {str(e)[:140]}", case=desc)

    # --- core.image.conv1d with padding modes (used by the prewitt / sobel cross-axis smoothing): same-size correlation with
    #     zero / replicated / reflected boundary values, along every tensor axis
    if p.get("stage", "all") in ("all", "edge"):
        import torch.nn.functional as TF
        from deepali.core.image import conv1d as d_conv1d
        from deepali.core.enum import PaddingMode
        for pm, tmode in ((PaddingMode.REPLICATE, "replicate"), (PaddingMode.REFLECT, "reflect"), (PaddingMode.ZEROS, "constant")):
            for shape, dim in (((2, 1, 7), 2), ((1, 2, 5, 6), 3), ((1, 1, 6, 4), 2), ((1, 1, 4, 5, 6), 3)):
                for K_ in (3, 5):
                    bump(f"conv1d:{pm.value}")
                    try:
                        x_ = torch.tensor([dy(rng, 3) for _ in range(math.prod(shape))], dtype=torch.float64).reshape(shape)
                        k_ = torch.tensor([dy(rng, 3) for _ in range(K_)], dtype=torch.float64)
                        got = d_conv1d(x_, k_, dim=dim, padding=pm)
                        xm = x_.movedim(dim, -1)
                        flat = xm.reshape(-1, 1, xm.shape[-1])
                        padded = TF.pad(flat, (K_ // 2, K_ // 2), mode=tmode)
                        want = TF.conv1d(padded, k_.reshape(1, 1, -1)).reshape(xm.shape).movedim(-1, dim)
                        if tuple(got.shape) != tuple(x_.shape) or float((got - want).abs().max()) > 1e-9:
                            fail(f"C12:conv1d:padding-mode:{pm.value}", f"conv1d(shape {shape}, dim={dim}, kernel size {K_}, padding={pm}) differs from the "
                                 f"{tmode}-padded correlation", shape=list(shape), dim=dim)
                    except Exception as e:  # noqa
                        fail(f"C12:conv1d:padding-mode:{pm.value}:raises", f"conv1d(shape {shape}, dim={dim}, kernel size {K_}, padding={pm}): "
                             f"{type(e).__name__}: {str(e)[:120]}", shape=list(shape), dim=dim)

    # --- every mode (including 'gaussian' and 'bspline'): the divisor of d/dx_a is the spacing of axis a -- explicit anisotropic
    #     spacing (per axis, per batch item) and the default spacing of flow_derivatives (2 / (n - 1) per axis)
    if p.get("stage", "all") in ("all", "edge"):
        from deepali.core.kernels import gaussian1d, gaussian1d_I
        for mode in FD_MODES + ["gaussian", "bspline"]:
            for D in (2, 3):
                letters, chans = "xyz"[:D], "uvw"[:D]
                shape_t = tuple([6, 5, 7][:D]) if D == 3 else (5, 7)
                N = 2
                fld = torch.tensor([dy(rng, 3) for _ in range(N * D * math.prod(shape_t))], dtype=torch.float64).reshape((N, D) + shape_t)
                spv = [[0.5, 2.0, 1.5][:D], [1.25, 0.25, 3.0][:D]]
                keys = list(letters) + [letters[-1] + letters[0], letters[0] * 2]
                desc = {"mode": mode, "D": D, "shape": list(shape_t)}
                bump(f"spacing-scaling:{mode}:D{D}")
                try:
                    base = spatial_derivatives(fld[:, :1], which=keys, mode=mode, spacing=1.0)
                    for form, spacing, per in (("axis", spv[0], [spv[0], spv[0]]), ("batch", spv, spv)):
                        r = spatial_derivatives(fld[:, :1], which=keys, mode=mode, spacing=spacing)
                        for key in keys:
                            for b in range(N):
                                den = 1.0
                                for ch in key:
                                    den *= per[b]["xyz".index(ch)]
                                e = float((r[key][b] * den - base[key][b]).abs().max())
                                if e > 1e-5 * (1 + float(base[key][b].abs().max())):
                                    fail(f"C12:spatial_derivatives:{mode}:spacing-scaling",
                                         f"{desc} spacing={spacing}: d/d{key} times the spacing of its axes differs from the unit-spacing derivative by {e:.3g} "
                                         f"(the divisor of d/dx_a must be spacing[a])", case=desc, spacing=spacing, dkey=key)
                                    raise StopIteration
                    # default spacing of flow_derivatives
                    dflt = [2 / (k - 1) for k in reversed(shape_t)]
                    a_ = FL.flow_derivatives(fld, mode=mode)
                    b_ = FL.flow_derivatives(fld, mode=mode, spacing=1.0)
                    for kk in a_:
                        ax = "xyz".index(kk.split("/d")[1])
                        e = float((a_[kk] * dflt[ax] - b_[kk]).abs().max())
                        if e > 1e-5 * (1 + float(b_[kk].abs().max())):
                            fail(f"C12:flow_derivatives:{mode}:default-spacing-scaling",
                                 f"{desc}: with spacing=None {kk} is not the unit-spacing derivative divided by 2/(n-1) of its axis (off by {e:.3g})", case=desc, dkey=kk)
                            raise StopIteration
                    if mode == "gaussian":
                        k0 = gaussian1d(0.7355, normalize=False, dtype=torch.float).double().tolist()
                        k1 = gaussian1d_I(0.7355, normalize=False, dtype=torch.float).double().tolist()
                        r = spatial_derivatives(fld[:, :1], which=keys, mode=mode, spacing=spv)
                        for key in keys:
                            for b in range(N):
                                want = ref_gaussian(fld[b, 0], key, spv[b], k0, k1)
                                e = float((r[key][b, 0] - want).abs().max())
                                if e > 1e-5 * (1 + float(want.abs().max())):
                                    fail("C12:spatial_derivatives:gaussian:reference-operator",
                                         f"{desc} spacing={spv}: d/d{key} differs from 'correlate with the (derivative of) Gaussian kernels, divide by the "
                                         f"spacing of the differentiated axis' by {e:.3g}", case=desc, dkey=key)
                                    raise StopIteration
                except StopIteration:
                    pass
                except Exception as e:  # noqa
                    fail(f"C12:spacing-scaling:{mode}:D{D}:raises", f"{desc}: {type(e).__name__}: {str(e)[:140]}", case=desc)

    # --- prewitt / sobel: exact on affine data at every point that is interior with respect to the OTHER axes, including the
    #     first and last grid point ALONG the differentiated axis (forward / backward differences there); this is where the
    #     unchanged code is exact, the zero-padded smoothing (known finding) only spoils the boundary of the other axes
    if p.get("stage", "all") in ("all", "edge"):
        for mode in ("prewitt", "sobel"):
            for D in (2, 3):
                for form in ("none", "scalar", "axis", "batch", "batch-iso"):
                    N = 2 if form.startswith("batch") else 1
                    shape_t = tuple(rng.randint(5, 7 if D == 2 else 6) for _ in range(D))
                    if form == "none":
                        spacing, spv = None, [[1.0] * D] * N
                    else:
                        spacing, spv = spacing_forms(rng, N, D, form)
                    letters, chans = "xyz"[:D], "uvw"[:D]
                    desc = {"mode": mode, "D": D, "shape": list(shape_t), "spacing": spacing, "N": N}
                    bump(f"derivative-axis-boundary:{mode}:D{D}:{form}")
                    try:
                        A = [[[dy(rng) or 0.75 for _ in range(D)] for _ in range(D)] for _ in range(N)]
                        u = torch.stack([affine_field(A[b], [0.5] * D, coords(shape_t, spv[b])) for b in range(N)], 0)
                        for sd in range(D):
                            # region: all indices along sd, interior along every other axis; must contain both ends along sd
                            reg = exact_mask(mode, shape_t, [sd], False)  # every grid point (forward_central_backward differences)
                            assert bool(reg.all())
                            ends = torch.zeros(shape_t, dtype=torch.bool)
                            sl0 = [slice(1, -1)] * D
                            sl0[D - 1 - sd] = 0
                            ends[tuple(sl0)] = True
                            sl0[D - 1 - sd] = -1
                            ends[tuple(sl0)] = True
                            assert bool((reg & ends).sum() == ends.sum())
                            key = letters[sd]
                            # spatial_derivatives on each component
                            for ch in range(D):
                                r = spatial_derivatives(u[:, ch:ch + 1], which=[key], mode=mode, spacing=spacing)[key]
                                for b in range(N):
                                    e = (r[b, 0] - A[b][ch][sd]).abs()
                                    if float(e[reg].max()) > 1e-9:
                                        at_end = float(e[ends].max()) > 1e-9
                                        fail(f"C12:spatial_derivatives:{mode}:derivative-axis-boundary" if at_end else f"C12:spatial_derivatives:{mode}:affine-not-exact",
                                             f"{desc}: d/d{key} of an affine field (slope {A[b][ch][sd]}) is off by {float(e[reg].max()):.3g} at a point that is interior "
                                             f"w.r.t. the other axes" + (" -- at the first / last grid point along the differentiated axis" if at_end else ""),
                                             case=desc, A=A[b], sdim=sd)
                                        raise StopIteration
                            if form == "none":
                                continue  # flow_derivatives' default spacing is the normalised cube, checked elsewhere
                            fdv = FL.flow_derivatives(u, which=[key], mode=mode, spacing=spacing)
                            jm = FL.jacobian_matrix(u, mode=mode, spacing=spacing)
                            for b in range(N):
                                for ch in range(D):
                                    for name, val in ((f"flow_derivatives", fdv[f"d{chans[ch]}/d{key}"][b, 0]), ("jacobian_matrix", jm[b][..., ch, sd])):
                                        e = (val - A[b][ch][sd]).abs()
                                        if float(e[reg].max()) > 1e-9:
                                            fail(f"C12:{name}:{mode}:derivative-axis-boundary",
                                                 f"{desc}: d{chans[ch]}/d{key} of an affine field is off by {float(e[reg].max()):.3g} at a point that is interior "
                                                 f"w.r.t. the other axes (region includes the first / last point along {key})", case=desc, A=A[b], sdim=sd)
                                            raise StopIteration
                            # divergence / curl of fields with a single non-zero Jacobian entry: exact on the same region
                            for b in range(1):
                                X = coords(shape_t, spv[b])
                                a_ = 1.75
                                comp = [torch.zeros(shape_t, dtype=torch.float64) for _ in range(D)]
                                comp[sd] = a_ * X[sd] + 0.5
                                w = torch.stack(comp, 0).unsqueeze(0)
                                sp1 = spacing if N == 1 else (spv[0] if form == "batch" else spv[0][0])
                                dv = FL.divergence(w, mode=mode, spacing=sp1)
                                if float((dv[0, 0] - a_).abs()[reg].max()) > 1e-9:
                                    fail(f"C12:divergence:{mode}:derivative-axis-boundary", f"{desc}: divergence of ({a_} {key} + 0.5) e_{key} is off by "
                                         f"{float((dv[0, 0] - a_).abs()[reg].max()):.3g} at a point interior w.r.t. the other axes", case=desc, sdim=sd)
                                    raise StopIteration
                                other = (sd + 1) % D
                                comp = [torch.zeros(shape_t, dtype=torch.float64) for _ in range(D)]
                                comp[other] = a_ * X[sd] + 0.5   # d u_other / d x_sd = a_
                                w = torch.stack(comp, 0).unsqueeze(0)
                                cu = FL.curl(w, mode=mode, spacing=sp1)
                                Aw = [[0.0] * D for _ in range(D)]
                                Aw[other][sd] = a_
                                want = [Aw[1][0] - Aw[0][1]] if D == 2 else [Aw[2][1] - Aw[1][2], Aw[0][2] - Aw[2][0], Aw[1][0] - Aw[0][1]]
                                if any(float((cu[0, j] - wv).abs()[reg].max()) > 1e-9 for j, wv in enumerate(want)):
                                    fail(f"C12:curl:{mode}:derivative-axis-boundary", f"{desc}: curl of ({a_} {key} + 0.5) e_{letters[other]} differs from {want} at a "
                                         f"point interior w.r.t. the other axes", case=desc, sdim=sd)
                                    raise StopIteration
                    except StopIteration:
                        pass
                    except Exception as e:  # noqa
                        fail(f"C12:derivative-axis-boundary:{mode}:D{D}:raises", f"{desc}: {type(e).__name__}: {str(e)[:140]}", case=desc)
        if p.get("stage") == "edge":
            return {"fails": fails, "counts": counts}

    FORMS = ["scalar", "axis", "batch", "batch-iso"]
    cfgs = []
    for i in range(n):
        cfgs.append((FD_MODES[i % 6], [2, 3][(i // 6) % 2], FORMS[(i // 12) % 4]))
    for i, (mode, D, form) in enumerate(cfgs):
        N = 1 if form in ("scalar", "axis") and i % 2 else 2
        shape_t = tuple(rng.randint(5, 8 if D == 2 else 6) for _ in range(D))
        spacing, spv = spacing_forms(rng, N, D, form)
        A = [[[dy(rng) for _ in range(D)] for _ in range(D)] for _ in range(N)]
        B = [[[dy(rng) for _ in range(D)] for _ in range(D)] for _ in range(N)]
        s = [[dy(rng) for _ in range(D)] for _ in range(N)]
        t = [[dy(rng) for _ in range(D)] for _ in range(N)]
        u = torch.stack([affine_field(A[b], s[b], coords(shape_t, spv[b])) for b in range(N)], 0)
        v = torch.stack([affine_field(B[b], t[b], coords(shape_t, spv[b])) for b in range(N)], 0)
        desc = {"mode": mode, "D": D, "shape": list(shape_t), "spacing": spacing, "N": N}
        kw = dict(mode=mode, spacing=spacing)
        letters = "xyz"[:D]
        chans = "uvw"[:D]
        tol = 1e-9
        all_dims = list(range(D))
        M_all = exact_mask(mode, shape_t, all_dims, False)          # every point the difference scheme supports along all axes
        M_in = M_all                                                # (prewitt / sobel smooth with replicate padding: exact there too)
        bump(f"affine:{mode}:D{D}:{form}")
        try:
            # --- Jacobian entries
            jm = FL.jacobian_matrix(u, **kw)
            jd = FL.jacobian_dict(u, **kw)
            fd = FL.flow_derivatives(u, **kw)
            worst_in = worst_all = 0.0
            for b in range(N):
                for i_ in range(D):
                    for k_ in range(D):
                        e = (jm[b][..., i_, k_] - A[b][i_][k_]).abs()
                        m_in = exact_mask(mode, shape_t, [k_], True)
                        m_all = exact_mask(mode, shape_t, [k_], False)
                        worst_in = max(worst_in, float(e[m_in].max()))
                        worst_all = max(worst_all, float(e[m_all].max()))
                        if float((jd[(i_, k_)][b, 0] - jm[b][..., i_, k_]).abs().max()) > 0 or \
                                float((fd[f"d{chans[i_]}/d{letters[k_]}"][b, 0] - jm[b][..., i_, k_]).abs().max()) > 0:
                            fail(f"C12:jacobian_matrix:layout", f"{desc}: jacobian_matrix[..., {i_}, {k_}] is not d{chans[i_]}/d{letters[k_]}", case=desc)
            if worst_in > tol:
                fail(f"C12:jacobian_matrix:{mode}:affine-not-exact", f"{desc}: Jacobian of an affine field is off by {worst_in:.3g} at points "
                     f"where the scheme is exact", case=desc, A=A)
            elif worst_all > tol:
                fail(f"C12:spatial_derivatives:{mode}:boundary-not-exact",
                     f"{desc}: derivative of an affine field is off by {worst_all:.3g} at grid points on the boundary of the *other* axes "
                     f"(the cross-axis smoothing must replicate boundary values)", case=desc, A=A)
            # --- determinant, divergence, curl, Lie bracket at the points where all first derivatives are exact
            for ident in (False, True):
                det = FL.jacobian_det(u, add_identity=ident, **kw)
                for b in range(N):
                    Ab = torch.tensor(A[b], dtype=torch.float64) + (torch.eye(D, dtype=torch.float64) if ident else 0)
                    want = float(torch.det(Ab))
                    if float((det[b, 0] - want).abs()[M_in].max()) > tol * (1 + abs(want)):
                        fail(f"C12:jacobian_det:{mode}:D{D}:add_identity={ident}", f"{desc}: determinant differs from det(A{'+I' if ident else ''}) = {want}", case=desc, A=A[b])
                        break
            div = FL.divergence(u, **kw)
            for b in range(N):
                want = sum(A[b][i_][i_] for i_ in range(D))
                if float((div[b, 0] - want).abs()[M_in].max()) > tol:
                    fail(f"C12:divergence:{mode}:D{D}", f"{desc}: divergence differs from trace(A) = {want}", case=desc, A=A[b])
                    break
            cu = FL.curl(u, **kw)
            for b in range(N):
                Ab = A[b]
                want = [Ab[1][0] - Ab[0][1]] if D == 2 else [Ab[2][1] - Ab[1][2], Ab[0][2] - Ab[2][0], Ab[1][0] - Ab[0][1]]
                bad = any(float((cu[b, j] - w).abs()[M_in].max()) > tol for j, w in enumerate(want))
                if tuple(cu.shape) != (N, len(want)) + shape_t or bad:
                    fail(f"C12:curl:{mode}:D{D}", f"{desc}: curl differs from the analytic rotation {want}", case=desc, A=A[b])
                    break
            u0, v0 = u.clone(), v.clone()
            lb = FL.lie_bracket(v, u, **kw)
            if float((u - u0).abs().max()) > 0 or float((v - v0).abs().max()) > 0:
                fail("C12:lie_bracket:mutates-input", f"{desc}: lie_bracket changed its arguments", case=desc)
            for b in range(N):
                Bm, Am = torch.tensor(B[b], dtype=torch.float64), torch.tensor(A[b], dtype=torch.float64)
                want = torch.einsum("ik,k...->i...", Bm, u[b]) - torch.einsum("ik,k...->i...", Am, v[b])
                e = (lb[b] - want).abs()
                if float(e[:, M_in].max()) > tol * (1 + float(want.abs().max())):
                    fail(f"C12:lie_bracket:{mode}:D{D}", f"{desc}: Lie bracket differs from Jac(v) u - Jac(u) v by {float(e[:, M_in].max()):.3g}", case=desc)
                    break
            # --- key subsets, mixed keys
            codes = list(letters) + [a + b_ for a in letters for b_ in letters]
            allkeys = [f"d{c}/d{k}" for c in chans for k in codes]
            full = FL.flow_derivatives(u, which=allkeys, **kw)
            sub = rng.sample(allkeys, rng.randint(1, 6))
            short = rng.choice(codes)
            got = FL.flow_derivatives(u, which=sub + [short], **kw)
            want_keys = list(dict.fromkeys(sub + [f"d{c}/d{short}" for c in chans]))
            if list(got.keys()) != want_keys:
                fail(f"C12:flow_derivatives:keys", f"{desc}: which={sub + [short]} returns keys {list(got.keys())}", case=desc, which=sub + [short])
            else:
                for kk, val in got.items():
                    if float((val - full[kk]).abs().max()) > 0:
                        fail(f"C12:flow_derivatives:{mode}:subset-differs", f"{desc}: {kk} requested within {sub + [short]} differs from the value when "
                             f"all derivatives are requested", case=desc, which=sub + [short], dkey=kk)
                        break
            for c_ in chans:
                for a, b_ in itertools.combinations(letters, 2):
                    if float((full[f"d{c_}/d{a + b_}"] - full[f"d{c_}/d{b_ + a}"]).abs().max()) > 0:
                        fail(f"C12:flow_derivatives:{mode}:mixed-asymmetric", f"{desc}: d{c_}/d{a + b_} != d{c_}/d{b_ + a}", case=desc)
            # second derivatives of an affine field vanish where both differences are exact (margin 2)
            M2 = interior2_mask(shape_t)
            worst = max(float(full[f"d{c_}/d{k}"][:, 0][:, M2].abs().max()) for c_ in chans for k in codes if len(k) == 2)
            if worst > tol:
                fail(f"C12:flow_derivatives:{mode}:second-derivative-of-affine", f"{desc}: second derivatives of an affine field reach {worst:.3g} in the interior", case=desc)
        except Exception as e:  # noqa
            fail(f"C12:affine:{mode}:D{D}:raises", f"{desc}: {type(e).__name__}: {str(e)[:140]}", case=desc)
        # --- quadratic scalar components: second derivatives exact in the interior
        bump(f"quadratic:{mode}:D{D}")
        try:
            Q = [[[dy(rng, 1, -2, 2) for _ in range(D)] for _ in range(D)] for _ in range(N)]  # symmetric part used
            lin = [[dy(rng) for _ in range(D)] for _ in range(N)]
            comp = []
            for b in range(N):
                X = coords(shape_t, spv[b])
                f = sum(lin[b][k_] * X[k_] for k_ in range(D)) + 1.25
                for a_ in range(D):
                    for b2 in range(a_, D):
                        f = f + Q[b][a_][b2] * X[a_] * X[b2]
                comp.append(f)
            fld = torch.stack(comp, 0).unsqueeze(1)
            keys2 = [a + b_ for a in letters for b_ in letters]
            r = spatial_derivatives(fld, which=keys2, mode=mode, spacing=spacing)
            M2 = interior2_mask(shape_t)
            for key in keys2:
                a_, b2 = sorted(("xyz".index(key[0]), "xyz".index(key[1])))
                for b in range(N):
                    want = 2 * Q[b][a_][b2] if a_ == b2 else Q[b][a_][b2]
                    e = float((r[key][b, 0] - want).abs()[M2].max())
                    if e > 1e-8 * (1 + abs(want)):
                        fail(f"C12:spatial_derivatives:{mode}:second-derivative-of-quadratic",
                             f"{desc}: d2/d{key} of a quadratic is off by {e:.3g} in the interior (expected {want})", case=desc, dkey=key)
                        raise StopIteration
        except StopIteration:
            pass
        except Exception as e:  # noqa
            fail(f"C12:quadratic:{mode}:D{D}:raises", f"{desc}: {type(e).__name__}: {str(e)[:140]}", case=desc)

        # --- random (non-polynomial) data against an independent implementation of the documented operators
        bump(f"reference:{mode}:D{D}")
        try:
            fld = torch.tensor([dy(rng, 3) for _ in range(N * math.prod(shape_t))], dtype=torch.float64).reshape((N, 1) + shape_t)
            keys = list(letters) + [a + b_ for a in letters for b_ in letters]
            which = rng.sample(keys, 3)
            r = spatial_derivatives(fld, which=which, mode=mode, spacing=spacing)
            for key in which:
                for b in range(N):
                    want = ref_deriv(fld[b, 0], key, mode, spv[b])
                    e = float((r[key][b, 0] - want).abs().max())
                    if e > 1e-9 * (1 + float(want.abs().max())):
                        fail(f"C12:spatial_derivatives:{mode}:reference-operator",
                             f"{desc}: derivative {key} of random data differs from the documented operator by {e:.3g}", case=desc, dkey=key)
                        raise StopIteration
        except StopIteration:
            pass
        except Exception as e:  # noqa
            fail(f"C12:reference:{mode}:D{D}:raises", f"{desc}: {type(e).__name__}: {str(e)[:140]}", case=desc)

    # default spacing of flow_derivatives: the normalised cube
    for D in (2, 3):
        bump("default-spacing")
        shape_t = (5, 7) if D == 2 else (5, 6, 7)
        sp = [2 / (k - 1) for k in reversed(shape_t)]
        A = [[dy(rng) for _ in range(D)] for _ in range(D)]
        u = affine_field(A, [0.5] * D, coords(shape_t, sp)).unsqueeze(0)
        try:
            jm = FL.jacobian_matrix(u)
            if float((jm[0] - torch.tensor(A, dtype=torch.float64)).abs().max()) > 1e-5:  # spacing is converted to float32
                fail("C12:flow_derivatives:default-spacing", f"D={D}: with spacing=None the Jacobian of an affine field over the normalised cube is not A")
        except Exception as e:  # noqa
            fail("C12:flow_derivatives:default-spacing:raises", f"D={D}: {type(e).__name__}: {str(e)[:140]}")

    # B-spline mode: analytic derivatives of the spline on affine coefficient fields; requested keys are returned
    for i in range(max(6, n // 8)):
        D = [2, 3][i % 2]
        shape_t = tuple(rng.randint(5, 7) for _ in range(D))
        stride = [rng.randint(1, 3) for _ in range(D)]
        spv = [rng.choice([0.5, 1.0, 2.0]) for _ in range(D)]
        A = [[dy(rng) for _ in range(D)] for _ in range(D)]
        u = affine_field(A, [0.25] * D, coords(shape_t, spv)).unsqueeze(0)
        desc = {"mode": "bspline", "D": D, "shape": list(shape_t), "stride": stride, "spacing": spv}
        bump(f"bspline:D{D}")
        try:
            jm = FL.jacobian_matrix(u, mode="bspline", spacing=spv, stride=stride)
            want = torch.tensor(A, dtype=torch.float64)
            if float((jm[0] - want).abs().max()) > 1e-9:
                fail(f"C12:jacobian_matrix:bspline:affine-not-exact", f"{desc}: Jacobian of affine coefficients differs from A by {float((jm[0] - want).abs().max()):.3g}", case=desc)
            letters = "xyz"[:D]
            which = [letters[1] + letters[0], letters[0]]
            r = spatial_derivatives(u[:, :1], which=which, mode="bspline", spacing=spv, stride=stride)
            if set(r.keys()) != set(which):
                fail("C12:spatial_derivatives:bspline:keys", f"{desc}: which={which} returns keys {sorted(r.keys())}", case=desc, which=which)
        except Exception as e:  # noqa
            fail(f"C12:bspline:D{D}:raises", f"{desc}: {type(e).__name__}: {str(e)[:140]}", case=desc)
    return {"fails": fails, "counts": counts}


if __name__ == "__main__":
    payload = json.load(sys.stdin)
    fn = payload.pop("fn")
    emit_json({"model_cases": model_cases, "oracle": oracle}[fn](payload))
