"""C07 -- inverse() really inverts."""
import math

import vlib
from vlib import Violation, qc, qc_mat, coq_list

from props import c09

ID = "C07"
GEN_UNITS = ["LinInv", "TState", "Euler", "Quat"]
PROPS_FILE = "Props/C07.v"
PROPS_MOD = "Props.C07"
COQ_TARGETS = ["Props/C07.vo"]
SOURCES = ["deepali/spatial/parametric.py", "deepali/spatial/linear.py", "deepali/spatial/composite.py",
           "deepali/spatial/nonrigid.py", "deepali/spatial/bspline.py", "deepali/spatial/base.py", "deepali/modules/flow.py"]
TRUSTED = [
    "Coq 8.16.1 kernel + vm_compute",
    "translator: tools/symtorch.py semantics of the traced torch subset (validated by this run's correspondence); "
    "unit LinInv builds the linear classes without nn.Module machinery (object.__new__ + shims for spatial/base.py, composite.py)",
    "modelled not verified: tanh/exp/tan/cos/sin re-parameterisations (enter as already evaluated numbers), torch.inverse "
    "(adjugate formula), float rounding; the Python/torch object semantics of the shared state machine (see C09)",
]
ASSUMPTIONS = [
    "batched parameters: items are processed independently (numerically checked by the search with N=1 only)",
    "velocity-field models (SVF, SVFFD, ExpFlow): numeric exploration on smooth fields only",
]

CLASSES = ["Translation", "IsotropicScaling", "AnisotropicScaling", "Shearing", "HomogeneousTransform", "EulerRotation", "QuaternionRotation"]
AX = {"X": "AX", "Y": "AY", "Z": "AZ"}


def dy(rng, lo=-2.0, hi=2.0, bits=5):
    return rng.randint(int(lo * 2 ** bits), int(hi * 2 ** bits)) / 2 ** bits


def gen_case(rng, i):
    name = CLASSES[i % len(CLASSES)]
    D = 3 if name == "QuaternionRotation" else rng.choice([2, 3])
    c = {"cls": name, "D": D, "as_parameter": rng.random() < 0.4, "link": rng.random() < 0.5}
    if name == "Translation":
        c["params"] = [dy(rng) for _ in range(D)]
    elif name == "IsotropicScaling":
        c["params"] = [dy(rng, 0.5, 2.0)]
    elif name == "AnisotropicScaling":
        c["params"] = [dy(rng, 0.5, 2.0) for _ in range(D)]
    elif name == "Shearing":
        c["params"] = [rng.uniform(-0.7, 0.7) for _ in range(1 if D == 2 else 3)]
    elif name == "EulerRotation":
        c["params"] = [rng.uniform(-1.4, 1.4) for _ in range(1 if D == 2 else 3)]
        if D == 3:
            c["order"] = "".join(rng.choice("XYZ") for _ in range(3)) if rng.random() < 0.85 else None
    elif name == "QuaternionRotation":
        c["params"] = [dy(rng) or 0.5 for _ in range(4)]
        c["as_parameter"] = False
    else:
        while True:
            m = [[(1.0 if a == b else 0.0) + dy(rng, -0.5, 0.5) for b in range(D + 1)] for a in range(D)]
            det = (m[0][0] * m[1][1] - m[0][1] * m[1][0]) if D == 2 else (
                m[0][0] * (m[1][1] * m[2][2] - m[1][2] * m[2][1]) - m[0][1] * (m[1][0] * m[2][2] - m[1][2] * m[2][0])
                + m[0][2] * (m[1][0] * m[2][1] - m[1][1] * m[2][0]))
            if abs(det) > 0.2:
                break
        c["params"] = m
        c["as_parameter"] = False
    return c


def model_terms(c, r):
    """(forward, inverse) Coq terms of the generated model on this case's numbers"""
    name, D = c["cls"], c["D"]
    if name == "Translation":
        a = " ".join(qc(v) for v in c["params"])
        return f"gen_translation{D}_fwd (K:=QcF) {a}", f"gen_translation{D}_inv (K:=QcF) {a}"
    if name in ("IsotropicScaling", "AnisotropicScaling"):
        a = " ".join(qc(v) for v in r["scales"])
        n = "isoscale" if name == "IsotropicScaling" else "anisoscale"
        return f"gen_{n}{D}_fwd (K:=QcF) {a}", f"gen_{n}{D}_inv (K:=QcF) {a}"
    if name == "Shearing":
        a = " ".join(qc(v) for v in r["tan"])
        return f"gen_shear{D}_fwd (K:=QcF) {a}", f"gen_shear{D}_inv (K:=QcF) {a}"
    if name == "HomogeneousTransform":
        a = " ".join(qc(v) for row in c["params"] for v in row)
        return f"gen_homogeneous{D}_fwd (K:=QcF) {a}", f"gen_homogeneous{D}_inv (K:=QcF) {a}"
    if name == "EulerRotation":
        a = " ".join(qc(v) for v in r["cos"] + r["sin"])
        if D == 2:
            return f"gen_euler2_fwd (K:=QcF) {a}", f"gen_euler2_inv (K:=QcF) {a}"
        o = c.get("order")
        ot = "gen_euler3_default_order" if o is None else f"({AX[o[0]]}, {AX[o[1]]}, {AX[o[2]]})"
        return f"gen_euler3_fwd (K:=QcF) {ot} {a}", f"gen_euler3_inv (K:=QcF) {ot} {a}"
    a = " ".join(qc(v) for v in [r["norm"]] + r["q"])
    return f"gen_quaternion_fwd (K:=QcF) {a}", f"gen_quaternion_inv (K:=QcF) {a}"


def correspondence(ctx):
    rng = ctx.rng
    n = ctx.n(210, 2100)
    cases = [gen_case(rng, i) for i in range(n)]
    res = vlib.run_impl("c07_impl", {"fn": "tensors", "cases": cases})
    failures = []
    dist = {}
    lines = ["From Coq Require Import ZArith QArith List String.",
             "From DV Require Import Base.Field Base.LinAlg Base.QcInst Model.Enums Gen.LinInv.",
             "Import ListNotations.", "Definition tol : Q := 1 # 1000000000."]
    names = []
    for i, (c, r) in enumerate(zip(cases, res)):
        tag = f"{c['cls']}:{c['D']}:{'Parameter' if c.get('as_parameter') else 'tensor'}:{'link' if c.get('link') else 'nolink'}"
        dist[tag] = dist.get(tag, 0) + 1
        if "error" in r:
            failures.append({"case": c, "impl": r, "why": "implementation raised where the model is defined"})
            continue
        f, g = model_terms(c, r)
        lines.append(f"Definition c{i} : bool := mclose tol ({f}) {qc_mat(r['fwd'])} && mclose tol ({g}) {qc_mat(r['inv'])}.")
        names.append((i, f"c{i}"))
    lines.append("Definition results : list bool := " + coq_list([nm for _, nm in names]) + ".")
    lines.append('Eval vm_compute in ("FAIL"%string, failing results).')
    evaluations = len(cases)
    for s0 in range(0, 1):
        rc, out = vlib.coqc_text("\n".join(lines) + "\n", ctx.scratch, "cases_c07")
        bad = vlib.parse_nat_list(out, "FAIL")
        if rc != 0 or bad is None:
            failures.append({"why": "case file did not evaluate (generated definitions missing or ill-typed)", "coq": out[-600:]})
        else:
            for j in bad:
                i = names[j][0]
                failures.append({"case": cases[i], "impl": res[i], "why": "generated tensor()/inverted tensor() differs from the implementation"})
    # velocity-field model on affine invariant generators: exp_k and the round trip of the Coq model vs the implementation
    na = ctx.n(40, 300)
    acases = []
    for i in range(na):
        as_param = rng.random() < 0.4
        link = rng.random() < 0.5 and not as_param
        acases.append({"size": rng.choice([[33, 29], [17, 21], [25, 25]]), "align": rng.random() < 0.5,
                       "h": [dy(rng, -0.4, 0.4, 4), dy(rng, -0.4, 0.4, 4)], "steps": rng.choice([0, 1, 2, 3, 4, 5, 6]),
                       "as_parameter": as_param, "link": link, "upd": rng.random() < 0.5, "pre_update": rng.random() < 0.5,
                       "inv_property": (not as_param) and rng.random() < 0.15,
                       # points well inside: the extrapolated border of the velocity field reaches inwards by the displacement
                       "x": [[dy(rng, -0.3, 0.3, 4), dy(rng, -0.3, 0.3, 4)] for _ in range(3)]})
    ares = vlib.run_impl("c07_impl", {"fn": "affine_velocity", "cases": acases})
    alines = ["From Coq Require Import ZArith QArith Qcanon List String.",
              "From DV Require Import Base.Field Base.QcInst Model.VelocityAffine.",
              "Import ListNotations.", "Definition tol : Q := 1 # 10000000.",
              "Definition pt (k : nat) (h x y z : Qc) : bool := qclose tol (Qcmult x (exp_k (K:=QcF) k (q 1 1) h)) y "
              "&& qclose tol (Qcmult x (round_trip (K:=QcF) k h)) z."]
    anames = []
    for i, (c, r) in enumerate(zip(acases, ares)):
        tag = f"affine_velocity:steps={c['steps']}"
        dist[tag] = dist.get(tag, 0) + 1
        if "error" in r:
            failures.append({"case": c, "impl": r, "why": "implementation raised on an affine velocity field"})
            continue
        terms = []
        for xp, yp, zp in zip(c["x"], r["y"], r["z"]):
            for d in range(2):
                terms.append(f"pt {c['steps']} {qc(c['h'][d])} {qc(xp[d])} {qc(yp[d])} {qc(zp[d])}")
        alines.append(f"Definition a{i} : bool := " + " && ".join(terms) + ".")
        anames.append((i, f"a{i}"))
    alines.append("Definition results : list bool := " + coq_list([nm for _, nm in anames]) + ".")
    alines.append('Eval vm_compute in ("FAIL"%string, failing results).')
    rc, out = vlib.coqc_text("\n".join(alines) + "\n", ctx.scratch, "cases_c07_affine")
    bad = vlib.parse_nat_list(out, "FAIL")
    if rc != 0 or bad is None:
        failures.append({"why": "affine velocity case file did not evaluate", "coq": out[-600:]})
    else:
        for j in bad:
            i = anames[j][0]
            failures.append({"case": acases[i], "impl": ares[i], "why": "scaling and squaring of an affine generator differs from exp_k / the round trip closed form"})
    evaluations += len(acases)
    # the shared state machine (inverse / link / in-place updates), on histories biased towards inverses
    tables = c09.tables_of(ctx)
    nh = ctx.n(120, 700)
    maxlen = ctx.n(12, 30)
    gen = vlib.run_impl("c09_impl", {"fn": "generate", "grids": c09.GRIDS, "seed": rng.randrange(2 ** 31), "n": nh, "maxlen": maxlen,
                                     "focus": "inverse"})
    hists, gres = gen["histories"], gen["results"]
    ops = {}
    for s0 in range(0, nh, 250):
        hs, rs = hists[s0:s0 + 250], gres[s0:s0 + 250]
        rc, out, verdict = c09.run_cases(ctx, hs, rs, tables, f"cases_c07_hist_{s0}")
        if rc != 0 or verdict is None or len(verdict) != len(hs):
            failures.append({"why": "history case file did not evaluate", "coq": out[-600:]})
            continue
        for i, v in enumerate(verdict):
            if v != 0:
                h = hs[i][:v]
                small = c09.shrink(ctx, h, tables) if len(failures) < 3 else h
                failures.append({"why": "state machine and implementation disagree at the last operation of this history", "history": small})
    for h in hists:
        evaluations += len(h)
        for op in h:
            ops[op["op"]] = ops.get(op["op"], 0) + 1
    dist["history_ops"] = ops
    samples = [{"case": cases[i], "impl": res[i]} for i in range(min(2, len(cases)))]
    return {"evaluations": evaluations, "distinct_nontrivial": len({str(c) for c in cases}) + nh,
            "rule": "linear cases: seeded random parameters per class x D x parameter container (all distinct, none the identity on purpose); "
                    "histories: seeded operation sequences on invertible transforms biased towards inverse/edit/call (each distinct)",
            "samples": samples, "failures": failures, "distribution": dist,
            "tolerances": {"tensor() vs generated form": "1e-9 absolute (float64)", "history observations": "1e-4, versions >= 1/64 apart; errors and shapes exact"},
            "exploration": {"linear_cases": n, "histories": nh, "max_ops": maxlen}}


def search(ctx, broken, corr_failures):
    n = ctx.n(150, 1200)
    payload = {"fn": "oracle", "seed": ctx.seed, "n": n}
    r = vlib.run_impl("c07_impl", payload, timeout=1500)
    ctx.notes.append(f"implementation-side property evaluation: {r['counts']}")
    out = []
    for f in r["fails"]:
        out.append(Violation(key=f["key"], what=f["what"], replay={"oracle": payload, "failure": f}))
    for f in corr_failures[:3]:
        if "history" in f:
            out.append(Violation(key=f"C07:model-vs-implementation:{f['history'][-1]['op']}", what=f["why"], replay={"history": f["history"]}))
        elif "case" in f and "cls" not in f["case"]:
            out.append(Violation(key="C07:StationaryVelocityFieldTransform.inverse:affine-generator:model-vs-implementation", what=f["why"],
                                 replay={"affine_case": f["case"], "impl": f.get("impl")}))
        elif "case" in f:
            out.append(Violation(key=f"C07:{f['case']['cls']}.tensor:model-vs-implementation", what=f["why"], replay={"case": f["case"], "impl": f.get("impl")}))
    return out


def explains(broken_item, found):
    known, _ = vlib.load_findings()
    return any(v.key not in known for v in found)


def replay(ctx, data):
    if "oracle" in data:
        r = vlib.run_impl("c07_impl", data["oracle"], timeout=1500)
        for g in r["fails"]:
            if g["key"] == data["failure"]["key"]:
                return g["what"]
        return None
    if "history" in data:
        return c09.replay(ctx, data)
    if "affine_case" in data:
        r = vlib.run_impl("c07_impl", {"fn": "affine_velocity", "cases": [data["affine_case"]]})
        return ("recorded affine case: " + str(r[0])[:200]) if r[0] != data.get("impl") or "error" in r[0] else "recorded affine case reproduces the same output"
    if "case" in data:
        r = vlib.run_impl("c07_impl", {"fn": "tensors", "cases": [data["case"]]})
        return "recorded case: " + str(r[0])[:200] if "error" in r[0] else None
    return None


MANIFEST_ENTRY = {
    "text": "Theorems (Coq, closed under the global context, over every field): for each invertible linear class the traced tensor() with "
            "invert=True inverts the traced tensor() with invert=False in both orders -- Translation (negation), Isotropic/AnisotropicScaling "
            "(reciprocal, factors != 0), Shearing (always), EulerRotation for all 27 orders and 2-D (the inverted tensor is the transpose; "
            "inverse for all (c_i, s_i) on the unit circle), QuaternionRotation (n^2 = |q|^2, n != 0), HomogeneousTransform 2-D/3-D (adjugate "
            "inverse of the augmented matrix, det != 0); SequentialTransform.inverse (reversed member inverses) inverts composites of any length "
            "(induction); in the transform state machine shared with C09, inverse(link=False) yields an object reading the same parameter cell "
            "with opposite sign, and that survives any sequence of in-place updates (induction over the update list); refutation: "
            "inverse(link=True)/.inv raise TypeError for Parameter-held parameters. Tie: translator unit LinInv traces spatial/linear.py's "
            "tensor() bodies symbolically on every run (classes built without nn.Module), TState regenerates the inverse/link skeleton; "
            "correspondence: generated forms evaluated on Qc vs tensor()/inverse().tensor() of the real classes (both parameter containers, "
            "all orders), and inverse-biased operation histories against the state machine; search: inverse(t(x)) = x = t(inverse(x)) on the "
            "implementation for every class x parameter kind x link x update_buffers x .inv, before and after parameter changes, named "
            "composites and hand-built composites of 1..5 members.",
    "note": "Round 3: C07_inverse_link_parameter (inverse(link=True)/.inv on a Parameter-held transform succeeds, the original keeps its Parameter, the inverse follows every later in-place edit) replaces the former refutation; C07_linked_inverse_same_reparameterisation (has_parameters() traced for every class x way of holding params, incl. links); steps=0 in the affine-generator correspondence and as oracle regression. Round 2: added C07_inverse_stays_inverse_link_and_callable (link in {False, True} for fixed tensors, link=False for callables), "
            "C07_inverse_update_buffers_gives_inverse_field (rests on the statement order of SVF/SVFFD.inverse read from the source), "
            "C07_affine_generator_second_order (every k: exp_k(-h) exp_k(h) = (1 - h^2/4^k)^(2^k), by induction over k; the multiplier exp_k is "
            "compared with StationaryVelocityFieldTransform on diagonal affine generators on every run, agreement ~1e-9). Still partial: "
            "velocity-field models on general smooth fields only numerically (error < 0.1 sample at amplitude 0.16, ratio under amplitude "
            "halving < 0.62) and direct access to inverses through forward/tensor/disp/flow by the search; non-diagonal (non-commuting) affine "
            "generators and SVFFD are not covered by the closed-form theorem; link=True with callable parameters reads the buffered p by design "
            "(correspondence only); Parameter + link=True is refuted (known finding). Trusted: Coq kernel, vm_compute, tools/symtorch.py "
            "(validated each run), the object semantics of the state machine (C09 correspondence).",
}
